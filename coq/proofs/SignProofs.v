(** C04, the SIGNING path (model/Sign.v): what unlocker.Simple.UnlockingScript, Tx.FillInput and
    Tx.FillAllInputs produce, and that it is what the acceptance theorem of proofs/P2PKHProofs.v needs.

    (1) [unlocking_script_is_p2pkh_unlock]: the script is [p2pkh_unlock sig ht' pk] with [ht'] the DEFAULTED
        type and [sig] the signer's output on CalcInputSignatureHash for [ht'];
    (2) [carried_type_is_digest_type]: the hash-type byte opcodeCheckSig will read off that script is the
        type the digest was computed for, for every requested type 0..255;
    (3) [filled_input_accepted]: FillInput composed with [signed_p2pkh_accepts_unlocker_digest];
    (4) [fill_all_inputs_signs_each_input_independently]: FillAllInputs signs input j over the digest of the
        transaction as it was handed in, whatever has been filled into the other inputs meanwhile. *)
From Coq Require Import List NArith ZArith Lia Bool ZifyN ZifyNat ZifyBool.
From Coq Require Import Strings.Byte.
From GoBT Require Import lib.Bytes lib.VarInt lib.Checked lib.Sha256 lib.Ripemd160 model.Tx model.SigHash model.Push
  model.Classify model.ScriptNum model.Interp model.CheckSig model.Sign proofs.TxProofs proofs.SigHashProofs
  proofs.AddressProofs proofs.P2PKHProofs proofs.AuditAC04 proofs.AuditASigHash.
Import ListNotations.
Local Open Scope N_scope.

Local Opaque hash160 sha256 sha256d.

(** * the defaulted type *)
Lemma default_type_lt ht : ht < 256 -> default_type ht < 256.
Proof. unfold default_type, sh_all_forkid. destruct (ht =? 0); lia. Qed.
Lemma default_type_nonzero ht : default_type ht <> 0.
Proof. unfold default_type, sh_all_forkid. destruct (N.eqb_spec ht 0); lia. Qed.
Lemma default_type_idem ht : default_type (default_type ht) = default_type ht.
Proof. unfold default_type at 1. pose proof (default_type_nonzero ht). destruct (N.eqb_spec (default_type ht) 0); congruence. Qed.
Lemma default_type_zero : default_type 0 = 65.
Proof. reflexivity. Qed.
Lemma default_type_pos ht : ht <> 0 -> default_type ht = ht.
Proof. intros H. unfold default_type. destruct (N.eqb_spec ht 0); congruence. Qed.

(** * what go-bk hands back, as far as the theorems need it: a 33-byte compressed key (first byte 02 / 03),
    and signatures of 1..74 bytes (DER signatures have 8..72) *)
Definition signer_ok (s : signer) : Prop :=
  (exists b0 r, sg_pub s = b0 :: r /\ length r = 32%nat /\ (b2n b0 = 2 \/ b2n b0 = 3)) /\
  forall h sig, sg_sign s h = Some sig -> (0 < length sig <= 74)%nat.

Lemma signer_ok_pub_len s : signer_ok s -> length (sg_pub s) = 33%nat.
Proof. intros [(b0 & r & -> & Hl & _) _]. cbn [length]. lia. Qed.

(** * NewP2PKHUnlockingScript *)
Lemma encode_two_direct a b : (length a <= 75)%nat -> (length b <= 75)%nat ->
  encode_parts [a; b] = Some (push_direct a ++ push_direct b).
Proof.
  intros Ha Hb. cbn [encode_parts]. unfold push_data_prefix.
  replace (lenN a <=? 75) with true by (unfold lenN; lia).
  replace (lenN b <=? 75) with true by (unfold lenN; lia).
  unfold push_direct. cbn [app]. rewrite app_nil_r. reflexivity.
Qed.

Lemma new_p2pkh_unlocking_script_eq pub sig ht : (length sig <= 74)%nat -> (length pub <= 75)%nat ->
  new_p2pkh_unlocking_script pub sig ht = SgOk (p2pkh_unlock sig ht pub).
Proof.
  intros Hs Hp. unfold new_p2pkh_unlocking_script. rewrite encode_two_direct; [reflexivity| |exact Hp].
  rewrite app_length. cbn [length]. lia.
Qed.

(** * UnlockingScript: inversion of a success, and the gate *)
Definition signable_type (prev : bytes) : Prop :=
  script_type prev = Ok TPubKeyHash \/ script_type prev = Ok TInscription.

Lemma unlocking_script_inv s t idx ht u : unlocking_script s t idx ht = SgOk u ->
  exists inp prev sig h,
    nthN (tx_ins t) idx = Some inp /\ in_script inp = Some prev /\ signable_type prev /\
    fst (calc_input_signature_hash t idx (default_type ht)) = SOk h /\ sg_sign s h = Some sig /\
    new_p2pkh_unlocking_script (sg_pub s) sig (default_type ht) = SgOk u.
Proof.
  unfold unlocking_script, signable_type. intros H.
  destruct (nthN (tx_ins t) idx) as [inp|]; [|discriminate].
  destruct (in_script inp) as [prev|] eqn:Hs; [|discriminate].
  destruct (script_type prev) as [ty| | |] eqn:Hty; try discriminate.
  assert (Hgo : match fst (calc_input_signature_hash t idx (default_type ht)) with
                | SOk sh => match sg_sign s sh with
                            | Some sig => new_p2pkh_unlocking_script (sg_pub s) sig (default_type ht)
                            | None => SgErr ESignFailed end
                | SigHash.SErr e => SgErr (ESigHash e) | SigHash.SPanic => SgPanic | SFatal => SgFatal | SFuel => SgFuel
                end = SgOk u /\ (ty = TPubKeyHash \/ ty = TInscription)).
  { destruct ty; try discriminate; (split; [exact H|auto]). }
  destruct Hgo as [Hgo Hty'].
  destruct (fst (calc_input_signature_hash t idx (default_type ht))) as [h| | | |] eqn:Hh; try discriminate.
  destruct (sg_sign s h) as [sig|] eqn:Hsg; [|discriminate].
  exists inp, prev, sig, h. repeat split; try assumption.
  destruct Hty' as [-> | ->]; [left|right]; exact Hty.
Qed.

(** the ScriptType gate: any other previous script is refused, before anything is hashed or signed *)
Theorem unlocking_script_gate s t idx ht inp prev ty :
  nthN (tx_ins t) idx = Some inp -> in_script inp = Some prev -> script_type prev = Ok ty ->
  ty <> TPubKeyHash -> ty <> TInscription ->
  unlocking_script s t idx ht = SgErr ENotP2PKH.
Proof.
  intros Hn Hs Hty H1 H2. unfold unlocking_script. rewrite Hn, Hs, Hty. destruct ty; congruence.
Qed.
Theorem unlocking_script_nil_prev s t idx ht inp :
  nthN (tx_ins t) idx = Some inp -> in_script inp = None -> unlocking_script s t idx ht = SgErr EEmptyPrevScript.
Proof. intros Hn Hs. unfold unlocking_script. rewrite Hn, Hs. reflexivity. Qed.

(** forward: when the gate is passed, the digest exists and the key signs, the script is produced *)
Lemma unlocking_script_run s t idx ht inp prev h sig :
  nthN (tx_ins t) idx = Some inp -> in_script inp = Some prev -> signable_type prev ->
  fst (calc_input_signature_hash t idx (default_type ht)) = SOk h -> sg_sign s h = Some sig ->
  unlocking_script s t idx ht = new_p2pkh_unlocking_script (sg_pub s) sig (default_type ht).
Proof.
  intros Hn Hs Hty Hh Hsg. unfold unlocking_script. rewrite Hn, Hs.
  destruct Hty as [-> | ->]; rewrite Hh, Hsg; reflexivity.
Qed.

(** a plain P2PKH script passes the gate *)
Lemma script_type_p2pkh pkh : length pkh = 20%nat -> script_type (p2pkh_lock pkh) = Ok TPubKeyHash.
Proof.
  intros H. do 20 (destruct pkh as [|? pkh]; [discriminate H|]). destruct pkh; [|discriminate H]. reflexivity.
Qed.

(** * (1) the unlocking script is [p2pkh_unlock sig ht' pk] *)
Theorem unlocking_script_is_p2pkh_unlock s t idx ht u : signer_ok s ->
  unlocking_script s t idx ht = SgOk u ->
  exists inp prev sig h,
    nthN (tx_ins t) idx = Some inp /\ in_script inp = Some prev /\ signable_type prev /\
    fst (calc_input_signature_hash t idx (default_type ht)) = SOk h /\ sg_sign s h = Some sig /\
    u = p2pkh_unlock sig (default_type ht) (sg_pub s).
Proof.
  intros Hok H. destruct (unlocking_script_inv s t idx ht u H) as (inp & prev & sig & h & Hn & Hs & Hty & Hh & Hsg & Hu).
  exists inp, prev, sig, h. repeat split; try assumption.
  pose proof (signer_ok_pub_len s Hok) as Hpl. destruct Hok as [_ Hsl]. specialize (Hsl h sig Hsg).
  rewrite new_p2pkh_unlocking_script_eq in Hu by lia. injection Hu as <-. reflexivity.
Qed.

(** * (2) the type byte the script carries is the type the digest was made for *)

(** what opcodeCheckSig reads: the first item pushed is fullSigBytes, its last byte is the hash type
    (model/CheckSig.v [checksig_run]: [split_last full], [shf := b2n hb]) *)
Definition carried_hash_type (u : bytes) : option N :=
  match parse_script false u with
  | Some (p :: _) => match split_last (p_data p) with Some (_, hb) => Some (b2n hb) | None => None end
  | _ => None
  end.
Definition carried_signature (u : bytes) : option bytes :=
  match parse_script false u with
  | Some (p :: _) => match split_last (p_data p) with Some (sig, _) => Some sig | None => None end
  | _ => None
  end.

Lemma split_last_snoc b x : split_last (b ++ [x]) = Some (b, x).
Proof. unfold split_last. rewrite rev_app_distr. cbn [rev app]. rewrite rev_involutive. reflexivity. Qed.

Lemma carried_of_p2pkh_unlock sig ht pk : ht < 256 -> (length sig <= 74)%nat -> length pk = 33%nat ->
  carried_hash_type (p2pkh_unlock sig ht pk) = Some ht /\ carried_signature (p2pkh_unlock sig ht pk) = Some sig.
Proof.
  intros Hht Hs Hp. unfold carried_hash_type, carried_signature.
  rewrite parse_unlock; [|rewrite app_length; cbn [length]; lia|exact Hp].
  unfold p2pkh_unlock_ops, push_op. cbn [p_data]. rewrite split_last_snoc, b2n_n2b_small by exact Hht. split; reflexivity.
Qed.

Theorem carried_type_is_digest_type s t idx ht u : ht < 256 -> signer_ok s ->
  unlocking_script s t idx ht = SgOk u ->
  exists sig h,
    fst (calc_input_signature_hash t idx (default_type ht)) = SOk h /\ sg_sign s h = Some sig /\
    carried_signature u = Some sig /\ carried_hash_type u = Some (default_type ht).
Proof.
  intros Hht Hok H.
  destruct (unlocking_script_is_p2pkh_unlock s t idx ht u Hok H) as (inp & prev & sig & h & _ & _ & _ & Hh & Hsg & ->).
  exists sig, h. split; [exact Hh|]. split; [exact Hsg|].
  pose proof (signer_ok_pub_len s Hok) as Hpl. destruct Hok as [_ Hsl]. specialize (Hsl h sig Hsg).
  destruct (carried_of_p2pkh_unlock sig (default_type ht) (sg_pub s) (default_type_lt ht Hht)) as [H1 H2]; try lia; auto.
Qed.

(** the requested type 0 is signed, and labelled, as ALL|FORKID; every other byte as itself *)
Corollary carried_type_cases s t idx ht u : ht < 256 -> signer_ok s ->
  unlocking_script s t idx ht = SgOk u ->
  carried_hash_type u = Some (if ht =? 0 then 65 else ht).
Proof.
  intros Hht Hok H. destruct (carried_type_is_digest_type s t idx ht u Hht Hok H) as (_ & _ & _ & _ & _ & E). exact E.
Qed.

(** * FillInput *)
Definition with_unlock_at (t : tx) (idx : N) (u : bytes) : tx :=
  mkTx (tx_version t) (mapi (fun j x => if j =? idx then set_unlock x u else x) (tx_ins t)) (tx_outs t) (tx_lock t).

Lemma fill_input_with_inv unl t idx ht t' : fill_input_with (Some unl) t idx ht = SgOk t' ->
  exists u inp, unl t idx (default_type ht) = SgOk u /\ nthN (tx_ins t) idx = Some inp /\ t' = with_unlock_at t idx u.
Proof.
  unfold fill_input_with. intros H. destruct (unl t idx (default_type ht)) as [u| | | |]; try discriminate.
  unfold insert_input_unlocking_script in H. destruct (nthN (tx_ins t) idx) as [inp|] eqn:Hn; [|discriminate].
  injection H as <-. exists u, inp. repeat split; reflexivity.
Qed.

(** FillInput defaults the type, and so does the unlocker: the double default is the single one *)
Theorem fill_input_inv s t idx ht t' : fill_input (Some s) t idx ht = SgOk t' ->
  exists u, unlocking_script s t idx ht = SgOk u /\ t' = with_unlock_at t idx u.
Proof.
  unfold fill_input. cbn [option_map]. intros H.
  destruct (fill_input_with_inv _ t idx ht t' H) as (u & inp & Hu & _ & ->). exists u. split; [|reflexivity].
  unfold unlocking_script in *. rewrite default_type_idem in Hu. exact Hu.
Qed.
Theorem fill_input_nil_unlocker t idx ht : fill_input None t idx ht = SgErr ENoUnlocker.
Proof. reflexivity. Qed.

Lemma with_unlock_at_ins t idx u inp : nth_error (tx_ins t) (N.to_nat idx) = Some inp ->
  tx_ins (with_unlock_at t idx u) =
  firstn (N.to_nat idx) (tx_ins t) ++ set_unlock inp u :: skipn (S (N.to_nat idx)) (tx_ins t).
Proof.
  intros Hn. unfold with_unlock_at. cbn [tx_ins].
  pose proof (mapi_split (fun x => set_unlock x u) (fun x => x) idx (tx_ins t) inp Hn) as H.
  rewrite !map_id in H. exact H.
Qed.

Lemma with_unlock_at_nth t idx u inp : nthN (tx_ins t) idx = Some inp ->
  nthN (tx_ins (with_unlock_at t idx u)) idx = Some (set_unlock inp u).
Proof.
  rewrite !nthN_nth_error. intros Hn. rewrite (with_unlock_at_ins t idx u inp Hn).
  assert (Hlt : (N.to_nat idx < length (tx_ins t))%nat) by (apply nth_error_Some; congruence).
  rewrite nth_error_app2 by (rewrite firstn_length; lia). rewrite firstn_length.
  replace (N.to_nat idx - Nat.min (N.to_nat idx) (length (tx_ins t)))%nat with O by lia. reflexivity.
Qed.

Lemma with_unlock_at_erase t idx u inp : nth_error (tx_ins t) (N.to_nat idx) = Some inp ->
  erase_unlocks (with_unlock_at t idx u) = erase_unlocks t.
Proof.
  intros Hn. unfold erase_unlocks. rewrite (with_unlock_at_ins t idx u inp Hn).
  change (tx_version (with_unlock_at t idx u)) with (tx_version t).
  change (tx_outs (with_unlock_at t idx u)) with (tx_outs t). change (tx_lock (with_unlock_at t idx u)) with (tx_lock t).
  f_equal. rewrite (nth_error_decomp (tx_ins t) (N.to_nat idx) inp Hn) at 3.
  rewrite !map_app. cbn [map]. reflexivity.
Qed.

Lemma with_unlock_at_wf t idx u inp : wf_tx t -> nth_error (tx_ins t) (N.to_nat idx) = Some inp -> wf_script u ->
  wf_tx (with_unlock_at t idx u).
Proof.
  intros (Hv & Hl & Hins & Houts & Hli & Hlo) Hn Hu. unfold with_unlock_at, wf_tx. cbn [tx_version tx_lock tx_ins tx_outs].
  repeat split; try assumption.
  - unfold mapi. apply (Forall_mapi_from wf_input wf_input); [|exact Hins].
    intros j x Hx. destruct (j =? idx); [|exact Hx].
    destruct Hx as (H1 & H2 & H3 & H4 & H5 & H6). unfold wf_input, set_unlock. cbn. repeat split; assumption.
  - unfold mapi. rewrite mapi_from_length. exact Hli.
Qed.

(** the engine's transaction does not depend on what the signed input held before: the engine installs the
    unlocking script, the spent script and the spent value itself *)
Lemma mapi_from_mapi_from {A B C} (f : N -> B -> C) (g : N -> A -> B) k l :
  mapi_from f k (mapi_from g k l) = mapi_from (fun j x => f j (g j x)) k l.
Proof. revert k. induction l as [|x r IH]; intros k; cbn [mapi_from]; [reflexivity|]. rewrite IH. reflexivity. Qed.

Lemma engine_tx_with_unlock_at t idx u0 u lock sats :
  engine_tx (with_unlock_at t idx u0) idx u lock sats = engine_tx t idx u lock sats.
Proof.
  unfold engine_tx, with_unlock_at. cbn [tx_version tx_ins tx_outs tx_lock]. f_equal.
  unfold mapi. rewrite mapi_from_mapi_from. apply mapi_from_ext. intros j x.
  destruct (j =? idx); reflexivity.
Qed.

Lemma p2pkh_unlock_wf sig ht pk : (length sig <= 74)%nat -> length pk = 33%nat -> wf_script (p2pkh_unlock sig ht pk).
Proof.
  intros Hs Hp. unfold wf_script, p2pkh_unlock, push_direct, lenN, two64. cbn [app length].
  rewrite !app_length. cbn [length]. lia.
Qed.

(** FillInput succeeds on a plain P2PKH input exactly with the script of (1) *)
Theorem fill_input_p2pkh_succeeds s t idx ht inp pkh h sig : signer_ok s ->
  nthN (tx_ins t) idx = Some inp -> in_script inp = Some (p2pkh_lock pkh) -> length pkh = 20%nat ->
  fst (calc_input_signature_hash t idx (default_type ht)) = SOk h -> sg_sign s h = Some sig ->
  fill_input (Some s) t idx ht = SgOk (with_unlock_at t idx (p2pkh_unlock sig (default_type ht) (sg_pub s))).
Proof.
  intros Hok Hn Hs Hl Hh Hsg. unfold fill_input, fill_input_with. cbn [option_map].
  assert (Hh' : fst (calc_input_signature_hash t idx (default_type (default_type ht))) = SOk h)
    by (rewrite default_type_idem; exact Hh).
  rewrite (unlocking_script_run s t idx (default_type ht) inp (p2pkh_lock pkh) h sig Hn Hs
             (or_introl (script_type_p2pkh pkh Hl)) Hh' Hsg).
  rewrite default_type_idem.
  pose proof (signer_ok_pub_len s Hok) as Hpl. destruct Hok as [_ Hsl]. specialize (Hsl h sig Hsg).
  rewrite new_p2pkh_unlocking_script_eq by lia.
  unfold insert_input_unlocking_script. rewrite Hn. reflexivity.
Qed.

(** * (3) an input filled by FillInput is accepted by the interpreter *)

(** THE oracle hypothesis of the signing path: the key parses, and a signature the key makes over the digest
    at hand is well encoded for the flags in force, parses, and verifies under the key *)
Definition oracle_accepts_signer (orc : sig_oracle) (c : ctx) (s : signer) (h : bytes) : Prop :=
  orc_parse_pub orc (sg_pub s) = true /\
  forall sig, sg_sign s h = Some sig ->
    check_sig_enc c sig = EncOk /\ orc_parse_sig orc (uses_der_parser c) sig = true /\
    orc_verify orc (sg_pub s) h sig (uses_der_parser c) = Some true.

Section Accept.
Local Open Scope Z_scope.

Theorem filled_input_accepted : forall (orc : sig_oracle) (s : signer) (t t' : tx) (idx : N) (inp : input)
    (flags ht : N) (body : bytes) (insc : bool) (bops : list pop),
  let ht' := default_type ht in
  let pk := sg_pub s in
  let lock := p2pkh_lock (hash160 pk) ++ (if insc then inscription_suffix body else []) in
  let c := mkCtx (normalise_flags flags) true (Z.of_N (tx_lock t)) (Z.of_N (tx_version t)) (Z.of_N (in_seq inp)) false in
  (* the transaction handed to FillInput, and the input being signed: it spends a P2PKH(-inscription) output
     paying to the signing key *)
  wf_tx t -> (idx + 1 < two32)%N -> (ht < 256)%N ->
  nthN (tx_ins t) idx = Some inp -> in_script inp = Some lock ->
  signer_ok s ->
  (* FillInput returned without error *)
  fill_input (Some s) t idx ht = SgOk t' ->
  (* apply's flag sanity and size limit; the envelope body *)
  (has_flag c F_CLEANSTACK = true -> has_flag c F_BIP16 = true) ->
  lenZ lock <= max_script_size c ->
  (insc = true -> parse_ops (length body) false body 1 = Some bops /\ is_push_only bops = true /\
                  Forall (fun p => lenZ (p_data p) <= max_elem c) bops) ->
  (* the DEFAULTED type is allowed by the flags in force; the legacy stripping finds nothing *)
  check_hash_type c ht' = true ->
  (has_flag c F_FORKID && flag_has ht' sh_forkid = true \/
   forall sig l, parse_script false lock = Some l -> remove_by_data l (sig ++ [n2b ht']) = l) ->
  (* the oracle: what the key signs verifies *)
  (forall h, fst (calc_input_signature_hash t idx ht') = SOk h -> oracle_accepts_signer orc c s h) ->
  exists inp', nthN (tx_ins t') idx = Some inp' /\
    in_script inp' = Some lock /\ in_sats inp' = in_sats inp /\ in_seq inp' = in_seq inp /\
    fst (engine_execute (mk_sigops orc (engine_tx t' idx (in_unlock inp') lock (in_sats inp')) idx)
           (mkExecInput (in_unlock inp') lock flags true true (Z.of_N (tx_lock t')) (Z.of_N (tx_version t'))
                        (Z.of_N (in_seq inp')))) = VOk.
Proof.
  intros orc s t t' idx inp flags ht body insc bops ht' pk lock c
         Hwf Hidx Hht Hn Hsc Hok Hfill Hcs Hsz Hbody Hty Hstrip Horc.
  destruct (fill_input_inv s t idx ht t' Hfill) as (u & Hu & ->).
  destruct (unlocking_script_is_p2pkh_unlock s t idx ht u Hok Hu) as (inp0 & prev & sig & h & Hn0 & _ & _ & Hh & Hsg & ->).
  fold ht' pk in Hh |- *.
  exists (set_unlock inp (p2pkh_unlock sig ht' pk)). split; [apply with_unlock_at_nth; exact Hn|].
  cbn [in_script in_sats in_seq in_unlock set_unlock]. split; [exact Hsc|]. split; [reflexivity|]. split; [reflexivity|].
  rewrite engine_tx_with_unlock_at.
  change (tx_lock (with_unlock_at t idx (p2pkh_unlock sig ht' pk))) with (tx_lock t).
  change (tx_version (with_unlock_at t idx (p2pkh_unlock sig ht' pk))) with (tx_version t).
  pose proof (signer_ok_pub_len s Hok) as Hpl. pose proof Hok as [(b0 & r & Hpk & Hrl & Hb0) Hsl].
  specialize (Hsl h sig Hsg). destruct (Horc h Hh) as [Hpub Hsigs]. destruct (Hsigs sig Hsg) as (Henc & Hps & Hver).
  apply (signed_p2pkh_accepts_unlocker_digest orc t idx inp flags (in_sats inp) ht' sig pk body insc bops h);
    try assumption; try reflexivity.
  - apply default_type_lt; exact Hht.
  - rewrite app_length. cbn [length]. lia.
  - intros _ E. subst sig. cbn in Hsl. lia.
  - unfold pk. rewrite Hpk. apply pubkey_enc_ok_compressed; assumption.
  - destruct Hstrip as [H|H]; [left; exact H|right; intros l Hl; apply H; exact Hl].
Qed.

(** the default type under the FORKID flag (what FillAllInputs and a zero SigHashFlags use): the type check, the
    key encoding and the stripping side condition are all discharged *)
Corollary filled_input_accepted_default : forall (orc : sig_oracle) (s : signer) (t t' : tx) (idx : N) (inp : input)
    (flags : N) (body : bytes) (insc : bool) (bops : list pop),
  let pk := sg_pub s in
  let lock := p2pkh_lock (hash160 pk) ++ (if insc then inscription_suffix body else []) in
  let c := mkCtx (normalise_flags flags) true (Z.of_N (tx_lock t)) (Z.of_N (tx_version t)) (Z.of_N (in_seq inp)) false in
  wf_tx t -> (idx + 1 < two32)%N ->
  nthN (tx_ins t) idx = Some inp -> in_script inp = Some lock ->
  signer_ok s ->
  fill_input (Some s) t idx 0 = SgOk t' ->
  has_flag c F_FORKID = true ->
  (has_flag c F_CLEANSTACK = true -> has_flag c F_BIP16 = true) ->
  lenZ lock <= max_script_size c ->
  (insc = true -> parse_ops (length body) false body 1 = Some bops /\ is_push_only bops = true /\
                  Forall (fun p => lenZ (p_data p) <= max_elem c) bops) ->
  (forall h, fst (calc_input_signature_hash t idx 65) = SOk h -> oracle_accepts_signer orc c s h) ->
  exists inp', nthN (tx_ins t') idx = Some inp' /\
    in_script inp' = Some lock /\ in_sats inp' = in_sats inp /\ in_seq inp' = in_seq inp /\
    fst (engine_execute (mk_sigops orc (engine_tx t' idx (in_unlock inp') lock (in_sats inp')) idx)
           (mkExecInput (in_unlock inp') lock flags true true (Z.of_N (tx_lock t')) (Z.of_N (tx_version t'))
                        (Z.of_N (in_seq inp')))) = VOk.
Proof.
  intros orc s t t' idx inp flags body insc bops pk lock c Hwf Hidx Hn Hsc Hok Hfill Hfk Hcs Hsz Hbody Horc.
  apply (filled_input_accepted orc s t t' idx inp flags 0%N body insc bops); try assumption.
  - reflexivity.
  - fold c. change (default_type 0) with 65%N. apply hash_type_ok_forkid; [exact Hfk|cbn; auto].
  - left. fold c. rewrite Hfk. reflexivity.
Qed.
End Accept.

(** * (4) FillAllInputs *)

(** the unlocker does not read unlocking scripts: on two transactions that differ in them only it returns the
    same script or the same failure *)
Lemma unlocking_script_ignores_unlocks s t1 t2 idx ht : wf_tx t1 -> wf_tx t2 -> ht < 256 -> idx + 1 < two32 ->
  erase_unlocks t1 = erase_unlocks t2 ->
  unlocking_script s t1 idx ht = unlocking_script s t2 idx ht.
Proof.
  intros W1 W2 Hht Hidx He. unfold unlocking_script. rewrite !nthN_nth_error.
  assert (Hins : map erase_unlock (tx_ins t1) = map erase_unlock (tx_ins t2)) by (injection He; auto).
  assert (Hn : option_map erase_unlock (nth_error (tx_ins t1) (N.to_nat idx))
               = option_map erase_unlock (nth_error (tx_ins t2) (N.to_nat idx)))
    by (rewrite <- !nth_error_map, Hins; reflexivity).
  destruct (nth_error (tx_ins t1) (N.to_nat idx)) as [i1|] eqn:H1,
           (nth_error (tx_ins t2) (N.to_nat idx)) as [i2|] eqn:H2; try discriminate; [|reflexivity].
  cbn [option_map] in Hn. injection Hn as _ _ _ _ Hsc. rewrite <- Hsc.
  destruct (in_script i1) as [prev|] eqn:Hp; [|reflexivity].
  rewrite (sighash_ignores_unlocking_scripts t1 t2 idx (default_type ht) i1 prev W1 W2 (default_type_lt ht Hht) Hidx He H1 Hp).
  reflexivity.
Qed.

(** input by input, each signed on the transaction AS HANDED IN *)
Fixpoint sign_each (key_of : option bytes -> option signer) (t : tx) (rest : list input) (i : N) : option (list input) :=
  match rest with
  | [] => Some []
  | inp :: r =>
      match key_of (in_script inp) with
      | None => None
      | Some s =>
          match unlocking_script s t i sh_all_forkid with
          | SgOk u => option_map (cons (set_unlock inp u)) (sign_each key_of t r (i + 1))
          | _ => None
          end
      end
  end.

Definition set_inputs (t : tx) (ins : list input) : tx := mkTx (tx_version t) ins (tx_outs t) (tx_lock t).

Lemma with_unlock_at_app t a x r u :
  with_unlock_at (set_inputs t (a ++ x :: r)) (N.of_nat (length a)) u = set_inputs t (a ++ set_unlock x u :: r).
Proof.
  assert (Hn : nth_error (tx_ins (set_inputs t (a ++ x :: r))) (N.to_nat (N.of_nat (length a))) = Some x).
  { cbn [set_inputs tx_ins]. rewrite Nat2N.id, nth_error_app2, Nat.sub_diag by lia. reflexivity. }
  pose proof (with_unlock_at_ins _ _ u x Hn) as Hi.
  unfold with_unlock_at, set_inputs in *. cbn [tx_ins tx_version tx_outs tx_lock] in *. rewrite Hi. f_equal.
  rewrite Nat2N.id. rewrite firstn_app, Nat.sub_diag, firstn_all. cbn [firstn]. rewrite app_nil_r. f_equal. f_equal.
  replace (S (length a)) with (length a + 1)%nat by lia. rewrite skipn_app, skipn_all2 by lia.
  replace (length a + 1 - length a)%nat with 1%nat by lia. reflexivity.
Qed.

Lemma fill_all_from_spec key_of t : wf_tx t -> N.of_nat (length (tx_ins t)) < two32 ->
  (forall prev s, key_of prev = Some s -> signer_ok s) ->
  forall rest done done' t',
    tx_ins t = done ++ rest -> map erase_unlock done' = map erase_unlock done -> Forall wf_input done' ->
    fill_all_from (simple_getter key_of) (set_inputs t (done' ++ rest)) rest (N.of_nat (length done)) = SgOk t' ->
    exists filled, sign_each key_of t rest (N.of_nat (length done)) = Some filled /\ t' = set_inputs t (done' ++ filled).
Proof.
  intros Hwf Hlen Hkeys. induction rest as [|inp r IH]; intros done done' t' Hsplit Her Hwd H.
  - cbn [fill_all_from] in H. injection H as <-. exists []. split; reflexivity.
  - cbn [fill_all_from sign_each] in *. unfold simple_getter in H.
    destruct (key_of (in_script inp)) as [s|] eqn:Hk; [|discriminate].
    set (tk := set_inputs t (done' ++ inp :: r)) in *.
    set (i := N.of_nat (length done)) in *.
    assert (Hlt : (length done < length (tx_ins t))%nat) by (rewrite Hsplit, app_length; cbn [length]; lia).
    assert (Himod : i mod two32 = i) by (apply N.mod_small; unfold i; lia).
    rewrite Himod in H.
    assert (Hld : length done' = length done).
    { rewrite <- (map_length erase_unlock done'), Her, map_length. reflexivity. }
    destruct Hwf as (Hv & Hl & Hins & Houts & Hli & Hlo).
    assert (Hwr : Forall wf_input (inp :: r)).
    { rewrite Hsplit in Hins. apply Forall_app in Hins. apply Hins. }
    assert (Hwtk : wf_tx tk).
    { unfold tk, set_inputs, wf_tx. cbn [tx_version tx_lock tx_ins tx_outs]. repeat split; try assumption.
      - apply Forall_app. split; assumption.
      - rewrite app_length, Hld, <- app_length, <- Hsplit. exact Hli. }
    assert (Hetk : erase_unlocks tk = erase_unlocks t).
    { unfold erase_unlocks, tk, set_inputs. cbn [tx_version tx_lock tx_ins tx_outs]. f_equal.
      rewrite Hsplit, !map_app, Her. reflexivity. }
    assert (Hwt : wf_tx t) by (repeat split; assumption).
    assert (Hntk : nth_error (tx_ins tk) (N.to_nat i) = Some inp).
    { unfold tk, set_inputs, i. cbn [tx_ins]. rewrite Nat2N.id, nth_error_app2 by lia.
      rewrite Hld, Nat.sub_diag. reflexivity. }
    unfold fill_input_with in H. change (default_type sh_all_forkid) with sh_all_forkid in H.
    rewrite (unlocking_script_ignores_unlocks s tk t i sh_all_forkid Hwtk Hwt) in H;
      [|unfold sh_all_forkid; lia|unfold i; lia|exact Hetk].
    destruct (unlocking_script s t i sh_all_forkid) as [u| | | |] eqn:Hu; try discriminate.
    unfold insert_input_unlocking_script in H. rewrite nthN_nth_error, Hntk in H.
    change (mkTx (tx_version tk) (mapi (fun j x => if j =? i then set_unlock x u else x) (tx_ins tk)) (tx_outs tk) (tx_lock tk))
      with (with_unlock_at tk i u) in H.
    assert (Hnext : with_unlock_at tk i u = set_inputs t ((done' ++ [set_unlock inp u]) ++ r)).
    { rewrite <- app_assoc. cbn [app]. unfold tk, i. rewrite <- Hld. apply with_unlock_at_app. }
    rewrite Hnext in H.
    assert (Hwu : wf_script u).
    { pose proof (Hkeys _ _ Hk) as Hok.
      destruct (unlocking_script_is_p2pkh_unlock s t i sh_all_forkid u Hok Hu) as (_ & _ & sig & h & _ & _ & _ & _ & Hsg & ->).
      apply p2pkh_unlock_wf; [apply (proj2 Hok h sig Hsg)|apply signer_ok_pub_len; exact Hok]. }
    replace (i + 1) with (N.of_nat (length (done ++ [inp]))) in * by (rewrite app_length; cbn [length]; unfold i; lia).
    destruct (IH (done ++ [inp]) (done' ++ [set_unlock inp u]) t') as (filled & Hf & Ht').
    + rewrite <- app_assoc. exact Hsplit.
    + rewrite !map_app, Her. reflexivity.
    + apply Forall_app. split; [exact Hwd|]. constructor; [|constructor].
      inversion Hwr as [|? ? Hx _]; subst. destruct Hx as (H1 & H2 & H3 & H4 & H5 & H6).
      unfold wf_input, set_unlock. cbn. repeat split; assumption.
    + exact H.
    + exists (set_unlock inp u :: filled). rewrite Hf. split; [reflexivity|].
      rewrite Ht', <- app_assoc. reflexivity.
Qed.

Lemma sign_each_nth key_of t : forall rest i filled, sign_each key_of t rest i = Some filled ->
  forall j inp, nth_error rest j = Some inp ->
  exists s u, key_of (in_script inp) = Some s /\ unlocking_script s t (i + N.of_nat j) sh_all_forkid = SgOk u /\
              nth_error filled j = Some (set_unlock inp u).
Proof.
  induction rest as [|x r IH]; intros i filled H j inp Hj; [destruct j; discriminate|].
  cbn [sign_each] in H. destruct (key_of (in_script x)) as [s|] eqn:Hk; [|discriminate].
  destruct (unlocking_script s t i sh_all_forkid) as [u| | | |] eqn:Hu; try discriminate.
  destruct (sign_each key_of t r (i + 1)) as [f|] eqn:Hf; [|discriminate]. injection H as <-.
  destruct j as [|j].
  - injection Hj as <-. exists s, u. rewrite N.add_0_r. repeat split; assumption.
  - cbn [nth_error] in Hj |- *. destruct (IH (i + 1) f Hf j inp Hj) as (s' & u' & H1 & H2 & H3).
    exists s', u'. replace (i + N.of_nat (S j)) with (i + 1 + N.of_nat j) by lia. repeat split; assumption.
Qed.

Lemma sign_each_length key_of t : forall rest i filled, sign_each key_of t rest i = Some filled -> length filled = length rest.
Proof.
  induction rest as [|x r IH]; intros i filled H; cbn [sign_each] in H; [injection H as <-; reflexivity|].
  destruct (key_of (in_script x)); [|discriminate]. destruct (unlocking_script _ t i sh_all_forkid); try discriminate.
  destruct (sign_each key_of t r (i + 1)) as [f|] eqn:Hf; [|discriminate]. injection H as <-. cbn [length]. rewrite (IH _ _ Hf). reflexivity.
Qed.

(** FillAllInputs with a getter of unlocker.Simple values ([key_of]: which key for which previous script):
    nothing but unlocking scripts changes; the script of input j is what the unlocker returns for input j of the
    transaction as it was HANDED IN (no script filled by this call present), type ALL|FORKID; and it is also
    what the unlocker returns on the completely filled transaction - the digest verification will recompute *)
Theorem fill_all_inputs_signs_each_input_independently key_of t t' :
  wf_tx t -> N.of_nat (length (tx_ins t)) < two32 ->
  (forall prev s, key_of prev = Some s -> signer_ok s) ->
  fill_all_inputs (simple_getter key_of) t = SgOk t' ->
  tx_version t' = tx_version t /\ tx_outs t' = tx_outs t /\ tx_lock t' = tx_lock t /\
  length (tx_ins t') = length (tx_ins t) /\ erase_unlocks t' = erase_unlocks t /\ wf_tx t' /\
  forall j inp, nth_error (tx_ins t) j = Some inp ->
    exists s u, key_of (in_script inp) = Some s /\
      unlocking_script s t (N.of_nat j) sh_all_forkid = SgOk u /\
      unlocking_script s t' (N.of_nat j) sh_all_forkid = SgOk u /\
      nth_error (tx_ins t') j = Some (set_unlock inp u).
Proof.
  intros Hwf Hlen Hkeys H. unfold fill_all_inputs in H.
  destruct (fill_all_from_spec key_of t Hwf Hlen Hkeys (tx_ins t) [] [] t') as (filled & Hf & ->);
    try reflexivity; [constructor| |].
  { destruct t; exact H. }
  cbn [app length] in *. change (N.of_nat 0) with 0 in Hf.
  pose proof (sign_each_length _ _ _ _ _ Hf) as Hfl.
  assert (Her : erase_unlocks (set_inputs t filled) = erase_unlocks t).
  { unfold erase_unlocks, set_inputs. cbn [tx_version tx_ins tx_outs tx_lock]. f_equal.
    apply nth_ext with (d := erase_unlock (mkInput [] 0 [] 0 0 None)) (d' := erase_unlock (mkInput [] 0 [] 0 0 None)).
    - rewrite !map_length. exact Hfl.
    - intros n Hn. rewrite map_length in Hn. rewrite !map_nth.
      destruct (nth_error (tx_ins t) n) as [inp|] eqn:Hi; [|apply nth_error_None in Hi; lia].
      destruct (sign_each_nth _ _ _ _ _ Hf n inp Hi) as (s & u & _ & _ & Hn').
      rewrite (nth_error_nth _ _ _ Hn'), (nth_error_nth _ _ _ Hi). reflexivity. }
  assert (Hwf' : wf_tx (set_inputs t filled)).
  { pose proof Hwf as (Hv & Hl & Hins & Houts & Hli & Hlo).
    unfold wf_tx, set_inputs. cbn [tx_version tx_ins tx_outs tx_lock]. repeat split; try assumption; [|rewrite Hfl; exact Hli].
    apply Forall_forall. intros x Hx. apply In_nth_error in Hx as [n Hn].
    destruct (nth_error (tx_ins t) n) as [inp|] eqn:Hi.
    2:{ apply nth_error_None in Hi. assert (n < length filled)%nat by (apply nth_error_Some; congruence). lia. }
    destruct (sign_each_nth _ _ _ _ _ Hf n inp Hi) as (s & u & Hk & Hu & Hn'). rewrite Hn in Hn'. injection Hn' as ->.
    pose proof (Hkeys _ _ Hk) as Hok.
    destruct (unlocking_script_is_p2pkh_unlock s t _ _ u Hok Hu) as (_ & _ & sig & h & _ & _ & _ & _ & Hsg & ->).
    assert (Hx : wf_input inp) by (rewrite Forall_forall in Hins; apply Hins; eapply nth_error_In; eassumption).
    destruct Hx as (H1 & H2 & H3 & H4 & H5 & H6). unfold wf_input, set_unlock.
    cbn [in_txid in_vout in_unlock in_seq in_sats in_script]. repeat split; try assumption.
    apply p2pkh_unlock_wf; [apply (proj2 Hok h sig Hsg)|apply signer_ok_pub_len; exact Hok]. }
  do 3 (split; [reflexivity|]). split; [exact Hfl|]. split; [exact Her|]. split; [exact Hwf'|].
  intros j inp Hj. destruct (sign_each_nth _ _ _ _ _ Hf j inp Hj) as (s & u & Hk & Hu & Hn). rewrite N.add_0_l in Hu.
  exists s, u. repeat split; try assumption.
  rewrite <- Hu. apply unlocking_script_ignores_unlocks; try assumption.
  - unfold sh_all_forkid; lia.
  - assert (j < length (tx_ins t))%nat by (apply nth_error_Some; congruence). lia.
Qed.

(** * instances (non-vacuity; used by Properties/C04.v) *)
(** a key whose "signatures" are the fixed DER string [ex_sig], whatever the digest *)
Definition ex_signer : signer := mkSigner ex_pk (fun _ => Some ex_sig).
Lemma ex_signer_ok : signer_ok ex_signer.
Proof.
  split.
  - exists x02, (repeat_byte 32 x11). repeat split; try reflexivity. left; reflexivity.
  - intros h sig H. injection H as <-. cbn. lia.
Qed.

Print Assumptions unlocking_script_is_p2pkh_unlock.
Print Assumptions carried_type_is_digest_type.
Print Assumptions filled_input_accepted.
Print Assumptions fill_all_inputs_signs_each_input_independently.
