(** Script.IsP2PKH (bscript/script.go), as printed from the Go source, is [is_p2pkh] of model/Classify.v (C14; the
    outcome includes the panic case) and [is_p2pkh] of model/Fees.v (C11). *)
From Coq Require Import List ZArith NArith Bool Lia ZifyN ZifyNat ZifyBool.
From Coq Require Import Strings.Byte.
From GoBT Require Import lib.Bytes lib.GoSem gen.Funcs proofs.GenFuncsTac proofs.GenFuncsClassifyTac.
From GoBT Require lib.Checked model.Classify model.Fees.
Import ListNotations.
Ltac Zify.zify_post_hook ::= Z.div_mod_to_equations.
Local Open Scope Z_scope.

Lemma Script_IsP2PKH_is_model (b : bytes) : to_outcome (Script_IsP2PKH b) = Classify.is_p2pkh b.
Proof.
  unfold Script_IsP2PKH, Classify.is_p2pkh. cbv zeta.
  unfold Classify.OpDUP, Classify.OpHASH160, Classify.OpDATA20, Classify.OpEQUALVERIFY, Classify.OpCHECKSIG.
  destruct (N.eqb_spec (lenN b) 25) as [E|E].
  - explicit_list b E 25. classify_norm. classify_finish.
  - unfold Classify.byte_is, Classify.oand, Classify.oor, go_andthen, go_orelse. rewrite go_len_lenN.
    cbn [bind Checked.obind]. go_decide. reflexivity.
Qed.

Lemma Script_IsP2PKH_is_fees_model (b : bytes) : Script_IsP2PKH b = Val (Fees.is_p2pkh b).
Proof.
  unfold Script_IsP2PKH, Fees.is_p2pkh, Fees.byte_at. cbv zeta.
  destruct (N.eqb_spec (lenN b) 25) as [E|E].
  - explicit_list b E 25. classify_norm. cbn [length Nat.eqb nth andb].
    byte_eqb_norm.
    classify_finish.
  - unfold go_andthen, go_orelse. rewrite go_len_lenN. cbn [bind]. go_decide.
    replace (Nat.eqb (length b) 25) with false by (symmetry; apply Nat.eqb_neq; unfold lenN in E; lia). reflexivity.
Qed.
