(** Audit C additions for C16 (JSON): every decoder establishes [outs_set], the hypothesis of the
    marshal-never-panics theorems. *)
From Coq Require Import List NArith ZArith String Bool.
From Coq Require Import Strings.Byte.
From GoBT Require Import lib.Bytes lib.Hex lib.Parse lib.VarInt model.Tx proofs.TxProofs
  model.Amount model.Json proofs.JsonProofs.
From GoBT Require proofs.AmountProofs.
Import ListNotations.
Local Open Scope N_scope.

(* C16-P1: [outs_set], the hypothesis of the no-panic theorems, is established by every decoder *)
Lemma outs_set_gtx_of_tx t : outs_set (gtx_of_tx t).
Proof.
  unfold outs_set, gtx_of_tx. cbn [g_outs]. apply Forall_forall. intros o Ho.
  apply in_map_iff in Ho as (x & <- & _). unfold wf_goutput, goutput_of_parsed. cbn. discriminate.
Qed.

Theorem tx_from_hex_outs_set s g : tx_from_hex s = JOk g -> outs_set g.
Proof.
  unfold tx_from_hex. destruct (hexdecode s); [|discriminate]. destruct (tx_from_bytes _); try discriminate.
  intros [= <-]. apply outs_set_gtx_of_tx.
Qed.

Lemma jmapM_forall {A B} (f : A -> jres B) (P : B -> Prop) :
  (forall a b, f a = JOk b -> P b) -> forall l l', jmapM f l = JOk l' -> Forall P l'.
Proof.
  intros Hf. induction l as [|x l IH]; intros l'; cbn [jmapM].
  - intros [= <-]. constructor.
  - destruct (f x) as [y| |] eqn:E; cbn [jbind]; try discriminate.
    destruct (jmapM f l) as [ys| |]; cbn [jbind]; try discriminate.
    intros [= <-]. constructor; [eapply Hf; exact E|apply IH; reflexivity].
Qed.

Theorem unmarshal_tx_outs_set prev j g : outs_set prev -> unmarshal_tx prev j = JOk g -> outs_set g.
Proof.
  intros Hp. unfold unmarshal_tx.
  destruct (jmapM _ (tj_ins j)); cbn [jbind]; try discriminate.
  destruct (jmapM _ (tj_outs j)); cbn [jbind]; try discriminate.
  destruct (String.eqb (tj_hex j) ""); [intros [= <-]; exact Hp|apply tx_from_hex_outs_set].
Qed.

Theorem node_unmarshal_tx_outs_set prev j g : node_unmarshal_tx prev j = JOk g -> outs_set g.
Proof.
  unfold node_unmarshal_tx. destruct (negb _); [apply tx_from_hex_outs_set|].
  destruct (jmapM to_output (nt_vout j)) as [outs| |] eqn:E; cbn [jbind]; try discriminate.
  destruct (jmapM to_input (nt_vin j)); cbn [jbind]; try discriminate.
  intros [= <-]. unfold outs_set. cbn [g_outs].
  apply (jmapM_forall to_output wf_goutput) with (l := nt_vout j); [|exact E].
  intros oa ob. unfold to_output. destruct (is_nil oa); [discriminate|].
  destruct (deref oa); cbn [jbind]; try discriminate.
  destruct (is_nil _); [discriminate|]. destruct (deref _); cbn [jbind]; try discriminate.
  destruct (from_hex _); cbn [jbind]; try discriminate. intros [= <-]. unfold wf_goutput. cbn. discriminate.
Qed.

(** * Node marshalling succeeds whenever the script oracle (ToASM / Addresses / ScriptType) does, so the
    conditional node round-trip theorems are not vacuous *)
Section NodeOk.
Variable script_info : bytes -> jres (string * N * string).
Hypothesis info_ok : forall s, exists i, script_info s = JOk i.

Lemma from_outputs_ok : forall l idx, Forall wf_goutput l -> exists js, from_outputs script_info idx l = JOk js.
Proof.
  induction l as [|o l IH]; intros idx H; cbn [from_outputs]; [eauto|].
  inversion H as [|? ? Ho Hl]; subst. unfold from_output. unfold wf_goutput in Ho.
  destruct (go_lock o) as [s|]; [|congruence]. cbn [deref jbind].
  destruct (info_ok s) as [i ->]. cbn [jbind]. destruct (IH (idx + 1) Hl) as [js ->]. cbn [jbind]. eauto.
Qed.

Lemma from_inputs_ok : forall l, exists js, jmapM (from_input script_info) l = JOk js.
Proof.
  induction l as [|i l [js IH]]; cbn [jmapM]; [eauto|].
  unfold from_input at 1. destruct (gi_unlock i) as [s|].
  - destruct (info_ok s) as [x ->]. cbn [jbind]. rewrite IH. cbn [jbind]. eauto.
  - cbn [jbind]. rewrite IH. cbn [jbind]. eauto.
Qed.

Theorem node_marshal_tx_ok g : outs_set g -> exists j, node_marshal_tx script_info g = JOk j.
Proof.
  intros Hout. unfold node_marshal_tx.
  destruct (from_outputs_ok (g_outs g) 0 Hout) as [outs ->]. cbn [jbind].
  destruct (from_inputs_ok (g_ins g)) as [ins ->]. cbn [jbind].
  rewrite (gtx_bytes_plain g Hout). cbn [jbind]. eauto.
Qed.
End NodeOk.

(** * The coin value is injective on the quantified range (a consequence of the Flocq round trip) *)
Theorem of_sat_injective a b : a <= max_money -> b <= max_money -> of_sat a = of_sat b -> a = b.
Proof.
  intros Ha Hb E. rewrite <- (AmountProofs.amount_roundtrip a Ha), <- (AmountProofs.amount_roundtrip b Hb), E. reflexivity.
Qed.
