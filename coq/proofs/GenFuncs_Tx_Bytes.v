(** Tx.Bytes (tx.go), as printed from the Go source (a call of the printed Tx.toBytesHelper), is [tx_bytes false] of model/Tx.v. *)
From Coq Require Import List ZArith NArith Bool Lia ZifyN ZifyNat ZifyBool.
From Coq Require Import Strings.Byte.
From GoBT Require Import lib.Bytes lib.VarInt lib.GoSem lib.GoTx gen.Funcs proofs.GenFuncsTac proofs.GenFuncsTxTac model.Tx.
From GoBT Require Import proofs.GenFuncs_Tx_toBytesHelper.
Import ListNotations.
Ltac Zify.zify_post_hook ::= Z.div_mod_to_equations.
Local Open Scope Z_scope.

Ltac tx_extra ::=
  match goal with
  | |- context [Tx_toBytesHelper ?i None ?e (map Some ?ins) (map Some ?outs) ?v ?l] =>
      rewrite (Tx_toBytesHelper_is_model i e ins outs v l) by assumption
  end.

Lemma Tx_Bytes_is_model ins outs ver lock :
  Forall go_input_ok ins -> Forall go_output_ok outs -> u32 ver -> u32 lock -> len_ok ins -> len_ok outs ->
  Tx_Bytes (map Some ins) (map Some outs) ver lock = Val (tx_bytes false (tx_of_go ins outs ver lock)).
Proof. intros. unfold Tx_Bytes. tx_norm. reflexivity. Qed.
