(** Audit D, property C15.

    1. model/Address.v carries its own copies of DecodeParts, PublicKeyHash, IsP2PKH and PushDataPrefix
       (the C15 theorems are about those), model/Push.v and model/Classify.v carry the ones C13 / C14 are
       about.  [decode_models_agree], [public_key_hash_models_agree], [is_p2pkh_models_agree],
       [push_data_prefix_models_agree]: the copies compute the same thing on every input.
    2. [validated_address_builds_checked_script]: an address ValidateAddress accepts builds the locking
       script of exactly the hash its checksum protects (the usable counterpart of the refuted
       "NewP2PKHFromAddress verifies the checksum").
    3. [address_injective]: two different (network, hash) pairs never share an address string.
    4. the two constructors that take hex strings agree with the ones that take bytes. *)
From Coq Require Import String Ascii List NArith Lia Arith PeanoNat Bool ZifyN ZifyNat ZifyBool.
From Coq Require Import Strings.Byte.
From GoBT Require Import lib.Bytes lib.Hex lib.Checked lib.Str lib.Sha256 lib.Ripemd160 lib.Numeral lib.Base58.
From GoBT Require model.Push model.Classify model.Address model.Bip276.
From GoBT Require spec.Base58Check.
From GoBT Require proofs.PushProofs proofs.AddressProofs proofs.TemplateProofs.
Import ListNotations.
Local Open Scope N_scope.

(** ** 1. the duplicated models agree *)

Definition dp_rel (a : Push.dres) (b : Address.res (list bytes)) : Prop :=
  match a, b with
  | Push.DOk l, Address.Ok l' => l = l'
  | Push.DErr _, Address.Err Address.EDataTooSmall => True
  | _, _ => False
  end.

Lemma rel_cons p X Y : dp_rel X Y ->
  dp_rel (Push.dcons p X)
         (match Y with Address.Ok ps => Address.Ok (p :: ps) | Address.Err e => Address.Err e | Address.Panic => Address.Panic end).
Proof. destruct X, Y as [l'|e|]; cbn [dp_rel Push.dcons]; try tauto; try (intros ->; reflexivity). Qed.

Lemma byte_eqb_b2n x c : byte_eqb x c = (b2n x =? b2n c).
Proof.
  destruct (byte_eqb x c) eqn:E.
  - apply byte_eqb_eq in E. subst. symmetry. apply N.eqb_refl.
  - symmetry. apply N.eqb_neq. intros H. apply b2n_inj in H. subst.
    assert (byte_eqb c c = true) as Hcc by (apply byte_eqb_eq; reflexivity). congruence.
Qed.

Lemma skipn_len_le {A} n (l : list A) : (List.length (skipn n l) <= List.length l)%nat.
Proof. rewrite skipn_length. lia. Qed.

Theorem decode_models_agree_fuel : forall n b f, (List.length b <= n)%nat -> (List.length b <= f)%nat ->
  dp_rel (Push.decode_parts b) (Address.decode_parts_fuel f b).
Proof.
  induction n as [|n IH]; intros b f Hn Hf.
  { destruct b; [|cbn [List.length] in Hn; lia]. destruct f; reflexivity. }
  destruct b as [|b0 r]; [destruct f; reflexivity|].
  destruct f as [|f]; [cbn [List.length] in Hf; lia|]. cbn [List.length] in Hn, Hf.
  rewrite PushProofs.decode_parts_cons. cbn [Push.decode_step_clean Address.decode_parts_fuel].
  rewrite !byte_eqb_b2n. change (b2n x4c) with 76. change (b2n x4d) with 77. change (b2n x4e) with 78.
  pose proof (b2n_lt b0) as Hlt.
  assert (forall h l, (h <= List.length r)%nat ->
     dp_rel (match Push.take_data l (skipn h r) with
             | Push.DSPart p rest => Push.dcons p (Push.decode_parts rest)
             | Push.DSErr => Push.DErr [] | Push.DSPanic => Push.DPanic end)
            (let b1 := skipn (S h) (b0 :: r) in
             if lenN b1 <? l then Address.Err Address.EDataTooSmall
             else match Address.decode_parts_fuel f (skipn (N.to_nat l) b1) with
                  | Address.Ok ps => Address.Ok (firstn (N.to_nat l) b1 :: ps)
                  | Address.Err e => Address.Err e | Address.Panic => Address.Panic end)) as Counted.
  { intros h l Hh. cbn [skipn]. cbv zeta. unfold Push.take_data.
    destruct (lenN (skipn h r) <? l) eqn:E; [exact I|]. cbv beta iota.
    apply rel_cons. apply IH; pose proof (skipn_len_le (N.to_nat l) (skipn h r)); pose proof (skipn_len_le h r); lia. }
  change (List.length (b0 :: r)) with (S (List.length r)).
  destruct (PushProofs.push_kind_cases (b2n b0) Hlt) as [[E K]|[[E K]|[[E K]|[[E K]|[E K]]]]]; rewrite K.
  - rewrite E. cbn [N.eqb Pos.eqb]. unfold lenN.
    destruct (N.of_nat (List.length r) <? N.of_nat 1) eqn:E1.
    + replace (Nat.ltb (S (List.length r)) 2) with true by (symmetry; apply Nat.ltb_lt; lia). exact I.
    + replace (Nat.ltb (S (List.length r)) 2) with false by (symmetry; apply Nat.ltb_ge; lia).
      apply (Counted 1%nat). lia.
  - rewrite E. cbn [N.eqb Pos.eqb]. unfold lenN.
    destruct (N.of_nat (List.length r) <? N.of_nat 2) eqn:E1.
    + replace (Nat.ltb (S (List.length r)) 3) with true by (symmetry; apply Nat.ltb_lt; lia). exact I.
    + replace (Nat.ltb (S (List.length r)) 3) with false by (symmetry; apply Nat.ltb_ge; lia).
      apply (Counted 2%nat). lia.
  - rewrite E. cbn [N.eqb Pos.eqb]. unfold lenN.
    destruct (N.of_nat (List.length r) <? N.of_nat 4) eqn:E1.
    + replace (Nat.ltb (S (List.length r)) 5) with true by (symmetry; apply Nat.ltb_lt; lia). exact I.
    + replace (Nat.ltb (S (List.length r)) 5) with false by (symmetry; apply Nat.ltb_ge; lia).
      apply (Counted 4%nat). lia.
  - replace (b2n b0 =? 76) with false by lia. replace (b2n b0 =? 77) with false by lia. replace (b2n b0 =? 78) with false by lia.
    replace ((1 <=? b2n b0) && (b2n b0 <=? 78)) with true by lia.
    unfold Push.take_data, lenN.
    destruct (N.of_nat (List.length r) <? b2n b0) eqn:E1.
    + replace (Nat.ltb (S (List.length r)) (1 + N.to_nat (b2n b0))) with true by (symmetry; apply Nat.ltb_lt; lia). exact I.
    + replace (Nat.ltb (S (List.length r)) (1 + N.to_nat (b2n b0))) with false by (symmetry; apply Nat.ltb_ge; lia).
      unfold Address.slice. replace (N.to_nat (b2n b0) + 1 - 1)%nat with (N.to_nat (b2n b0)) by lia.
      cbn [skipn plus]. apply rel_cons. apply IH; pose proof (skipn_len_le (N.to_nat (b2n b0)) r); lia.
  - replace (b2n b0 =? 76) with false by lia. replace (b2n b0 =? 77) with false by lia. replace (b2n b0 =? 78) with false by lia.
    replace ((1 <=? b2n b0) && (b2n b0 <=? 78)) with false by lia.
    apply rel_cons. apply IH; lia.
Qed.

Theorem decode_models_agree b : dp_rel (Push.decode_parts b) (Address.decode_parts b).
Proof. apply (decode_models_agree_fuel (List.length b)); lia. Qed.

Definition pkh_rel (a : Checked.outcome bytes) (b : Address.res bytes) : Prop :=
  match a, b with
  | Checked.Ok h, Address.Ok h' => h = h'
  | Checked.Err, Address.Err _ => True
  | _, _ => False
  end.

Theorem public_key_hash_models_agree s : pkh_rel (Classify.public_key_hash s) (Address.public_key_hash s).
Proof.
  unfold Classify.public_key_hash, Address.public_key_hash.
  destruct s as [|s0 r]; [exact I|].
  change (lenN (s0 :: r) =? 0) with false. cbv beta iota.
  unfold Classify.byte_is. rewrite idx_0. cbn [chk obind].
  rewrite byte_eqb_b2n. change (b2n Address.OpDUP) with Classify.OpDUP.
  destruct (b2n s0 =? Classify.OpDUP); cbn [negb orb]; [|exact I].
  destruct r as [|s1 r']; [exact I|].
  destruct r' as [|s2 r'']; [exact I|].
  replace (lenN (s0 :: s1 :: s2 :: r'') <=? 2) with false by (unfold lenN; cbn [List.length]; lia).
  replace (Nat.leb (List.length (s0 :: s1 :: s2 :: r'')) 2) with false by reflexivity.
  rewrite idx_1. cbn [chk obind nth orb].
  rewrite byte_eqb_b2n. change (b2n Address.OpHASH160) with Classify.OpHASH160.
  destruct (b2n s1 =? Classify.OpHASH160); cbn [negb]; [|exact I].
  rewrite slice_from_ok by (rewrite lenNg_lenN; unfold lenN; cbn [List.length]; lia).
  change (skipn (N.to_nat 2) (s0 :: s1 :: s2 :: r'')) with (s2 :: r'').
  change (skipn 2 (s0 :: s1 :: s2 :: r'')) with (s2 :: r''). cbn [chk].
  pose proof (decode_models_agree (s2 :: r'')) as R. unfold Classify.decoded.
  pose proof (PushProofs.decode_parts_total (s2 :: r'')) as [T1 T2].
  destruct (Push.decode_parts (s2 :: r'')) as [parts|parts| |] eqn:D; try congruence;
    destruct (Address.decode_parts (s2 :: r'')) as [ps|e|]; cbn [dp_rel] in R; try contradiction.
  - subst ps. cbn [obind]. destruct parts as [|p ps].
    + exfalso. rewrite PushProofs.decode_parts_cons in D. destruct (Push.decode_step_clean (s2 :: r'')); try discriminate.
      destruct (Push.decode_parts rest); discriminate.
    + change (idx (p :: ps) 0) with (Some p). reflexivity.
  - cbn [obind]. exact I.
Qed.

Theorem is_p2pkh_models_agree s : Classify.is_p2pkh s = Checked.Ok (Address.is_p2pkh s).
Proof.
  destruct (N.eq_dec (lenN s) 25) as [E|E].
  - unfold lenN in E.
    do 25 (destruct s as [|? s]; [cbn [List.length] in E; lia|]). destruct s; [|cbn [List.length] in E; lia].
    unfold Classify.is_p2pkh, Address.is_p2pkh, Classify.byte_is, Classify.oand.
    match goal with |- context [lenN ?l =? 25] => change (lenN l =? 25) with true end.
    cbv -[N.eqb byte_eqb b2n]. rewrite !byte_eqb_b2n.
    change (b2n x76) with 118; change (b2n xa9) with 169; change (b2n x14) with 20; change (b2n x88) with 136; change (b2n xac) with 172.
    repeat match goal with |- context [b2n ?a =? ?c] => destruct (b2n a =? c); cbv -[N.eqb byte_eqb b2n] end; reflexivity.
  - rewrite TemplateProofs.is_p2pkh_len by exact E. unfold Address.is_p2pkh.
    replace (Nat.eqb (List.length s) 25) with false; [reflexivity|].
    symmetry. apply Nat.eqb_neq. unfold lenN in E. lia.
Qed.

Theorem push_data_prefix_models_agree d :
  Address.push_data_prefix d = match Push.push_data_prefix d with Some p => Address.Ok p | None => Address.Err Address.EPartTooBig end.
Proof.
  unfold Address.push_data_prefix, Push.push_data_prefix. cbv zeta.
  destruct (lenN d <=? 75); [reflexivity|]. destruct (lenN d <=? 255); [reflexivity|].
  destruct (lenN d <=? 65535); [reflexivity|]. destruct (lenN d <=? 4294967295); reflexivity.
Qed.

(** ** 2-4. addresses *)
Import model.Bip276 model.Address spec.Base58Check proofs.AddressProofs.

Lemma b58_encode_inj a b : b58_encode a = b58_encode b -> a = b.
Proof. intros H. rewrite <- (b58_decode_encode a), <- (b58_decode_encode b), H. reflexivity. Qed.

Lemma firstn_len_app (a b : bytes) n : List.length a = n -> firstn n (a ++ b) = a.
Proof. intros <-. rewrite firstn_app, Nat.sub_diag, firstn_all, firstn_O, app_nil_r. reflexivity. Qed.

Theorem validated_address_builds_checked_script addr :
  has_prefix "bitcoin-script:" addr = false -> validate_address addr = true ->
  exists v h, supported_version v /\ List.length h = 20%nat /\ bytes_of_string addr = base58check v h /\
    p2pkh_from_address addr = Ok (p2pkh_script h) /\
    new_address_from_string addr = Ok (mkAddress addr (hex_of h)).
Proof.
  intros Hp Hv. apply (validate_accept_iff_base58check_lemma addr Hp) in Hv.
  destruct Hv as (v & h & Hs & Hl & E). exists v, h.
  assert (is_base58_25 (bytes_of_string addr)) as H25.
  { apply p2pkh_address_is_base58_25. exists v, h. auto. }
  split; [exact Hs|]. split; [exact Hl|]. split; [exact E|]. split.
  - destruct (from_address_accept_partial_lemma addr) as (_ & [_ A] & _).
    destruct (A H25) as [s Hs']. rewrite Hs'. f_equal.
    destruct (p2pkh_from_address_ok _ _ Hs') as (v' & rest & _ & Hr & E' & ->).
    rewrite E in E'. unfold base58check in E'. apply b58_encode_inj in E'. injection E' as <- <-.
    rewrite firstn_len_app by exact Hl. reflexivity.
  - unfold new_address_from_string.
    destruct (address_to_pkh_str addr) as [pkh|e|] eqn:A.
    + apply address_to_pkh_ok_iff in A as (v' & rest & _ & Hr & E' & ->).
      rewrite E in E'. unfold base58check in E'. apply b58_encode_inj in E'. injection E' as <- <-.
      rewrite firstn_len_app by exact Hl. reflexivity.
    + exfalso. destruct (from_address_accept_partial_lemma addr) as ([_ A'] & _ & _).
      destruct (A' H25) as [a Ha]. unfold new_address_from_string in Ha. rewrite A in Ha. discriminate.
    + exfalso. exact (address_to_pkh_no_panic addr A).
Qed.

Theorem address_injective h h' m m' : List.length h = 20%nat -> List.length h' = 20%nat ->
  a_string (new_address_from_pkh h m) = a_string (new_address_from_pkh h' m') -> h = h' /\ m = m'.
Proof.
  intros Hl Hl' E. apply (f_equal bytes_of_string) in E. rewrite !address_string_bytes in E.
  unfold base58check in E. apply b58_encode_inj in E. injection E as Ev E.
  apply (f_equal (firstn 20)) in E. rewrite !firstn_len_app in E by assumption.
  split; [exact E|]. destruct m, m'; try reflexivity; discriminate.
Qed.

Theorem p2pkh_from_pubkey_str_spec k : List.length k = 33%nat ->
  p2pkh_from_pubkey_str (hex_of k) = Ok (p2pkh_script (hash160 k)).
Proof.
  intros Hl. unfold p2pkh_from_pubkey_str. rewrite hexdecode_hex_of. apply p2pkh_from_pubkey_bytes_spec. exact Hl.
Qed.

Theorem new_address_from_public_key_string_spec k mainnet :
  new_address_from_public_key_string (hex_of k) mainnet = Ok (new_address_from_public_key k mainnet).
Proof.
  unfold new_address_from_public_key_string. rewrite hexdecode_hex_of.
  rewrite new_address_from_public_key_spec. reflexivity.
Qed.
