(** C04 (c) without the [NoDup] hypothesis on the outputs.

    [C04_commit_sensitive_*] (proofs/CommitProofs.v, CommitModelProofs.v, AuditACommit.v) assume that the outputs
    of the transaction are pairwise distinct, before and after the mutation.  Real transactions may carry two
    identical outputs (same value, same script).  What is shown here:

    - the mutations are positional and the serialisations are length-prefixed, so under ALL (and for every
      mutation that edits a field in place, under every type) duplicates are irrelevant: inserting a copy of an
      output next to the original, or removing one of two identical outputs, changes the output count and the
      committed bytes.  No hypothesis is needed there.
    - the ONLY mutations for which distinctness was used are those whose sole committed effect, under
      SIGHASH_SINGLE, is to put another output at the signed input's position: output insertion / removal at or
      before that position (both algorithms) and, for FORKID under SINGLE|ANYONECANPAY, input insertion /
      removal in front of the signed input.  (The legacy algorithm serialises [idx] blank outputs in front of the
      matching one, so there an input shift is visible whatever the outputs are.)
    - for exactly these, [NoDup] is replaced by the weakest hypothesis that works,
      [matching_output_moves]: "the output now at the signed position differs from the one that was there".
      It is implied by the two [NoDup] hypotheses ([NoDup_matching_output_moves]: the new theorems subsume the
      old ones) and it is NECESSARY: if the output at the signed position is the same output, the committed
      view, the preimage and the 32-byte digest are IDENTICAL ([single_same_matching_output_*]), so the
      statement without any hypothesis is false ([*_without_NoDup_refuted], concrete witnesses; on the
      interpreter model the old signature is still accepted).  This is not a defect of the code: SINGLE commits
      to the CONTENT of the output at the signed position, and that content has not changed; it is the table
      [committed], which calls such an insertion "committed", that is too coarse when the outputs repeat. *)
From Coq Require Import List NArith ZArith Lia ZifyN ZifyNat ZifyBool Bool Arith.
From Coq Require Import Strings.Byte.
From GoBT Require Import lib.Bytes lib.Parse lib.VarInt lib.Sha256 model.Tx proofs.TxProofs spec.DigestSpec spec.CommitSpec
  model.SigHash model.SigHashWire proofs.SigHashProofs model.TxMutate proofs.CommitProofs proofs.CommitModelProofs
  proofs.AuditACommit.
Import ListNotations.
Ltac Zify.zify_post_hook ::= Z.div_mod_to_equations.
Local Open Scope N_scope.

(** * the hypothesis *)

(** the output at the signed input's position: what SIGHASH_SINGLE commits to *)
Definition matching_output (c : sign_ctx) : option txout := nth_error (t_vout (sc_tx c)) (sc_idx c).

(** For the four mutation classes that move outputs past the signed position or the signed input past outputs:
    the output now at the signed position is not the one that was there ([None]: there is none).  Only asked
    under SINGLE; for input insertion / removal only for FORKID under ANYONECANPAY (without ANYONECANPAY the
    input set is committed; the legacy copy shows the position itself).  [True] for every other mutation. *)
Definition matching_output_moves (alg : digest_alg) (ht : N) (m : mutation) (c : sign_ctx) : Prop :=
  match m with
  | MOutInsert _ _ | MOutRemove _ =>
      is_single ht = true -> matching_output (apply_mutation m c) <> matching_output c
  | MInInsert _ _ | MInRemove _ =>
      alg = AlgForkid -> is_single ht = true -> anyone_can_pay ht = true ->
      matching_output (apply_mutation m c) <> matching_output c
  | _ => True
  end.

(** nothing is asked when the base type is not SINGLE (ALL, NONE, and the unnamed values that sign like ALL) *)
Lemma matching_output_moves_not_single alg ht m c : is_single ht = false -> matching_output_moves alg ht m c.
Proof. intros E. destruct m; cbn [matching_output_moves]; auto; intros; congruence. Qed.

(** nor for the mutations that edit a field in place *)
Lemma matching_output_moves_in_place alg ht m c :
  match m with MOutInsert _ _ | MOutRemove _ | MInInsert _ _ | MInRemove _ => False | _ => True end ->
  matching_output_moves alg ht m c.
Proof. destruct m; cbn [matching_output_moves]; tauto. Qed.

(** * FORKID: an effective mutation of a committed field changes the view - duplicates allowed *)
Theorem forkid_view_sensitive_pos c ht m inp : committed_in AlgForkid ht c m = true -> effective m c ->
  nth_error (t_vin (sc_tx c)) (sc_idx c) = Some inp ->
  matching_output_moves AlgForkid ht m c ->
  forkid_view_of (apply_mutation m c) ht <> forkid_view_of c ht.
Proof.
  unfold committed_in, committed. cbn [CommitSpec.legacy_single_bug]. intros H Heff Hinp Hmv Heq. rewrite !forkid_view_of_eq in Heq.
  unfold matching_output_moves, matching_output in Hmv.
  destruct c as [tx idx code amt]. cbn [sc_tx sc_idx sc_code sc_amount] in *. rewrite Hinp in Heq. cbn [option_map] in Heq.
  destruct m; cbn [field_of committed_rules] in H;
    cbn [apply_mutation with_tx with_vin with_vout sc_tx sc_idx sc_code sc_amount t_vin t_vout t_version t_locktime
         effective applicable] in *.
  - (* MVersion *) rewrite Hinp in Heq. apply some_inj, (f_equal fv_version) in Heq. cbn in Heq. congruence.
  - (* MLocktime *) rewrite Hinp in Heq. apply some_inj, (f_equal fv_locktime) in Heq. cbn in Heq. congruence.
  - (* MInHash *) destruct Heff as (i & Hi & Hne). rewrite nth_error_set_nth, Hinp in Heq.
    destruct (Nat.eqb_spec idx j) as [->|Hij]; cbn [option_map] in Heq; apply some_inj in Heq.
    + apply (f_equal fv_outpoint), (f_equal op_hash) in Heq. cbn in Heq. congruence.
    + flags ht H; try (apply Nat.eqb_eq in H; congruence).
      all: apply fview_prevouts in Heq; [|assumption]; cbn [t_vout t_vin with_vout with_vin] in Heq; revert Heq; eapply map_set_nth_diff; eauto.
      all: intros E; apply (f_equal op_hash) in E; cbn in E; congruence.
  - (* MInVout *) destruct Heff as (i & Hi & Hne). rewrite nth_error_set_nth, Hinp in Heq.
    destruct (Nat.eqb_spec idx j) as [->|Hij]; cbn [option_map] in Heq; apply some_inj in Heq.
    + apply (f_equal fv_outpoint), (f_equal op_n) in Heq. cbn in Heq. congruence.
    + flags ht H; try (apply Nat.eqb_eq in H; congruence).
      all: apply fview_prevouts in Heq; [|assumption]; cbn [t_vout t_vin with_vout with_vin] in Heq; revert Heq; eapply map_set_nth_diff; eauto.
      all: intros E; apply (f_equal op_n) in E; cbn in E; congruence.
  - (* MInSequence *) destruct Heff as (i & Hi & Hne). rewrite nth_error_set_nth, Hinp in Heq.
    destruct (Nat.eqb_spec idx j) as [->|Hij]; cbn [option_map] in Heq; apply some_inj in Heq.
    + apply (f_equal fv_sequence) in Heq. cbn in Heq. congruence.
    + flags ht H; try (apply Nat.eqb_eq in H; congruence).
      all: apply fview_sequences in Heq; [|assumption..]; cbn [t_vout t_vin with_vout with_vin] in Heq; revert Heq; eapply map_set_nth_diff; eauto.
  - (* MOutValue *) destruct Heff as (o & Ho & Hne). rewrite Hinp in Heq. apply some_inj in Heq.
    flags ht H.
    1,2: apply Nat.eqb_eq in H; subst j; apply fview_outputs_single in Heq; [|assumption..]; cbn [t_vout t_vin with_vout with_vin] in Heq;
         rewrite nth_error_set_nth, Nat.eqb_refl, Ho in Heq; cbn [option_map] in Heq; apply some_inj, (f_equal to_value) in Heq; cbn in Heq; congruence.
    all: apply fview_outputs_all in Heq; [|assumption]; cbn [t_vout t_vin with_vout with_vin] in Heq; revert Heq; eapply set_nth_diff; eauto;
         intros E; apply (f_equal to_value) in E; cbn in E; congruence.
  - (* MOutScript *) destruct Heff as (o & Ho & Hne). rewrite Hinp in Heq. apply some_inj in Heq.
    flags ht H.
    1,2: apply Nat.eqb_eq in H; subst j; apply fview_outputs_single in Heq; [|assumption..]; cbn [t_vout t_vin with_vout with_vin] in Heq;
         rewrite nth_error_set_nth, Nat.eqb_refl, Ho in Heq; cbn [option_map] in Heq; apply some_inj, (f_equal to_script) in Heq; cbn in Heq; congruence.
    all: apply fview_outputs_all in Heq; [|assumption]; cbn [t_vout t_vin with_vout with_vin] in Heq; revert Heq; eapply set_nth_diff; eauto;
         intros E; apply (f_equal to_script) in E; cbn in E; congruence.
  - (* MOutInsert: SINGLE - the matching output moved; ALL - the count changed, whatever was inserted *)
    rewrite Hinp in Heq. apply some_inj in Heq. flags ht H.
    1,2: apply fview_outputs_single in Heq; [|assumption..]; cbn [t_vout t_vin with_vout with_vin] in Heq; exact (Hmv Es Heq).
    all: apply fview_outputs_all in Heq; [|assumption]; cbn [t_vout t_vin with_vout with_vin] in Heq; revert Heq; apply length_neq;
         rewrite insert_at_length; lia.
  - (* MOutRemove *) rewrite Hinp in Heq. apply some_inj in Heq. flags ht H.
    1,2: apply fview_outputs_single in Heq; [|assumption..]; cbn [t_vout t_vin with_vout with_vin] in Heq; exact (Hmv Es Heq).
    all: apply fview_outputs_all in Heq; [|assumption]; cbn [t_vout t_vin with_vout with_vin] in Heq; revert Heq; apply length_neq;
         rewrite remove_at_length by exact Heff; lia.
  - (* MInInsert *) rewrite nth_error_insert_shift, Hinp in Heq by exact Heff. apply some_inj in Heq. flags ht H.
    all: try (apply fview_prevouts in Heq; [|assumption]; cbn [t_vout t_vin with_vout with_vin] in Heq; revert Heq; apply length_neq;
              rewrite !map_length, insert_at_length; lia).
    all: apply fview_outputs_single in Heq; [|assumption..]; cbn [t_vout t_vin with_vout with_vin] in Heq;
         exact (Hmv eq_refl Es eq_refl Heq).
  - (* MInRemove *) destruct Heff as [Hlt Hne]. rewrite nth_error_remove_shift, Hinp in Heq by exact Hne.
    apply some_inj in Heq. flags ht H.
    all: try (apply fview_prevouts in Heq; [|assumption]; cbn [t_vout t_vin with_vout with_vin] in Heq; revert Heq; apply length_neq;
              rewrite !map_length, remove_at_length by exact Hlt; lia).
    all: apply fview_outputs_single in Heq; [|assumption..]; cbn [t_vout t_vin with_vout with_vin] in Heq;
         exact (Hmv eq_refl Es eq_refl Heq).
  - (* MSpentValue *) rewrite Hinp in Heq. apply some_inj, (f_equal fv_amount) in Heq. cbn in Heq. congruence.
  - (* MSpentScript *) rewrite Hinp in Heq. apply some_inj, (f_equal fv_code) in Heq. cbn in Heq. congruence.
Qed.

Theorem commit_sensitive_forkid_pos c ht m inp : committed_in AlgForkid ht c m = true -> effective m c ->
  nth_error (t_vin (sc_tx c)) (sc_idx c) = Some inp ->
  wf_ctx c -> wf_ctx (apply_mutation m c) -> ht < two32 ->
  matching_output_moves AlgForkid ht m c ->
  exists v v', forkid_view_of c ht = Some v /\ forkid_view_of (apply_mutation m c) ht = Some v' /\
               components_of v' <> components_of v.
Proof.
  intros H He Hinp W W' Hht Hmv.
  destruct (signed_input_survives c m inp (effective_applicable _ _ He) Hinp) as [inp' Hinp'].
  pose proof (forkid_view_sensitive_pos c ht m inp H He Hinp Hmv) as Hd.
  destruct (forkid_view_of c ht) as [v|] eqn:Ev; [|rewrite forkid_view_of_eq, Hinp in Ev; discriminate].
  destruct (forkid_view_of (apply_mutation m c) ht) as [v'|] eqn:Ev'; [|rewrite forkid_view_of_eq, Hinp' in Ev'; discriminate].
  exists v, v'. repeat split. intros Hc. apply Hd. f_equal.
  eapply forkid_components_injective; eauto using wf_ctx_fview.
Qed.

(** * legacy: the same; only output insertion / removal under SINGLE need the hypothesis *)
Theorem legacy_view_sensitive_pos c ht m inp : committed_in AlgLegacy ht c m = true -> effective m c ->
  nth_error (t_vin (sc_tx c)) (sc_idx c) = Some inp ->
  matching_output_moves AlgLegacy ht m c ->
  legacy_view_of (apply_mutation m c) ht <> legacy_view_of c ht.
Proof.
  unfold committed_in, committed. cbn [CommitSpec.legacy_single_bug]. intros H Heff Hinp Hmv Heq.
  pose proof (effective_applicable _ _ Heff) as Happ.
  destruct (signed_input_survives c m inp Happ Hinp) as [inp' Hinp'].
  rewrite !legacy_view_of_eq in Heq. rewrite Hinp, Hinp' in Heq.
  unfold matching_output_moves, matching_output in Hmv.
  destruct c as [tx idx code amt]. cbn [sc_tx sc_idx sc_code sc_amount] in *.
  destruct (is_single ht && Nat.leb (length (t_vout tx)) idx) eqn:Ebug.
  - (* bug regime: the digest was the constant; the mutation makes it a real preimage *)
    apply andb_true_iff in Ebug. destruct Ebug as [Es Hl]. apply Nat.leb_le in Hl.
    destruct m; cbn [field_of] in H; try discriminate;
      cbn [apply_mutation with_tx with_vin with_vout sc_tx sc_idx sc_code sc_amount t_vin t_vout effective applicable] in *.
    + apply Nat.eqb_eq in H. rewrite insert_at_length, Es in Heq.
      destruct (Nat.leb_spec (S (length (t_vout tx))) idx); [lia|]. discriminate.
    + apply andb_true_iff in H. destruct H as [H1 H2]. apply Nat.ltb_lt in H1. apply Nat.eqb_eq in H2.
      rewrite Es in Heq. destruct (Nat.ltb_spec j idx); [|lia].
      destruct (Nat.leb_spec (length (t_vout tx)) (pred idx)); [lia|]. discriminate.
  - (* regular regime *)
    destruct (is_single ht && Nat.leb (length (t_vout (sc_tx (apply_mutation m {| sc_tx := tx; sc_idx := idx; sc_code := code; sc_amount := amt |}))))
                                       (sc_idx (apply_mutation m {| sc_tx := tx; sc_idx := idx; sc_code := code; sc_amount := amt |}))) eqn:Ebug';
      [discriminate|].
    apply (f_equal copy_of) in Heq. cbn [copy_of] in Heq.
    pose proof (f_equal t_version Heq) as Hver. pose proof (f_equal t_vin Heq) as Hvin.
    pose proof (f_equal t_vout Heq) as Hvout. pose proof (f_equal t_locktime Heq) as Hlock. clear Heq.
    cbn [t_version t_vin t_vout t_locktime] in Hver, Hvin, Hvout, Hlock.
    destruct m; cbn [field_of committed_rules] in H;
      cbn [apply_mutation with_tx with_vin with_vout sc_tx sc_idx sc_code sc_amount t_vin t_vout t_version t_locktime
           effective applicable] in *.
    + (* MVersion *) congruence.
    + (* MLocktime *) congruence.
    + (* MInHash *) destruct Heff as (i & Hi & Hne). pose proof Hinp' as Hi2. rewrite nth_error_set_nth, Hinp in Hi2.
      destruct (Nat.eqb_spec idx j) as [->|Hij]; cbn [option_map] in Hi2; injection Hi2 as <-.
      * apply (lvin_eq_signed _ _ _ _ _ _ _ _ Hinp Hinp') in Hvin. apply (f_equal ti_prevout), (f_equal op_hash) in Hvin.
        cbn in Hvin. rewrite Hi in Hinp; injection Hinp as ->. congruence.
      * lflags ht H; try (apply Nat.eqb_eq in H; congruence).
        all: apply (lvin_eq_other _ _ _ _ _ _ _ _ j Eacp Hinp Hinp' ltac:(congruence)) in Hvin.
        all: rewrite nth_error_set_nth, Nat.eqb_refl, Hi in Hvin; cbn [option_map] in Hvin.
        all: apply some_inj, (f_equal ti_prevout) in Hvin; rewrite !other_prevout in Hvin; apply (f_equal op_hash) in Hvin; cbn in Hvin; congruence.
    + (* MInVout *) destruct Heff as (i & Hi & Hne). pose proof Hinp' as Hi2. rewrite nth_error_set_nth, Hinp in Hi2.
      destruct (Nat.eqb_spec idx j) as [->|Hij]; cbn [option_map] in Hi2; injection Hi2 as <-.
      * apply (lvin_eq_signed _ _ _ _ _ _ _ _ Hinp Hinp') in Hvin. apply (f_equal ti_prevout), (f_equal op_n) in Hvin.
        cbn in Hvin. rewrite Hi in Hinp; injection Hinp as ->. congruence.
      * lflags ht H; try (apply Nat.eqb_eq in H; congruence).
        all: apply (lvin_eq_other _ _ _ _ _ _ _ _ j Eacp Hinp Hinp' ltac:(congruence)) in Hvin.
        all: rewrite nth_error_set_nth, Nat.eqb_refl, Hi in Hvin; cbn [option_map] in Hvin.
        all: apply some_inj, (f_equal ti_prevout) in Hvin; rewrite !other_prevout in Hvin; apply (f_equal op_n) in Hvin; cbn in Hvin; congruence.
    + (* MInSequence *) destruct Heff as (i & Hi & Hne). pose proof Hinp' as Hi2. rewrite nth_error_set_nth, Hinp in Hi2.
      destruct (Nat.eqb_spec idx j) as [->|Hij]; cbn [option_map] in Hi2; injection Hi2 as <-.
      * apply (lvin_eq_signed _ _ _ _ _ _ _ _ Hinp Hinp') in Hvin. apply (f_equal ti_sequence) in Hvin.
        cbn in Hvin. rewrite Hi in Hinp; injection Hinp as ->. congruence.
      * lflags ht H; try (apply Nat.eqb_eq in H; congruence).
        all: apply (lvin_eq_other _ _ _ _ _ _ _ _ j Eacp Hinp Hinp' ltac:(congruence)) in Hvin.
        all: rewrite nth_error_set_nth, Nat.eqb_refl, Hi in Hvin; cbn [option_map] in Hvin.
        all: apply some_inj, (f_equal ti_sequence) in Hvin; rewrite !other_sequence_all in Hvin by assumption; cbn in Hvin; congruence.
    + (* MOutValue *) destruct Heff as (o & Ho & Hne). rewrite set_nth_length in Ebug'. lflags ht H.
      1,2: apply Nat.eqb_eq in H; subst j; rewrite Es in Ebug; cbn [andb] in Ebug; apply Nat.leb_gt in Ebug;
           apply lvout_single_eq in Hvout; [|assumption | assumption | rewrite set_nth_length; assumption];
           destruct Hvout as [_ Hvout]; rewrite nth_error_set_nth, Nat.eqb_refl, Ho in Hvout; cbn [option_map] in Hvout;
           apply some_inj, (f_equal to_value) in Hvout; cbn in Hvout; congruence.
      all: rewrite !lvout_all in Hvout by assumption; revert Hvout; eapply set_nth_diff; eauto;
           intros E; apply (f_equal to_value) in E; cbn in E; congruence.
    + (* MOutScript *) destruct Heff as (o & Ho & Hne). rewrite set_nth_length in Ebug'. lflags ht H.
      1,2: apply Nat.eqb_eq in H; subst j; rewrite Es in Ebug; cbn [andb] in Ebug; apply Nat.leb_gt in Ebug;
           apply lvout_single_eq in Hvout; [|assumption | assumption | rewrite set_nth_length; assumption];
           destruct Hvout as [_ Hvout]; rewrite nth_error_set_nth, Nat.eqb_refl, Ho in Hvout; cbn [option_map] in Hvout;
           apply some_inj, (f_equal to_script) in Hvout; cbn in Hvout; congruence.
      all: rewrite !lvout_all in Hvout by assumption; revert Hvout; eapply set_nth_diff; eauto;
           intros E; apply (f_equal to_script) in E; cbn in E; congruence.
    + (* MOutInsert *) rewrite insert_at_length in Ebug'. lflags ht H.
      1,2: rewrite Es in Ebug, Ebug'; cbn [andb] in Ebug, Ebug'; apply Nat.leb_gt in Ebug, Ebug';
           apply lvout_single_eq in Hvout; [|assumption | assumption | rewrite insert_at_length; assumption];
           destruct Hvout as [_ Hvout]; exact (Hmv Es Hvout).
      all: rewrite !lvout_all in Hvout by assumption; revert Hvout; apply length_neq; rewrite insert_at_length; lia.
    + (* MOutRemove *) rewrite remove_at_length in Ebug' by exact Heff. lflags ht H.
      1,2: rewrite Es in Ebug, Ebug'; cbn [andb] in Ebug, Ebug'; apply Nat.leb_gt in Ebug, Ebug';
           apply lvout_single_eq in Hvout; [|assumption | assumption | rewrite remove_at_length by exact Heff; assumption];
           destruct Hvout as [_ Hvout]; exact (Hmv Es Hvout).
      all: rewrite !lvout_all in Hvout by assumption; revert Hvout; apply length_neq; rewrite remove_at_length by exact Heff; lia.
    + (* MInInsert: the copy carries [idx] blank outputs in front of the matching one - the shift itself shows *)
      pose proof Hinp' as Hi2. rewrite nth_error_insert_shift, Hinp in Hi2 by exact Heff. injection Hi2 as <-.
      lflags ht H.
      all: try (apply (f_equal (@length _)) in Hvin; rewrite !lvin_length in Hvin by assumption;
                rewrite insert_at_length in Hvin; lia).
      all: rewrite Es in Ebug, Ebug'; cbn [andb] in Ebug, Ebug'; apply Nat.leb_gt in Ebug, Ebug';
           apply andb_true_iff in H; destruct H as [H1 H2]; apply Nat.leb_le in H1;
           apply lvout_single_eq in Hvout; [|assumption..]; destruct Hvout as [Hvout _];
           destruct (Nat.leb_spec j idx); lia.
    + (* MInRemove *) destruct Heff as [Hlt Hne]. pose proof Hinp' as Hi2. rewrite nth_error_remove_shift, Hinp in Hi2 by exact Hne.
      injection Hi2 as <-. lflags ht H.
      all: try (apply (f_equal (@length _)) in Hvin; rewrite !lvin_length in Hvin by assumption;
                rewrite remove_at_length in Hvin by exact Hlt; lia).
      all: rewrite Es in Ebug, Ebug'; cbn [andb] in Ebug, Ebug'; apply Nat.leb_gt in Ebug, Ebug';
           apply andb_true_iff in H; destruct H as [H1 H2]; apply Nat.ltb_lt in H1;
           apply lvout_single_eq in Hvout; [|assumption..]; destruct Hvout as [Hvout _];
           destruct (Nat.ltb_spec j idx); lia.
    + (* MSpentValue *) discriminate.
    + (* MSpentScript *) rewrite Hinp in Hinp'. injection Hinp' as <-.
      apply (lvin_eq_signed _ _ _ _ _ _ _ _ Hinp Hinp) in Hvin. apply (f_equal ti_script_sig) in Hvin. cbn in Hvin. congruence.
Qed.

Theorem commit_sensitive_legacy_pos c ht m inp : committed_in AlgLegacy ht c m = true -> effective m c ->
  nth_error (t_vin (sc_tx c)) (sc_idx c) = Some inp ->
  wf_ctx c -> wf_ctx (apply_mutation m c) -> ht < two32 ->
  matching_output_moves AlgLegacy ht m c ->
  let c' := apply_mutation m c in
  legacy_signature_hash (sc_code c') (sc_tx c') (sc_idx c') ht <> legacy_signature_hash (sc_code c) (sc_tx c) (sc_idx c) ht.
Proof.
  intros H He Hinp W W' Hht Hmv c' Heq. unfold c' in Heq. rewrite !legacy_digest_factors in Heq.
  apply legacy_digest_injective in Heq; try (apply wf_ctx_lview; assumption).
  revert Heq. eapply legacy_view_sensitive_pos; eauto.
Qed.

Lemma none_not_single' ht : is_single ht = true -> is_none ht = false.
Proof. intros Es. destruct (is_none ht) eqn:En; [|reflexivity]. rewrite (none_not_single ht En) in Es. discriminate. Qed.

(** * the new hypothesis follows from the old ones: the theorems above subsume [commit_sensitive_forkid/_legacy] *)
Theorem NoDup_matching_output_moves alg c ht m : committed_in alg ht c m = true -> effective m c ->
  NoDup (t_vout (sc_tx c)) -> NoDup (t_vout (sc_tx (apply_mutation m c))) ->
  matching_output_moves alg ht m c.
Proof.
  unfold committed_in, committed, matching_output_moves, matching_output. intros H Heff Nd Nd'.
  destruct c as [tx idx code amt].
  destruct m; try exact I;
    cbn [apply_mutation with_tx with_vin with_vout sc_tx sc_idx sc_code sc_amount t_vin t_vout t_version t_locktime
         effective applicable field_of] in *.
  - (* MOutInsert *) intros Es Heq. pose proof (none_not_single' ht Es) as En.
    assert (Hr : (j <= idx <= length (t_vout tx))%nat).
    { unfold CommitSpec.legacy_single_bug in H. destruct alg; rewrite ?Es in H; cbn [andb committed_rules] in H.
      - rewrite En, Es in H. apply andb_true_iff in H. destruct H as [H1 H2]. apply Nat.leb_le in H1, H2. lia.
      - destruct (Nat.leb_spec (length (t_vout tx)) idx).
        + apply Nat.eqb_eq in H. lia.
        + rewrite En, Es in H. apply andb_true_iff in H. destruct H as [H1 H2]. apply Nat.leb_le in H1, H2. lia. }
    assert (E : nth_error (t_vout tx) idx = nth_error (insert_at j o (t_vout tx)) (S idx))
      by (rewrite nth_error_insert_at by exact Heff; destruct (Nat.ltb_spec (S idx) j); [lia|];
          destruct (Nat.eqb_spec (S idx) j); [lia|reflexivity]).
    rewrite E in Heq. revert Heq. apply NoDup_nth_error_neq; [assumption | rewrite insert_at_length; lia | lia].
  - (* MOutRemove *) intros Es Heq. pose proof (none_not_single' ht Es) as En.
    assert (Hr : (j <= idx < length (t_vout tx))%nat).
    { unfold CommitSpec.legacy_single_bug in H. destruct alg; rewrite ?Es in H; cbn [andb committed_rules] in H.
      - rewrite En, Es in H. apply andb_true_iff in H. destruct H as [H1 H2]. apply Nat.leb_le in H1. apply Nat.ltb_lt in H2. lia.
      - destruct (Nat.leb_spec (length (t_vout tx)) idx); [discriminate|].
        rewrite En, Es in H. apply andb_true_iff in H. destruct H as [H1 H2]. apply Nat.leb_le in H1. lia. }
    rewrite nth_error_remove_at in Heq. destruct (Nat.ltb_spec idx j); [lia|].
    symmetry in Heq. revert Heq. apply NoDup_nth_error_neq; [assumption | lia | lia].
  - (* MInInsert *) intros -> Es Eacp Heq. pose proof (none_not_single' ht Es) as En.
    cbn [CommitSpec.legacy_single_bug committed_rules] in H. rewrite Es, Eacp in H. cbn [negb orb andb] in H.
    apply andb_true_iff in H. destruct H as [H1 H2]. apply Nat.leb_le in H1. apply Nat.ltb_lt in H2.
    destruct (Nat.leb_spec j idx); [|lia]. symmetry in Heq. revert Heq. apply NoDup_nth_error_neq; [assumption | lia | lia].
  - (* MInRemove *) intros -> Es Eacp Heq. pose proof (none_not_single' ht Es) as En.
    cbn [CommitSpec.legacy_single_bug committed_rules] in H. rewrite Es, Eacp in H. cbn [negb orb andb] in H.
    apply andb_true_iff in H. destruct H as [H1 H2]. apply Nat.ltb_lt in H1. apply Nat.leb_le in H2.
    destruct (Nat.ltb_spec j idx); [|lia]. revert Heq. apply NoDup_nth_error_neq; [assumption | lia | lia].
Qed.

(** * the hypothesis is necessary: the same output at the signed position = the same view, preimage, digest *)
Definition shifts_matching_output (ht : N) (m : mutation) : Prop :=
  match m with
  | MOutInsert _ _ | MOutRemove _ => True
  | MInInsert _ _ | MInRemove _ => anyone_can_pay ht = true
  | _ => False
  end.

Theorem single_same_matching_output_same_forkid_view c ht m :
  is_single ht = true -> applicable m c -> shifts_matching_output ht m ->
  matching_output (apply_mutation m c) = matching_output c ->
  forkid_view_of (apply_mutation m c) ht = forkid_view_of c ht.
Proof.
  intros Es Happ Hsh Hsame. rewrite !forkid_view_of_eq. unfold matching_output in Hsame.
  pose proof (is_all_single ht Es) as Ea.
  destruct c as [tx idx code amt]. cbn [sc_tx sc_idx sc_code sc_amount] in *.
  destruct m; cbn [shifts_matching_output] in Hsh; try contradiction;
    cbn [apply_mutation with_tx with_vin with_vout sc_tx sc_idx sc_code sc_amount t_vin t_vout t_version t_locktime applicable] in *.
  - destruct (nth_error (t_vin tx) idx); [|reflexivity]. cbn [option_map]. f_equal.
    apply fview_ext; try reflexivity. apply ov_ext; intros; [congruence|exact Hsame].
  - destruct (nth_error (t_vin tx) idx); [|reflexivity]. cbn [option_map]. f_equal.
    apply fview_ext; try reflexivity. apply ov_ext; intros; [congruence|exact Hsame].
  - rewrite nth_error_insert_shift by exact Happ.
    destruct (nth_error (t_vin tx) idx); [|reflexivity]. cbn [option_map]. f_equal.
    apply fview_ext; try reflexivity; try (intros; congruence). apply ov_ext; intros; [congruence|exact Hsame].
  - destruct Happ as [Hlt Hne]. rewrite nth_error_remove_shift by exact Hne.
    destruct (nth_error (t_vin tx) idx); [|reflexivity]. cbn [option_map]. f_equal.
    apply fview_ext; try reflexivity; try (intros; congruence). apply ov_ext; intros; [congruence|exact Hsame].
Qed.

Corollary single_same_matching_output_same_forkid_preimage c ht m :
  is_single ht = true -> applicable m c -> shifts_matching_output ht m ->
  matching_output (apply_mutation m c) = matching_output c ->
  let c' := apply_mutation m c in
  forkid_preimage (sc_tx c') (sc_idx c') (sc_code c') (sc_amount c') ht =
  forkid_preimage (sc_tx c) (sc_idx c) (sc_code c) (sc_amount c) ht.
Proof.
  intros Es Ha Hs Hsame c'. unfold c'.
  rewrite !forkid_preimage_factors, single_same_matching_output_same_forkid_view by assumption. reflexivity.
Qed.

Lemma nth_error_same_leb {A} (l l' : list A) i : nth_error l' i = nth_error l i ->
  Nat.leb (length l') i = Nat.leb (length l) i.
Proof.
  intros H. destruct (Nat.leb_spec (length l) i) as [Hl|Hl].
  - apply nth_error_None in Hl. rewrite Hl in H. apply nth_error_None in H. apply Nat.leb_le. exact H.
  - apply Nat.leb_gt. apply nth_error_Some. rewrite H. apply nth_error_Some. exact Hl.
Qed.

(** legacy: output insertion / removal (an input shift is always visible there) *)
Theorem single_same_matching_output_same_legacy_view c ht m :
  is_single ht = true -> applicable m c ->
  match m with MOutInsert _ _ | MOutRemove _ => True | _ => False end ->
  matching_output (apply_mutation m c) = matching_output c ->
  legacy_view_of (apply_mutation m c) ht = legacy_view_of c ht.
Proof.
  intros Es Happ Hsh Hsame. rewrite !legacy_view_of_eq. unfold matching_output in Hsame.
  destruct c as [tx idx code amt]. cbn [sc_tx sc_idx sc_code sc_amount] in *.
  destruct m; try contradiction;
    cbn [apply_mutation with_tx with_vin with_vout sc_tx sc_idx sc_code sc_amount t_vin t_vout t_version t_locktime applicable] in *.
  - destruct (nth_error (t_vin tx) idx); [|reflexivity]. rewrite (nth_error_same_leb _ _ _ Hsame).
    destruct (_ && _); [reflexivity|]. f_equal. f_equal.
    apply lvout_ext; intros; [pose proof (is_all_single ht Es); congruence|split; [reflexivity|exact Hsame]].
  - destruct (nth_error (t_vin tx) idx); [|reflexivity]. rewrite (nth_error_same_leb _ _ _ Hsame).
    destruct (_ && _); [reflexivity|]. f_equal. f_equal.
    apply lvout_ext; intros; [pose proof (is_all_single ht Es); congruence|split; [reflexivity|exact Hsame]].
Qed.

Corollary single_same_matching_output_same_legacy_digest c ht m :
  is_single ht = true -> applicable m c ->
  match m with MOutInsert _ _ | MOutRemove _ => True | _ => False end ->
  matching_output (apply_mutation m c) = matching_output c ->
  let c' := apply_mutation m c in
  legacy_signature_hash (sc_code c') (sc_tx c') (sc_idx c') ht = legacy_signature_hash (sc_code c) (sc_tx c) (sc_idx c) ht.
Proof.
  intros Es Ha Hs Hsame c'. unfold c'.
  rewrite !legacy_digest_factors, single_same_matching_output_same_legacy_view by assumption. reflexivity.
Qed.

(** * on the library model *)
Definition matching_output_moves_tx (alg : digest_alg) (ht : N) (m : mutation) (t : tx) (i : nat) : Prop :=
  let t' := fst (apply_tx m t i) in let i' := snd (apply_tx m t i) in
  match m with
  | MOutInsert _ _ | MOutRemove _ =>
      is_single ht = true -> nth_error (tx_outs t') i' <> nth_error (tx_outs t) i
  | MInInsert _ _ | MInRemove _ =>
      alg = AlgForkid -> is_single ht = true -> anyone_can_pay ht = true ->
      nth_error (tx_outs t') i' <> nth_error (tx_outs t) i
  | _ => True
  end.

Lemma matching_output_sign_ctx_of u k :
  matching_output (sign_ctx_of u k) = option_map wire_out (nth_error (tx_outs u) k).
Proof.
  unfold matching_output, sign_ctx_of. destruct (nth_error (tx_ins u) k); cbn [sc_tx sc_idx wire_tx t_vout]; apply nth_error_map.
Qed.

Lemma option_map_wire_out_inj a b : option_map wire_out a = option_map wire_out b -> a = b.
Proof.
  destruct a as [[v s]|], b as [[v' s']|]; cbn; intros H; try discriminate; [|reflexivity].
  injection H as -> ->. reflexivity.
Qed.

Lemma matching_output_moves_of_tx alg ht m t i : signable t i -> applicable m (sign_ctx_of t i) ->
  matching_output_moves_tx alg ht m t i -> matching_output_moves alg ht m (sign_ctx_of t i).
Proof.
  intros S Ha H. unfold matching_output_moves_tx in H. cbv zeta in H.
  assert (K : nth_error (tx_outs (fst (apply_tx m t i))) (snd (apply_tx m t i)) <> nth_error (tx_outs t) i ->
              matching_output (apply_mutation m (sign_ctx_of t i)) <> matching_output (sign_ctx_of t i)).
  { intros Hn Heq. apply Hn. rewrite <- (signable_ctx t i m S Ha), !matching_output_sign_ctx_of in Heq.
    apply option_map_wire_out_inj. exact Heq. }
  destruct m; cbn [matching_output_moves]; try exact I; intros; apply K; auto.
Qed.

Theorem model_commit_sensitive_forkid_mod_collisions_pos t i ht m : ht < 256 ->
  let t' := fst (apply_tx m t i) in let i' := snd (apply_tx m t i) in
  signable t i -> signable t' i' ->
  committed_in AlgForkid ht (sign_ctx_of t i) m = true -> effective m (sign_ctx_of t i) ->
  matching_output_moves_tx AlgForkid ht m t i ->
  exists v v',
    fst (calc_input_preimage t (N.of_nat i) ht) = SOk (assemble (components_of v)) /\
    fst (calc_input_preimage t' (N.of_nat i') ht) = SOk (assemble (components_of v')) /\
    components_of v' <> components_of v /\
    (no_collision (fc_prevouts (components_of v')) (fc_prevouts (components_of v)) ->
     no_collision (fc_sequences (components_of v')) (fc_sequences (components_of v)) ->
     no_collision (fc_outputs (components_of v')) (fc_outputs (components_of v)) ->
     fst (calc_input_preimage t' (N.of_nat i') ht) <> fst (calc_input_preimage t (N.of_nat i) ht)).
Proof.
  intros Hht t' i' S S' Hc He Hmv. subst t' i'.
  pose proof (wf_tx_ctx _ i (proj1 S)) as W. pose proof (wf_tx_ctx _ (snd (apply_tx m t i)) (proj1 S')) as W'.
  pose proof (effective_applicable _ _ He) as Ha.
  pose proof (model_forkid_preimage t i ht Hht S) as P. pose proof (model_forkid_preimage _ _ ht Hht S') as P'.
  cbv zeta in P, P'. rewrite forkid_preimage_factors in P, P'.
  pose proof (signable_ctx t i m S Ha) as E. rewrite E in P', W'.
  assert (Hin : exists inp, nth_error (t_vin (sc_tx (sign_ctx_of t i))) (sc_idx (sign_ctx_of t i)) = Some inp).
  { destruct S as (_ & _ & _ & inp & sc & Hinp & Hsc). unfold sign_ctx_of. rewrite Hinp. unfold wire_tx. cbn [sc_tx sc_idx t_vin].
    rewrite nth_error_map, Hinp. cbn [option_map]. eauto. }
  destruct Hin as [winp Hwinp].
  assert (Hht32 : ht < two32) by (unfold two32; lia).
  destruct (commit_sensitive_forkid_pos _ ht m winp Hc He Hwinp W W' Hht32
              (matching_output_moves_of_tx _ ht m t i S Ha Hmv)) as (v & v' & Ev & Ev' & Hd).
  pose proof (wf_ctx_fview _ ht v W Hht32 Ev) as Wv. pose proof (wf_ctx_fview _ ht v' W' Hht32 Ev') as Wv'.
  exists v, v'. rewrite Ev in P. rewrite Ev' in P'. cbn [option_map] in P, P'.
  assert (P0 : SOk (assemble (components_of v)) = fst (calc_input_preimage t (N.of_nat i) ht)) by congruence.
  assert (P0' : SOk (assemble (components_of v')) =
                fst (calc_input_preimage (fst (apply_tx m t i)) (N.of_nat (snd (apply_tx m t i))) ht)) by congruence.
  clear P P'. rename P0 into P. rename P0' into P'.
  split; [congruence|]. split; [congruence|]. split; [exact Hd|].
  intros N1 N2 N3 Heq. rewrite <- P, <- P' in Heq.
  assert (Heq' : assemble (components_of v') = assemble (components_of v)) by congruence.
  exact (forkid_preimage_sensitive_mod_collisions v v' Wv Wv' Hd N1 N2 N3 Heq').
Qed.

Theorem model_commit_sensitive_forkid_pos t i ht m : ht < 256 ->
  let t' := fst (apply_tx m t i) in let i' := snd (apply_tx m t i) in
  signable t i -> signable t' i' ->
  committed_in AlgForkid ht (sign_ctx_of t i) m = true -> effective m (sign_ctx_of t i) ->
  matching_output_moves_tx AlgForkid ht m t i ->
  exists v v',
    fst (calc_input_preimage t (N.of_nat i) ht) = SOk (assemble (components_of v)) /\
    fst (calc_input_preimage t' (N.of_nat i') ht) = SOk (assemble (components_of v')) /\
    components_of v' <> components_of v.
Proof.
  intros Hht t' i' S S' Hc He Hmv.
  destruct (model_commit_sensitive_forkid_mod_collisions_pos t i ht m Hht S S' Hc He Hmv) as (v & v' & A & B & C & _).
  exists v, v'. auto.
Qed.

Theorem model_commit_sensitive_legacy_pos t i ht m : ht < 256 ->
  let t' := fst (apply_tx m t i) in let i' := snd (apply_tx m t i) in
  signable t i -> signable t' i' ->
  committed_in AlgLegacy ht (sign_ctx_of t i) m = true -> effective m (sign_ctx_of t i) ->
  matching_output_moves_tx AlgLegacy ht m t i ->
  fst (calc_input_preimage_legacy t' (N.of_nat i') ht) <> fst (calc_input_preimage_legacy t (N.of_nat i) ht).
Proof.
  intros Hht t' i' S S' Hc He Hmv Heq. subst t' i'.
  pose proof (wf_tx_ctx _ i (proj1 S)) as W. pose proof (wf_tx_ctx _ (snd (apply_tx m t i)) (proj1 S')) as W'.
  pose proof (effective_applicable _ _ He) as Ha.
  rewrite (model_legacy_preimage t i ht Hht S), (model_legacy_preimage _ _ ht Hht S') in Heq. cbv zeta in Heq.
  pose proof (signable_ctx t i m S Ha) as E.
  assert (Hin : forall u k, signable u k -> exists inp, nth_error (t_vin (sc_tx (sign_ctx_of u k))) (sc_idx (sign_ctx_of u k)) = Some inp /\
                                                     length (op_hash (ti_prevout inp)) = 32%nat).
  { intros u k (Hwf & _ & _ & inp & sc & Hinp & Hsc). unfold sign_ctx_of. rewrite Hinp. unfold wire_tx. cbn [sc_tx sc_idx t_vin].
    rewrite nth_error_map, Hinp. cbn [option_map]. eexists; split; [reflexivity|]. cbn. rewrite rev_length. apply (wf_tx_txid u inp k Hwf Hinp). }
  destruct (Hin t i S) as (winp & Hwinp & L). destruct (Hin _ _ S') as (winp' & Hwinp' & L').
  apply (sres_of_digest_inj _ _ _ _ _ _ _ _ _ Hwinp L Hwinp' L') in Heq.
  rewrite E in Heq, W'. revert Heq.
  apply (commit_sensitive_legacy_pos _ ht m winp Hc He Hwinp W W' ltac:(unfold two32; lia)).
  apply matching_output_moves_of_tx; assumption.
Qed.

(** under ALL (more generally: not SINGLE) nothing is asked: duplicates or not, every effective mutation of a
    committed field changes the pre-hash bytes - in particular inserting a copy of an existing output next to
    it, and removing one of two identical outputs (the count varint and the total length change) *)
Corollary model_commit_sensitive_forkid_not_single t i ht m : ht < 256 -> is_single ht = false ->
  let t' := fst (apply_tx m t i) in let i' := snd (apply_tx m t i) in
  signable t i -> signable t' i' ->
  committed_in AlgForkid ht (sign_ctx_of t i) m = true -> effective m (sign_ctx_of t i) ->
  exists v v',
    fst (calc_input_preimage t (N.of_nat i) ht) = SOk (assemble (components_of v)) /\
    fst (calc_input_preimage t' (N.of_nat i') ht) = SOk (assemble (components_of v')) /\
    components_of v' <> components_of v.
Proof.
  intros Hht Es t' i' S S' Hc He. apply model_commit_sensitive_forkid_pos; try assumption.
  unfold matching_output_moves_tx. destruct m; cbv zeta; try exact I; intros; congruence.
Qed.
Corollary model_commit_sensitive_legacy_not_single t i ht m : ht < 256 -> is_single ht = false ->
  let t' := fst (apply_tx m t i) in let i' := snd (apply_tx m t i) in
  signable t i -> signable t' i' ->
  committed_in AlgLegacy ht (sign_ctx_of t i) m = true -> effective m (sign_ctx_of t i) ->
  fst (calc_input_preimage_legacy t' (N.of_nat i') ht) <> fst (calc_input_preimage_legacy t (N.of_nat i) ht).
Proof.
  intros Hht Es t' i' S S' Hc He. apply model_commit_sensitive_legacy_pos; try assumption.
  unfold matching_output_moves_tx. destruct m; cbv zeta; try exact I; intros; congruence.
Qed.

(** the same output at the signed position: CalcInputPreimage / CalcInputSignatureHash return the SAME bytes *)
Theorem model_single_same_matching_output_same_preimage t i ht m : ht < 256 -> is_single ht = true ->
  let t' := fst (apply_tx m t i) in let i' := snd (apply_tx m t i) in
  signable t i -> signable t' i' -> applicable m (sign_ctx_of t i) -> shifts_matching_output ht m ->
  nth_error (tx_outs t') i' = nth_error (tx_outs t) i ->
  fst (calc_input_preimage t' (N.of_nat i') ht) = fst (calc_input_preimage t (N.of_nat i) ht).
Proof.
  intros Hht Es t' i' S S' Ha Hsh Hsame. subst t' i'.
  pose proof (model_forkid_preimage t i ht Hht S) as P. pose proof (model_forkid_preimage _ _ ht Hht S') as P'.
  cbv zeta in P, P'. rewrite (signable_ctx t i m S Ha) in P'.
  assert (Hm : matching_output (apply_mutation m (sign_ctx_of t i)) = matching_output (sign_ctx_of t i)).
  { rewrite <- (signable_ctx t i m S Ha), !matching_output_sign_ctx_of, Hsame. reflexivity. }
  pose proof (single_same_matching_output_same_forkid_preimage _ ht m Es Ha Hsh Hm) as E. cbv zeta in E.
  rewrite E in P'. congruence.
Qed.

(** * concrete witnesses: the statements without any hypothesis on the outputs are false *)
Definition dup_out : txout := mkTxOut 1000 [x51].
Definition dup_in (b : byte) : txin := mkTxIn (mkOutPoint (repeat_byte 32 b) 0) [] 4294967295.
Definition dup_ctx : sign_ctx :=
  mkSignCtx (mkTransaction 1 [dup_in xab] [dup_out; dup_out] 0) 0 [x76; xa9; x88; xac] 5000.

Lemma dup_wf : forall m, In m [MOutInsert 0 dup_out; MOutInsert 1 dup_out; MOutRemove 0; MInInsert 0 (dup_in x11)] ->
  wf_ctx dup_ctx /\ wf_ctx (apply_mutation m dup_ctx).
Proof.
  intros m Hm. cbn [In] in Hm.
  assert (Wi : forall b, wf_txin (dup_in b)).
  { intros b. unfold wf_txin, wf_outpoint, dup_in. cbn [ti_prevout op_hash op_n ti_script_sig ti_sequence].
    rewrite repeat_byte_length. repeat split; unfold lenN, two32, two64; cbn; lia. }
  assert (Wo : wf_txout dup_out) by (unfold wf_txout, dup_out, lenN, two64; cbn; lia).
  destruct Hm as [<-|[<-|[<-|[<-|[]]]]]; (split; [|unfold dup_ctx; cbn [apply_mutation with_tx with_vout with_vin sc_tx sc_idx sc_code sc_amount
      t_vin t_vout t_version t_locktime insert_at remove_at firstn skipn app Nat.leb]]);
    unfold wf_ctx, wf_transaction, dup_ctx; cbn [sc_tx sc_code sc_amount t_version t_locktime t_vin t_vout length];
    repeat split; repeat constructor; try apply Wi; try apply Wo; unfold lenN, two32, two64; cbn; lia.
Qed.

(** SINGLE|FORKID (0x43) and SINGLE|ANYONECANPAY|FORKID (0xc3), input 0 of a transaction with two identical
    outputs: a copy inserted at the signed position, the first of the two removed, an input inserted in front under ANYONECANPAY: [committed] says committed, the mutation is
    effective, the contexts are well formed - and view and preimage are the same *)
Theorem commit_sensitive_forkid_without_NoDup_refuted :
  forall ht m, In (ht, m) [(0x43, MOutInsert 0 dup_out); (0x43, MOutRemove 0); (0xc3, MOutInsert 0 dup_out);
                           (0xc3, MInInsert 0 (dup_in x11))] ->
  let c := dup_ctx in let c' := apply_mutation m c in
  committed_in AlgForkid ht c m = true /\ effective m c /\
  nth_error (t_vin (sc_tx c)) (sc_idx c) = Some (dup_in xab) /\ wf_ctx c /\ wf_ctx c' /\ ht < two32 /\
  forkid_view_of c' ht = forkid_view_of c ht /\
  forkid_preimage (sc_tx c') (sc_idx c') (sc_code c') (sc_amount c') ht =
  forkid_preimage (sc_tx c) (sc_idx c) (sc_code c) (sc_amount c) ht.
Proof.
  intros ht m Hm c c'. subst c c'. cbn [In] in Hm.
  destruct Hm as [E|[E|[E|[E|[]]]]]; injection E as <- <-.
  all: split; [vm_compute; reflexivity|]; split; [cbn; lia|]; split; [reflexivity|].
  all: split; [apply (dup_wf (MOutRemove 0)); cbn; auto|].
  all: split; [match goal with |- wf_ctx (apply_mutation ?m _) => apply (dup_wf m); cbn; auto end|].
  all: split; [unfold two32; lia|].
  all: split; [|rewrite !forkid_preimage_factors; f_equal];
       (apply single_same_matching_output_same_forkid_view; [vm_compute; reflexivity | cbn; lia | cbn; try exact I; vm_compute; reflexivity | reflexivity]).
Qed.

(** legacy SINGLE (0x03) and SINGLE|ANYONECANPAY (0x83): the same for output insertion / removal *)
Theorem commit_sensitive_legacy_without_NoDup_refuted :
  forall ht m, In (ht, m) [(0x03, MOutInsert 0 dup_out); (0x03, MOutRemove 0); (0x83, MOutInsert 0 dup_out)] ->
  let c := dup_ctx in let c' := apply_mutation m c in
  committed_in AlgLegacy ht c m = true /\ effective m c /\
  nth_error (t_vin (sc_tx c)) (sc_idx c) = Some (dup_in xab) /\ wf_ctx c /\ wf_ctx c' /\ ht < two32 /\
  legacy_signature_hash (sc_code c') (sc_tx c') (sc_idx c') ht = legacy_signature_hash (sc_code c) (sc_tx c) (sc_idx c) ht.
Proof.
  intros ht m Hm c c'. subst c c'. cbn [In] in Hm.
  destruct Hm as [E|[E|[E|[]]]]; injection E as <- <-.
  all: split; [vm_compute; reflexivity|]; split; [cbn; lia|]; split; [reflexivity|].
  all: split; [apply (dup_wf (MOutRemove 0)); cbn; auto|].
  all: split; [match goal with |- wf_ctx (apply_mutation ?m _) => apply (dup_wf m); cbn; auto end|].
  all: split; [unfold two32; lia|].
  all: apply single_same_matching_output_same_legacy_digest; [vm_compute; reflexivity | cbn; lia | exact I | reflexivity].
Qed.

(** ... while under ALL|FORKID the very same mutations of the very same transaction do change the committed
    outputs: the new hypothesis is met trivially (non-vacuity of the [_pos] theorems on duplicate outputs),
    and so does a mutation under SINGLE that puts a DIFFERENT output at the signed position *)
Example matching_output_moves_satisfiable_with_duplicates :
  ~ NoDup (t_vout (sc_tx dup_ctx)) /\
  (forall m, matching_output_moves AlgForkid 0x41 m dup_ctx) /\
  committed_in AlgForkid 0x41 dup_ctx (MOutInsert 0 dup_out) = true /\ effective (MOutInsert 0 dup_out) dup_ctx /\
  committed_in AlgForkid 0x41 dup_ctx (MOutRemove 0) = true /\ effective (MOutRemove 0) dup_ctx /\
  matching_output_moves AlgForkid 0x43 (MOutInsert 0 (mkTxOut 7 [x51])) dup_ctx /\
  committed_in AlgForkid 0x43 dup_ctx (MOutInsert 0 (mkTxOut 7 [x51])) = true.
Proof.
  split. { intros H. inversion H as [|? ? Hn _]; subst. apply Hn. left. reflexivity. }
  split. { intros m. apply matching_output_moves_not_single. vm_compute. reflexivity. }
  repeat split; try (vm_compute; reflexivity); try (cbn; lia).
  cbn [matching_output_moves]. intros _. vm_compute. discriminate.
Qed.

(** the same on the library model: CalcInputPreimage / CalcInputPreimageLegacy / CalcInputSignatureHash of the
    mutated go-bt object return the bytes they returned before *)
Definition dup_tx : tx :=
  mkTx 1 [mkInput (repeat_byte 32 xab) 0 [] 4294967295 5000 (Some [x76; xa9; x88; xac])]
         [mkOutput 1000 [x51]; mkOutput 1000 [x51]] 0.

Ltac wfs := repeat match goal with
  | |- _ /\ _ => split
  | |- Forall _ _ => constructor
  | |- exists _, _ => eexists
  | |- True => exact I
  | |- _ => vm_compute; reflexivity
  end.

Lemma dup_tx_signable : forall m, In m [MOutInsert 0 dup_out; MOutRemove 0; MInInsert 0 (dup_in x11)] ->
  signable dup_tx 0 /\ signable (fst (apply_tx m dup_tx 0)) (snd (apply_tx m dup_tx 0)).
Proof.
  intros m Hm. cbn [In] in Hm.
  destruct Hm as [<-|[<-|[<-|[]]]]; split; unfold signable, wf_tx, wf_input, wf_output, wf_script, dup_tx, dup_out, dup_in;
    cbn [apply_tx fst snd tx_with_outs tx_with_ins tx_ins tx_outs tx_version tx_lock insert_at remove_at firstn skipn app
         unwire_out unwire_in Nat.leb to_value to_script ti_prevout op_hash op_n ti_script_sig ti_sequence length
         in_txid in_vout in_seq in_sats in_unlock in_script out_sats out_script nth_error].
  all: wfs.
Qed.

Theorem model_commit_sensitive_without_NoDup_refuted :
  forall ht m, In (ht, m) [(0x43, MOutInsert 0 dup_out); (0x43, MOutRemove 0); (0xc3, MInInsert 0 (dup_in x11));
                           (0x03, MOutInsert 0 dup_out); (0x03, MOutRemove 0)] ->
  let alg := if has_forkid ht then AlgForkid else AlgLegacy in
  let t' := fst (apply_tx m dup_tx 0) in let i' := snd (apply_tx m dup_tx 0) in
  ht < 256 /\ signable dup_tx 0 /\ signable t' i' /\
  committed_in alg ht (sign_ctx_of dup_tx 0) m = true /\ effective m (sign_ctx_of dup_tx 0) /\
  (if has_forkid ht then fst (calc_input_preimage t' (N.of_nat i') ht) = fst (calc_input_preimage dup_tx 0 ht)
   else fst (calc_input_preimage_legacy t' (N.of_nat i') ht) = fst (calc_input_preimage_legacy dup_tx 0 ht)) /\
  fst (calc_input_signature_hash t' (N.of_nat i') ht) = fst (calc_input_signature_hash dup_tx 0 ht).
Proof.
  intros ht m Hm. cbn [In] in Hm.
  destruct Hm as [E|[E|[E|[E|[E|[]]]]]]; injection E as <- <-; cbv zeta.
  all: split; [reflexivity|].
  all: split; [apply (dup_tx_signable (MOutRemove 0)); cbn [In]; auto|].
  all: split; [match goal with |- signable (fst (apply_tx ?m _ _)) _ => apply (dup_tx_signable m); cbn [In]; auto end|].
  all: split; [vm_compute; reflexivity|].
  all: split; [vm_compute; lia|].
  all: split; vm_compute; reflexivity.
Qed.
