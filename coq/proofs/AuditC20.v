(** Audit C additions for C20 (ordinals flows): clause 4 (fee) end to end on the returned transaction;
    seller protection against an arbitrary bid; the bidder's SINGLE|FORKID digests survive acceptance. *)
From Coq Require Import List NArith ZArith Lia Bool.
From Coq Require Import Strings.Byte.
From GoBT Require Import lib.Bytes lib.VarInt model.Tx gen.Consts spec.FeeSpec model.Fees model.Change
  spec.DigestSpec model.SigHash model.SigHashWire proofs.SigHashProofs proofs.FeesProofs
  spec.OrdSpec model.Ord proofs.OrdProofs.
Import ListNotations.
Local Open Scope N_scope. Local Open Scope bool_scope.

Lemma floor_fee_le' n r : floor_fee n r <= n * r_sat r.
Proof.
  destruct (N.eq_dec (r_bytes r) 0) as [E|E]; [|apply floor_fee_le; exact E].
  unfold floor_fee. rewrite E. destruct (n * r_sat r); cbn; lia.
Qed.

(* an input of T is the corresponding input of A or its unsigned version *)
Definition un_or_same (a b : input) : Prop := same_prev a b /\ (b = a \/ unsigned a = true).

Lemma un_or_same_len a b : un_or_same a b -> lenN (input_bytes false a) <= lenN (input_bytes false b).
Proof.
  intros [(T & _) [->|U]]; [lia|]. rewrite !lenN_input_bytes, T. rewrite (unsigned_len a U).
  pose proof (varint_len_mono 0 (lenN (in_unlock b)) ltac:(lia)). lia.
Qed.

Lemma un_or_same_wf a b : un_or_same a b -> wf_input b -> wf_input a.
Proof.
  intros [(T & V & S & Sa & Sc) [->|U]] (W1 & W2 & W3 & W4 & W5 & W6); [repeat split; assumption|].
  unfold wf_input. rewrite T, V, S, Sa, Sc. repeat split; try assumption.
  unfold wf_script. rewrite (unsigned_len a U). reflexivity.
Qed.

Lemma fee_fits_of_bound q T A te : wf_tx T -> ~ ambiguous T ->
  Forall2 un_or_same (tx_ins T) (tx_ins A) -> tx_outs A = tx_outs T ->
  (forall sf df, q_std q = Some sf -> q_data q = Some df ->
     size_bound A 0 * r_sat sf + size_bound A 0 * r_sat df < two64) ->
  estimated_final_tx T = FOk te -> fee_fits q te.
Proof.
  intros W Amb F O B E sf df Qs Qd. specialize (B sf df Qs Qd). cbv zeta.
  pose proof (est_size_le_bound T te W Amb E) as S1.
  assert (S2 : size_bound T 0 <= size_bound A 0).
  { unfold size_bound. rewrite !tx_size_eq, O.
    assert (length (tx_ins T) = length (tx_ins A)) as -> by (eapply Forall2_len; exact F).
    assert (ins_len (tx_ins T) <= ins_len (tx_ins A)).
    { induction F as [|a b r r' H _ IH]; [lia|]. rewrite !ins_len_cons. pose proof (un_or_same_len a b H). lia. }
    lia. }
  pose proof (size_partition te) as (_ & P & _). cbv zeta in P.
  assert (T0 : sz_total (size_with_types te) = tx_size te) by reflexivity.
  pose proof (floor_fee_le' (sz_std (size_with_types te)) sf).
  pose proof (floor_fee_le' (sz_data (size_with_types te)) df).
  set (sz := size_with_types te) in *.
  assert (sz_std sz <= size_bound A 0) by lia. assert (sz_data sz <= size_bound A 0) by lia.
  repeat split; nia.
Qed.

(** from "same previous output, and either untouched or formerly unsigned" per input *)
Lemma un_or_same_of_K : forall l l', Forall2 same_prev l l' ->
  (forall k i i', nth_error l k = Some i -> nth_error l' k = Some i' -> unsigned i = true \/ i' = i) ->
  Forall2 un_or_same l l'.
Proof.
  induction 1 as [|a b r r' Hab SPr IH]; intros K; constructor.
  - split; [exact Hab|]. destruct (K 0%nat a b eq_refl eq_refl) as [U|E]; [right; exact U|left; exact E].
  - apply IH. intros k i i' H1 H2. apply (K (S k) i i'); assumption.
Qed.

(** the generic bridge, with hypotheses on the RETURNED transaction [A] only: if the flow checked
    EstimateIsFeePaidEnough on a transaction [T] from which [A] differs only by signer-made unlocking scripts on
    formerly unsigned inputs, the signer's scripts fit the dummy, [A] is well-formed and no product of the fee
    computation on [A] (plus a dummy per input) wraps, then IsFeePaidEnough holds of [A] itself *)
Theorem flow_pays_fee_gen signer T A q :
  estimate_is_fee_paid_enough T q = FOk true ->
  tx_version A = tx_version T -> tx_outs A = tx_outs T -> tx_lock A = tx_lock T ->
  Forall2 same_prev (tx_ins T) (tx_ins A) -> Forall2 (signed_by signer) (tx_ins T) (tx_ins A) ->
  (forall k i i', nth_error (tx_ins T) k = Some i -> nth_error (tx_ins A) k = Some i' -> unsigned i = true \/ i' = i) ->
  tx_ins T <> [] ->
  signer_short signer -> wf_tx A ->
  (forall sf df, q_std q = Some sf -> q_data q = Some df ->
     size_bound A 0 * r_sat sf + size_bound A 0 * r_sat df < two64) ->
  is_fee_paid_enough A q = FOk true.
Proof.
  intros E V O Lk SP G K NE Hs WA B.
  pose proof (un_or_same_of_K _ _ SP K) as F.
  assert (WT : wf_tx T).
  { destruct WA as (W1 & W2 & W3 & W4 & W5 & W6). unfold wf_tx. rewrite <- V, <- Lk, <- O.
    rewrite (Forall2_len _ _ _ F). repeat split; try assumption.
    clear - F W3. induction F as [|a b r r' H _ IH]; constructor.
    - inversion W3; subst. eapply un_or_same_wf; eassumption.
    - inversion W3; subst. apply IH. assumption. }
  assert (AT : ~ ambiguous T) by (intros [X _]; contradiction).
  apply (estimate_to_final_gen signer T A q E O G K Hs WT AT).
  intros te Ete. apply (fee_fits_of_bound q T A te WT AT F O B Ete).
Qed.

Lemma K_of_skip (T A : tx) skip :
  nth_error (tx_ins A) skip = nth_error (tx_ins T) skip ->
  (forall k, k <> skip -> forall i, nth_error (tx_ins T) k = Some i -> unsigned i = true) ->
  forall k i i', nth_error (tx_ins T) k = Some i -> nth_error (tx_ins A) k = Some i' -> unsigned i = true \/ i' = i.
Proof.
  intros K1 U k i i' H1 H2. destruct (Nat.eq_dec k skip) as [->|Hne].
  - right. congruence.
  - left. eapply U; eassumption.
Qed.

Lemma nth_some_nonnil {A} (l : list A) k x : nth_error l k = Some x -> l <> [].
Proof. intros H ->. destruct k; discriminate. Qed.

(** clause 4 end to end, AcceptOrdinalSaleListing *)
Theorem listing_pays_fee signer listed L us buyer dummy chg q A :
  accept_listing signer listed L us buyer dummy chg q = Done A ->
  signer_short signer -> wf_tx A ->
  (forall sf df, q_std q = Some sf -> q_data q = Some df ->
     size_bound A 0 * r_sat sf + size_bound A 0 * r_sat df < two64) ->
  is_fee_paid_enough A q = FOk true.
Proof.
  intros H Hs WA B.
  destruct (flow_fee_enough_listing signer _ _ _ _ _ _ _ _ H) as (T & E & V & O & Lk & SP & G & K1 & U).
  destruct (seller_output_fixed signer _ _ _ _ _ _ _ _ H) as (si & so & _ & _ & _ & I1 & _).
  rewrite I1 in K1. symmetry in K1.
  apply (flow_pays_fee_gen signer T A q E V O Lk SP G); try assumption.
  - apply K_of_skip with (skip := 1%nat); [rewrite I1; symmetry; exact K1|exact U].
  - apply (nth_some_nonnil _ _ _ K1).
Qed.

(** ... AcceptOrdinalSaleListing2Dummies *)
Theorem listing_2d_pays_fee signer listed L us buyer dummy chg q A :
  accept_listing_2d signer listed L us buyer dummy chg q = Done A ->
  signer_short signer -> wf_tx A ->
  (forall sf df, q_std q = Some sf -> q_data q = Some df ->
     size_bound A 0 * r_sat sf + size_bound A 0 * r_sat df < two64) ->
  is_fee_paid_enough A q = FOk true.
Proof.
  intros H Hs WA B.
  destruct (flow_fee_enough_listing_2d signer _ _ _ _ _ _ _ _ H) as (T & E & V & O & Lk & SP & G & K1 & U).
  destruct (seller_output_fixed_2d signer _ _ _ _ _ _ _ _ H) as (si & so & _ & _ & _ & I1 & _).
  rewrite I1 in K1. symmetry in K1.
  apply (flow_pays_fee_gen signer T A q E V O Lk SP G); try assumption.
  - apply K_of_skip with (skip := 2%nat); [rewrite I1; symmetry; exact K1|exact U].
  - apply (nth_some_nonnil _ _ _ K1).
Qed.

(** ... MakeBidToBuy1SatOrdinal then AcceptBidToBuy1SatOrdinal: the accepting seller's ExpectedFQ is paid *)
Theorem bid_pays_fee bidder seller bid otx ov us buyer dummy chg q dprev dpay P ou eq ss A :
  make_bid bidder bid otx ov us buyer dummy chg q dprev dpay = Done P ->
  accept_bid seller ou bid eq P ss = Done A -> wf_tx P -> bid < two64 ->
  signer_short seller -> wf_tx A ->
  (forall sf df, q_std eq = Some sf -> q_data eq = Some df ->
     size_bound A 0 * r_sat sf + size_bound A 0 * r_sat df < two64) ->
  is_fee_paid_enough A eq = FOk true.
Proof.
  intros HM HA W Hb Hs WA B.
  destruct (make_bid_shape bidder _ _ _ _ _ _ _ _ _ _ _ HM)
    as (u0 & rest & co & T0 & _ & _ & _ & _ & _ & _ & _ & _ & KP).
  destruct (accept_bid_shape seller _ _ _ _ _ _ HA W Hb _ eq_refl) as (E & VA & OA & LA & SA & GA & KA & _ & _).
  apply (flow_pays_fee_gen seller _ A eq E VA OA LA SA GA); try assumption.
  - intros k i i' H1 H2. destruct (Nat.eq_dec k 1) as [->|Hk].
    + left. cbn [accepted_unsigned tx_ins] in H1. rewrite (set_in_at_nth _ _ _ _ KP) in H1. injection H1 as <-. reflexivity.
    + right. rewrite (KA k Hk) in H2. congruence.
  - cbn [accepted_unsigned tx_ins]. intros X.
    assert (length (set_in_at (tx_ins P) 1 (fun i => with_prev i (u_script ou) (u_sats ou))) = 0%nat) as Y by (rewrite X; reflexivity).
    rewrite set_in_at_length in Y. apply nth_some_nonnil in KP. destruct (tx_ins P); [contradiction|discriminate].
Qed.

(** ... the two-dummy bid *)
Theorem bid_2d_pays_fee bidder seller bid otx ov us buyer dummy chg q dprev dpay P prevs eq ss A :
  make_bid_2d bidder bid otx ov us buyer dummy chg q dprev dpay = Done P ->
  accept_bid_2d seller prevs bid eq P ss = Done A -> wf_tx P -> bid < two64 ->
  signer_short seller -> wf_tx A ->
  (forall sf df, q_std eq = Some sf -> q_data eq = Some df ->
     size_bound A 0 * r_sat sf + size_bound A 0 * r_sat df < two64) ->
  is_fee_paid_enough A eq = FOk true.
Proof.
  intros HM HA W Hb Hs WA B.
  destruct (make_bid_2d_shape bidder _ _ _ _ _ _ _ _ _ _ _ HM)
    as (u0 & u1 & rest & co & T0 & _ & _ & _ & _ & _ & _ & _ & _ & KP).
  destruct (accept_bid_2d_shape seller _ _ _ _ _ _ HA W Hb) as (ou & _ & HT).
  destruct (HT _ eq_refl) as (E & VA & OA & LA & SA & GA & KA & _ & _).
  apply (flow_pays_fee_gen seller _ A eq E VA OA LA SA GA); try assumption.
  - intros k i i' H1 H2. destruct (Nat.eq_dec k 2) as [->|Hk].
    + left. cbn [accepted_unsigned tx_ins] in H1. rewrite (set_in_at_nth _ _ _ _ KP) in H1. injection H1 as <-. reflexivity.
    + right. rewrite (KA k Hk) in H2. congruence.
  - cbn [accepted_unsigned tx_ins]. intros X.
    assert (length (set_in_at (tx_ins P) 2 (fun i => with_prev i (u_script ou) (u_sats ou))) = 0%nat) as Y by (rewrite X; reflexivity).
    rewrite set_in_at_length in Y. apply nth_some_nonnil in KP. destruct (tx_ins P); [contradiction|discriminate].
Qed.

(** * Seller protection against ANY partially signed bid, and survival of the bidder's signatures *)

(** what the accepted transaction [A] keeps of the bid [P] when output [k] / input [k] are the seller's *)
Definition accepted_keeps (k : nat) (P A : tx) (bid : N) (ss : bytes) : Prop :=
  nth_error (tx_outs A) k = Some (mkOutput bid ss) /\
  (forall j, j <> k -> nth_error (tx_outs A) j = nth_error (tx_outs P) j) /\
  length (tx_outs A) = length (tx_outs P) /\
  tx_version A = tx_version P /\ tx_lock A = tx_lock P /\
  map in_txid (tx_ins A) = map in_txid (tx_ins P) /\ map in_vout (tx_ins A) = map in_vout (tx_ins P) /\
  map in_seq (tx_ins A) = map in_seq (tx_ins P).

Lemma same_prev_maps : forall (l l' : list input), Forall2 same_prev l l' ->
  map in_txid l' = map in_txid l /\ map in_vout l' = map in_vout l /\ map in_seq l' = map in_seq l.
Proof.
  induction 1 as [|a b r r' (X1 & X2 & X3 & _) _ (I1 & I2 & I3)]; cbn [map]; [auto|].
  rewrite I1, I2, I3, X1, X2, X3. auto.
Qed.

Lemma set_in_at_maps : forall (l : list input) k (f : input -> input),
  (forall i, in_txid (f i) = in_txid i /\ in_vout (f i) = in_vout i /\ in_seq (f i) = in_seq i) ->
  map in_txid (set_in_at l k f) = map in_txid l /\ map in_vout (set_in_at l k f) = map in_vout l /\
  map in_seq (set_in_at l k f) = map in_seq l.
Proof.
  induction l as [|i l IH]; intros [|k] f Hf; cbn [set_in_at map]; auto.
  - destruct (Hf i) as (-> & -> & ->). auto.
  - destruct (IH k f Hf) as (-> & -> & ->). auto.
Qed.

Lemma accepted_keeps_of_shape k P A os osats bid ss :
  tx_version A = tx_version (accepted_unsigned k P os osats bid ss) ->
  tx_outs A = tx_outs (accepted_unsigned k P os osats bid ss) ->
  tx_lock A = tx_lock (accepted_unsigned k P os osats bid ss) ->
  Forall2 same_prev (tx_ins (accepted_unsigned k P os osats bid ss)) (tx_ins A) ->
  (k < length (tx_outs P))%nat ->
  accepted_keeps k P A bid ss.
Proof.
  unfold accepted_unsigned, accepted_keeps. cbn [tx_version tx_ins tx_outs tx_lock]. intros V O L SP LO.
  rewrite O. split.
  - destruct (nth_error (tx_outs P) k) as [o|] eqn:E.
    + apply (set_out_at_nth _ _ (fun _ => mkOutput bid ss) _ E).
    + apply nth_error_None in E. lia.
  - split; [intros j Hj; apply set_out_at_nth_other; exact Hj|].
    split; [apply set_out_at_length|]. split; [exact V|]. split; [exact L|].
    destruct (same_prev_maps _ _ SP) as (G1 & G2 & G3). rewrite G1, G2, G3.
    apply set_in_at_maps. intros i. repeat split.
Qed.

(** AcceptBidToBuy1SatOrdinal, for ANY bid [P] (not only one MakeBid produced): output 1 pays the bid to the
    seller's script, every other output and every outpoint / sequence number is the bidder's *)
Theorem accept_bid_seller_paid signer ou bid eq P ss A :
  accept_bid signer ou bid eq P ss = Done A -> wf_tx P -> bid < two64 -> accepted_keeps 1 P A bid ss.
Proof.
  intros H W Hb.
  destruct (accept_bid_shape signer ou bid eq P ss A H W Hb _ eq_refl) as (_ & V & O & L & SP & _ & _ & LI & LO).
  apply (accepted_keeps_of_shape 1 P A _ _ bid ss V O L SP). lia.
Qed.

Theorem accept_bid_2d_seller_paid signer prevs bid eq P ss A :
  accept_bid_2d signer prevs bid eq P ss = Done A -> wf_tx P -> bid < two64 -> accepted_keeps 2 P A bid ss.
Proof.
  intros H W Hb.
  destruct (accept_bid_2d_shape signer prevs bid eq P ss A H W Hb) as (ou & _ & HT).
  destruct (HT _ eq_refl) as (_ & V & O & L & SP & _ & _ & LI & LO).
  apply (accepted_keeps_of_shape 2 P A _ _ bid ss V O L SP). lia.
Qed.

(** the bidder's SINGLE|FORKID signatures (every input but the ordinal's) survive acceptance: the
    specification's digest of input [j] is the same over the bid [P] and over the accepted transaction [A] *)
Lemma keeps_sigs_survive k P A bid ss j sc amount : accepted_keeps k P A bid ss -> j <> k ->
  forkid_preimage (wire_tx P) j sc amount SINGLE_FORKID = forkid_preimage (wire_tx A) j sc amount SINGLE_FORKID.
Proof.
  intros (_ & Oo & _ & V & L & I1 & I2 & I3) Hk.
  assert (Pv : map ti_prevout (t_vin (wire_tx P)) = map ti_prevout (t_vin (wire_tx A))).
  { unfold wire_tx. cbn [t_vin]. rewrite !map_map. unfold wire_in. cbn [ti_prevout].
    clear - I1 I2. revert I1 I2. generalize (tx_ins A) as la. generalize (tx_ins P) as lp.
    induction lp as [|p r IH]; intros [|a r'] X Y; try discriminate; [reflexivity|].
    cbn [map] in *. injection X as X1 X2. injection Y as Y1 Y2. rewrite X1, Y1. f_equal. apply IH; assumption. }
  destruct (nth_error (tx_ins P) j) as [ip|] eqn:EP.
  - assert (exists ia, nth_error (tx_ins A) j = Some ia /\ in_seq ia = in_seq ip) as (ia & EA & Sq).
    { assert (X : nth_error (map in_seq (tx_ins A)) j = nth_error (map in_seq (tx_ins P)) j) by (rewrite I3; reflexivity).
      rewrite !nth_error_map, EP in X. destruct (nth_error (tx_ins A) j) as [ia|]; [|discriminate].
      cbn [option_map] in X. injection X as X. eauto. }
    apply (single_stable (wire_tx P) (wire_tx A) j (wire_in ip) (wire_in ia)); try reflexivity.
    + cbn [wire_tx t_version]. congruence.
    + cbn [wire_tx t_locktime]. congruence.
    + exact Pv.
    + apply wire_nth_in. exact EP.
    + apply wire_nth_in. exact EA.
    + cbn [wire_in ti_sequence]. congruence.
    + rewrite !wire_nth_out. rewrite (Oo j Hk). reflexivity.
  - unfold forkid_preimage.
    assert (nth_error (tx_ins A) j = None) as EA.
    { apply nth_error_None. apply nth_error_None in EP.
      assert (length (tx_ins A) = length (tx_ins P)) by (rewrite <- (map_length in_seq), I3, map_length; reflexivity). lia. }
    cbn [wire_tx t_vin]. rewrite !nth_error_map, EP, EA. reflexivity.
Qed.

Theorem bid_sigs_survive signer ou bid eq P ss A j sc amount :
  accept_bid signer ou bid eq P ss = Done A -> wf_tx P -> bid < two64 -> j <> 1%nat ->
  forkid_preimage (wire_tx P) j sc amount SINGLE_FORKID = forkid_preimage (wire_tx A) j sc amount SINGLE_FORKID.
Proof.
  intros H W Hb Hj. apply (keeps_sigs_survive 1 P A bid ss); [|exact Hj].
  apply (accept_bid_seller_paid signer ou bid eq); assumption.
Qed.

Theorem bid_2d_sigs_survive signer prevs bid eq P ss A j sc amount :
  accept_bid_2d signer prevs bid eq P ss = Done A -> wf_tx P -> bid < two64 -> j <> 2%nat ->
  forkid_preimage (wire_tx P) j sc amount SINGLE_FORKID = forkid_preimage (wire_tx A) j sc amount SINGLE_FORKID.
Proof.
  intros H W Hb Hj. apply (keeps_sigs_survive 2 P A bid ss); [|exact Hj].
  apply (accept_bid_2d_seller_paid signer prevs bid eq); assumption.
Qed.

(** * A finding: the fee clause is relative to values RECORDED in the counter-party's transaction.
    ValidateListingArgs.Validate compares the listed UTXO's txid and index with the listing's input, never its
    value; the statement "the seller's input carries the listed UTXO's value" is false of the flow.  Here the
    listing records 1 000 000 satoshis for a 1-satoshi ordinal; acceptance succeeds, the fee check passes on the
    recorded value (change 1 000 070), and on the real values the transaction spends 1601 satoshis for outputs worth 1 001 571. *)
Definition cx_p2pkh (b : byte) : bytes := [x76; xa9; x14] ++ repeat_byte 20 b ++ [x88; xac].
Definition cx_signer : tx -> N -> N -> option bytes := fun _ _ _ => Some (repeat_byte 107 x01).
Definition cx_quote : quote := mkQuote (Some (mkRate 50 1000)) (Some (mkRate 50 1000)).
Definition cx_listed : utxo := mkUtxo (repeat_byte 32 xaa) 0 (cx_p2pkh x01) 1.
Definition cx_listing : tx :=
  mkTx 1 [mkInput (repeat_byte 32 xaa) 0 (repeat_byte 107 x01) 4294967295 1000000 (Some (cx_p2pkh x01))]
         [mkOutput 1000 (cx_p2pkh x03)] 0.
Definition cx_funding : list utxo :=
  [mkUtxo (repeat_byte 32 xbb) 1 (cx_p2pkh x02) 100; mkUtxo (repeat_byte 32 xcc) 0 (cx_p2pkh x02) 1500].

Theorem listing_recorded_value_unchecked :
  exists A seller_in,
    accept_listing cx_signer (Some cx_listed) cx_listing cx_funding (cx_p2pkh x04) (cx_p2pkh x05) (cx_p2pkh x06) cx_quote = Done A /\
    nth_error (tx_ins A) 1 = Some seller_in /\ in_sats seller_in <> u_sats cx_listed /\
    is_fee_paid_enough A cx_quote = FOk true /\
    (* the real input values: 1500 + 1 + 100 *)
    1500 + u_sats cx_listed + 100 < total_out A.
Proof.
  destruct (accept_listing cx_signer (Some cx_listed) cx_listing cx_funding (cx_p2pkh x04) (cx_p2pkh x05) (cx_p2pkh x06) cx_quote)
    as [A| |] eqn:E; [|vm_compute in E; discriminate..].
  vm_compute in E. injection E as <-.
  eexists. eexists. split; [reflexivity|]. split; [reflexivity|]. split; [vm_compute; discriminate|].
  split; vm_compute; reflexivity.
Qed.
