(** Tx.TotalInputSatoshis (txinput.go), as printed from the Go source, is [total_in] of model/Fees.v: the uint64
    accumulator wraps in both ([go_add U64] / [add64]). *)
From Coq Require Import List ZArith NArith Bool Lia ZifyN ZifyNat ZifyBool.
From Coq Require Import Strings.Byte.
From GoBT Require Import lib.Bytes lib.VarInt lib.GoSem lib.GoTx gen.Funcs proofs.GenFuncsTac proofs.GenFuncsTxTac model.Tx model.Fees.
Import ListNotations.
Ltac Zify.zify_post_hook ::= Z.div_mod_to_equations.
Local Open Scope Z_scope.

Definition sum_step_in (a : Z) (g : go_Input) : Z := go_add U64 a (Input_PreviousTxSatoshis g).

Lemma fold_sum_in ins (a : N) : Forall go_input_ok ins ->
  fold_left sum_step_in ins (Z.of_N a) = Z.of_N (fold_left (fun a i => add64 a (in_sats i)) (map input_of_go ins) a).
Proof.
  intros H. revert a. induction H as [|g r (_ & _ & Hs & _) Hr IH]; intros a; cbn [fold_left map]; [reflexivity|].
  replace (sum_step_in (Z.of_N a) g) with (Z.of_N (add64 a (in_sats (input_of_go g)))); [apply IH|].
  unfold sum_step_in, add64, go_add, go_wrap, two64, input_of_go, u64 in *. cbn [in_sats]. lia.
Qed.

Lemma Tx_TotalInputSatoshis_is_model ins outs ver lock : Forall go_input_ok ins -> len_ok ins ->
  Tx_TotalInputSatoshis (map Some ins) = Val (Z.of_N (total_in (tx_of_go ins outs ver lock))).
Proof.
  intros Hins Hl. unfold Tx_TotalInputSatoshis. tx_norm.
  tx_loop ins sum_step_in go_input_ok Hins;
    [ tx_norm; apply Val_inj; unfold total_in, tx_of_go; cbn [tx_ins]; exact (fold_sum_in ins 0%N Hins)
    | intros i g a Hg; try intros Hidx; tx_norm; reflexivity ].
Qed.
