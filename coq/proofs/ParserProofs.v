(** Proofs about model/Parser.v: the generated opcode table is the push grammar (256-case
    computation, re-checked on every run); Parse never panics / never runs out of fuel; its step is
    the same push grammar as DecodeParts; Unparse inverts Parse on every byte string. *)
From Coq Require Import List NArith Lia ZifyN ZifyNat ZifyBool ZArith Bool String.
From Coq Require Import Strings.Byte.
From GoBT Require Import lib.Bytes lib.Checked gen.OpTable model.Push model.Parser spec.PushSpec proofs.PushProofs.
Import ListNotations.
Ltac Zify.zify_post_hook ::= Z.div_mod_to_equations.
Local Open Scope N_scope.
Local Open Scope bool_scope.

(** ** the generated table *)
Definition expected_len (op : N) : Z :=
  match push_kind op with KOp => 1 | KDirect l => Z.of_N l + 1 | KLen h => - Z.of_nat h end.
Definition table_row_ok (op : N) : bool :=
  (entry_val (op_entry op) =? op) && (op_length op =? expected_len op)%Z.

(** index = value, and the length field follows the push grammar: n+1 for OP_DATA_n, -1/-2/-4 for
    OP_PUSHDATA1/2/4, 1 for everything else — all 256 rows of the table generated from the source *)
Lemma op_table_ok : forallb table_row_ok (map N.of_nat (seq 0 256)) = true.
Proof. vm_compute. reflexivity. Qed.

Lemma op_table_rows : List.length op_table = 256%nat.
Proof. vm_compute. reflexivity. Qed.

Lemma op_table_spec op : op < 256 -> entry_val (op_entry op) = op /\ op_length op = expected_len op.
Proof.
  intros H. pose proof op_table_ok as T. rewrite forallb_forall in T.
  specialize (T op). unfold table_row_ok in T.
  assert (In op (map N.of_nat (seq 0 256))) as Hin.
  { rewrite <- (N2Nat.id op). apply in_map. apply in_seq. lia. }
  apply T in Hin. apply andb_true_iff in Hin as [H1 H2]. split; [lia|lia].
Qed.

(** ** bit operations of the length fields *)
Lemma lor_shift_add x y k : x < 2 ^ k -> N.lor (y * 2 ^ k) x = y * 2 ^ k + x.
Proof.
  intros Hx.
  assert (N.land (y * 2 ^ k) x = 0) as Hland.
  { apply N.bits_inj. intros n. rewrite N.land_spec, N.bits_0.
    destruct (N.lt_ge_cases n k) as [Hn|Hn].
    - rewrite N.mul_pow2_bits_low by exact Hn. reflexivity.
    - destruct (N.eq_dec x 0) as [->|Hx0]; [rewrite N.bits_0; apply andb_false_r|].
      rewrite (N.bits_above_log2 x n); [apply andb_false_r|].
      apply N.lt_le_trans with k; [|exact Hn]. apply N.log2_lt_pow2; [|exact Hx].
      apply N.neq_0_lt_0. exact Hx0. }
  rewrite <- N.lxor_lor by exact Hland. symmetry. apply N.add_nocarry_lxor. exact Hland.
Qed.

Lemma lor2 a b : a < 256 -> b < 256 -> N.lor (N.shiftl b 8) a = a + 256 * (b + 256 * 0).
Proof.
  intros Ha Hb. rewrite N.shiftl_mul_pow2.
  rewrite lor_shift_add by (change (2 ^ 8) with 256; lia). change (2 ^ 8) with 256. lia.
Qed.
Lemma lor4 a b c d : a < 256 -> b < 256 -> c < 256 -> d < 256 ->
  N.lor (N.lor (N.lor (N.shiftl d 24) (N.shiftl c 16)) (N.shiftl b 8)) a =
  a + 256 * (b + 256 * (c + 256 * (d + 256 * 0))).
Proof.
  intros Ha Hb Hc Hd. rewrite !N.shiftl_mul_pow2.
  change (2 ^ 24) with 16777216. change (2 ^ 16) with 65536. change (2 ^ 8) with 256.
  pose proof (lor_shift_add (c * 65536) d 24) as L1. change (2 ^ 24) with 16777216 in L1.
  rewrite L1 by lia.
  pose proof (lor_shift_add (b * 256) (d * 256 + c) 16) as L2. change (2 ^ 16) with 65536 in L2.
  replace (d * 16777216 + c * 65536) with ((d * 256 + c) * 65536) by lia.
  rewrite L2 by lia.
  pose proof (lor_shift_add a ((d * 256 + c) * 256 + b) 8) as L3. change (2 ^ 8) with 256 in L3.
  replace ((d * 256 + c) * 65536 + b * 256) with (((d * 256 + c) * 256 + b) * 256) by lia.
  rewrite L3 by lia. lia.
Qed.

(** ** the step, without bounds-checking noise *)
Definition cb_next (op : N) (cb : Z) : Z :=
  if (op =? OP_IF) || (op =? OP_NOTIF) then (cb + 1)%Z
  else if op =? OP_ENDIF then (cb - 1)%Z else cb.

(** what Parse appends at a top-level OP_RETURN followed by [r] *)
Definition stop_ops (r : bytes) : list parsed_op :=
  let op := mkPop OP_RETURN [] 1 false in
  match r with
  | [] => [op]
  | [d] => [op; mkPop (b2n d) [] 1 true]
  | d :: t2 => [op; mkPop (b2n d) t2 (Z.of_N (lenN r)) true]
  end.

Definition parse_step_clean (eocs : bool) (cb : Z) (s : bytes) : pstep :=
  match s with
  | [] => PSPanic
  | b0 :: r =>
      let op := b2n b0 in
      if eocs && requires_tx op then PSErr
      else
        let cb' := cb_next op cb in
        if (op =? OP_RETURN) && (cb' =? 0)%Z then PSStop (stop_ops r)
        else match decode_step_clean (b0 :: r) with
             | DSPart d rest =>
                 PSNext (mkPop op (match push_kind op with KOp => [] | _ => d end) (expected_len op) false) rest cb'
             | DSErr => PSErr
             | DSPanic => PSPanic
             end
  end.

Lemma idx_2 {A} (a b c : A) l : idx (a :: b :: c :: l) 2 = Some c.
Proof. change 2 with (N.succ 1). rewrite idx_succ. apply idx_1. Qed.
Lemma idx_3 {A} (a b c d : A) l : idx (a :: b :: c :: d :: l) 3 = Some d.
Proof. change 3 with (N.succ 2). rewrite idx_succ. apply idx_2. Qed.
Lemma idx_4 {A} (a b c d e : A) l : idx (a :: b :: c :: d :: e :: l) 4 = Some e.
Proof. change 4 with (N.succ 3). rewrite idx_succ. apply idx_3. Qed.

Lemma skipn_add {A} (a b : nat) (l : list A) : skipn (a + b) l = skipn b (skipn a l).
Proof. revert l; induction a; intros l; [reflexivity|]. destruct l; [rewrite !skipn_nil; reflexivity|]. cbn. apply IHa. Qed.

Lemma parse_step_eq eocs cb b0 r : parse_step eocs cb (b0 :: r) = parse_step_clean eocs cb (b0 :: r).
Proof.
  unfold parse_step, parse_step_clean. rewrite idx_0. cbv zeta.
  pose proof (b2n_lt b0) as Hlt. set (op := b2n b0) in *.
  destruct (op_table_spec op Hlt) as [Hv Hl]. unfold op_length in Hl. rewrite Hv, Hl.
  destruct (eocs && requires_tx op); [reflexivity|].
  fold (cb_next op cb). set (cb' := cb_next op cb).
  destruct ((op =? OP_RETURN) && (cb' =? 0)%Z) eqn:ER.
  { (* top-level OP_RETURN *)
    assert (op = 106) as E by (unfold OP_RETURN in ER; lia).
    assert (expected_len op = 1%Z) as EL by (rewrite E; reflexivity). rewrite EL.
    replace op with OP_RETURN by (unfold OP_RETURN; lia).
    rewrite lenN_cons. unfold stop_ops.
    destruct r as [|d [|e t]].
    - reflexivity.
    - rewrite lenN_cons, lenN_nil. cbn [N.add N.ltb N.compare Pos.compare Pos.compare_cont]. rewrite idx_1. reflexivity.
    - rewrite !lenN_cons. replace (1 + (1 + (1 + lenN t)) <? 2) with false by lia.
      replace (1 + (1 + (1 + lenN t)) <? 3) with false by lia.
      rewrite idx_1. rewrite !slice_from_ok by (rewrite lenNg_lenN, !lenN_cons; lia).
      change (skipn (N.to_nat 1) (b0 :: d :: e :: t)) with (d :: e :: t).
      change (skipn (N.to_nat 2) (b0 :: d :: e :: t)) with (e :: t). cbv iota. rewrite !lenN_cons. reflexivity. }
  unfold decode_step_clean. fold op. unfold expected_len.
  destruct (push_kind_cases op Hlt) as [[E K]|[[E K]|[[E K]|[[E K]|[E K]]]]]; rewrite K.
  - (* PUSHDATA1 *)
    change (- Z.of_nat 1)%Z with (-1)%Z. cbn [Z.eqb Z.ltb Z.compare Z.opp Pos.compare Pos.compare_cont Pos.eqb].
    rewrite slice_from_ok by (rewrite lenNg_lenN, lenN_cons; lia).
    change (skipn (N.to_nat 1) (b0 :: r)) with r. change (Z.to_N 1) with 1.
    destruct r as [|a r'].
    + reflexivity.
    + rewrite lenN_cons. replace (1 + lenN r' <? 1) with false by lia.
      replace (1 + lenN r' <? N.of_nat 1) with false by lia.
      rewrite idx_1. rewrite slice_from_ok by (rewrite lenNg_lenN, !lenN_cons; lia).
      change (skipn (N.to_nat (1 + 1)) (b0 :: a :: r')) with r'.
      cbn [firstn skipn le_dec]. replace (b2n a + 256 * 0) with (b2n a) by lia. unfold take_data.
      destruct (lenN r' <? b2n a) eqn:E2; [reflexivity|].
      rewrite slice_ok by (rewrite ?lenNg_lenN, ?lenN_cons; lia).
      replace (1 + 1 + b2n a - (1 + 1)) with (b2n a) by lia.
      change (skipn (N.to_nat (1 + 1)) (b0 :: a :: r')) with r'.
      replace (N.to_nat (1 + 1 + b2n a)) with (2 + N.to_nat (b2n a))%nat by lia.
      rewrite skipn_add. reflexivity.
  - (* PUSHDATA2 *)
    change (- Z.of_nat 2)%Z with (-2)%Z. cbn [Z.eqb Z.ltb Z.compare Z.opp Pos.compare Pos.compare_cont Pos.eqb].
    rewrite slice_from_ok by (rewrite lenNg_lenN, lenN_cons; lia).
    change (skipn (N.to_nat 1) (b0 :: r)) with r. change (Z.to_N 2) with 2.
    destruct r as [|a [|b r']].
    + reflexivity.
    + reflexivity.
    + rewrite !lenN_cons. replace (1 + (1 + lenN r') <? 2) with false by lia.
      replace (1 + (1 + lenN r') <? N.of_nat 2) with false by lia.
      rewrite idx_1, idx_2. rewrite lor2 by apply b2n_lt.
      rewrite slice_from_ok by (rewrite lenNg_lenN, !lenN_cons; lia).
      change (skipn (N.to_nat (1 + 2)) (b0 :: a :: b :: r')) with r'.
      cbn [firstn skipn le_dec]. set (l := b2n a + 256 * (b2n b + 256 * 0)). unfold take_data.
      destruct (lenN r' <? l) eqn:E2; [reflexivity|].
      rewrite slice_ok by (rewrite ?lenNg_lenN, ?lenN_cons; lia).
      replace (1 + 2 + l - (1 + 2)) with l by lia.
      change (skipn (N.to_nat (1 + 2)) (b0 :: a :: b :: r')) with r'.
      replace (N.to_nat (1 + 2 + l)) with (3 + N.to_nat l)%nat by lia.
      rewrite skipn_add. reflexivity.
  - (* PUSHDATA4 *)
    change (- Z.of_nat 4)%Z with (-4)%Z. cbn [Z.eqb Z.ltb Z.compare Z.opp Pos.compare Pos.compare_cont Pos.eqb].
    rewrite slice_from_ok by (rewrite lenNg_lenN, lenN_cons; lia).
    change (skipn (N.to_nat 1) (b0 :: r)) with r. change (Z.to_N 4) with 4.
    destruct r as [|a [|b [|c [|d r']]]]; try reflexivity.
    rewrite !lenN_cons. replace (1 + (1 + (1 + (1 + lenN r'))) <? 4) with false by lia.
    replace (1 + (1 + (1 + (1 + lenN r'))) <? N.of_nat 4) with false by lia.
    rewrite idx_1, idx_2, idx_3, idx_4. rewrite lor4 by apply b2n_lt.
    rewrite slice_from_ok by (rewrite lenNg_lenN, !lenN_cons; lia).
    change (skipn (N.to_nat (1 + 4)) (b0 :: a :: b :: c :: d :: r')) with r'.
    cbn [firstn skipn le_dec]. set (l := b2n a + 256 * (b2n b + 256 * (b2n c + 256 * (b2n d + 256 * 0)))). unfold take_data.
    destruct (lenN r' <? l) eqn:E2; [reflexivity|].
    rewrite slice_ok by (rewrite ?lenNg_lenN, ?lenN_cons; lia).
    replace (1 + 4 + l - (1 + 4)) with l by lia.
    change (skipn (N.to_nat (1 + 4)) (b0 :: a :: b :: c :: d :: r')) with r'.
    replace (N.to_nat (1 + 4 + l)) with (5 + N.to_nat l)%nat by lia.
    rewrite skipn_add. reflexivity.
  - (* OP_DATA_n *)
    replace (Z.of_N op + 1 =? 1)%Z with false by lia. replace (1 <? Z.of_N op + 1)%Z with true by lia.
    replace (Z.to_N (Z.of_N op + 1)) with (1 + op) by lia. rewrite lenN_cons. unfold take_data.
    destruct (lenN r <? op) eqn:E2.
    + replace (1 + lenN r <? 1 + op) with true by lia. reflexivity.
    + replace (1 + lenN r <? 1 + op) with false by lia.
      rewrite slice_ok by (rewrite ?lenNg_lenN, ?lenN_cons; lia).
      change (skipn (N.to_nat 1) (b0 :: r)) with r. rewrite skipn_to_nat_succ.
      replace (1 + op - 1) with op by lia. reflexivity.
  - (* one-byte opcode *)
    cbn [Z.eqb Pos.eqb]. reflexivity.
Qed.

(** ** the loop *)
Lemma parse_step_clean_shorter eocs cb s o rest cb' :
  parse_step_clean eocs cb s = PSNext o rest cb' -> (List.length rest < List.length s)%nat.
Proof.
  destruct s as [|b0 r]; [discriminate|]. cbn [parse_step_clean].
  destruct (eocs && requires_tx (b2n b0)); [discriminate|]. cbv zeta.
  destruct ((b2n b0 =? OP_RETURN) && (cb_next (b2n b0) cb =? 0)%Z); [discriminate|].
  destruct (decode_step_clean (b0 :: r)) as [d rest'| |] eqn:E; try discriminate.
  intros [= <- <- <-]. eapply decode_step_clean_shorter; eauto.
Qed.

Lemma parse_step_clean_no_panic eocs cb b0 r : parse_step_clean eocs cb (b0 :: r) <> PSPanic.
Proof.
  cbn [parse_step_clean]. destruct (eocs && requires_tx (b2n b0)); [discriminate|]. cbv zeta.
  destruct ((b2n b0 =? OP_RETURN) && (cb_next (b2n b0) cb =? 0)%Z); [discriminate|].
  destruct (decode_step_clean (b0 :: r)) eqn:E; try discriminate.
  exfalso. eapply decode_step_clean_no_panic; eauto.
Qed.

Lemma parse_loop_fuel eocs : forall s f cb, (List.length s <= f)%nat ->
  parse_loop f eocs cb s = parse_loop (List.length s) eocs cb s.
Proof.
  induction s as [s IH] using bytes_len_ind. intros f cb Hf.
  destruct s as [|b0 r]; [destruct f; reflexivity|].
  destruct f as [|f]; [cbn in Hf; lia|].
  cbn [List.length parse_loop]. rewrite parse_step_eq.
  destruct (parse_step_clean eocs cb (b0 :: r)) as [o rest cb'|ops| |] eqn:E; try reflexivity.
  pose proof (parse_step_clean_shorter _ _ _ _ _ _ E) as Hs. cbn [List.length] in Hs, Hf.
  assert (List.length rest < List.length (b0 :: r))%nat as Hlt by (cbn [List.length]; lia).
  rewrite (IH rest Hlt f) by lia. rewrite (IH rest Hlt (List.length r)) by lia. reflexivity.
Qed.

(** Parse as a function of the remaining script and the conditional depth *)
Definition parse_from (eocs : bool) (cb : Z) (s : bytes) := parse_loop (List.length s) eocs cb s.

Lemma parse_is_parse_from eocs s : parse eocs s = parse_from eocs 0%Z s.
Proof. reflexivity. Qed.
Lemma parse_from_nil eocs cb : parse_from eocs cb [] = Ok [].
Proof. reflexivity. Qed.
Lemma parse_from_cons eocs cb b0 r :
  parse_from eocs cb (b0 :: r) =
  match parse_step_clean eocs cb (b0 :: r) with
  | PSNext o rest cb' => ocons o (parse_from eocs cb' rest)
  | PSStop ops => Ok ops
  | PSErr => Err
  | PSPanic => Panic
  end.
Proof.
  unfold parse_from. cbn [List.length parse_loop]. rewrite parse_step_eq.
  destruct (parse_step_clean eocs cb (b0 :: r)) as [o rest cb'|ops| |] eqn:E; try reflexivity.
  pose proof (parse_step_clean_shorter _ _ _ _ _ _ E) as Hs. cbn [List.length] in Hs.
  rewrite (parse_loop_fuel eocs rest (List.length r)) by lia. reflexivity.
Qed.

Theorem parse_from_total eocs : forall s cb, parse_from eocs cb s <> Panic /\ parse_from eocs cb s <> Fuel.
Proof.
  induction s as [s IH] using bytes_len_ind. intros cb.
  destruct s as [|b0 r]; [split; discriminate|].
  rewrite parse_from_cons.
  destruct (parse_step_clean eocs cb (b0 :: r)) as [o rest cb'|ops| |] eqn:E.
  - apply parse_step_clean_shorter in E. destruct (IH rest E cb') as [H1 H2].
    destruct (parse_from eocs cb' rest); cbn; split; congruence.
  - split; discriminate.
  - split; discriminate.
  - exfalso. eapply parse_step_clean_no_panic; eauto.
Qed.

Theorem parse_total eocs s : parse eocs s <> Panic /\ parse eocs s <> Fuel.
Proof. rewrite parse_is_parse_from. apply parse_from_total. Qed.

(** ** Unparse inverts Parse *)
Lemma unparse_cons o r : unparse (o :: r) =
  match op_bytes o with
  | Ok b => match unparse r with Ok t => Ok (b ++ t) | x => x end
  | Err => Err | Panic => Panic | Fuel => Fuel
  end.
Proof. reflexivity. Qed.

(** the bytes of the token Parse has just read *)
Lemma op_bytes_step b0 r d rest : decode_step_clean (b0 :: r) = DSPart d rest ->
  op_bytes (mkPop (b2n b0) (match push_kind (b2n b0) with KOp => [] | _ => d end) (expected_len (b2n b0)) false) = Ok
    (match push_kind (b2n b0) with KOp => [b0] | _ => firstn (List.length (b0 :: r) - List.length rest - List.length d) (b0 :: r) ++ d end)
  /\ b0 :: r = (match push_kind (b2n b0) with KOp => [b0] | _ => firstn (List.length (b0 :: r) - List.length rest - List.length d) (b0 :: r) ++ d end) ++ rest.
Proof.
  intros H. pose proof (b2n_lt b0) as Hlt.
  destruct (decode_step_inv _ _ _ _ H) as [(Hnp & -> & -> & K)|(hdr & Hh & Es & K)].
  - rewrite K. unfold op_bytes, expected_len. rewrite K. cbn [p_len p_data p_op Z.eqb Pos.eqb lenN List.length N.of_nat N.eqb].
    rewrite n2b_b2n. split; reflexivity.
  - assert (List.length (b0 :: r) - List.length rest - List.length d = List.length hdr)%nat as EL.
    { rewrite Es, !app_length. lia. }
    assert (firstn (List.length hdr) (b0 :: r) = hdr) as EF.
    { rewrite Es. rewrite firstn_app, Nat.sub_diag, firstn_O, app_nil_r. apply firstn_all. }
    assert ((match push_kind (b2n b0) with KOp => [b0] | _ => firstn (List.length (b0 :: r) - List.length rest - List.length d) (b0 :: r) ++ d end) = hdr ++ d) as EM.
    { rewrite EL, EF. destruct (push_kind (b2n b0)); [congruence|reflexivity|reflexivity]. }
    rewrite EM. split; [|rewrite <- app_assoc; exact Es].
    assert ((match push_kind (b2n b0) with KOp => [] | _ => d end) = d) as ED by (destruct (push_kind (b2n b0)); [congruence|reflexivity|reflexivity]).
    rewrite ED. clear EM ED EL EF.
    unfold op_bytes, expected_len. cbn [p_len p_data p_op].
    inversion Hh as [n Hn E1 E2|n Hn E1 E2|n Hn E1 E2|n Hn E1 E2]; subst n; rewrite <- E1 in Es; cbn [app] in Es;
      injection Es as Eb Er; rewrite Eb.
    + (* direct *)
      rewrite b2n_n2b_small by lia. unfold push_kind.
      replace (lenN d =? 76) with false by lia. replace (lenN d =? 77) with false by lia.
      replace (lenN d =? 78) with false by lia. replace ((1 <=? lenN d) && (lenN d <=? 75)) with true by lia.
      replace (Z.of_N (lenN d) + 1 =? 1)%Z with false by lia. replace (Z.of_N (lenN d) + 1 <? 0)%Z with false by lia.
      cbn [app]. rewrite lenN_cons.
      replace (Z.of_N (1 + lenN d) =? Z.of_N (lenN d) + 1)%Z with true by lia. reflexivity.
    + (* PUSHDATA1 *)
      change (b2n x4c) with 76. cbn [push_kind N.eqb Pos.eqb]. change (- Z.of_nat 1)%Z with (-1)%Z.
      cbn [Z.eqb Z.ltb Z.compare Pos.eqb]. rewrite b2n_n2b_small by lia. cbn [app]. rewrite !lenN_cons.
      replace (Z.of_N (1 + (1 + lenN d)) =? Z.of_N (lenN d + 2))%Z with true by lia. reflexivity.
    + (* PUSHDATA2 *)
      change (b2n x4d) with 77. cbn [push_kind N.eqb Pos.eqb]. change (- Z.of_nat 2)%Z with (-2)%Z.
      cbn [Z.eqb Z.ltb Z.compare Pos.eqb]. rewrite le_dec_enc by (cbn; lia).
      rewrite lenN_app, lenN_cons, lenN_le_enc.
      replace (Z.of_N (1 + N.of_nat 2 + lenN d) =? Z.of_N (lenN d + 3))%Z with true by lia. reflexivity.
    + (* PUSHDATA4 *)
      change (b2n x4e) with 78. cbn [push_kind N.eqb Pos.eqb]. change (- Z.of_nat 4)%Z with (-4)%Z.
      cbn [Z.eqb Z.ltb Z.compare Pos.eqb]. rewrite le_dec_enc by (cbn; lia).
      rewrite lenN_app, lenN_cons, lenN_le_enc.
      replace (Z.of_N (1 + N.of_nat 4 + lenN d) =? Z.of_N (lenN d + 5))%Z with true by lia. reflexivity.
Qed.

Lemma unparse_stop_ops r : unparse (stop_ops r) = Ok (x6a :: r).
Proof.
  unfold stop_ops. destruct r as [|d [|e t]].
  - reflexivity.
  - cbn [unparse op_bytes p_len p_data p_op Z.eqb Pos.eqb lenN List.length N.of_nat N.eqb]. rewrite n2b_b2n. reflexivity.
  - rewrite unparse_cons. change (op_bytes (mkPop OP_RETURN [] 1 false)) with (Ok [x6a]).
    rewrite unparse_cons. unfold op_bytes at 1. cbn [p_len p_data p_op].
    rewrite !lenN_cons.
    replace (Z.of_N (1 + (1 + lenN t)) =? 1)%Z with false by lia.
    replace (Z.of_N (1 + (1 + lenN t)) <? 0)%Z with false by lia.
    rewrite n2b_b2n. cbn [app]. rewrite !lenN_cons.
    replace (Z.of_N (1 + (1 + lenN t)) =? Z.of_N (1 + (1 + lenN t)))%Z with true by lia.
    cbn [unparse]. rewrite app_nil_r. reflexivity.
Qed.

Theorem unparse_parse_from eocs : forall s cb ops, parse_from eocs cb s = Ok ops -> unparse ops = Ok s.
Proof.
  induction s as [s IH] using bytes_len_ind. intros cb ops H.
  destruct s as [|b0 r].
  - rewrite parse_from_nil in H. injection H as <-. reflexivity.
  - rewrite parse_from_cons in H.
    destruct (parse_step_clean eocs cb (b0 :: r)) as [o rest cb'|sops| |] eqn:E; try discriminate.
    + pose proof (parse_step_clean_shorter _ _ _ _ _ _ E) as Hs.
      destruct (parse_from eocs cb' rest) as [ops'| | |] eqn:E2; try discriminate. injection H as <-.
      specialize (IH rest Hs cb' ops' E2).
      cbn [parse_step_clean] in E. destruct (eocs && requires_tx (b2n b0)); [discriminate|]. cbv zeta in E.
      destruct ((b2n b0 =? OP_RETURN) && (cb_next (b2n b0) cb =? 0)%Z); [discriminate|].
      destruct (decode_step_clean (b0 :: r)) as [d rest'| |] eqn:ED; try discriminate.
      injection E as <- <- <-.
      destruct (op_bytes_step _ _ _ _ ED) as [Hb Hs'].
      rewrite unparse_cons, Hb, IH. f_equal. symmetry. exact Hs'.
    + injection H as <-. cbn [parse_step_clean] in E.
      destruct (eocs && requires_tx (b2n b0)); [discriminate|]. cbv zeta in E.
      destruct ((b2n b0 =? OP_RETURN) && (cb_next (b2n b0) cb =? 0)%Z) eqn:ER.
      * injection E as <-. rewrite unparse_stop_ops. f_equal. f_equal.
        apply b2n_inj. unfold OP_RETURN in ER. change (b2n x6a) with 106. lia.
      * destruct (decode_step_clean (b0 :: r)); discriminate.
Qed.

Theorem unparse_parse eocs s ops : parse eocs s = Ok ops -> unparse ops = Ok s.
Proof. rewrite parse_is_parse_from. apply unparse_parse_from. Qed.
