(** C02: a setter / builder call that returns an error leaves the transaction — hence every digest — as it
    was (model/SigBuild.v), and an accepted previous txid is the one the digest then commits to. *)
From Coq Require Import List NArith Bool String Lia.
From Coq Require Import Strings.Byte.
From GoBT Require Import lib.Bytes lib.Hex model.Tx model.SigHash model.SigBuild.
Import ListNotations.
Local Open Scope N_scope.

Lemma upd_nth_same {A} (l : list A) j x : nthN l j = Some x -> upd_nth l j (fun _ => x) = l.
Proof.
  revert j. induction l as [|a r IH]; intros j H; cbn [nthN upd_nth] in *; [discriminate|].
  destruct (j =? 0); [congruence|]. f_equal. apply IH. exact H.
Qed.

Lemma nthN_upd_nth {A} (l : list A) j f x : nthN l j = Some x -> nthN (upd_nth l j f) j = Some (f x).
Proof.
  revert j. induction l as [|a r IH]; intros j H; cbn [nthN upd_nth] in *; [discriminate|].
  destruct (j =? 0) eqn:E; cbn [nthN]; rewrite E; [congruence|]. apply IH. exact H.
Qed.

Lemma upd_input_same t j i : nthN (tx_ins t) j = Some i -> upd_input t j (fun _ => i) = t.
Proof. intros H. unfold upd_input. rewrite (upd_nth_same _ _ _ H). destruct t; reflexivity. Qed.

(** ** the setters refuse without writing *)
Lemma previous_txid_add_failed i id i' : previous_txid_add i id = (true, i') -> i' = i.
Proof. unfold previous_txid_add. destruct (negb (is_valid_txid id)); intros H; inversion H; reflexivity. Qed.

Lemma previous_txid_add_ok i id i' :
  previous_txid_add i id = (false, i') -> i' = set_txid i id /\ List.length id = 32%nat.
Proof.
  unfold previous_txid_add, is_valid_txid. destruct (Nat.eqb (List.length id) 32) eqn:E; cbn [negb]; intros H; inversion H.
  split; [reflexivity|]. apply PeanoNat.Nat.eqb_eq. exact E.
Qed.

Lemma previous_txid_add_str_failed i s i' : previous_txid_add_str i s = (true, i') -> i' = i.
Proof.
  unfold previous_txid_add_str. destruct (hexdecode s); [apply previous_txid_add_failed|].
  intros H; inversion H; reflexivity.
Qed.

Lemma from_utxos_head_refused t u r : is_valid_txid (u_txid u) = false -> from_utxos t (u :: r) = (true, t).
Proof. intros H. cbn [from_utxos]. unfold previous_txid_add. rewrite H. reflexivity. Qed.

Lemma from_utxos_one t u e t' :
  from_utxos t [u] = (e, t') ->
  (e = true /\ t' = t) \/
  (e = false /\ List.length (u_txid u) = 32%nat /\
   t' = add_input t (mkInput (u_txid u) (u_vout u) [] default_sequence (u_sats u) (u_script u))).
Proof.
  cbn [from_utxos]. destruct (previous_txid_add _ (u_txid u)) as [e0 i'] eqn:P. destruct e0.
  - intros H; inversion H. left; split; reflexivity.
  - apply previous_txid_add_ok in P. destruct P as [-> L]. cbn [from_utxos]. intros H; inversion H.
    right. split; [reflexivity|]. split; [exact L|reflexivity].
Qed.

Lemma from_failed t a v s n t' : from t a v s n = (true, t') -> t' = t.
Proof.
  unfold from. destruct (hexdecode s) as [pts|]; [|intros H; inversion H; reflexivity].
  destruct (hexdecode a) as [pti|]; [|intros H; inversion H; reflexivity].
  intros H. apply from_utxos_one in H. destruct H as [[_ H]|[H _]]; [exact H|discriminate].
Qed.

Lemma from_ok t a v s n t' :
  from t a v s n = (false, t') ->
  exists pti pts, hexdecode a = Some pti /\ hexdecode s = Some pts /\ List.length pti = 32%nat /\
                  t' = add_input t (mkInput pti v [] default_sequence n (Some pts)).
Proof.
  unfold from. destruct (hexdecode s) as [pts|]; [|discriminate].
  destruct (hexdecode a) as [pti|]; [|discriminate].
  intros H. apply from_utxos_one in H. destruct H as [[H _]|[_ [L H]]]; [discriminate|].
  exists pti, pts. cbn [u_txid u_vout u_script u_sats] in *. split; [reflexivity|]. split; [reflexivity|]. split; assumption.
Qed.

(** the only call of the model that can fail after having written: FromUTXOs with a refused UTXO behind an
    accepted one.  [head_refused]: the call is not of that form. *)
Definition head_refused (o : op) : Prop :=
  match o with
  | OFromUTXOs (u :: _) => is_valid_txid (u_txid u) = false
  | _ => True
  end.

Theorem refused_setter_leaves_transaction t o t' :
  head_refused o -> run_setter t o = Some (true, t') -> t' = t.
Proof.
  destruct o as [j id|j s|a v s n|us|e]; cbn [run_setter head_refused]; intros Hh H.
  - destruct (nthN (tx_ins t) j) as [i|] eqn:N; [|discriminate].
    destruct (previous_txid_add i id) as [e i'] eqn:P. inversion H; subst e t'.
    apply previous_txid_add_failed in P. subst i'. apply upd_input_same. exact N.
  - destruct (nthN (tx_ins t) j) as [i|] eqn:N; [|discriminate].
    destruct (previous_txid_add_str i s) as [e i'] eqn:P. inversion H; subst e t'.
    apply previous_txid_add_str_failed in P. subst i'. apply upd_input_same. exact N.
  - inversion H as [H1]. apply from_failed in H1. exact H1.
  - destruct us as [|u r].
    + cbn in H. discriminate.
    + rewrite (from_utxos_head_refused _ _ _ Hh) in H. inversion H; reflexivity.
  - discriminate.
Qed.

Lemma step_op_setter t o failed t' :
  (forall e, o <> OBuilder e) -> step_op t o failed = Some t' -> run_setter t o = Some (failed, t').
Proof.
  intros Hb H.
  assert (S : match run_setter t o with
              | Some (e, t0) => if Bool.eqb e failed then Some t0 else None
              | None => None
              end = Some t').
  { destruct o; try exact H. exfalso. apply (Hb e). reflexivity. }
  destruct (run_setter t o) as [[e0 t0]|]; [|discriminate].
  destruct (Bool.eqb e0 failed) eqn:E; [|discriminate].
  apply Bool.eqb_prop in E. inversion S. subst. reflexivity.
Qed.

Theorem refused_call_leaves_transaction t o t' :
  head_refused o -> step_op t o true = Some t' -> t' = t.
Proof.
  intros Hh H.
  assert (D : (exists e, o = OBuilder e) \/ (forall e, o <> OBuilder e)).
  { destruct o; try (right; intros e0 E; discriminate E). left. eexists. reflexivity. }
  destruct D as [[e ->]|Hb].
  - cbn in H. inversion H. reflexivity.
  - apply (refused_setter_leaves_transaction _ _ _ Hh (step_op_setter _ _ _ _ Hb H)).
Qed.

Theorem refused_call_keeps_every_digest t o t' i ht :
  head_refused o -> step_op t o true = Some t' ->
  calc_input_preimage t' i ht = calc_input_preimage t i ht /\
  calc_input_signature_hash t' i ht = calc_input_signature_hash t i ht.
Proof. intros Hh H. rewrite (refused_call_leaves_transaction _ _ _ Hh H). split; reflexivity. Qed.

(** an input whose txid was never set still has none after a refused PreviousTxIDAdd / PreviousTxIDAddStr:
    the digest keeps reporting it *)
Theorem refused_txid_is_still_missing t j o t' inp ht :
  (exists id, o = OTxidAdd j id) \/ (exists s, o = OTxidAddStr j s) ->
  input_idx t j = Some inp -> in_txid inp = [] ->
  step_op t o true = Some t' ->
  fst (calc_input_preimage t' j ht) = SErr ErrEmptyPreviousTxID /\
  fst (calc_input_signature_hash t' j ht) = SErr ErrEmptyPreviousTxID.
Proof.
  intros Ho Hi Hx H.
  assert (Hh : head_refused o) by (destruct Ho as [[? ->]|[? ->]]; exact I).
  rewrite (refused_call_leaves_transaction _ _ _ Hh H).
  assert (P : calc_input_preimage t j ht = (SErr ErrEmptyPreviousTxID, t)).
  { unfold calc_input_preimage. rewrite Hi, Hx. reflexivity. }
  split; [rewrite P; reflexivity|].
  unfold calc_input_signature_hash.
  destruct (flag_has ht sh_forkid).
  - rewrite P. reflexivity.
  - unfold calc_input_preimage_legacy. rewrite Hi, Hx. reflexivity.
Qed.

(** an accepted txid is the one recorded (32 bytes), on that input only *)
Theorem accepted_txid_is_recorded t j id t' i :
  nthN (tx_ins t) j = Some i ->
  step_op t (OTxidAdd j id) false = Some t' ->
  nthN (tx_ins t') j = Some (set_txid i id) /\ List.length id = 32%nat /\
  tx_version t' = tx_version t /\ tx_outs t' = tx_outs t /\ tx_lock t' = tx_lock t.
Proof.
  intros N H. unfold step_op, run_setter in H. rewrite N in H.
  destruct (previous_txid_add i id) as [e i'] eqn:P. destruct e; cbn [Bool.eqb] in H; [discriminate|].
  inversion H; subst t'. apply previous_txid_add_ok in P. destruct P as [-> L].
  split; [cbn [upd_input tx_ins]; apply (nthN_upd_nth _ _ (fun _ => set_txid i id) _ N)|].
  split; [exact L|]. split; [reflexivity|]. split; reflexivity.
Qed.
