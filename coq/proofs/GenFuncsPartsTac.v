(** Tactics for the equivalence proofs of the printed script classifiers that inspect decoded parts
    (proofs/GenFuncs_Script_IsP2PK.v, _Script_IsMultiSigOut.v, _isP2PKHInscriptionHelper.v, ...). *)
From Coq Require Import List ZArith NArith Bool Lia ZifyN ZifyNat ZifyBool.
From Coq Require Import Strings.Byte.
From GoBT Require Import lib.Bytes lib.GoSem lib.GoTx proofs.GenFuncsTac proofs.GenFuncsLoopTac proofs.GenFuncsScriptTac.
From GoBT Require lib.Checked.
Import ListNotations.
Ltac Zify.zify_post_hook ::= Z.div_mod_to_equations.
Local Open Scope Z_scope.

(** ** the classifiers over decoded parts (model/Classify.v) *)
From GoBT Require model.Classify.

Lemma go_len_lenNg {A} (l : list A) : go_len l = Z.of_N (Checked.lenNg l).
Proof. unfold go_len, Checked.lenNg. lia. Qed.
Lemma lenNg_cons {A} (a : A) l : Checked.lenNg (a :: l) = (1 + Checked.lenNg l)%N.
Proof. unfold Checked.lenNg. cbn [length]. lia. Qed.
Lemma lenNg_nil {A} : Checked.lenNg (@nil A) = 0%N.
Proof. reflexivity. Qed.

(** an outcome of the printed function whose model counterpart is known *)
Lemma of_to_outcome {A} (m : M A) (o : Checked.outcome A) : to_outcome m = o ->
  m = match o with Checked.Ok a => Val a | Checked.Panic => Panic | Checked.Fuel => NoFuel | Checked.Err => m end.
Proof. intros <-. destruct m; reflexivity. Qed.

(** unfold the vocabulary of model/Classify.v and of the printed terms, evaluate indexing / lengths of lists whose first
    elements are explicit, wherever they occur *)
Ltac classify_unfold :=
  unfold Classify.part_nonempty, Classify.part_byte_is, Classify.part_byte, Classify.part_len, Classify.byte_is,
    Classify.oand, Classify.oor, Checked.chk, go_andthen, go_orelse,
    Classify.OpDUP, Classify.OpHASH160, Classify.OpDATA20, Classify.OpEQUALVERIFY, Classify.OpEQUAL, Classify.OpCHECKSIG,
    Classify.OpCHECKMULTISIG, Classify.OpRETURN, Classify.OpFALSE, Classify.OpIF, Classify.OpENDIF, Classify.OpTRUE, Classify.Op16.
Ltac classify_eval :=
  repeat first
  [ progress (cbn [bind Checked.obind to_outcome])
  | progress go_index_norm
  | progress idx_norm
  | rewrite go_len_cons | rewrite go_len_nil | rewrite lenN_cons | rewrite lenNg_cons | rewrite lenNg_nil
  | progress change (lenN (@nil byte)) with 0%N
  | rewrite b2z_b2n
  | rewrite go_len_lenN | rewrite go_len_lenNg
  | progress go_decide ].

(** split the input space by the conditions of the MODEL side (the right-hand side of the goal), deciding the
    conditions of the printed side by [lia] after every split *)
Ltac split_model :=
  repeat (classify_eval;
          match goal with
          | |- _ = ?R => match R with context [if ?c then _ else _] => let E := fresh "E" in destruct c eqn:E end
          end);
  classify_eval.

(** a list is empty or has a first element *)
Ltac head_cases l := let x := fresh "x" in destruct l as [|x l].

(** ** the printed term in the model's vocabulary
    Indexing at a literal position through [Checked.idx], lengths through [lenN] / [lenNg], comparisons of such values
    with literals as comparisons over [N]: the printed side and the model side then share their conditions and their
    [idx] look-ups syntactically, and one case split serves both.  Nothing here looks at the shape of the printed term. *)
Lemma go_index_idx {A} (l : list A) (k : Z) (i : N) : k = Z.of_N i ->
  go_index l k = match Checked.idx l i with Some a => Val a | None => Panic end.
Proof.
  intros ->. unfold go_index, Checked.idx, go_len, Checked.lenNg.
  replace (Z.to_nat (Z.of_N i)) with (N.to_nat i) by lia.
  destruct (i <? N.of_nat (length l))%N eqn:E.
  - replace ((0 <=? Z.of_N i) && (Z.of_N i <? Z.of_nat (length l))) with true by lia. reflexivity.
  - replace ((0 <=? Z.of_N i) && (Z.of_N i <? Z.of_nat (length l))) with false by lia. reflexivity.
Qed.
Lemma go_index_b_idx (l : bytes) (k : Z) (i : N) : k = Z.of_N i ->
  go_index_b l k = match Checked.idx l i with Some a => Val (Z.of_N (b2n a)) | None => Panic end.
Proof. intros H. unfold go_index_b. rewrite (go_index_idx l k i H). destruct (Checked.idx l i); reflexivity. Qed.

Lemma idx_None_len {A} (l : list A) i : Checked.idx l i = None -> (Checked.lenNg l <= i)%N.
Proof.
  unfold Checked.idx. destruct (i <? Checked.lenNg l)%N eqn:E; [|lia].
  intros H. apply nth_error_None in H. unfold Checked.lenNg in *. lia.
Qed.
Lemma idx_Some_len {A} (l : list A) i a : Checked.idx l i = Some a -> (i < Checked.lenNg l)%N.
Proof. unfold Checked.idx. destruct (i <? Checked.lenNg l)%N eqn:E; [lia|discriminate]. Qed.

Lemma go_slice_from_chk {A} (l : list A) (k : Z) (i : N) : k = Z.of_N i ->
  go_slice_from l k = match Checked.slice_from l i with Some t => Val t | None => Panic end.
Proof.
  intros ->. unfold Checked.slice_from. destruct (i <=? Checked.lenNg l)%N eqn:E.
  - rewrite go_slice_from_eq by (rewrite go_len_lenNg; lia). replace (Z.to_nat (Z.of_N i)) with (N.to_nat i) by lia. reflexivity.
  - apply go_slice_from_out. rewrite go_len_lenNg. lia.
Qed.

(** a hook for the vocabulary of one proof file (calls of other printed functions): [Ltac extra_step ::= ...] *)
Ltac extra_step := fail.

Ltac vocab_step :=
  match goal with
  | |- context [go_slice_from ?l ?k] => closed_Z k; let i := eval vm_compute in (Z.to_N k) in rewrite (go_slice_from_chk l k i) by reflexivity
  | |- context [go_index_b ?l ?k] => closed_Z k; let i := eval vm_compute in (Z.to_N k) in rewrite (go_index_b_idx l k i) by reflexivity
  | |- context [go_index ?l ?k] => closed_Z k; let i := eval vm_compute in (Z.to_N k) in rewrite (go_index_idx l k i) by reflexivity
  | |- context [@go_len byte ?l] => rewrite (go_len_lenN l)
  | |- context [go_len ?l] => rewrite (go_len_lenNg l)
  | |- context [Z.of_N ?a =? ?k] => closed_Z k; let i := eval vm_compute in (Z.to_N k) in replace (Z.of_N a =? k) with (a =? i)%N by lia
  | |- context [Z.of_N ?a <? ?k] => closed_Z k; let i := eval vm_compute in (Z.to_N k) in replace (Z.of_N a <? k) with (a <? i)%N by lia
  | |- context [?k <? Z.of_N ?a] => closed_Z k; let i := eval vm_compute in (Z.to_N k) in replace (k <? Z.of_N a) with (i <? a)%N by lia
  | |- context [Z.of_N ?a <=? ?k] => closed_Z k; let i := eval vm_compute in (Z.to_N k) in replace (Z.of_N a <=? k) with (a <=? i)%N by lia
  | |- context [?k <=? Z.of_N ?a] => closed_Z k; let i := eval vm_compute in (Z.to_N k) in replace (k <=? Z.of_N a) with (i <=? a)%N by lia
  end.

(** one case split, in EVALUATION ORDER: the scrutinee that blocks the reduction of the printed side (else of the model
    side) -- an [idx] look-up or a condition; both sides share it when they are in step *)
Ltac blocker t :=
  match t with
  | to_outcome ?m => blocker m
  | bind ?m _ => blocker m
  | Checked.obind ?m _ => blocker m
  | match ?x with _ => _ end => blocker x
  | match ?x with _ => _ end => constr:(x)
  end.
Ltac split_step :=
  match goal with
  | |- ?L = ?R => let x := blocker L in let E := fresh "Ec" in destruct x eqn:E
  | |- ?L = ?R => let x := blocker R in let E := fresh "Ec" in destruct x eqn:E
  end.

(** the facts behind the look-ups, for the leaves that need arithmetic *)
Ltac idx_facts :=
  repeat match goal with
  | H : Checked.idx _ _ = None |- _ => apply idx_None_len in H
  | H : Checked.idx _ _ = Some _ |- _ => apply idx_Some_len in H
  end.

Ltac parts_auto :=
  repeat first [ progress (cbn [bind Checked.obind to_outcome negb andb orb go_range Classify.all_nonempty go_deref go_isnil fst snd]) | progress classify_unfold | vocab_step | extra_step | split_step ];
  first [ reflexivity | exfalso; idx_facts; unfold Checked.lenNg, lenN in *; cbn [length] in *; lia ].
