(** shiftCount (bscript/interpreter/operations.go), the helper of OP_LSHIFT / OP_RSHIFT, as printed from the Go source:
    for a non-negative script number [num] and an operand of at most 2^48 bytes (Go's maxAlloc) it is the shift count of
    the model ([Interp.exec_handler], branch OP_LSHIFT / OP_RSHIFT): [num] limited to the number of bits of the operand. *)
From Coq Require Import List ZArith NArith Bool Lia ZifyN ZifyNat ZifyBool.
From Coq Require Import Strings.Byte.
From GoBT Require Import lib.Bytes lib.GoSem lib.GoInterp gen.Funcs proofs.GenFuncsTac proofs.GenFuncsInterpTac.
From GoBT Require model.Interp model.ScriptNum.
Import ListNotations.
Ltac Zify.zify_post_hook ::= Z.div_mod_to_equations.
Local Open Scope Z_scope.

Lemma sn_int_id z : -9223372036854775808 <= z <= 9223372036854775807 -> sn_int z = z.
Proof.
  intros H. unfold sn_int, ScriptNum.to_int, ScriptNum.to_int64, ScriptNum.clamp, ScriptNum.min_i64, ScriptNum.max_i64.
  repeat match goal with |- context [if ?c then _ else _] => destruct c eqn:? end; lia.
Qed.

Lemma shiftCount_is_model (num : Z) (x : bytes) : 0 <= num -> (lenN x <= 281474976710656)%N ->
  shiftCount num x = Val (let bits := 8 * Interp.lenZ x in if num <? bits then num else bits).
Proof.
  intros Hn Hx. unfold shiftCount, sn_lt. cbv zeta.
  assert (Hl : go_len x = Interp.lenZ x) by reflexivity. rewrite !Hl.
  assert (Hb : 0 <= Interp.lenZ x <= 281474976710656) by (unfold Interp.lenZ, lenN in *; lia).
  wrap32.
  destruct (num <? 8 * Interp.lenZ x) eqn:E; [|reflexivity].
  rewrite sn_int_id by lia. reflexivity.
Qed.
