(** Tx.Size (tx.go), as printed from the Go source (len of the printed Tx.Bytes), is [tx_size] of model/Fees.v. *)
From Coq Require Import List ZArith NArith Bool Lia ZifyN ZifyNat ZifyBool.
From Coq Require Import Strings.Byte.
From GoBT Require Import lib.Bytes lib.VarInt lib.GoSem lib.GoTx gen.Funcs proofs.GenFuncsTac proofs.GenFuncsTxTac model.Tx model.Fees.
From GoBT Require Import proofs.GenFuncs_Tx_Bytes.
Import ListNotations.
Ltac Zify.zify_post_hook ::= Z.div_mod_to_equations.
Local Open Scope Z_scope.

Ltac tx_extra ::=
  match goal with
  | |- context [Tx_Bytes (map Some ?ins) (map Some ?outs) ?v ?l] => rewrite (Tx_Bytes_is_model ins outs v l) by assumption
  end.

Lemma Tx_Size_is_model ins outs ver lock :
  Forall go_input_ok ins -> Forall go_output_ok outs -> u32 ver -> u32 lock -> len_ok ins -> len_ok outs ->
  Tx_Size (map Some ins) (map Some outs) ver lock = Val (Z.of_N (tx_size (tx_of_go ins outs ver lock))).
Proof. intros. unfold Tx_Size. tx_norm. unfold tx_size. rewrite go_len_lenN. reflexivity. Qed.
