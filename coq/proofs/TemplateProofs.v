(** Proofs about model/Classify.v, part 2: classification against the byte-level templates of
    spec/TemplateSpec.v. *)
From Coq Require Import List NArith Lia ZifyN ZifyNat ZifyBool ZArith Bool String.
From Coq Require Import Strings.Byte.
From GoBT Require Import lib.Bytes lib.Hex lib.Checked model.Push model.Asm model.Classify spec.PushSpec spec.TemplateSpec
  proofs.PushProofs proofs.ClassifyProofs.
Import ListNotations.
Ltac Zify.zify_post_hook ::= Z.div_mod_to_equations.
Local Open Scope N_scope.
Local Open Scope bool_scope.

Ltac idx_norm := repeat (rewrite idx_cons_pos; cbn [N.pred Pos.pred_N Pos.pred_double]); rewrite ?idx_0.

(** ** small facts about the byte-level predicates *)
Lemma byte_is_0 b r v : byte_is (b :: r) 0 v = Ok (b2n b =? v).
Proof. unfold byte_is. rewrite idx_0. reflexivity. Qed.
Lemma byte_is_1 a b r v : byte_is (a :: b :: r) 1 v = Ok (b2n b =? v).
Proof. unfold byte_is. rewrite idx_1. reflexivity. Qed.

Lemma is_p2pkh_first b r : b2n b <> 118 -> is_p2pkh (b :: r) = Ok false.
Proof.
  intros H. unfold is_p2pkh. destruct (lenN (b :: r) =? 25); [|reflexivity].
  rewrite oand_true_l, byte_is_0. unfold OpDUP. replace (b2n b =? 118) with false by lia. reflexivity.
Qed.
Lemma is_p2pkh_len s : lenN s <> 25 -> is_p2pkh s = Ok false.
Proof. intros H. unfold is_p2pkh. replace (lenN s =? 25) with false by lia. reflexivity. Qed.

Lemma is_data_first b r : b2n b <> 106 -> b2n b <> 0 -> is_data (b :: r) = Ok false.
Proof.
  intros H1 H2. unfold is_data. rewrite !byte_is_0. unfold OpRETURN, OpFALSE.
  replace (b2n b =? 106) with false by lia. replace (b2n b =? 0) with false by lia.
  destruct (0 <? lenN (b :: r)); destruct (1 <? lenN (b :: r)); reflexivity.
Qed.
Lemma is_data_6a r : is_data (x6a :: r) = Ok true.
Proof. unfold is_data. rewrite lenN_cons, byte_is_0. replace (0 <? 1 + lenN r) with true by lia. reflexivity. Qed.
Lemma is_data_006a r : is_data (x00 :: x6a :: r) = Ok true.
Proof.
  unfold is_data. rewrite !lenN_cons, !byte_is_0, byte_is_1.
  replace (0 <? 1 + (1 + lenN r)) with true by lia. replace (1 <? 1 + (1 + lenN r)) with true by lia. reflexivity.
Qed.
Lemma is_data_true_inv s : is_data s = Ok true -> is_data_t s.
Proof.
  unfold is_data, is_data_t. destruct s as [|a r]; [cbn; discriminate|].
  rewrite !byte_is_0. unfold OpRETURN, OpFALSE.
  destruct (b2n a =? 106) eqn:E1.
  { intros _. exists r. left. f_equal. apply b2n_inj. change (b2n x6a) with 106. lia. }
  destruct r as [|b r'].
  { rewrite lenN_cons, lenN_nil. cbn. discriminate. }
  rewrite byte_is_1, !lenN_cons.
  replace (0 <? 1 + (1 + lenN r')) with true by lia. replace (1 <? 1 + (1 + lenN r')) with true by lia.
  cbn [oand oor obind]. destruct (b2n a =? 0) eqn:E2; cbn [oand oor obind]; [|discriminate].
  destruct (b2n b =? 106) eqn:E3; [|discriminate]. intros _. exists r'. right.
  f_equal; [|f_equal]; apply b2n_inj; [change (b2n x00) with 0|change (b2n x6a) with 106]; lia.
Qed.

Lemma decoded_of s parts : decode_parts s = DOk parts -> decoded s = Ok (Some parts).
Proof. intros H. unfold decoded. rewrite H. reflexivity. Qed.
Lemma decoded_err s : dres_ok (decode_parts s) = false -> decoded s = Ok None \/ decoded s = Panic \/ decoded s = Fuel.
Proof. unfold decoded. destruct (decode_parts s); cbn; intros H; try discriminate; auto. Qed.
Lemma decoded_none s : dres_ok (decode_parts s) = false -> decoded s = Ok None.
Proof.
  intros H. destruct (decode_parts_total s) as [T1 T2]. unfold decoded.
  destruct (decode_parts s); cbn in H; try discriminate; try congruence.
Qed.

Lemma is_p2pk_len s parts : decode_parts s = DOk parts -> lenNg parts <> 2 -> is_p2pk s = Ok false.
Proof.
  intros D L. unfold is_p2pk. rewrite (decoded_of _ _ D). cbn [obind].
  replace (lenNg parts =? 2) with false by lia. reflexivity.
Qed.

(** IsP2PK = true only on two parts: a key with a valid version/length, then OP_CHECKSIG *)
Lemma is_p2pk_true_inv s : is_p2pk s = Ok true ->
  exists k v kr c cr, decode_parts s = DOk [k; c :: cr] /\ k = v :: kr /\ b2n c = 172 /\
    (((b2n v = 4 \/ b2n v = 6 \/ b2n v = 7) /\ lenN k = 65) \/ ((b2n v = 3 \/ b2n v = 2) /\ lenN k = 33)).
Proof.
  unfold is_p2pk. destruct (decoded s) as [[parts|]| | |] eqn:D; cbn [obind]; try discriminate.
  apply decoded_some in D.
  destruct (lenNg parts =? 2) eqn:E2; [|cbn; discriminate].
  assert (List.length parts = 2%nat) as L2 by (unfold lenNg in E2; lia).
  destruct parts as [|k [|c1 [|x y]]]; try discriminate L2. clear L2.
  rewrite oand_true_l.
  unfold part_nonempty, part_len, part_byte_is, part_byte. idx_norm. cbn [chk obind].
  destruct k as [|v kr]; [cbn; discriminate|].
  destruct c1 as [|c cr]; [cbn; discriminate|].
  rewrite !lenN_cons. replace (0 <? 1 + lenN kr) with true by lia. replace (0 <? 1 + lenN cr) with true by lia.
  idx_norm. cbn [chk obind oand]. unfold OpCHECKSIG.
  destruct (b2n c =? 172) eqn:Ec; cbn [obind]; [|discriminate].
  intros H. exists (v :: kr), v, kr, c, cr. split; [exact D|]. split; [reflexivity|]. split; [lia|].
  rewrite lenN_cons.
  destruct (((b2n v =? 4) || (b2n v =? 6) || (b2n v =? 7)) && (1 + lenN kr =? 65)) eqn:E65; [left; lia|].
  destruct (((b2n v =? 3) || (b2n v =? 2)) && (1 + lenN kr =? 33)) eqn:E33; [right; lia|discriminate].
Qed.

Lemma is_p2pk_false s : (is_p2pk s = Ok true -> False) -> is_p2pk s = Ok false.
Proof. intros H. destruct (is_p2pk_ok s) as [[|] E]; [contradiction (H E)|exact E]. Qed.

(** a multisig needs a small-int opcode first *)
Lemma is_multisig_first s parts p0 pr x xr : decode_parts s = DOk parts -> parts = p0 :: pr -> p0 = x :: xr ->
  is_small_int_op (b2n x) = false -> is_multisig_out s = Ok false.
Proof.
  intros D -> -> Hx. unfold is_multisig_out. destruct (is_data_ok s) as [[|] ->]; cbn [obind]; [reflexivity|].
  rewrite (decoded_of _ _ D). cbn [obind]. cbv zeta.
  destruct (lenNg ((x :: xr) :: pr) <? 3); [reflexivity|].
  unfold part_len, part_byte. idx_norm. cbn [chk obind]. rewrite lenN_cons.
  replace (1 + lenN xr <? 1) with false by lia. idx_norm. cbn [chk obind]. rewrite Hx. reflexivity.
Qed.

(** ** decoding the templates *)
Lemma non_push_b b : b2n b = 0 \/ 78 < b2n b -> non_push b.
Proof. auto. Qed.

Lemma push_direct_header k : 1 <= lenN k <= 75 -> push_header [n2b (lenN k)] (lenN k).
Proof. intros H. apply ph_direct. exact H. Qed.

Lemma decode_push_direct k rest : 1 <= lenN k <= 75 ->
  decode_parts (push_direct k ++ rest) = dcons k (decode_parts rest).
Proof.
  intros H. unfold push_direct. change (n2b (lenN k) :: k) with ([n2b (lenN k)] ++ k).
  rewrite <- app_assoc. apply decode_parts_push. apply push_direct_header. exact H.
Qed.

Lemma key_sized_len k : key_sized k -> 1 <= lenN k <= 75 /\ 0 < lenN k.
Proof. unfold key_sized, lenN. intros [H|H]; rewrite H; cbn; lia. Qed.

Lemma decode_keys keys rest : Forall key_sized keys ->
  decode_parts (List.concat (map push_direct keys) ++ rest) = fold_right dcons (decode_parts rest) keys.
Proof.
  induction 1 as [|k ks Hk Hks IH]; [reflexivity|].
  cbn [map List.concat fold_right]. rewrite <- app_assoc. rewrite decode_push_direct by (apply key_sized_len; exact Hk).
  rewrite IH. reflexivity.
Qed.
Lemma fold_dcons_ok keys l : fold_right dcons (DOk l) keys = DOk (keys ++ l).
Proof. induction keys as [|k ks IH]; [reflexivity|]. cbn [fold_right app]. rewrite IH. reflexivity. Qed.

(** ** P2PKH *)
Theorem p2pkh_classified s : is_p2pkh_t s -> script_type s = Ok TPubKeyHash.
Proof.
  intros (h & Hl & ->).
  do 20 (destruct h as [|? h]; [discriminate Hl|]). destruct h; [|discriminate Hl].
  vm_compute. reflexivity.
Qed.

Lemma p2pkh_decodes s : is_p2pkh_t s -> dres_ok (decode_parts s) = true.
Proof.
  intros (h & Hl & ->).
  do 20 (destruct h as [|? h]; [discriminate Hl|]). destruct h; [|discriminate Hl].
  vm_compute. reflexivity.
Qed.

Lemma byte_is_true_inv s i v : byte_is s i v = Ok true -> exists x, idx s i = Some x /\ b2n x = v.
Proof.
  unfold byte_is. destruct (idx s i) as [x|]; cbn; [|discriminate]. intros [= H]. exists x. split; [reflexivity|lia].
Qed.

Theorem is_p2pkh_true_inv s : is_p2pkh s = Ok true -> is_p2pkh_t s.
Proof.
  unfold is_p2pkh. destruct (lenN s =? 25) eqn:E; [|cbn; discriminate]. rewrite oand_true_l.
  intros H. repeat (apply oand_true in H as [H ?]).
  assert (List.length s = 25%nat) as L by (unfold lenN in E; lia).
  do 25 (destruct s as [|? s]; [discriminate L|]). destruct s; [|discriminate L].
  repeat match goal with
  | H : byte_is _ _ _ = Ok true |- _ =>
      apply byte_is_true_inv in H; destruct H as (? & H & ?); revert H; idx_norm; intros [= <-]
  end.
  unfold OpDUP, OpHASH160, OpDATA20, OpEQUALVERIFY, OpCHECKSIG in *.
  repeat match goal with
  | H : b2n ?b = _ |- _ => apply (f_equal n2b) in H; rewrite n2b_b2n in H; vm_compute in H; subst b
  end.
  match goal with |- is_p2pkh_t ?l => exists (firstn 20 (skipn 3 l)); split; reflexivity end.
Qed.

Lemma script_type_cases s t : script_type s = Ok t ->
  match t with
  | TEmpty => lenN s = 0
  | TPubKeyHash => is_p2pkh s = Ok true
  | TPubKey => is_p2pk s = Ok true
  | TNullData => is_data s = Ok true
  | TMultiSig => is_multisig_out s = Ok true /\ is_data s = Ok false
  | TInscription => is_p2pkh_inscription s = Ok true
  | TNonStandard => True
  end.
Proof.
  unfold script_type. destruct (lenN s =? 0) eqn:E0; [intros [= <-]; lia|].
  destruct (is_p2pkh s) as [[|]| | |]; cbn [obind]; try discriminate; [intros [= <-]; reflexivity|].
  destruct (is_p2pk s) as [[|]| | |]; cbn [obind]; try discriminate; [intros [= <-]; reflexivity|].
  destruct (is_data s) as [[|]| | |]; cbn [obind]; try discriminate; [intros [= <-]; reflexivity|].
  destruct (is_multisig_out s) as [[|]| | |]; cbn [obind]; try discriminate; [intros [= <-]; split; reflexivity|].
  destruct (is_p2pkh_inscription s) as [[|]| | |]; cbn [obind]; try discriminate; intros [= <-]; [reflexivity|exact I].
Qed.

(** reported P2PKH only if exactly the 25-byte template *)
Theorem p2pkh_only_exact s : script_type s = Ok TPubKeyHash -> is_p2pkh_t s.
Proof. intros H. apply script_type_cases in H. apply is_p2pkh_true_inv. exact H. Qed.

(** reported data only if it starts with OP_RETURN or OP_FALSE OP_RETURN *)
Theorem data_only_prefix s : script_type s = Ok TNullData -> is_data_t s.
Proof. intros H. apply script_type_cases in H. apply is_data_true_inv. exact H. Qed.

(** ** undecodable scripts are never reported as a key-bearing type *)
Theorem undecodable_not_keybearing s : dres_ok (decode_parts s) = false ->
  script_type s <> Ok TPubKey /\ script_type s <> Ok TPubKeyHash /\ script_type s <> Ok TMultiSig /\
  script_type s <> Ok TInscription.
Proof.
  intros Hd. pose proof (decoded_none s Hd) as Dn. repeat split; intros H; apply script_type_cases in H.
  - unfold is_p2pk in H. rewrite Dn in H. discriminate.
  - apply is_p2pkh_true_inv, p2pkh_decodes in H. congruence.
  - destruct H as [H Hnd]. unfold is_multisig_out in H. rewrite Hnd, Dn in H. discriminate.
  - unfold is_p2pkh_inscription in H. rewrite Dn in H. discriminate.
Qed.

(** ** P2PK *)
Theorem p2pk_classified s : is_p2pk_t s -> script_type s = Ok TPubKey.
Proof.
  intros (k & Hk & ->). unfold valid_pubkey in Hk. destruct k as [|v k]; [contradiction|].
  destruct Hk as [[Hl Hv]|[Hl Hv]].
  - cbn [List.length] in Hl.
    assert (v = x02 \/ v = x03) as Hv'.
    { destruct Hv as [Hv|Hv]; [left|right]; apply b2n_inj; rewrite Hv; reflexivity. }
    do 32 (destruct k as [|? k]; [discriminate Hl|]). destruct k; [|discriminate Hl].
    destruct Hv' as [-> | ->]; vm_compute; reflexivity.
  - cbn [List.length] in Hl.
    assert (v = x04 \/ v = x06 \/ v = x07) as Hv'.
    { destruct Hv as [Hv|[Hv|Hv]]; [left|right; left|right; right]; apply b2n_inj; rewrite Hv; reflexivity. }
    do 64 (destruct k as [|? k]; [discriminate Hl|]). destruct k; [|discriminate Hl].
    destruct Hv' as [-> |[-> | ->]]; vm_compute; reflexivity.
Qed.

(** ** data *)
Theorem data_classified s : is_data_t s -> script_type s = Ok TNullData.
Proof.
  intros (t & [-> | ->]).
  - unfold script_type. rewrite lenN_cons. replace (1 + lenN t =? 0) with false by lia.
    rewrite is_p2pkh_first by (vm_compute; congruence). cbn [obind].
    rewrite is_p2pk_false.
    + cbn [obind]. rewrite is_data_6a. reflexivity.
    + intros H. apply is_p2pk_true_inv in H as (k & v & kr & c & cr & D & -> & _ & Hv).
      rewrite decode_parts_op in D by (right; vm_compute; reflexivity).
      apply dcons_ok_inv in D as (l' & _ & E). injection E as E1 E2 _. subst v.
      change (b2n x6a) with 106 in Hv. lia.
  - unfold script_type. rewrite !lenN_cons. replace (1 + (1 + lenN t) =? 0) with false by lia.
    rewrite is_p2pkh_first by (vm_compute; congruence). cbn [obind].
    rewrite is_p2pk_false.
    + cbn [obind]. rewrite is_data_006a. reflexivity.
    + intros H. apply is_p2pk_true_inv in H as (k & v & kr & c & cr & D & -> & _ & Hv).
      rewrite decode_parts_op in D by (left; reflexivity).
      apply dcons_ok_inv in D as (l' & _ & E). injection E as E1 E2 _. subst v.
      change (b2n x00) with 0 in Hv. lia.
Qed.

(** ** bare multisig *)
Lemma op_n_b2n k : k <= 16 -> b2n (op_n k) = 80 + k.
Proof. intros H. unfold op_n. apply b2n_n2b_small. lia. Qed.

Lemma part_len_app_r (pre : list bytes) p post : part_len (pre ++ p :: post) (lenNg pre) = Ok (lenN p).
Proof. unfold part_len. rewrite idx_app_r by lia. rewrite N.sub_diag, idx_0. reflexivity. Qed.

Lemma middle_nonempty_keys : forall keys pre post, Forall key_sized keys ->
  middle_nonempty (pre ++ keys ++ post) (lenNg pre) (List.length keys) = Ok true.
Proof.
  induction keys as [|k ks IH]; intros pre post HF; [reflexivity|].
  inversion HF as [|? ? Hk Hks]; subst. cbn [List.length middle_nonempty app].
  rewrite part_len_app_r. cbn [obind]. destruct (key_sized_len k Hk) as [_ Hpos].
  replace (lenN k <? 1) with false by lia.
  replace (pre ++ k :: ks ++ post) with ((pre ++ [k]) ++ ks ++ post) by (rewrite <- app_assoc; reflexivity).
  replace (lenNg pre + 1) with (lenNg (pre ++ [k])) by (rewrite lenNg_app, lenNg_cons, lenNg_nil; lia).
  apply IH. exact Hks.
Qed.

Lemma multisig_decodes m keys : m <= 16 -> N.of_nat (List.length keys) <= 16 -> Forall key_sized keys ->
  decode_parts ([op_n m] ++ List.concat (map push_direct keys) ++ [op_n (N.of_nat (List.length keys)); xae]) =
  DOk ([op_n m] :: keys ++ [[op_n (N.of_nat (List.length keys))]; [xae]]).
Proof.
  intros Hm Hn HF. cbn [app].
  rewrite decode_parts_op by (right; rewrite op_n_b2n by exact Hm; lia).
  rewrite decode_keys by exact HF.
  rewrite decode_parts_op by (right; rewrite op_n_b2n by exact Hn; lia).
  rewrite decode_parts_op by (right; vm_compute; reflexivity).
  rewrite decode_parts_nil. cbn [dcons]. rewrite fold_dcons_ok. reflexivity.
Qed.

Theorem multisig_classified s : is_multisig_t s -> script_type s = Ok TMultiSig.
Proof.
  intros (m & keys & Hm1 & Hmn & Hn & HF & ->).
  assert (m <= 16) as Hm by lia.
  pose proof (multisig_decodes m keys Hm Hn HF) as D.
  set (n := N.of_nat (List.length keys)) in *.
  set (s := [op_n m] ++ List.concat (map push_direct keys) ++ [op_n n; xae]) in *.
  set (parts := [op_n m] :: keys ++ [[op_n n]; [xae]]) in *.
  assert (lenNg parts = n + 3) as Lp.
  { unfold parts. rewrite lenNg_cons, lenNg_app, !lenNg_cons, lenNg_nil. unfold lenNg, n. lia. }
  assert (s = op_n m :: (List.concat (map push_direct keys) ++ [op_n n; xae])) as Es by reflexivity.
  assert (b2n (op_n m) = 80 + m) as Bm by (apply op_n_b2n; exact Hm).
  assert (b2n (op_n n) = 80 + n) as Bn by (apply op_n_b2n; exact Hn).
  assert (is_data s = Ok false) as Hdata by (rewrite Es; apply is_data_first; lia).
  unfold script_type.
  replace (lenN s =? 0) with false by (rewrite Es, lenN_cons; lia).
  rewrite Es at 1. rewrite is_p2pkh_first by lia. cbn [obind].
  rewrite (is_p2pk_len s parts D) by lia. cbn [obind].
  rewrite Hdata. cbn [obind].
  assert (is_multisig_out s = Ok true) as ->; [|reflexivity].
  unfold is_multisig_out. rewrite Hdata. cbn [obind]. rewrite (decoded_of _ _ D). cbn [obind]. cbv zeta.
  rewrite Lp. replace (n + 3 <? 3) with false by lia.
  (* parts[0] *)
  unfold part_len at 1. unfold parts at 1. rewrite idx_0. cbn [chk obind].
  rewrite lenN_cons, lenN_nil. replace (1 + 0 <? 1) with false by lia.
  unfold part_byte at 1. unfold parts at 1. rewrite idx_0. cbn [chk]. rewrite idx_0. cbn [chk obind].
  assert (is_small_int_op (b2n (op_n m)) = true) as -> by (rewrite Bm; unfold is_small_int_op, OpTRUE, Op16; lia).
  cbn [negb].
  (* the keys *)
  replace (n + 3 - 3) with n by lia. unfold n at 1. rewrite Nat2N.id.
  change parts with ([[op_n m]] ++ keys ++ [[op_n n]; [xae]]).
  change 1 with (lenNg [[op_n m]]) at 1.
  rewrite middle_nonempty_keys by exact HF. cbn [obind negb].
  (* parts[len-2], parts[len-1] *)
  assert (forall i, idx ([[op_n m]] ++ keys ++ [[op_n n]; [xae]]) (n + 1 + i) = idx [[op_n n]; [xae]] i) as Hidx.
  { intros i. rewrite app_assoc. rewrite idx_app_r by (rewrite lenNg_app, lenNg_cons, lenNg_nil; unfold lenNg, n; lia).
    f_equal. rewrite lenNg_app, lenNg_cons, lenNg_nil. unfold lenNg, n. lia. }
  replace (n + 3 - 2) with (n + 1 + 0) by lia. replace (n + 3 - 1) with (n + 1 + 1) by lia.
  unfold part_nonempty, part_len, part_byte_is, part_byte. rewrite !Hidx. rewrite idx_0, idx_1. cbn [chk obind].
  rewrite !idx_0. cbn [chk obind lenN List.length N.of_nat N.ltb N.compare].
  assert (is_small_int_op (b2n (op_n n)) = true) as -> by (rewrite Bn; unfold is_small_int_op, OpTRUE, Op16; lia).
  reflexivity.
Qed.

(** ** P2PKH inscription *)
Lemma part_len_app_l (front back : list bytes) i : i < lenNg front -> part_len (front ++ back) i = part_len front i.
Proof. intros H. unfold part_len. rewrite idx_app_l by exact H. reflexivity. Qed.
Lemma part_byte_is_app_l (front back : list bytes) i j v : i < lenNg front ->
  part_byte_is (front ++ back) i j v = part_byte_is front i j v.
Proof. intros H. unfold part_byte_is, part_byte. rewrite idx_app_l by exact H. reflexivity. Qed.
Lemma all_nonempty_app_l (front back : list bytes) : forall is, Forall (fun i => i < lenNg front) is ->
  all_nonempty (front ++ back) is = all_nonempty front is.
Proof.
  induction is as [|i r IH]; intros H; [reflexivity|]. inversion H; subst. cbn [all_nonempty].
  rewrite part_len_app_l by assumption. destruct (part_len front i) as [l| | |]; cbn [obind]; try reflexivity.
  destruct (l =? 0); [reflexivity|]. apply IH. assumption.
Qed.

(** the helper looks at parts 0..12 and, when present, at part 13 *)
Lemma helper_suffix front l : lenNg front = 13 -> inscription_helper front = Ok true ->
  inscription_helper (front ++ ([x6a] :: l)) = Ok true.
Proof.
  intros L H. unfold inscription_helper in *. rewrite lenNg_app, lenNg_cons, L in *.
  replace (13 <? 13) with false in H by lia. replace (13 + (1 + lenNg l) <? 13) with false by lia.
  rewrite all_nonempty_app_l by (rewrite L; repeat constructor; lia).
  destruct (all_nonempty front [0; 1; 3; 4; 5; 6; 8; 10; 12]) as [[|]| | |]; cbn [obind negb] in *; try discriminate.
  rewrite part_len_app_l by lia.
  destruct (part_len front 7) as [l7| | |]; cbn [obind] in *; try discriminate.
  destruct (l7 <? 3); [discriminate|].
  rewrite !part_byte_is_app_l by lia.
  match type of H with obind ?v _ = _ => destruct v as [vv| | |]; cbn [obind] in *; try discriminate end.
  injection H as ->.
  replace (13 <? 13 + (1 + lenNg l)) with true by lia.
  unfold part_nonempty, part_len, part_byte_is, part_byte.
  rewrite idx_app_r by lia. rewrite L, N.sub_diag, idx_0. cbn [chk obind]. rewrite idx_0. reflexivity.
Qed.

Lemma decode_min_push x e rest : min_push x e -> exists part, decode_parts (e ++ rest) = dcons part (decode_parts rest).
Proof.
  intros [[-> ->]|(hdr & Hpos & [Hh _] & ->)].
  - exists [x00]. apply decode_parts_op. left. reflexivity.
  - exists x. rewrite <- app_assoc. apply decode_parts_push. exact Hh.
Qed.

Lemma tokens_decode t : tokens t -> exists l, decode_parts t = DOk l.
Proof.
  induction 1 as [|b r Hb Hr [l IH]|hdr data r Hh Hr [l IH]].
  - exists []. reflexivity.
  - exists ([b] :: l). rewrite decode_parts_op by exact Hb. rewrite IH. reflexivity.
  - exists (data :: l). rewrite decode_parts_push by exact Hh. rewrite IH. reflexivity.
Qed.

Lemma min_push_len x e : min_push x e -> 1 <= lenN e.
Proof.
  intros [[-> ->]|(hdr & Hpos & [Hh _] & ->)]; [cbn; lia|]. rewrite lenN_app. lia.
Qed.

Theorem inscription_classified s : is_inscription_t s -> script_type s = Ok TInscription.
Proof.
  intros (h & ct & data & ect & edata & suffix & Hl & Hct & Hdata & Hsuf & ->).
  set (s := p2pkh_script h ++ ord_header ++ ect ++ [x00] ++ edata ++ [x68] ++ suffix).
  assert (lenN h = 20) as Lh by (unfold lenN; rewrite Hl; reflexivity).
  (* decode the whole script *)
  assert (exists ctp datap sfx, decode_parts s = DOk ([[x76]; [xa9]; h; [x88]; [xac]; [x00]; [x63]; [x6f; x72; x64]; [x51]; ctp; [x00]; datap; [x68]] ++ sfx)
            /\ (sfx = [] \/ exists l, sfx = [x6a] :: l)) as (ctp & datap & sfx & D & Hsfx).
  { destruct (decode_min_push ct ect ([x00] ++ edata ++ [x68] ++ suffix) Hct) as (ctp & Dct).
    destruct (decode_min_push data edata ([x68] ++ suffix) Hdata) as (datap & Ddata).
    assert (exists sfx, decode_parts suffix = DOk sfx /\ (sfx = [] \/ exists l, sfx = [x6a] :: l)) as (sfx & Dsfx & Hs).
    { destruct Hsuf as [-> |(t & -> & Ht)].
      - exists []. split; [reflexivity|left; reflexivity].
      - destruct (tokens_decode t Ht) as [l Dl]. exists ([x6a] :: l). split; [|right; eauto].
        rewrite decode_parts_op by (right; vm_compute; reflexivity). rewrite Dl. reflexivity. }
    exists ctp, datap, sfx. split; [|exact Hs].
    unfold s, p2pkh_script, ord_header. rewrite <- !app_assoc. cbn [app].
    rewrite decode_parts_op by (right; vm_compute; reflexivity).
    rewrite decode_parts_op by (right; vm_compute; reflexivity).
    change (x14 :: h ++ x88 :: xac :: x00 :: x63 :: x03 :: x6f :: x72 :: x64 :: x51 :: ect ++ x00 :: edata ++ x68 :: suffix)
      with ([x14] ++ h ++ (x88 :: xac :: x00 :: x63 :: x03 :: x6f :: x72 :: x64 :: x51 :: ect ++ x00 :: edata ++ x68 :: suffix)).
    rewrite decode_parts_push by (rewrite Lh; apply (ph_direct 20); lia).
    rewrite decode_parts_op by (right; vm_compute; reflexivity).
    rewrite decode_parts_op by (right; vm_compute; reflexivity).
    rewrite decode_parts_op by (left; reflexivity).
    rewrite decode_parts_op by (right; vm_compute; reflexivity).
    change (x03 :: x6f :: x72 :: x64 :: x51 :: ect ++ x00 :: edata ++ x68 :: suffix)
      with ([x03] ++ [x6f; x72; x64] ++ (x51 :: ect ++ x00 :: edata ++ x68 :: suffix)).
    rewrite decode_parts_push by (apply (ph_direct 3); lia).
    rewrite decode_parts_op by (right; vm_compute; reflexivity).
    change (x00 :: edata ++ x68 :: suffix) with ([x00] ++ edata ++ [x68] ++ suffix). rewrite Dct.
    cbn [app]. rewrite decode_parts_op by (left; reflexivity).
    change (x68 :: suffix) with ([x68] ++ suffix). rewrite Ddata.
    cbn [app]. rewrite decode_parts_op by (right; vm_compute; reflexivity).
    rewrite Dsfx. reflexivity. }
  set (front := [[x76]; [xa9]; h; [x88]; [xac]; [x00]; [x63]; [x6f; x72; x64]; [x51]; ctp; [x00]; datap; [x68]]) in *.
  assert (lenNg front = 13) as Lf by reflexivity.
  assert (inscription_helper front = Ok true) as Hf by (vm_compute; reflexivity).
  assert (inscription_helper (front ++ sfx) = Ok true) as Hh.
  { destruct Hsfx as [-> |(l & ->)]; [rewrite app_nil_r; exact Hf|apply helper_suffix; assumption]. }
  (* the script is longer than a P2PKH and starts with OP_DUP *)
  assert (s = x76 :: (xa9 :: x14 :: h ++ [x88; xac] ++ ord_header ++ ect ++ [x00] ++ edata ++ [x68] ++ suffix)) as Es.
  { unfold s, p2pkh_script. cbn [app]. rewrite <- !app_assoc. reflexivity. }
  assert (lenN s <> 25) as Ls.
  { unfold s, p2pkh_script, ord_header. rewrite !lenN_app, Lh. pose proof (min_push_len _ _ Hct). pose proof (min_push_len _ _ Hdata).
    change (lenN [x76; xa9; x14]) with 3. change (lenN [x88; xac]) with 2. change (lenN [x00; x63; x03; x6f; x72; x64; x51]) with 7.
    change (lenN [x00]) with 1. change (lenN [x68]) with 1. lia. }
  unfold script_type. replace (lenN s =? 0) with false by (rewrite Es, lenN_cons; lia).
  rewrite (is_p2pkh_len s Ls). cbn [obind].
  rewrite (is_p2pk_len s _ D) by (rewrite lenNg_app, Lf; lia). cbn [obind].
  rewrite Es at 1. rewrite is_data_first by (vm_compute; congruence). cbn [obind].
  rewrite (is_multisig_first s _ [x76] (tl front ++ sfx) x76 [] D) by reflexivity. cbn [obind].
  unfold is_p2pkh_inscription. rewrite (decoded_of _ _ D). cbn [obind]. rewrite Hh. reflexivity.
Qed.

(** scripts that instantiate a standard template are reported as that type *)
Theorem template_classified s :
  (is_p2pkh_t s -> script_type s = Ok TPubKeyHash) /\
  (is_p2pk_t s -> script_type s = Ok TPubKey) /\
  (is_multisig_t s -> script_type s = Ok TMultiSig) /\
  (is_data_t s -> script_type s = Ok TNullData) /\
  (is_inscription_t s -> script_type s = Ok TInscription).
Proof.
  repeat split; [apply p2pkh_classified|apply p2pk_classified|apply multisig_classified|apply data_classified|apply inscription_classified].
Qed.

(** ** the templates are pairwise disjoint (a consequence: each has a different type) *)
Theorem templates_disjoint s :
  ~ (is_p2pkh_t s /\ is_p2pk_t s) /\ ~ (is_p2pkh_t s /\ is_multisig_t s) /\ ~ (is_p2pkh_t s /\ is_data_t s) /\
  ~ (is_p2pkh_t s /\ is_inscription_t s) /\ ~ (is_p2pk_t s /\ is_multisig_t s) /\ ~ (is_p2pk_t s /\ is_data_t s) /\
  ~ (is_p2pk_t s /\ is_inscription_t s) /\ ~ (is_multisig_t s /\ is_data_t s) /\
  ~ (is_multisig_t s /\ is_inscription_t s) /\ ~ (is_data_t s /\ is_inscription_t s).
Proof.
  repeat split; intros [A B];
    try (apply p2pkh_classified in A); try (apply p2pk_classified in A); try (apply multisig_classified in A);
    try (apply data_classified in A); try (apply inscription_classified in A);
    try (apply p2pkh_classified in B); try (apply p2pk_classified in B); try (apply multisig_classified in B);
    try (apply data_classified in B); try (apply inscription_classified in B); congruence.
Qed.
