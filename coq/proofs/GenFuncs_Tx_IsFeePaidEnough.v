(** Tx.IsFeePaidEnough (tx.go), as printed from the Go source (calls of the printed SizeWithTypes, feesPaid,
    TotalInputSatoshis, TotalOutputSatoshis), is [is_fee_paid_enough] of model/Fees.v: same verdict, same error, same
    panic.  The quote is the two Fee pointers its map holds (see proofs/GenFuncs_Tx_feesPaid.v). *)
From Coq Require Import List ZArith NArith Bool Lia ZifyN ZifyNat ZifyBool.
From Coq Require Import Strings.Byte.
From GoBT Require Import lib.Bytes lib.VarInt lib.GoSem lib.GoTx gen.Funcs proofs.GenFuncsTac proofs.GenFuncsTxTac model.Tx model.Fees spec.FeeSpec.
From GoBT Require Import proofs.FeesProofs proofs.GenFuncs_Tx_SizeWithTypes proofs.GenFuncs_Tx_feesPaid proofs.GenFuncs_Tx_TotalInputSatoshis proofs.GenFuncs_Tx_TotalOutputSatoshis.
Import ListNotations.
Ltac Zify.zify_post_hook ::= Z.div_mod_to_equations.
Local Open Scope Z_scope.

(** the pair of results: verdict, error *)
Definition enough_result (o : outcome bool) : M (bool * bool) :=
  match o with
  | FOk b => Val (b, false)
  | FErr _ => Val (false, true)
  | FPanic => Panic
  | FFatal => NoFuel          (* not an outcome of is_fee_paid_enough *)
  end.

Lemma size_of_to_go s : size_of_go (size_to_go s) = s.
Proof. destruct s. unfold size_of_go, size_to_go. cbn. rewrite !N2Z.id. reflexivity. Qed.

Lemma total_in_lt t : (total_in t < two64)%N.
Proof.
  unfold total_in. generalize (tx_ins t). intros l.
  assert (G : forall a, (a < two64)%N -> (fold_left (fun a i => add64 a (in_sats i)) l a < two64)%N).
  { induction l as [|i l IH]; intros a Ha; cbn [fold_left]; [exact Ha|]. apply IH. unfold add64, two64. lia. }
  apply G. unfold two64. lia.
Qed.
Lemma total_out_lt t : (total_out t < two64)%N.
Proof.
  unfold total_out. generalize (tx_outs t). intros l.
  assert (G : forall a, (a < two64)%N -> (fold_left (fun a o => add64 a (out_sats o)) l a < two64)%N).
  { induction l as [|i l IH]; intros a Ha; cbn [fold_left]; [exact Ha|]. apply IH. unfold add64, two64. lia. }
  apply G. unfold two64. lia.
Qed.

Lemma Tx_IsFeePaidEnough_is_model ins outs ver lock (std data : option go_Fee) :
  Forall go_input_ok ins -> Forall go_output_ok outs -> u32 ver -> u32 lock -> len_ok ins -> len_ok outs ->
  Z.of_N (tx_size (tx_of_go ins outs ver lock)) < 9223372036854775808 ->
  Tx_IsFeePaidEnough (map Some ins) (map Some outs) ver lock std data =
  enough_result (is_fee_paid_enough (tx_of_go ins outs ver lock) (quote_of_go std data)).
Proof.
  intros Hins Houts Hv Hl Hli Hlo Hsz. unfold Tx_IsFeePaidEnough, is_fee_paid_enough.
  set (t := tx_of_go ins outs ver lock) in *.
  rewrite (Tx_SizeWithTypes_is_model ins outs ver lock) by assumption. fold t. cbn [bind].
  assert (Hok : go_size_ok (size_to_go (size_with_types t))).
  { pose proof (data_le_size t). unfold go_size_ok, size_to_go, size_with_types, u64. cbn [TxSize_TotalBytes TxSize_TotalStdBytes TxSize_TotalDataBytes sz_total sz_std sz_data]. lia. }
  rewrite (Tx_feesPaid_is_model _ std data Hok), size_of_to_go.
  destruct (fees_paid (size_with_types t) (quote_of_go std data)) as [f|e| |]; cbn [fees_result bind obind enough_result]; try reflexivity.
  rewrite (Tx_TotalInputSatoshis_is_model ins outs ver lock Hins Hli). fold t. cbn [bind].
  rewrite (Tx_TotalOutputSatoshis_is_model ins outs ver lock (go_output_ok_sats outs Houts) Hlo). fold t. cbn [bind].
  pose proof (total_in_lt t) as Hi. pose proof (total_out_lt t) as Ho. unfold two64 in *.
  destruct (N.ltb_spec (total_in t) (total_out t)) as [Hlt|Hge].
  - replace (Z.of_N (total_in t) <? Z.of_N (total_out t)) with true by lia. reflexivity.
  - replace (Z.of_N (total_in t) <? Z.of_N (total_out t)) with false by lia.
    cbn [bind go_field fees_to_go TxFees_TotalFeePaid enough_result]. apply Val_inj. f_equal.
    unfold go_sub, go_wrap. lia.
Qed.
