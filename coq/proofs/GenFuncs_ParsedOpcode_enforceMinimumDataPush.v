(** ParsedOpcode.enforceMinimumDataPush (bscript/interpreter/opcodeparser.go), as printed from the Go source, is
    the negation of [minimal_push_ok] of model/Interp.v (the Go function returns an error, printed as [true],
    exactly when the push is not minimal) ON THE DOMAIN WHERE THE ENGINE CALLS IT: opcode values up to
    OP_PUSHDATA4 = 78 (thread.executeOpcode guards the call with [pop.op.val <= bscript.OpPUSHDATA4], and so does
    the model's [step]).  No hypothesis on the data.

    Outside that domain the two differ, and the difference is a MODEL inaccuracy, not a library defect: for a
    one-byte push [x], 1 <= x <= 16, carried by the opcode OP_x itself (value 80 + x), and for [0x81] carried by
    OP_1NEGATE, the Go function falls through to "a 1-byte push must use OP_DATA_1" and returns an error, while
    [minimal_push_ok] answers "acceptable".  Such parsed opcodes do not exist (OP_1..OP_16 and OP_1NEGATE carry
    no data) and the call is guarded; [enforceMinimumDataPush_differs_above_PUSHDATA4] in search/GenFuncsDiffers_enforceMinimumDataPush.v
    records the inputs. *)
From Coq Require Import List ZArith NArith Bool Lia ZifyN ZifyNat ZifyBool.
From Coq Require Import Strings.Byte.
From GoBT Require Import lib.Bytes lib.GoSem gen.Funcs proofs.GenFuncsTac proofs.GenFuncsLoopTac.
From GoBT Require model.Interp.
Import ListNotations.
Ltac Zify.zify_post_hook ::= Z.div_mod_to_equations.
Local Open Scope Z_scope.

(** the general statement: every opcode value except OP_1NEGATE and OP_1..OP_16 (and below 2^63, where Go's
    [int(o.op.val)] is the identity -- the field is a byte) *)
Lemma ParsedOpcode_enforceMinimumDataPush_is_model_gen (p : Interp.pop) :
  (Interp.p_val p < 9223372036854775808)%N ->
  (Interp.p_val p <> 79)%N -> ~ (81 <= Interp.p_val p <= 96)%N ->
  ParsedOpcode_enforceMinimumDataPush (Z.of_N (Interp.p_val p)) (Interp.p_data p) = Val (negb (Interp.minimal_push_ok p)).
Proof.
  destruct p as [v pl data pr]. cbn [Interp.p_val Interp.p_data]. intros Hv H79 H81.
  unfold ParsedOpcode_enforceMinimumDataPush, Interp.minimal_push_ok. cbn [Interp.p_val Interp.p_data]. cbv zeta.
  unfold go_andthen, go_orelse, Interp.OP_0, Interp.OP_1, Interp.OP_1NEGATE, Interp.OP_PUSHDATA1, Interp.OP_PUSHDATA2.
  destruct data as [|x [|y r]].
  - change (go_len (@nil byte)) with 0. go_cases; go_close.
  - go_index_norm. change (go_len [x]) with 1. pose proof (b2z_range x) as Hx.
    go_cases; go_close.
  - go_index_norm.
    assert (H2 : 2 <= go_len (x :: y :: r)) by (unfold go_len; cbn [length]; lia).
    assert (HN : Z.of_N (N.of_nat (length (x :: y :: r))) = go_len (x :: y :: r)) by (unfold go_len; lia).
    remember (go_len (x :: y :: r)) as dl eqn:Edl. remember (N.of_nat (length (x :: y :: r))) as dn eqn:Edn.
    clear Edl Edn. pose proof (b2z_range x) as Hx.
    go_cases; go_close.
Qed.

Lemma ParsedOpcode_enforceMinimumDataPush_is_model (p : Interp.pop) :
  (Interp.p_val p <= Interp.OP_PUSHDATA4)%N ->
  ParsedOpcode_enforceMinimumDataPush (Z.of_N (Interp.p_val p)) (Interp.p_data p) = Val (negb (Interp.minimal_push_ok p)).
Proof.
  unfold Interp.OP_PUSHDATA4. intros H. apply ParsedOpcode_enforceMinimumDataPush_is_model_gen; lia.
Qed.
