(** Proofs about model/Fees.v: size partition, floor fees, fee-sufficiency predicates, estimation errors,
    DER length bound, estimate >= signed size (C11) and the lemmas C10 / C12 build on. *)
From Coq Require Import List NArith Lia Bool ZArith ZifyN ZifyNat ZifyBool.
From Coq Require Import Strings.Byte.
From GoBT Require Import lib.Bytes lib.Parse lib.VarInt model.Tx proofs.TxProofs gen.Consts spec.FeeSpec model.Fees.
Import ListNotations.
Ltac Zify.zify_post_hook ::= Z.div_mod_to_equations.
Local Open Scope N_scope.
Local Open Scope bool_scope.

(** ** outcomes *)
Lemma obind_ok {A B} (x : outcome A) (f : A -> outcome B) b :
  obind x f = FOk b -> exists a, x = FOk a /\ f a = FOk b.
Proof. destruct x; cbn; try discriminate. eauto. Qed.

(** ** DecodeParts never runs out of fuel *)
Lemma dcons_nf p r : r <> DFuel -> dcons p r <> DFuel.
Proof. destruct r; cbn; congruence. Qed.

Lemma decode_parts_fuel_enough f b : (length b < f)%nat -> decode_parts_fuel f b <> DFuel.
Proof.
  revert b. induction f as [|f IH]; intros b Hf; [lia|].
  destruct b as [|op rest]; cbn [decode_parts_fuel]; [discriminate|].
  cbn [length] in Hf.
  assert (Hs : forall n (l : bytes), (length l <= length rest)%nat -> decode_parts_fuel f (skipn n l) <> DFuel).
  { intros n l Hl. apply IH. rewrite skipn_length. lia. }
  repeat match goal with
         | |- context [if ?c then _ else _] => destruct c
         | |- context [match ?l with [] => _ | _ :: _ => _ end] => destruct l eqn:?
         end; try discriminate; try (apply dcons_nf);
    try (apply Hs; cbn [length]; rewrite ?skipn_length; lia).
  apply IH. lia.
Qed.

Theorem decode_parts_never_out_of_fuel b : decode_parts b <> DFuel.
Proof. unfold decode_parts. apply decode_parts_fuel_enough. lia. Qed.

(** ** sums *)
Lemma fold_plus_acc {A} (f : A -> N) l a :
  fold_left (fun x y => x + f y) l a = a + fold_left (fun x y => x + f y) l 0.
Proof.
  revert a. induction l as [|y l IH]; intros a; cbn [fold_left]; [lia|].
  rewrite IH. rewrite (IH (0 + f y)). lia.
Qed.

Lemma fold_add64_sum {A} (f : A -> N) l a :
  fold_left (fun x y => x + f y) l a < two64 ->
  fold_left (fun x y => add64 x (f y)) l a = fold_left (fun x y => x + f y) l a.
Proof.
  revert a. induction l as [|y l IH]; intros a H; cbn [fold_left] in *; [reflexivity|].
  assert (Hlt : a + f y < two64) by (rewrite fold_plus_acc in H; lia).
  unfold add64 at 2. rewrite N.mod_small by exact Hlt. apply IH. exact H.
Qed.

Lemma total_in_sum t : sum_in t < two64 -> total_in t = sum_in t.
Proof. apply fold_add64_sum. Qed.
Lemma total_out_sum t : sum_out t < two64 -> total_out t = sum_out t.
Proof. apply fold_add64_sum. Qed.

(** ** the data bytes are a sum over the data-carrier outputs, and are part of the serialisation *)
Definition data_sum (outs : list output) : N :=
  fold_right N.add 0 (map (fun o => lenN (out_script o)) (filter (fun o => is_data (out_script o)) outs)).

Lemma data_len_acc outs a :
  fold_left (fun a o => if is_data (out_script o) then a + lenN (out_script o) else a) outs a = a + data_len outs.
Proof.
  unfold data_len. revert a. induction outs as [|o outs IH]; intros a; cbn [fold_left]; [lia|].
  rewrite IH. rewrite (IH (if is_data (out_script o) then _ else _)).
  destruct (is_data (out_script o)); lia.
Qed.

Lemma data_len_cons o outs :
  data_len (o :: outs) = (if is_data (out_script o) then lenN (out_script o) else 0) + data_len outs.
Proof.
  unfold data_len at 1. cbn [fold_left]. rewrite data_len_acc. destruct (is_data (out_script o)); lia.
Qed.

Lemma data_len_app a b : data_len (a ++ b) = data_len a + data_len b.
Proof.
  induction a as [|o a IH]; [reflexivity|]. cbn [app]. rewrite !data_len_cons, IH. lia.
Qed.

Lemma data_len_sum outs : data_len outs = data_sum outs.
Proof.
  unfold data_sum. induction outs as [|o outs IH]; [reflexivity|].
  rewrite data_len_cons, IH. cbn [filter]. destruct (is_data (out_script o)); cbn [map fold_right]; lia.
Qed.

Definition outs_len (outs : list output) : N := lenN (concat (map output_bytes outs)).
Definition ins_len (ins : list input) : N := lenN (concat (map (input_bytes false) ins)).

Lemma lenN_le_enc k v : lenN (le_enc k v) = N.of_nat k.
Proof. unfold lenN. rewrite le_enc_length. reflexivity. Qed.

Lemma lenN_script_bytes s : lenN (script_bytes s) = varint_len (lenN s) + lenN s.
Proof. unfold script_bytes. rewrite lenN_app, <- varint_len_spec. reflexivity. Qed.

Lemma lenN_output_bytes o : lenN (output_bytes o) = 8 + varint_len (lenN (out_script o)) + lenN (out_script o).
Proof. unfold output_bytes. rewrite lenN_app, lenN_le_enc, lenN_script_bytes. lia. Qed.

Lemma outs_len_cons o outs : outs_len (o :: outs) = lenN (output_bytes o) + outs_len outs.
Proof. unfold outs_len. cbn [map concat]. apply lenN_app. Qed.
Lemma outs_len_app a b : outs_len (a ++ b) = outs_len a + outs_len b.
Proof. induction a as [|o a IH]; [reflexivity|]. cbn [app]. rewrite !outs_len_cons, IH. lia. Qed.
Lemma ins_len_cons i ins : ins_len (i :: ins) = lenN (input_bytes false i) + ins_len ins.
Proof. unfold ins_len. cbn [map concat]. apply lenN_app. Qed.

Lemma data_len_le_outs outs : data_len outs <= outs_len outs.
Proof.
  induction outs as [|o outs IH]; [unfold data_len, outs_len; cbn; lia|].
  rewrite data_len_cons, outs_len_cons, lenN_output_bytes. destruct (is_data (out_script o)); lia.
Qed.

Lemma tx_size_eq t :
  tx_size t = 8 + varint_len (N.of_nat (length (tx_ins t))) + ins_len (tx_ins t) +
              varint_len (N.of_nat (length (tx_outs t))) + outs_len (tx_outs t).
Proof.
  unfold tx_size, tx_bytes, ins_len, outs_len. cbn [app].
  rewrite !lenN_app, !lenN_le_enc, <- !varint_len_spec. lia.
Qed.

Lemma data_le_size t : data_len (tx_outs t) <= tx_size t.
Proof. rewrite tx_size_eq. pose proof (data_len_le_outs (tx_outs t)). lia. Qed.

(** C11 size_partition *)
Theorem size_partition t :
  let sz := size_with_types t in
  sz_total sz = lenN (tx_bytes false t) /\
  sz_total sz = sz_std sz + sz_data sz /\
  sz_data sz = data_sum (tx_outs t).
Proof.
  intros sz. subst sz. unfold size_with_types. cbn [sz_total sz_std sz_data].
  split; [reflexivity|]. split; [|apply data_len_sum].
  pose proof (data_le_size t). lia.
Qed.

(** ** floor fees *)
Theorem fee_floor sz q f :
  fees_paid sz q = FOk f ->
  exists sf df, q_std q = Some sf /\ q_data q = Some df /\ r_bytes sf <> 0 /\ r_bytes df <> 0 /\
    fee_std f = ((sz_std sz * r_sat sf) mod two64) / r_bytes sf /\
    fee_data f = ((sz_data sz * r_sat df) mod two64) / r_bytes df /\
    fee_total f = (fee_std f + fee_data f) mod two64 /\
    (sz_std sz * r_sat sf < two64 -> sz_data sz * r_sat df < two64 ->
     floor_fee (sz_std sz) sf + floor_fee (sz_data sz) df < two64 ->
     fee_std f = floor_fee (sz_std sz) sf /\ fee_data f = floor_fee (sz_data sz) df /\
     fee_total f = quoted_fee sf df (sz_std sz) (sz_data sz)).
Proof.
  unfold fees_paid, get_fee, fee_of. intros H.
  destruct (q_std q) as [sf|]; cbn [obind] in H; [|discriminate].
  destruct (q_data q) as [df|]; cbn [obind] in H; [|discriminate].
  destruct (N.eqb_spec (r_bytes sf) 0) as [E1|E1]; cbn [obind] in H; [discriminate|].
  destruct (N.eqb_spec (r_bytes df) 0) as [E2|E2]; cbn [obind] in H; [discriminate|].
  injection H as <-. exists sf, df. cbn [fee_std fee_data fee_total]. repeat split; auto.
  all: unfold quoted_fee, floor_fee, add64 in *; rewrite ?(N.mod_small (sz_std sz * r_sat sf)), ?(N.mod_small (sz_data sz * r_sat df)) by assumption; try reflexivity.
  apply N.mod_small. assumption.
Qed.

Lemma fees_paid_ok_inv sz q f : fees_paid sz q = FOk f ->
  exists sf df, q_std q = Some sf /\ q_data q = Some df /\ r_bytes sf <> 0 /\ r_bytes df <> 0.
Proof. intros H. destruct (fee_floor _ _ _ H) as (sf & df & ? & ? & ? & ? & _). eauto 8. Qed.

(** fees never exceed bytes * satoshis (denominators are at least one) *)
Lemma floor_fee_le n r : r_bytes r <> 0 -> floor_fee n r <= n * r_sat r.
Proof. intros H. unfold floor_fee. apply N.div_le_upper_bound; [exact H|]. nia. Qed.

Lemma floor_fee_mono a b r : a <= b -> floor_fee a r <= floor_fee b r.
Proof.
  intros H. unfold floor_fee. destruct (N.eq_dec (r_bytes r) 0) as [E|E].
  - rewrite E. destruct (a * r_sat r), (b * r_sat r); cbn; lia.
  - apply N.div_le_mono; [exact E|]. nia.
Qed.

(** ** fee-sufficiency predicates *)
Theorem fee_enough_iff t q b sf df :
  q_std q = Some sf -> q_data q = Some df ->
  let sz := size_with_types t in
  sz_std sz * r_sat sf < two64 -> sz_data sz * r_sat df < two64 ->
  floor_fee (sz_std sz) sf + floor_fee (sz_data sz) df < two64 ->
  is_fee_paid_enough t q = FOk b ->
  b = (total_out t <=? total_in t) && (quoted_fee sf df (sz_std sz) (sz_data sz) <=? total_in t - total_out t).
Proof.
  intros Hs Hd sz H1 H2 H3. unfold is_fee_paid_enough. fold sz.
  destruct (fees_paid sz q) as [f| | |] eqn:E; cbn [obind]; try discriminate.
  destruct (fee_floor _ _ _ E) as (sf' & df' & Hs' & Hd' & _ & _ & _ & _ & _ & Hq).
  rewrite Hs in Hs'. rewrite Hd in Hd'. injection Hs' as <-. injection Hd' as <-.
  destruct (Hq H1 H2 H3) as (_ & _ & ->).
  destruct (N.ltb_spec (total_in t) (total_out t)) as [L|L]; intros [= <-].
  - destruct (N.leb_spec (total_out t) (total_in t)); [lia|reflexivity].
  - destruct (N.leb_spec (total_out t) (total_in t)); [reflexivity|lia].
Qed.

(** ** estimatedFinalTx *)
Definition input_ok (i : input) : Prop := exists s, in_script i = Some s /\ supported s = true.
Definition fill_one (i : input) : input := if unsigned i then with_unlock i dummy_unlocking_script else i.

Lemma fill_dummy_prefix pre rest : Forall input_ok pre ->
  fill_dummy (pre ++ rest) = olet r := fill_dummy rest in FOk (map fill_one pre ++ r).
Proof.
  induction 1 as [|i pre (s & Es & Ss) Hpre IH]; cbn [app map].
  - destruct (fill_dummy rest); reflexivity.
  - cbn [fill_dummy]. rewrite Es, Ss. cbn [negb]. rewrite IH.
    destruct (fill_dummy rest); reflexivity.
Qed.

Lemma fill_dummy_ok ins ins' :
  fill_dummy ins = FOk ins' <-> Forall input_ok ins /\ ins' = map fill_one ins.
Proof.
  split.
  - revert ins'. induction ins as [|i r IH]; intros ins'; cbn [fill_dummy map].
    + intros [= <-]; auto.
    + destruct (in_script i) as [s|] eqn:Es; [|discriminate].
      destruct (supported s) eqn:Ss; cbn [negb]; [|discriminate].
      destruct (fill_dummy r) as [r'| | |]; cbn [obind]; try discriminate.
      intros [= <-]. destruct (IH r' eq_refl) as [Hr ->].
      split; [constructor; [exists s; auto|exact Hr]|reflexivity].
  - intros [F ->]. rewrite <- (app_nil_r ins) at 1. rewrite (fill_dummy_prefix ins [] F).
    cbn. rewrite app_nil_r. reflexivity.
Qed.

(** an error names the first input (in order) that cannot be sized, and which of the two reasons applies *)
Lemma fill_dummy_err ins e :
  fill_dummy ins = FErr e <->
  exists pre i post, ins = pre ++ i :: post /\ Forall input_ok pre /\
    ((in_script i = None /\ e = ErrEmptyPreviousTxScript) \/
     (exists s, in_script i = Some s /\ supported s = false /\ e = ErrUnsupportedScript)).
Proof.
  split.
  - induction ins as [|i r IH]; cbn [fill_dummy]; [discriminate|].
    destruct (in_script i) as [s|] eqn:Es.
    + destruct (supported s) eqn:Ss; cbn [negb].
      * destruct (fill_dummy r) as [r'| e'| |]; cbn [obind]; try discriminate.
        intros [= ->]. destruct (IH eq_refl) as (pre & j & post & -> & Hpre & Hj).
        exists (i :: pre), j, post. split; [reflexivity|]. split; [constructor; [exists s; auto|auto]|auto].
      * intros [= <-]. exists [], i, r. split; [reflexivity|]. split; [constructor|]. right. eauto.
    + intros [= <-]. exists [], i, r. split; [reflexivity|]. split; [constructor|]. left. auto.
  - intros (pre & i & post & -> & Hpre & Hi). rewrite (fill_dummy_prefix _ _ Hpre). cbn [fill_dummy].
    destruct Hi as [[-> ->]|(s & -> & -> & ->)]; reflexivity.
Qed.

Lemma fill_dummy_total ins : fill_dummy ins <> FFatal /\ fill_dummy ins <> FPanic.
Proof.
  induction ins as [|i r [IH1 IH2]]; cbn [fill_dummy]; [split; discriminate|].
  destruct (in_script i); [|split; discriminate].
  destruct (negb _); [split; discriminate|].
  destruct (fill_dummy r); cbn; split; congruence.
Qed.

Lemma est_final_wf t : wf_tx t -> ~ ambiguous t ->
  estimated_final_tx t = olet ins := fill_dummy (tx_ins t) in FOk (set_ins t ins).
Proof. intros W A. unfold estimated_final_tx. rewrite (clone_eq t W A). reflexivity. Qed.

(** C11 estimate_errors: estimation succeeds exactly when every input carries a supported previous script
    (and then only fills in the dummy); otherwise it reports which input is the first offender and why —
    it never guesses, aborts or panics *)
Theorem estimate_errors t : wf_tx t -> ~ ambiguous t ->
  (forall te, estimated_final_tx t = FOk te <->
     Forall input_ok (tx_ins t) /\ te = set_ins t (map fill_one (tx_ins t))) /\
  (forall e, estimated_final_tx t = FErr e <->
     exists pre i post, tx_ins t = pre ++ i :: post /\ Forall input_ok pre /\
       ((in_script i = None /\ e = ErrEmptyPreviousTxScript) \/
        (exists s, in_script i = Some s /\ supported s = false /\ e = ErrUnsupportedScript))) /\
  estimated_final_tx t <> FFatal /\ estimated_final_tx t <> FPanic.
Proof.
  intros W A. rewrite (est_final_wf t W A).
  pose proof (fill_dummy_total (tx_ins t)) as [T1 T2].
  split; [|split; [|split]].
  - intros te. destruct (fill_dummy (tx_ins t)) as [ins'| | |] eqn:E; cbn [obind].
    + apply fill_dummy_ok in E. destruct E as [F ->]. split; [intros [= <-]; auto|intros [_ ->]; reflexivity].
    + split; [discriminate|]. intros [F _].
      assert (fill_dummy (tx_ins t) = FOk (map fill_one (tx_ins t))) by (apply fill_dummy_ok; auto). congruence.
    + congruence.
    + congruence.
  - intros e. rewrite <- fill_dummy_err.
    destruct (fill_dummy (tx_ins t)); cbn [obind]; split; congruence.
  - destruct (fill_dummy (tx_ins t)); cbn [obind]; congruence.
  - destruct (fill_dummy (tx_ins t)); cbn [obind]; congruence.
Qed.

(** ** DER length *)
Lemma le_enc_snoc k v : le_enc (S k) v = le_enc k v ++ [n2b (v / 256 ^ N.of_nat k)].
Proof.
  revert v. induction k as [|k IH]; intros v.
  - cbn [le_enc app]. f_equal. f_equal. change (256 ^ N.of_nat 0) with 1. rewrite N.div_1_r. reflexivity.
  - change (le_enc (S (S k)) v) with (n2b v :: le_enc (S k) (v / 256)). rewrite IH.
    cbn [le_enc app]. f_equal. f_equal. f_equal. f_equal.
    rewrite Nat2N.inj_succ, N.pow_succ_r', N.div_div by lia. reflexivity.
Qed.

Lemma be_enc_head k v : be_enc (S k) v = n2b (v / 256 ^ N.of_nat k) :: be_enc k v.
Proof. unfold be_enc. rewrite le_enc_snoc, rev_app_distr. reflexivity. Qed.

Definition nbytes (v : N) : N := (N.size v + 7) / 8.

Lemma be_min_length v : lenN (be_min v) = nbytes v.
Proof. unfold be_min, lenN. rewrite be_enc_length, N2Nat.id. reflexivity. Qed.

Lemma size_le_of_lt v k : v < 2 ^ k -> N.size v <= k.
Proof.
  intros H. destruct v as [|p]; [cbn; lia|].
  rewrite N.size_log2 by discriminate.
  assert (N.log2 (N.pos p) < k) by (apply N.log2_lt_pow2; [lia|exact H]). lia.
Qed.

Lemma canonicalize_len_le v : 1 <= lenN (canonicalize_int v) <= nbytes v + 1.
Proof.
  unfold canonicalize_int. pose proof (be_min_length v) as L.
  destruct (be_min v) as [|h b] eqn:E.
  - cbn [b2n]. change (128 <=? b2n x00) with false. cbn iota. unfold lenN in *. cbn [length] in *. lia.
  - destruct (128 <=? b2n h); unfold lenN in *; cbn [length] in *; lia.
Qed.

(** a value below 2^255 needs no sign padding within 32 bytes *)
Lemma canonicalize_len_255 v : v < 2 ^ 255 -> lenN (canonicalize_int v) <= 32.
Proof.
  intros H. pose proof (size_le_of_lt v 255 H) as Hs.
  pose proof (canonicalize_len_le v) as [_ Hl].
  assert (Hn : nbytes v <= 32) by (unfold nbytes; lia).
  destruct (N.eq_dec (nbytes v) 32) as [E|E]; [|lia].
  unfold canonicalize_int, be_min. fold (nbytes v). rewrite E.
  change (N.to_nat 32) with (S 31). rewrite be_enc_head.
  rewrite b2n_n2b.
  assert (Hq : v / 256 ^ N.of_nat 31 < 128).
  { apply N.div_lt_upper_bound; [vm_compute; discriminate|].
    change (256 ^ N.of_nat 31 * 128) with (2 ^ 255). exact H. }
  rewrite N.mod_small by lia.
  destruct (N.leb_spec 128 (v / 256 ^ N.of_nat 31)); [lia|].
  unfold lenN. cbn [length]. rewrite be_enc_length. lia.
Qed.

Lemma canonicalize_len_256 v : v < 2 ^ 256 -> lenN (canonicalize_int v) <= 33.
Proof.
  intros H. pose proof (size_le_of_lt v 256 H) as Hs.
  pose proof (canonicalize_len_le v) as [_ Hl]. unfold nbytes in Hl. lia.
Qed.

Lemma der_length r s : lenN (der r s) = 6 + lenN (canonicalize_int r) + lenN (canonicalize_int s).
Proof.
  unfold der. cbv zeta. unfold lenN. cbn [length]. rewrite app_length. cbn [length]. lia.
Qed.

Lemma half_order_lt : half_order < 2 ^ 255.
Proof. vm_compute. reflexivity. Qed.

(** C11 der_len_bound (the hypotheses 0 < r, 0 < s are those of a valid signature; the bound does not need them) *)
Theorem der_len_bound r s : 0 < r < 2 ^ 256 -> 0 < s <= half_order -> lenN (der r s) <= 71.
Proof.
  intros [_ Hr] [_ Hs]. rewrite der_length.
  pose proof (canonicalize_len_256 r Hr). pose proof half_order_lt.
  pose proof (canonicalize_len_255 s ltac:(lia)). lia.
Qed.

(** Serialise normalises to low S itself: any 0 < s < n gives at most 71 bytes *)
Theorem serialise_len_bound r s : 0 < r < 2 ^ 256 -> 0 < s < secp256k1_n -> lenN (serialise r s) <= 71.
Proof.
  intros Hr Hs. unfold serialise. apply der_len_bound; [exact Hr|].
  destruct (N.ltb_spec half_order s) as [L|L]; [|lia].
  assert (secp256k1_n = 2 * half_order + 1) by (vm_compute; reflexivity). lia.
Qed.

(** ** library-shaped unlocking scripts fit the dummy *)
Definition lib_shaped (u : bytes) : Prop :=
  exists sig pk, lenN sig <= 72 /\ lenN pk = 33 /\ u = push_data sig ++ push_data pk.

Lemma push_data_small d : lenN d <= 75 -> lenN (push_data d) = 1 + lenN d.
Proof.
  intros H. unfold push_data, push_prefix. destruct (N.leb_spec (lenN d) 75); [|lia].
  rewrite lenN_app. unfold lenN at 1. cbn [length]. lia.
Qed.

Lemma lib_shaped_len u : lib_shaped u -> lenN u <= 107.
Proof.
  intros (sig & pk & Hs & Hp & ->). rewrite lenN_app, !push_data_small by lia. lia.
Qed.

(** the translator-fed fact: the dummy script in tx.go is at least as long as anything the signer emits *)
Lemma dummy_len_ge : 107 <= lenN dummy_unlocking_script.
Proof. vm_compute. discriminate. Qed.
Lemma dummy_len_consistent : lenN dummy_unlocking_script = dummy_unlocking_script_len.
Proof. vm_compute. reflexivity. Qed.

(** a signature made by the library (DER of (r, s) with low s, hash-type byte, compressed key) is library-shaped *)
Theorem lib_signature_shaped r s pk flag :
  0 < r < 2 ^ 256 -> 0 < s <= half_order -> lenN pk = 33 -> lib_shaped (p2pkh_unlocking pk (der r s) flag).
Proof.
  intros Hr Hs Hp. exists (der r s ++ [flag]), pk. split; [|split; [exact Hp|reflexivity]].
  rewrite lenN_app. pose proof (der_len_bound r s Hr Hs). unfold lenN at 2. cbn [length]. lia.
Qed.

(** ** estimate >= signed size *)
Lemma varint_len_mono a b : a <= b -> varint_len a <= varint_len b.
Proof.
  intros H. unfold varint_len, two16, two32.
  repeat match goal with |- context [?x <? ?y] => destruct (N.ltb_spec x y) end; lia.
Qed.

Lemma lenN_input_bytes i :
  lenN (input_bytes false i) = lenN (in_txid i) + 8 + varint_len (lenN (in_unlock i)) + lenN (in_unlock i).
Proof.
  unfold input_bytes. cbv iota. rewrite app_nil_r, !lenN_app, !lenN_le_enc, lenN_script_bytes.
  unfold lenN at 1. rewrite rev_length. fold (lenN (in_txid i)). lia.
Qed.

Definition sign_rel (i i' : input) : Prop :=
  if unsigned i then exists u, lib_shaped u /\ i' = with_unlock i u else i' = i.

Lemma unsigned_len i : unsigned i = true -> lenN (in_unlock i) = 0.
Proof. unfold unsigned. destruct (in_unlock i); [reflexivity|discriminate]. Qed.

Lemma sign_rel_len i i' : sign_rel i i' -> lenN (input_bytes false i') <= lenN (input_bytes false (fill_one i)).
Proof.
  unfold sign_rel, fill_one. destruct (unsigned i) eqn:U.
  - intros (u & Hu & ->). rewrite !lenN_input_bytes. cbn [with_unlock in_txid in_unlock].
    pose proof (lib_shaped_len u Hu). pose proof dummy_len_ge.
    pose proof (varint_len_mono (lenN u) (lenN dummy_unlocking_script) ltac:(lia)). lia.
  - intros ->. lia.
Qed.

Lemma sign_rel_ins_len ins ins' : Forall2 sign_rel ins ins' -> ins_len ins' <= ins_len (map fill_one ins).
Proof.
  induction 1 as [|i i' r r' H _ IH]; [cbn; lia|].
  cbn [map]. rewrite !ins_len_cons. pose proof (sign_rel_len i i' H). lia.
Qed.

Lemma Forall2_len {A B} (R : A -> B -> Prop) l l' : Forall2 R l l' -> length l = length l'.
Proof. induction 1; cbn; congruence. Qed.

(** C11 estimate_ge_signed *)
Theorem estimate_ge_signed t te ins' : wf_tx t -> ~ ambiguous t ->
  estimated_final_tx t = FOk te -> Forall2 sign_rel (tx_ins t) ins' ->
  tx_size (set_ins t ins') <= tx_size te.
Proof.
  intros W A E S. apply (proj1 (estimate_errors t W A)) in E. destruct E as [_ ->].
  rewrite !tx_size_eq. cbn [set_ins tx_ins tx_outs].
  rewrite map_length, <- (Forall2_len _ _ _ S). pose proof (sign_rel_ins_len _ _ S). lia.
Qed.

(** ** boolean hypotheses are sound *)
Lemma wf_inputb_sound i : wf_inputb i = true -> wf_input i.
Proof.
  unfold wf_inputb, wf_input, wf_script, bytes_wf. intros H.
  repeat (apply andb_prop in H; destruct H as [H ?]).
  apply Nat.eqb_eq in H. repeat split; try lia.
  destruct (in_script i); [lia|exact I].
Qed.
Lemma wf_outputb_sound o : wf_outputb o = true -> wf_output o.
Proof. unfold wf_outputb, wf_output, wf_script, bytes_wf. intros H. split; lia. Qed.

Lemma wf_txb_sound t : wf_txb t = true -> wf_tx t.
Proof.
  unfold wf_txb, wf_tx. intros H. repeat (apply andb_prop in H; destruct H as [H ?]).
  rewrite forallb_forall in *. repeat split; try lia.
  - apply Forall_forall. intros i Hi. apply wf_inputb_sound. auto.
  - apply Forall_forall. intros o Ho. apply wf_outputb_sound. auto.
Qed.

Lemma ambiguousb_sound t : ambiguousb t = false -> ~ ambiguous t.
Proof.
  unfold ambiguousb, ambiguous. intros H (Hi & Ho & Hl). rewrite Hi, Ho in H.
  apply N.eqb_neq in H. contradiction.
Qed.

(** ** the estimated size and the bound the no-overflow hypothesis is stated with *)
Lemma fill_one_len i : lenN (input_bytes false (fill_one i)) <= lenN (input_bytes false i) + lenN dummy_unlocking_script + 8.
Proof.
  unfold fill_one. destruct (unsigned i) eqn:U; [|lia].
  rewrite !lenN_input_bytes. cbn [with_unlock in_txid in_unlock]. rewrite (unsigned_len i U).
  assert (varint_len (lenN dummy_unlocking_script) <= 9).
  { unfold varint_len. repeat match goal with |- context [?x <? ?y] => destruct (x <? y) end; lia. }
  change (varint_len 0) with 1. lia.
Qed.

Lemma fill_ins_len ins : ins_len (map fill_one ins) <= ins_len ins + (lenN dummy_unlocking_script + 8) * N.of_nat (length ins).
Proof.
  induction ins as [|i r IH]; [cbn; lia|].
  cbn [map length]. rewrite !ins_len_cons. pose proof (fill_one_len i). lia.
Qed.

Lemma est_size_le_bound t te : wf_tx t -> ~ ambiguous t -> estimated_final_tx t = FOk te ->
  tx_size te <= size_bound t 0.
Proof.
  intros W A E. apply (proj1 (estimate_errors t W A)) in E. destruct E as [_ ->].
  unfold size_bound. rewrite !tx_size_eq. cbn [set_ins tx_ins tx_outs]. rewrite map_length.
  pose proof (fill_ins_len (tx_ins t)). lia.
Qed.

Lemma est_outs t te : wf_tx t -> ~ ambiguous t -> estimated_final_tx t = FOk te ->
  tx_outs te = tx_outs t /\ length (tx_ins te) = length (tx_ins t) /\
  total_in te = total_in t /\ total_out te = total_out t.
Proof.
  intros W A E. apply (proj1 (estimate_errors t W A)) in E. destruct E as [_ ->].
  cbn [set_ins tx_ins tx_outs]. rewrite map_length. repeat split.
  unfold total_in. cbn [set_ins tx_ins]. generalize 0.
  induction (tx_ins t) as [|i r IH]; intros a; [reflexivity|].
  cbn [map fold_left]. rewrite IH. f_equal. unfold fill_one. destruct (unsigned i); reflexivity.
Qed.
