(** minimallyEncode (bscript/interpreter/number.go), as printed from the Go source, is [minimally_encode] of
    model/ScriptNum.v, for every input: no [Panic], and the fuel of the printed three-clause loop suffices (no
    [NoFuel]).  Hypothesis: the slice is not longer than 2^48 bytes, Go's maxAlloc on linux/amd64 -- the function
    copies its argument with [make([]byte, 0, len(data))], which lib/GoSem.v lets panic above that length (no
    longer slice can exist in a running program). *)
From Coq Require Import List ZArith NArith Bool Lia ZifyN ZifyNat ZifyBool.
From Coq Require Import Strings.Byte.
From GoBT Require Import lib.Bytes lib.GoSem gen.Funcs proofs.GenFuncsTac proofs.GenFuncsLoopTac.
From GoBT Require model.ScriptNum.
Import ListNotations.
Ltac Zify.zify_post_hook ::= Z.div_mod_to_equations.
Local Open Scope Z_scope.

(** ** the loop, as a pure step function in the shape of the code *)
Definition me_cond (s : Z * bytes) : bool := 0 <? fst s.
Definition me_post (s : Z * bytes) : Z * bytes := (fst s - 1, snd s).
Definition me_step (a : byte) (s : Z * bytes) : ctl (Z * bytes) bytes :=
  let i := fst s in let d := snd s in
  let j := Z.to_nat (i - 1) in
  match nth_error d j with
  | Some x => if (b2n x =? 0)%N then Next (i, d)
              else if (128 <=? b2n x)%N then Return (firstn (Datatypes.S (Datatypes.S j)) (upd d (Datatypes.S j) a))
              else Return (firstn (Datatypes.S j) (upd d j (n2b (N.lor (b2n x) (b2n a)))))
  | None => Next (i, d)
  end.

Lemma firstn_exact {A} (l r : list A) : firstn (length l) (l ++ r) = l.
Proof. rewrite firstn_app, firstn_all, Nat.sub_diag. cbn [firstn]. apply app_nil_r. Qed.
Lemma firstn_exact_S {A} (l r : list A) (v : A) : firstn (Datatypes.S (length l)) (l ++ v :: r) = l ++ [v].
Proof.
  rewrite firstn_app. rewrite firstn_all2 by lia. replace (Datatypes.S (length l) - length l)%nat with 1%nat by lia. reflexivity.
Qed.

(** the loop against the model's scan [strip_zeros_rev]: [q] is the part of the slice still to be scanned, [z] the
    zero bytes already skipped, [a] the last byte *)
Lemma me_loop_model (a : byte) : forall (q z : bytes) (fuel : nat),
  (length q <= fuel)%nat -> Forall (fun b => b2n b = 0%N) z ->
  for_pure me_cond (me_step a) me_post fuel (Z.of_nat (length q), q ++ z ++ [a]) =
  match ScriptNum.strip_zeros_rev (rev q) with
  | [] => Fall (0, q ++ z ++ [a])
  | top :: lower =>
      Returned (if ScriptNum.hi_bit top then rev (a :: top :: lower)
                else rev (n2b (N.lor (b2n top) (b2n a)) :: lower))
  end.
Proof.
  induction q as [|x q' IH] using rev_ind; intros z fuel Hf Hz.
  - destruct fuel; reflexivity.
  - rewrite app_length in *. cbn [length] in *. destruct fuel as [|f]; [exfalso; lia|].
    rewrite rev_app_distr. cbn [rev app ScriptNum.strip_zeros_rev].
    cbn [for_pure]. unfold me_cond at 1. cbn [fst].
    replace (0 <? Z.of_nat (length q' + 1)) with true by lia. cbn [negb].
    unfold me_step at 1. cbn [fst snd].
    replace (Z.to_nat (Z.of_nat (length q' + 1) - 1)) with (length q') by lia.
    rewrite <- app_assoc. cbn [app].
    rewrite nth_error_app2 by lia. rewrite Nat.sub_diag. cbn [nth_error].
    destruct (b2n x =? 0)%N eqn:E0.
    + change (me_post (Z.of_nat (length q' + 1), q' ++ x :: z ++ [a])) with (Z.of_nat (length q' + 1) - 1, q' ++ x :: z ++ [a]).
      replace (Z.of_nat (length q' + 1) - 1) with (Z.of_nat (length q')) by lia.
      specialize (IH (x :: z) f). cbn [app] in IH.
      etransitivity; [apply IH; [lia|constructor; [lia|exact Hz]]|].
      destruct (ScriptNum.strip_zeros_rev (rev q')); reflexivity.
    + unfold ScriptNum.hi_bit. destruct (128 <=? b2n x)%N eqn:E1; f_equal.
      * unfold upd. replace (q' ++ x :: z ++ [a]) with ((q' ++ [x]) ++ z ++ [a]) by (rewrite <- app_assoc; reflexivity).
        replace (Datatypes.S (length q')) with (length (q' ++ [x])) by (rewrite app_length; cbn [length]; lia).
        rewrite firstn_exact, firstn_exact_S. cbn [rev]. rewrite rev_involutive. reflexivity.
      * unfold upd. rewrite firstn_exact, firstn_exact_S. cbn [rev]. rewrite rev_involutive. reflexivity.
Qed.

Lemma minimallyEncode_is_model (data : bytes) : (lenN data <= 281474976710656)%N ->
  minimallyEncode data = Val (ScriptNum.minimally_encode data).
Proof.
  intros Hl. unfold minimallyEncode, ScriptNum.minimally_encode, ScriptNum.hi_bit.
  destruct (list_end_cases data) as [->|[[a ->]|[l [p [a ->]]]]].
  - vm_compute. reflexivity.
  - cbn [rev app]. change (go_len [a]) with 1.
    repeat match goal with
    | |- context [go_index_b [a] ?e] =>
        first [ rewrite (go_index_b_at [a] e 0 a eq_refl) by (go_arith; lia)
              | rewrite (go_index_b_out [a] e) by (change (go_len [a]) with 1; go_arith; lia) ]
    end.
    cbn [bind]. byte_masks. go_cases; go_close.
  - rewrite rev_app_distr. cbn [rev app].
    assert (Hlen : go_len (l ++ [p; a]) = Z.of_nat (length l) + 2) by (unfold go_len; rewrite app_length; cbn [length]; lia).
    unfold lenN in Hl. rewrite app_length in Hl. cbn [length] in Hl.
    (* the reads before the loop *)
    repeat match goal with
    | |- context [go_index_b (l ++ [p; a]) ?e] =>
        first [ rewrite (go_index_b_at (l ++ [p; a]) e (Datatypes.S (length l)) a (nth_error_end2_last l p a)) by (rewrite ?Hlen; go_arith; lia)
              | rewrite (go_index_b_at (l ++ [p; a]) e (length l) p (nth_error_end2_prev l p a)) by (rewrite ?Hlen; go_arith; lia) ]
    end.
    unfold go_make_bytes_cap, go_max_alloc. rewrite ?Hlen. cbn [bind]. byte_masks.
    destruct (b2n a mod 128 =? 0)%N eqn:Ea; destruct (128 <=? b2n p)%N eqn:Ep;
      repeat (cbn [bind negb]; cbv beta; go_decide); try reflexivity.
    (* the copy, then the loop *)
    change (Z.to_nat 0) with 0%nat. cbn [repeat_byte app]. cbv zeta. rewrite ?Hlen.
    set (D := l ++ [p; a]).
    assert (HD : D = (l ++ [p]) ++ [] ++ [a]) by (subst D; rewrite <- app_assoc; reflexivity).
    assert (HlenD : length D = Datatypes.S (Datatypes.S (length l))) by (subst D; rewrite app_length; cbn [length]; lia).
    rewrite (go_for_pure (fun s => snd s = D /\ 0 <= fst s < Z.of_nat (length D)) (fun s => Z.to_nat (fst s))
               _ _ _ me_cond (me_step a) me_post).
    + (* the pure loop is the model's scan *)
      cbn [bind].
      match goal with |- context [for_pure _ _ _ _ (?i, D)] =>
        replace i with (Z.of_nat (length (l ++ [p]))) by (rewrite app_length; cbn [length]; go_arith; lia)
      end.
      rewrite HD.
      match goal with |- context [for_pure _ _ _ ?fuel _] =>
        rewrite (me_loop_model a (l ++ [p]) [] fuel) by (first [constructor | rewrite ?app_length; cbn [length]; go_arith; lia])
      end.
      rewrite rev_app_distr. cbn [rev app].
      destruct (ScriptNum.strip_zeros_rev (p :: rev l)) as [|top lower]; [reflexivity|].
      unfold ScriptNum.hi_bit. destruct (128 <=? b2n top)%N; reflexivity.
    + (* loop condition *)
      intros [i d] [Hd Hi]. cbn [fst snd] in *. subst d. unfold me_cond. cbn [fst]. reflexivity.
    + (* loop body *)
      intros [i d] [Hd Hi] Hc. unfold me_cond in Hc. cbn [fst snd] in *. subst d.
      unfold me_step. cbn [fst snd].
      destruct (nth_error D (Z.to_nat (i - 1))) as [x|] eqn:Hx; [|exfalso; apply nth_error_None in Hx; lia].
      repeat match goal with
      | |- context [go_index_b D ?e] =>
          rewrite (go_index_b_at D e (Z.to_nat (i - 1)) x Hx) by (go_arith; lia)
      end.
      cbn [bind]. byte_masks. pose proof (b2z_range x) as Hbx.
      assert (Hxz : b2z x = Z.of_N (b2n x)) by reflexivity.
      destruct (b2n x =? 0)%N eqn:E0; destruct (128 <=? b2n x)%N eqn:E1; try (exfalso; lia);
        repeat (cbn [bind negb]; cbv beta zeta; go_decide); try reflexivity;
        repeat match goal with
        | |- context [go_set_index D ?e ?v] =>
            first [ rewrite (go_set_index_at D e (Datatypes.S (Z.to_nat (i - 1))) v) by (go_arith; lia)
                  | rewrite (go_set_index_at D e (Z.to_nat (i - 1)) v) by (go_arith; lia) ]
        end; cbn [bind]; cbv beta zeta;
        repeat match goal with
        | |- context [go_slice_to ?L ?e] =>
            first [ rewrite (go_slice_to_at L e (Datatypes.S (Datatypes.S (Z.to_nat (i - 1))))) by (try rewrite upd_length by lia; go_arith; lia)
                  | rewrite (go_slice_to_at L e (Datatypes.S (Z.to_nat (i - 1)))) by (try rewrite upd_length by lia; go_arith; lia) ]
        end; cbn [bind];
        rewrite ?z2b_b2z, ?(Z.lor_comm (b2z a) (b2z x)), ?z2b_lor; reflexivity.
    + (* post statement *)
      intros [i d] [i' d'] [Hd Hi] Hc Hb. unfold me_cond in Hc. cbn [fst snd] in *. subst d.
      unfold me_step in Hb. cbn [fst snd] in Hb.
      assert (Hs' : i' = i /\ d' = D).
      { destruct (nth_error D (Z.to_nat (i - 1))) as [x|]; [|inversion Hb; split; reflexivity].
        destruct (b2n x =? 0)%N; [inversion Hb; split; reflexivity|]. destruct (128 <=? b2n x)%N; discriminate Hb. }
      destruct Hs' as [-> ->]. unfold me_post. cbn [fst snd]. split; [|split; [split; [reflexivity|lia]|lia]].
      go_arith. apply Val_inj. f_equal. lia.
    + (* the loop stops at 0 *)
      intros [i d] [Hd Hi] Hm. unfold me_cond. cbn [fst snd] in *. lia.
    + cbn [fst snd]. split; [reflexivity|]. go_arith. lia.
    + cbn [fst]. go_arith. lia.
Qed.
