(** opcodeSwap (bscript/interpreter/operations.go), as printed from the Go source, is the branch of [Interp.exec_handler]
    for OP_SWAP: for every context and state (data stack of fewer than 2^31 - 16 items), the printed
    function applied to the thread fields it uses -- the data stack in Go order, [rev (ds s)] --
    yields the model's outcome (ok with the new stack / script error / panic), and never runs out of fuel. *)
From Coq Require Import List ZArith NArith Bool Lia ZifyN ZifyNat ZifyBool.
From Coq Require Import Strings.Byte.
From GoBT Require Import lib.Bytes lib.GoSem lib.GoInterp gen.Funcs proofs.GenFuncsTac proofs.GenFuncsInterpTac proofs.GenFuncs_stack_SwapN.
From GoBT Require model.Interp model.ScriptNum.
Import ListNotations.
Ltac Zify.zify_post_hook ::= Z.div_mod_to_equations.
Local Open Scope Z_scope.

(** the branch of the model this handler is compared with (opcode OP_SWAP; proofs/DispatchProofs.v ties the table) *)
Lemma exec_at_opcodeSwap so c p idx s : Interp.p_real p = true -> Interp.p_val p = Interp.OP_SWAP ->
  Interp.exec_handler so c p idx s = match Interp.swap_n 1 (Interp.ds s) with Some d' => Interp.OOk (Interp.set_ds s d') | None => Interp.OErr end.
Proof. intros Hr Hv. unfold Interp.exec_handler. rewrite Hr, Hv. reflexivity. Qed.

Lemma opcodeSwap_is_model so c p idx s : small (Interp.ds s) -> Interp.p_real p = true -> Interp.p_val p = Interp.OP_SWAP ->
  h_view s (opcodeSwap (rev (Interp.ds s))) = Some (Interp.exec_handler so c p idx s).
Proof.
  intros Hs Hr Hv. rewrite (exec_at_opcodeSwap so c p idx s Hr Hv).
  destruct s as [d a cd el no ls ea cu]. cbn [Interp.ds Interp.als] in *. h_model.
  first
  [ unfold opcodeSwap; rewrite ?bind_pair_eta, h_view_st_view, stack_SwapN_inst by (assumption || lia || stk_small);
    go_list_cases d 3%nat; reflexivity
  | go_list_cases d 3%nat; unfold opcodeSwap; stk_run; h_done ].
Qed.
