(** Property C04, call paths: the interpreter model's verdict on a signed input does not depend on HOW the caller
    hands the transaction, the input and the spent output to Engine.Execute (model/EngineCall.v).

    - [record_overwrites]: whatever the checked input of the caller's object recorded before the call is replaced by
      the previous output given to WithTx;
    - [sighash_for_ignores_recorded_script]: the digest opcodeCheckSig / opcodeCheckMultiSig recompute (Tx.Clone,
      install the script code, CalcInputSignatureHash) is the same whether the previous output carried the locking
      script or only the value - the clone keeps the VALUE of every input, script recorded or not, and the script is
      overwritten with the script code;
    - [engine_execute_agree]: the interpreter is a function of the signature operations' results only;
    - [call_verdict_path_independent]: for every oracle, transaction, position, scripts, value, flags: the locking
      script through the previous output, through WithScripts (previous output with the value only) or both, the
      unlocking script through the input or through both, the object recording anything beforehand - the verdict is
      the verdict of the canonical call WithTx(tx, idx, previous output with script and value);
      [call_verdict_path_independent_scripts_only]: with the unlocking script through WithScripts only, the verdict
      is the canonical one on the object whose input has no script (that this object has the same digest is
      [C04_sighash_ignores_unlocking_scripts]);
    - [signed_p2pkh_accepts_on_every_call_path]: the acceptance theorem of Properties/C04.v on each of these paths. *)
From Coq Require Import List NArith ZArith Lia Bool.
From Coq Require Import Strings.Byte.
From GoBT Require Import lib.Bytes lib.Ripemd160 model.Tx model.SigHash model.ScriptNum model.Interp model.CheckSig model.Push
  model.ExecOpts model.EngineCall proofs.SigHashProofs proofs.CheckSigProofs proofs.P2PKHProofs.
Import ListNotations.
From Coq Require Import ZifyN ZifyNat ZifyBool.
Local Open Scope N_scope.

(** * the interpreter depends on the signature operations through their results only *)
Definition sigops_agree (so1 so2 : sigops) : Prop :=
  (forall c s idx vf, so_checksig so1 c s idx vf = so_checksig so2 c s idx vf) /\
  (forall c s idx vf, so_checkmultisig so1 c s idx vf = so_checkmultisig so2 c s idx vf).

Section Agree.
Variables so1 so2 : sigops.
Hypothesis Hag : sigops_agree so1 so2.

Lemma exec_handler_agree c p idx s : exec_handler so1 c p idx s = exec_handler so2 c p idx s.
Proof.
  destruct Hag as [Hc Hm]. unfold exec_handler.
  rewrite !Hc, !Hm. reflexivity.
Qed.

Lemma execute_opcode_agree c p idx s : execute_opcode so1 c p idx s = execute_opcode so2 c p idx s.
Proof. unfold execute_opcode. rewrite exec_handler_agree. reflexivity. Qed.

Lemma run_ops_agree c : forall ops idx s acc, run_ops so1 c ops idx s acc = run_ops so2 c ops idx s acc.
Proof.
  induction ops as [|p rest IH]; intros idx s acc; [reflexivity|].
  cbn [run_ops]. rewrite execute_opcode_agree.
  destruct (execute_opcode so2 c p idx s); try reflexivity.
  destruct (_ <? _)%Z; [reflexivity|]. destruct rest; [reflexivity|]. apply IH.
Qed.

Lemma run_redeem_agree c saved s acc : run_redeem so1 c saved s acc = run_redeem so2 c saved s acc.
Proof. unfold run_redeem. destruct (negb _); [reflexivity|]. destruct saved; [reflexivity|].
  destruct (parse_script _ _) as [ops|]; [|reflexivity]. destruct ops; [reflexivity|]. rewrite run_ops_agree. reflexivity. Qed.

Lemma run_lock_agree c b saved lock s acc : run_lock so1 c b saved lock s acc = run_lock so2 c b saved lock s acc.
Proof.
  unfold run_lock. rewrite run_ops_agree. destruct (run_ops so2 c lock 0 s acc) as [[s2|s2| |] acc']; try reflexivity.
  destruct (end_script s2); [|reflexivity]. destruct (_ && _); [apply run_redeem_agree|reflexivity].
Qed.

Lemma execute_agree c b u l : execute so1 c b u l = execute so2 c b u l.
Proof.
  unfold execute. destruct u as [|u0 ur].
  - destruct l; [reflexivity|apply run_lock_agree].
  - rewrite run_ops_agree. destruct (run_ops so2 c (u0 :: ur) 0 (init_st (u0 :: ur)) []) as [[s1|s1| |] acc]; try reflexivity.
    + destruct (end_script s1); [|reflexivity]. destruct l; [reflexivity|apply run_lock_agree].
    + destruct l; [reflexivity|apply run_lock_agree].
Qed.

Theorem engine_execute_agree i : engine_execute so1 i = engine_execute so2 i.
Proof.
  unfold engine_execute. cbv zeta.
  destruct (ei_unlock i) as [|a ua] eqn:Eu; destruct (ei_lock i) as [|b lb] eqn:El; try reflexivity;
    (destruct (_ && _); [reflexivity|]; destruct (_ || _); [reflexivity|];
     destruct (parse_script _ _) as [u|]; [|reflexivity]; destruct (parse_script _ _) as [l|]; [|reflexivity];
     destruct (_ && _); [reflexivity|]; destruct (_ && _); [reflexivity|]; apply execute_agree).
Qed.
End Agree.

(** * what the object recorded before the call is overwritten by thread.apply *)
Theorem record_overwrites t i uv rec p : record_prevout (object_for t i uv rec) i p = object_for t i uv p.
Proof.
  unfold record_prevout, object_for. cbn [tx_version tx_ins tx_outs tx_lock]. f_equal.
  unfold mapi. rewrite mapi_from_comp. apply mapi_from_ext. intros j x. destruct (j =? i); reflexivity.
Qed.

(** * the digest the signature opcodes recompute does not read the script the checked input records *)
Definition set_rec_script (t : tx) (i : N) (s : option bytes) : tx :=
  mkTx (tx_version t) (mapi (fun j x => if j =? i then set_prev_script x s else x) (tx_ins t)) (tx_outs t) (tx_lock t).

Lemma strip_set_rec_script t i s : strip_tx (set_rec_script t i s) = strip_tx t.
Proof.
  unfold strip_tx, set_rec_script. cbn [tx_version tx_ins tx_outs tx_lock]. f_equal.
  unfold mapi. apply mapi_from_strip. intros j x. destruct (j =? i); reflexivity.
Qed.

Definition clone_copy (ab : input * input) : input :=
  mkInput (in_txid (fst ab)) (in_vout (fst ab)) (in_unlock (fst ab)) (in_seq (fst ab)) (in_sats (snd ab)) (in_script (snd ab)).

Lemma install_after_copy i up s1 s2 : forall l P k,
  mapi_from (fun j x => if j =? i then set_prev_script x (Some up) else x) k
            (map clone_copy (combine P (mapi_from (fun j x => if j =? i then set_prev_script x s1 else x) k l))) =
  mapi_from (fun j x => if j =? i then set_prev_script x (Some up) else x) k
            (map clone_copy (combine P (mapi_from (fun j x => if j =? i then set_prev_script x s2 else x) k l))).
Proof.
  induction l as [|x r IH]; intros P k; destruct P as [|p P']; try reflexivity.
  cbn [mapi_from combine map]. f_equal; [|apply IH].
  destruct (k =? i); reflexivity.
Qed.

Lemma copy_length s1 s2 i P l :
  length (map clone_copy (combine P (mapi (fun j x => if j =? i then set_prev_script x s1 else x) l))) =
  length (map clone_copy (combine P (mapi (fun j x => if j =? i then set_prev_script x s2 else x) l))).
Proof. rewrite !map_length, !combine_length, !mapi_length. reflexivity. Qed.

Theorem sighash_for_ignores_recorded_script t i s1 s2 up shf :
  sighash_for (set_rec_script t i s1) i up shf = sighash_for (set_rec_script t i s2) i up shf.
Proof.
  unfold sighash_for, clone.
  rewrite <- (tx_bytes_std_strip (set_rec_script t i s1)), <- (tx_bytes_std_strip (set_rec_script t i s2)).
  rewrite !strip_set_rec_script.
  destruct (tx_from_bytes (tx_bytes false (strip_tx t))) as [p| |]; try reflexivity.
  change (fun ab : input * input => mkInput (in_txid (fst ab)) (in_vout (fst ab)) (in_unlock (fst ab)) (in_seq (fst ab))
                                            (in_sats (snd ab)) (in_script (snd ab))) with clone_copy.
  unfold set_input_script, set_rec_script. cbn [tx_ins tx_version tx_outs tx_lock].
  rewrite !nthN_nth_error.
  pose proof (copy_length s1 s2 i (tx_ins (p_tx p)) (tx_ins t)) as Hlen.
  destruct (nth_error (map clone_copy (combine (tx_ins (p_tx p)) (mapi (fun j x => if j =? i then set_prev_script x s1 else x) (tx_ins t)))) (N.to_nat i)) eqn:E1;
  destruct (nth_error (map clone_copy (combine (tx_ins (p_tx p)) (mapi (fun j x => if j =? i then set_prev_script x s2 else x) (tx_ins t)))) (N.to_nat i)) eqn:E2.
  - unfold mapi. rewrite (install_after_copy i up s1 s2). reflexivity.
  - apply nth_error_None in E2. assert (nth_error (map clone_copy (combine (tx_ins (p_tx p)) (mapi (fun j x => if j =? i then set_prev_script x s1 else x) (tx_ins t)))) (N.to_nat i) <> None) by congruence.
    apply nth_error_Some in H. lia.
  - apply nth_error_None in E1. assert (nth_error (map clone_copy (combine (tx_ins (p_tx p)) (mapi (fun j x => if j =? i then set_prev_script x s2 else x) (tx_ins t)))) (N.to_nat i) <> None) by congruence.
    apply nth_error_Some in H. lia.
  - reflexivity.
Qed.

(** * two transaction objects with the same digests give the same signature operations *)
Ltac agree_crush IH H :=
  repeat first
    [ match goal with |- ?a = ?b => constr_eq a b; reflexivity end
    | progress rewrite IH
    | progress rewrite H
    | match goal with
      | |- (if ?b then _ else _) = _ => destruct b
      | |- match ?x with _ => _ end = _ => destruct x
      | |- option_map _ _ = option_map _ _ => f_equal
      end ].

Section SameDigests.
Variables (orc : sig_oracle) (tA tB : tx) (i : N).
Hypothesis Hd : forall up shf, sighash_for tA i up shf = sighash_for tB i up shf.

Lemma checksig_run_same c s idx vf : checksig_run orc tA i c s idx vf = checksig_run orc tB i c s idx vf.
Proof. unfold checksig_run. cbv zeta. agree_crush Hd Hd. Qed.

Lemma ms_loop_same c script pks sigs : forall fuel m a b d e,
  ms_loop orc tA i c script pks sigs fuel m a b d e = ms_loop orc tB i c script pks sigs fuel m a b d e.
Proof.
  induction fuel as [|f IH]; intros m a b d e; cbn [ms_loop]; [reflexivity|].
  cbv beta zeta. agree_crush IH Hd.
Qed.

Lemma checkmultisig_run_same c s idx vf : checkmultisig_run orc tA i c s idx vf = checkmultisig_run orc tB i c s idx vf.
Proof. unfold checkmultisig_run. cbv zeta. agree_crush ms_loop_same ms_loop_same. Qed.

Lemma mk_sigops_same : sigops_agree (mk_sigops orc tA i) (mk_sigops orc tB i).
Proof. split; intros c s idx vf; cbn [mk_sigops so_checksig so_checkmultisig]; [rewrite checksig_run_same|rewrite checkmultisig_run_same]; reflexivity. Qed.
Lemma mk_sigops_loud_same : sigops_agree (mk_sigops_loud orc tA i) (mk_sigops_loud orc tB i).
Proof. split; intros c s idx vf; cbn [mk_sigops_loud so_checksig so_checkmultisig]; [rewrite checksig_run_same|rewrite checkmultisig_run_same]; reflexivity. Qed.
End SameDigests.

(** * the scripts thread.apply selects *)
Lemma index_ok {A} (l : list A) (n : N) x : nth_error l (N.to_nat n) = Some x -> index l (Z.of_N n) = IOk x.
Proof.
  intros H. unfold index. assert (Hlt : (N.to_nat n < length l)%nat) by (apply nth_error_Some; congruence).
  replace ((Z.of_N n <? 0)%Z || (Z.of_nat (length l) <=? Z.of_N n)%Z) with false by lia.
  replace (Z.to_nat (Z.of_N n)) with (N.to_nat n) by lia. rewrite H. reflexivity.
Qed.

Definition empty_script (s : bytes) : bool := match s with [] => true | _ => false end.

(** the nine ways (lo, ps) x (uo, iu) of passing one locking and one unlocking script *)
Lemma apply_opts_selects ins lk ver (n : N) flags sq lock unlock lo ps uo iu :
  nth_error ins (N.to_nat n) = Some (Some (mkOIn iu sq)) ->
  (lo = Some lock /\ ps = None \/ lo = None /\ ps = Some lock \/ lo = Some lock /\ ps = Some lock) ->
  (uo = Some unlock /\ iu = None \/ uo = None /\ iu = Some unlock \/ uo = Some unlock /\ iu = Some unlock) ->
  apply_opts (mkOpts lo uo (Some ps) (Some (mkOTx ins lk ver)) (Z.of_N n) flags) =
  if empty_script unlock && empty_script lock then ARerr
  else ARrun (mkExecInput unlock lock flags true true lk ver sq).
Proof.
  intros Hn Hl Hu. pose proof (index_ok ins n _ Hn) as Hi.
  assert (Hlt : (N.to_nat n < length ins)%nat) by (apply nth_error_Some; congruence).
  assert (Hne : exists y r, ins = y :: r) by (destruct ins; [cbn in Hlt; lia|eauto]).
  unfold apply_opts, validate, validate_unlock.
  cbn [eo_idx eo_tx eo_lock eo_unlock eo_prev eo_flags ot_ins ot_lock ot_version].
  replace ((Z.of_N n <? 0)%Z || (Z.of_N n >? Z.of_nat (length ins) - 1)%Z) with false by lia.
  rewrite Hi. destruct Hne as (y & r & ->). cbn [deref oi_unlock oi_seq is_some].
  destruct Hl as [[-> ->]|[[-> ->]|[-> ->]]]; destruct Hu as [[-> ->]|[[-> ->]|[-> ->]]];
    cbn [is_some negb andb orb]; rewrite ?bytes_eqb_refl; cbn [deref oi_unlock oi_seq is_some];
    destruct unlock, lock; reflexivity.
Qed.

(** * the verdict does not depend on the call path *)

(** the unlocking script the object's checked input holds while the signature opcodes clone it *)
Definition unlock_in_object (uv : via) (unlock : bytes) : bytes := match uv with ViaScripts => [] | _ => unlock end.

Lemma object_for_set_rec t i uv s v : object_for t i uv (mkPrevOut s v) = set_rec_script (object_for t i uv (mkPrevOut None v)) i s.
Proof.
  unfold object_for, set_rec_script. cbn [tx_version tx_ins tx_outs tx_lock po_sats po_script]. f_equal.
  unfold mapi. rewrite mapi_from_comp. apply mapi_from_ext. intros j x. destruct (j =? i); reflexivity.
Qed.

Lemma object_for_engine_tx t i inp uv lock sats : nth_error (tx_ins t) (N.to_nat i) = Some inp ->
  object_for t i uv (mkPrevOut (Some lock) sats) = engine_tx t i (unlock_in_object uv (in_unlock inp)) lock sats.
Proof.
  intros Hn. unfold object_for, engine_tx. cbn [po_sats po_script]. f_equal.
  rewrite (mapi_split (fun x => mkInput (in_txid x) (in_vout x) (match uv with ViaScripts => [] | _ => in_unlock x end)
                                        (in_seq x) sats (Some lock)) (fun x => x) i (tx_ins t) inp Hn).
  rewrite (mapi_split (fun x => mkInput (in_txid x) (in_vout x) (unlock_in_object uv (in_unlock inp)) (in_seq x) sats (Some lock))
                      (fun x => x) i (tx_ins t) inp Hn).
  destruct uv; reflexivity.
Qed.

Lemma object_digest t i inp lv uv lock sats up shf : nth_error (tx_ins t) (N.to_nat i) = Some inp ->
  sighash_for (object_for t i uv (mkPrevOut (held_of lv lock) sats)) i up shf =
  sighash_for (engine_tx t i (unlock_in_object uv (in_unlock inp)) lock sats) i up shf.
Proof.
  intros Hn. rewrite <- (object_for_engine_tx t i inp uv lock sats Hn).
  rewrite (object_for_set_rec t i uv (held_of lv lock)), (object_for_set_rec t i uv (Some lock)).
  apply sighash_for_ignores_recorded_script.
Qed.

Section PathIndependent.
Variable mk : sig_oracle -> tx -> N -> sigops.
Hypothesis mk_same : forall orc tA tB i, (forall up shf, sighash_for tA i up shf = sighash_for tB i up shf) ->
  sigops_agree (mk orc tA i) (mk orc tB i).

Lemma call_verdict_general (orc : sig_oracle) t i inp lock sats flags lv uv rec :
  nthN (tx_ins t) i = Some inp ->
  call_verdict (mk orc) (call_for t i lock (in_unlock inp) sats flags lv uv rec) =
  fst (engine_execute (mk orc (engine_tx t i (unlock_in_object uv (in_unlock inp)) lock sats) i)
        (mkExecInput (in_unlock inp) lock flags true true (Z.of_N (tx_lock t)) (Z.of_N (tx_version t)) (Z.of_N (in_seq inp)))).
Proof.
  intros Hn. rewrite nthN_nth_error in Hn. set (unlock := in_unlock inp).
  unfold call_verdict, opts_of_call, engine_tx_of_call, call_for, o_tx_of.
  cbn [ec_lock ec_unlock ec_tx ec_unlock_nil ec_idx ec_prev ec_flags po_script po_sats].
  rewrite record_overwrites.
  set (obj_in := mkInput (in_txid inp) (in_vout inp) (unlock_in_object uv unlock) (in_seq inp) (po_sats rec) (po_script rec)).
  assert (Hobj : nth_error (tx_ins (object_for t i uv rec)) (N.to_nat i) = Some obj_in).
  { unfold object_for. cbn [tx_ins]. rewrite (mapi_nth _ _ _ _ Hn), N2Nat.id, N.eqb_refl. unfold obj_in, unlock. destruct uv; reflexivity. }
  set (iu := match uv with ViaScripts => None | _ => Some unlock end).
  assert (Hins : nth_error (mapi (fun j x => Some (mkOIn (if (j =? i) && match uv with ViaScripts => true | _ => false end
                                                          then None else Some (in_unlock x)) (Z.of_N (in_seq x))))
                                 (tx_ins (object_for t i uv rec))) (N.to_nat i) = Some (Some (mkOIn iu (Z.of_N (in_seq inp))))).
  { rewrite (mapi_nth _ _ _ _ Hobj), N2Nat.id, N.eqb_refl. unfold obj_in, iu. destruct uv; reflexivity. }
  rewrite (apply_opts_selects _ _ _ i flags _ lock unlock (arg_of lv lock) (held_of lv lock) (arg_of uv unlock) iu Hins).
  - cbn [tx_lock tx_version object_for].
    destruct (empty_script unlock && empty_script lock) eqn:Ee.
    + destruct unlock; [|discriminate]. destruct lock; [|discriminate]. reflexivity.
    + rewrite (engine_execute_agree _ _ (mk_same orc _ _ i (fun up shf => object_digest t i inp lv uv lock sats up shf Hn))).
      reflexivity.
  - destruct lv; cbn; auto.
  - unfold iu. destruct uv; cbn; auto.
Qed.
End PathIndependent.

(** for every oracle: the locking script in the previous output, through WithScripts (previous output: value only) or
    both; the unlocking script in the input or in both; the object recording anything beforehand - the verdict is
    that of the canonical call *)
Theorem call_verdict_path_independent (orc : sig_oracle) t i inp lock sats flags lv uv rec :
  nthN (tx_ins t) i = Some inp -> uv <> ViaScripts ->
  call_verdict (mk_sigops orc) (call_for t i lock (in_unlock inp) sats flags lv uv rec) =
  fst (engine_execute (mk_sigops orc (engine_tx t i (in_unlock inp) lock sats) i)
        (mkExecInput (in_unlock inp) lock flags true true (Z.of_N (tx_lock t)) (Z.of_N (tx_version t)) (Z.of_N (in_seq inp)))).
Proof.
  intros Hn Huv. rewrite (call_verdict_general mk_sigops mk_sigops_same orc t i inp lock sats flags lv uv rec Hn).
  destruct uv; [reflexivity|contradiction|reflexivity].
Qed.

(** the unlocking script through WithScripts only: the canonical call on the object whose input has no script *)
Theorem call_verdict_path_independent_scripts_only (orc : sig_oracle) t i inp lock sats flags lv rec :
  nthN (tx_ins t) i = Some inp ->
  call_verdict (mk_sigops orc) (call_for t i lock (in_unlock inp) sats flags lv ViaScripts rec) =
  fst (engine_execute (mk_sigops orc (engine_tx t i [] lock sats) i)
        (mkExecInput (in_unlock inp) lock flags true true (Z.of_N (tx_lock t)) (Z.of_N (tx_version t)) (Z.of_N (in_seq inp)))).
Proof. intros Hn. apply (call_verdict_general mk_sigops mk_sigops_same orc t i inp lock sats flags lv ViaScripts rec Hn). Qed.

(** the same for the correspondence's signature operations (a missing oracle answer is a panic verdict) *)
Theorem call_verdict_path_independent_loud (orc : sig_oracle) t i inp lock sats flags lv uv rec :
  nthN (tx_ins t) i = Some inp ->
  call_verdict (mk_sigops_loud orc) (call_for t i lock (in_unlock inp) sats flags lv uv rec) =
  fst (engine_execute (mk_sigops_loud orc (engine_tx t i (unlock_in_object uv (in_unlock inp)) lock sats) i)
        (mkExecInput (in_unlock inp) lock flags true true (Z.of_N (tx_lock t)) (Z.of_N (tx_version t)) (Z.of_N (in_seq inp)))).
Proof. intros Hn. apply (call_verdict_general mk_sigops_loud mk_sigops_loud_same orc t i inp lock sats flags lv uv rec Hn). Qed.

(** * acceptance of a library-made P2PKH(-inscription) signature on every call path *)

(** under the hypotheses of [signed_p2pkh_accepts] ([p2pkh_hyps], proofs/P2PKHProofs.v), for a transaction whose
    checked input carries the signature script: Engine.Execute accepts whether the locking script arrives in the
    previous output, through WithScripts with a previous output that carries the value only, or both; the
    unlocking script in the input or in both; whatever the object recorded beforehand *)
Theorem signed_p2pkh_accepts_on_every_call_path orc t idx inp flags sats ht sig pk body insc bops h lv uv rec :
  p2pkh_hyps orc t idx inp flags sats ht sig pk body insc bops h ->
  nthN (tx_ins t) idx = Some inp -> in_unlock inp = p2pkh_unlock sig ht pk -> uv <> ViaScripts ->
  let unlock := p2pkh_unlock sig ht pk in
  let lock := p2pkh_lock (hash160 pk) ++ (if insc then inscription_suffix body else []) in
  call_verdict (mk_sigops orc) (call_for t idx lock unlock sats flags lv uv rec) = VOk.
Proof.
  intros Hh Hn Hu Huv unlock lock. unfold unlock. rewrite <- Hu.
  rewrite (call_verdict_path_independent orc t idx inp lock sats flags lv uv rec Hn Huv). rewrite Hu.
  exact (signed_p2pkh_accepts_packed orc t idx inp flags sats ht sig pk body insc bops h Hh).
Qed.

(** non-vacuity and direct evaluation: the instance of proofs/P2PKHProofs.v (an always-true oracle, ALL|FORKID under
    FORKID|GENESIS, plain P2PKH) - the nine call paths, the object recording another value and no script, evaluate to
    VOk on the model; with a previous output that carries another VALUE the canonical call and the
    WithScripts-only call alike compute another digest (an oracle that knows only the signed digest rejects) *)
Definition ex_call (lv uv : via) (sats : N) : engine_call :=
  let u := p2pkh_unlock ex_sig 65 ex_pk in
  call_for (mkTx 1 [mkInput (repeat_byte 32 xab) 0 u 4294967295 1000 (Some (ex_lock false))] [mkOutput 900 [x6a]] 0)
           0 (ex_lock false) u sats FLAGS_FORKID_GENESIS lv uv (mkPrevOut None 77).
Definition ex_orc_one : sig_oracle :=
  mkOracle (fun _ => true) (fun _ _ => true) (fun _ h _ _ => Some (bytes_eqb h (ex_digest false 65))).

Example call_paths_direct_evaluation :
  forallb (fun lv => forallb (fun uv =>
     match call_verdict (mk_sigops ex_orc_one) (ex_call lv uv 1000) with VOk => true | _ => false end &&
     match call_verdict (mk_sigops ex_orc_one) (ex_call lv uv 1001) with VErr => true | _ => false end)
     [ViaObject; ViaScripts; ViaBoth]) [ViaObject; ViaScripts; ViaBoth] = true.
Proof. vm_compute. reflexivity. Qed.

Print Assumptions record_overwrites.
Print Assumptions sighash_for_ignores_recorded_script.
Print Assumptions engine_execute_agree.
Print Assumptions call_verdict_path_independent.
Print Assumptions call_verdict_path_independent_scripts_only.
Print Assumptions call_verdict_path_independent_loud.
Print Assumptions signed_p2pkh_accepts_on_every_call_path.
