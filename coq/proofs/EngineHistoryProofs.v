(** Proofs about model/EngineHistory.v: the n-th call of a history on one engine is the call on a new engine; no
    call of any history panics. *)
From Coq Require Import List NArith ZArith Bool.
From Coq Require Import Strings.Byte.
From GoBT Require Import lib.Bytes model.ScriptNum model.Interp model.ExecOpts model.EngineHistory proofs.InterpTotal proofs.ExecOptsTotal.
Import ListNotations.

Lemma run_history_map e calls :
  run_history e calls = map (fun sc => call_result (fst sc) (snd sc)) calls.
Proof.
  revert e. induction calls as [|sc rest IH]; intro e; [reflexivity|].
  cbn [run_history execute map]. now rewrite IH.
Qed.

(** the n-th call of a history returns what the same call returns on an engine nobody has used *)
Theorem history_call_is_fresh_call e calls n sc :
  nth_error calls n = Some sc ->
  nth_error (run_history e calls) n = Some (snd (execute new_engine sc)).
Proof.
  intro H. rewrite run_history_map. rewrite nth_error_map, H. reflexivity.
Qed.

(** no call of any history panics *)
Theorem history_no_panic e calls :
  Forall (fun sc => sigops_ok (fst sc)) calls ->
  Forall (fun r => fst r <> VPanic) (run_history e calls).
Proof.
  intro H. rewrite run_history_map. apply Forall_map.
  induction H as [|sc rest Hsc _ IH]; constructor; [|exact IH].
  destruct sc as [so [i|o]]; cbn [call_result fst snd] in *.
  - apply engine_execute_no_panic. exact Hsc.
  - apply engine_execute_opts_no_panic. exact Hsc.
Qed.
