(** The sharing machine of model/Heap.v refines the value machine of model/Interp.v (C08).

    Part A (safety): the heap machine never writes to an existing array (every opcode only appends arrays),
    so whenever it is not stuck its verdict is the value machine's, every recorded snapshot's slices read IN
    THE FINAL HEAP exactly the value machine's snapshot of that step, and the caller's two script buffers
    hold at the end what they held at the start.

    Part B (progress): the heap machine is never stuck on a non-signature opcode. *)
From Coq Require Import List NArith ZArith Lia Bool.
From Coq Require Import Strings.Byte.
From GoBT Require Import lib.Bytes model.ScriptNum model.Interp model.Heap.
From GoBT Require Import proofs.ScriptNumProofs proofs.ShiftProofs proofs.InterpTotal proofs.InterpFrame.
Import ListNotations.
Local Open Scope Z_scope.

Definition extends (h h' : heap) : Prop := exists e, h' = h ++ e.
Definition abs_snap (h : heap) (sn : hsnapshot) : snapshot :=
  mkSnap (map (rd h) (fst sn)) (map (rd h) (snd sn)).

(** * Part A: refinement *)

Lemma extends_refl h : extends h h.
Proof. exists []. symmetry. apply app_nil_r. Qed.

Lemma extends_trans h1 h2 h3 : extends h1 h2 -> extends h2 h3 -> extends h1 h3.
Proof. intros [e1 ->] [e2 ->]. exists (e1 ++ e2). symmetry. apply app_assoc. Qed.

(** ** A1: slices in bounds are unaffected by appending arrays *)
Lemma in_bounds_spec h x :
  in_bounds h x = true <->
  (sl_arr x < length h)%nat /\ (sl_off x + sl_len x <= length (nth (sl_arr x) h []))%nat.
Proof.
  unfold in_bounds. rewrite andb_true_iff, PeanoNat.Nat.ltb_lt, PeanoNat.Nat.leb_le. tauto.
Qed.

Lemma rd_extends h e x : in_bounds h x = true -> rd (h ++ e) x = rd h x.
Proof.
  intros Hb. apply in_bounds_spec in Hb. destruct Hb as [Hlt _].
  unfold rd. rewrite app_nth1 by exact Hlt. reflexivity.
Qed.

Lemma in_bounds_extends h e x : in_bounds h x = true -> in_bounds (h ++ e) x = true.
Proof.
  intros Hb. apply in_bounds_spec in Hb. destruct Hb as [Hlt Hle].
  apply in_bounds_spec. rewrite app_nth1 by exact Hlt. rewrite app_length. split; [lia|exact Hle].
Qed.

Definition all_in (h : heap) (l : list slice) : Prop := Forall (fun x => in_bounds h x = true) l.

Lemma all_in_extends h h' l : extends h h' -> all_in h l -> all_in h' l.
Proof.
  intros [e ->] Hl. unfold all_in in *. rewrite Forall_forall in *.
  intros x Hx. apply in_bounds_extends. apply Hl. exact Hx.
Qed.

Lemma map_rd_extends h h' l : extends h h' -> all_in h l -> map (rd h') l = map (rd h) l.
Proof.
  intros [e ->] Hl. unfold all_in in Hl. rewrite Forall_forall in Hl.
  apply map_ext_in. intros x Hx. apply rd_extends. apply Hl. exact Hx.
Qed.

(** ** [reads] as a proposition *)
Lemma lbytes_eqb_eq : forall a b, lbytes_eqb a b = true <-> a = b.
Proof.
  induction a as [|x a IH]; intros [|y b]; cbn [lbytes_eqb]; split; intros H; try discriminate; try reflexivity.
  - apply andb_true_iff in H. destruct H as [H1 H2].
    apply bytes_eqb_eq in H1. apply IH in H2. subst. reflexivity.
  - injection H as -> ->. apply andb_true_iff. split; [apply bytes_eqb_refl|apply IH; reflexivity].
Qed.

Lemma reads_spec hs d a :
  reads hs d a = true <->
  all_in (h_heap hs) (h_ds hs) /\ all_in (h_heap hs) (h_as hs) /\
  map (rd (h_heap hs)) (h_ds hs) = d /\ map (rd (h_heap hs)) (h_as hs) = a.
Proof.
  unfold reads, all_in. rewrite !andb_true_iff, !forallb_forall, !lbytes_eqb_eq, !Forall_forall. tauto.
Qed.

(** ** A2: an opcode only appends arrays *)
Lemma rebuild_extends c sc off p s d' hs hs' :
  rebuild c sc off p s d' hs = Some hs' -> extends (h_heap hs) (h_heap hs').
Proof.
  unfold rebuild, alloc. cbv zeta.
  repeat (first [break_if | break_match]); try discriminate;
    intros [= <-]; cbn [h_heap]; first [apply extends_refl | eexists; reflexivity].
Qed.

(** ** A3: one step *)
Lemma h_step_sound_match so c sc off p idx s hs :
  match h_step so c sc off p idx s hs with
  | HOk s' hs' =>
      execute_opcode so c p idx s = OOk s' /\ extends (h_heap hs) (h_heap hs') /\
      reads hs' (ds s') (als s') = true
  | HReturn s' hs' =>
      execute_opcode so c p idx s = OReturn s' /\ extends (h_heap hs) (h_heap hs') /\
      reads hs' (ds s') (als s') = true
  | HErr => execute_opcode so c p idx s = OErr
  | HPanic => execute_opcode so c p idx s = OPanic
  | HStuck => True
  end.
Proof.
  unfold h_step.
  destruct (execute_opcode so c p idx s) as [s1|s1| |] eqn:Ee; try reflexivity.
  - destruct (rebuild c sc off p s (ds s1) hs) as [hs1|] eqn:Er; [|exact I].
    destruct (reads hs1 (ds s1) (als s1)) eqn:Erd; [|exact I].
    split; [reflexivity|]. split; [eapply rebuild_extends; exact Er|exact Erd].
  - destruct (rebuild c sc off p s (ds s1) hs) as [hs1|] eqn:Er; [|exact I].
    destruct (reads hs1 (ds s1) (als s1)) eqn:Erd; [|exact I].
    split; [reflexivity|]. split; [eapply rebuild_extends; exact Er|exact Erd].
Qed.

Theorem h_step_sound so c sc off p idx s hs :
  (forall s' hs', h_step so c sc off p idx s hs = HOk s' hs' ->
     execute_opcode so c p idx s = OOk s' /\ extends (h_heap hs) (h_heap hs') /\
     reads hs' (ds s') (als s') = true) /\
  (forall s' hs', h_step so c sc off p idx s hs = HReturn s' hs' ->
     execute_opcode so c p idx s = OReturn s' /\ extends (h_heap hs) (h_heap hs') /\
     reads hs' (ds s') (als s') = true) /\
  (h_step so c sc off p idx s hs = HErr -> execute_opcode so c p idx s = OErr) /\
  (h_step so c sc off p idx s hs = HPanic -> execute_opcode so c p idx s = OPanic).
Proof.
  pose proof (h_step_sound_match so c sc off p idx s hs) as H.
  repeat split; intros; match goal with E : h_step _ _ _ _ _ _ _ _ = _ |- _ => rewrite E in H end;
    try (destruct H as (H1 & H2 & H3)); assumption.
Qed.

(** the converse direction on errors: the heap machine reports an error exactly when the value machine does *)
Lemma h_step_err_iff so c sc off p idx s hs :
  (h_step so c sc off p idx s hs = HErr <-> execute_opcode so c p idx s = OErr) /\
  (h_step so c sc off p idx s hs = HPanic <-> execute_opcode so c p idx s = OPanic).
Proof.
  unfold h_step. destruct (execute_opcode so c p idx s) as [s1|s1| |];
    try (destruct (rebuild c sc off p s (ds s1) hs) as [hs1|]; [destruct (reads hs1 (ds s1) (als s1))|]);
    split; split; intros H; try discriminate H; reflexivity.
Qed.

(** ** Recorded snapshots stay valid while the heap grows *)
Definition snap_ok (h : heap) (hsn : hsnapshot) (sn : snapshot) : Prop :=
  all_in h (fst hsn) /\ all_in h (snd hsn) /\ abs_snap h hsn = sn.
Definition acc_ok (h : heap) (hacc : list hsnapshot) (acc : list snapshot) : Prop :=
  Forall2 (snap_ok h) hacc acc.

Lemma snap_ok_extends h h' x y : extends h h' -> snap_ok h x y -> snap_ok h' x y.
Proof.
  intros He (H1 & H2 & H3). split; [|split].
  - eapply all_in_extends; eauto.
  - eapply all_in_extends; eauto.
  - unfold abs_snap in *. rewrite (map_rd_extends h h' _ He H1), (map_rd_extends h h' _ He H2). exact H3.
Qed.

Lemma acc_ok_extends h h' hacc acc : extends h h' -> acc_ok h hacc acc -> acc_ok h' hacc acc.
Proof.
  intros He Ha. unfold acc_ok in *. induction Ha; constructor; [eapply snap_ok_extends; eauto|assumption].
Qed.

Lemma all_in_rev h l : all_in h l -> all_in h (rev l).
Proof. unfold all_in. rewrite !Forall_forall. intros H x Hx. apply H. apply in_rev. exact Hx. Qed.

Lemma snap_ok_of h hd ha d a :
  all_in h hd -> all_in h ha -> map (rd h) hd = d -> map (rd h) ha = a ->
  snap_ok h (rev hd, rev ha) (mkSnap (rev d) (rev a)).
Proof.
  intros H1 H2 <- <-. split; [|split]; cbn [fst snd].
  - apply all_in_rev; exact H1.
  - apply all_in_rev; exact H2.
  - unfold abs_snap. cbn [fst snd]. rewrite !map_rev. reflexivity.
Qed.

Lemma reads_snap_ok hs s : reads hs (ds s) (als s) = true -> snap_ok (h_heap hs) (hsnap hs) (snap s).
Proof.
  intros H. apply reads_spec in H. destruct H as (H1 & H2 & H3 & H4).
  unfold hsnap, snap. apply snap_ok_of; assumption.
Qed.

(** the alt stack is dropped at the end of a script *)
Lemma reads_clear_alt hs d a : reads hs d a = true -> reads (clear_alt hs) d [] = true.
Proof.
  intros H. apply reads_spec in H. destruct H as (H1 & H2 & H3 & H4).
  apply reads_spec. unfold clear_alt. cbn [h_heap h_ds h_as]. repeat split; try assumption. constructor.
Qed.

Lemma snap_ok_clear_alt hs d a :
  reads hs d a = true -> snap_ok (h_heap hs) (hsnap (clear_alt hs)) (mkSnap (rev d) (rev [])).
Proof.
  intros H. apply reads_spec in H. destruct H as (H1 & H2 & H3 & H4).
  unfold hsnap, clear_alt. cbn [h_heap h_ds h_as]. apply snap_ok_of; try assumption; [constructor|reflexivity].
Qed.

(** ** A4: one script *)
Definition end_rel (h0 : heap) (r : hscript_end * list hsnapshot) (r' : script_end * list snapshot) : Prop :=
  match fst r with
  | HSEnd s hs =>
      fst r' = SEnd s /\ reads hs (ds s) (als s) = true /\ extends h0 (h_heap hs) /\
      acc_ok (h_heap hs) (snd r) (snd r')
  | HSReturn s hs =>
      fst r' = SReturn s /\ reads hs (ds s) (als s) = true /\ extends h0 (h_heap hs) /\
      acc_ok (h_heap hs) (snd r) (snd r')
  | HSErr h => fst r' = SErr /\ extends h0 h /\ acc_ok h (snd r) (snd r')
  | HSPanic h => fst r' = SPanic /\ extends h0 h /\ acc_ok h (snd r) (snd r')
  | HSStuck => True
  end.

Lemma end_rel_trans h0 h1 r r' : extends h0 h1 -> end_rel h1 r r' -> end_rel h0 r r'.
Proof.
  intros He. unfold end_rel. destruct (fst r); intros H; try exact I.
  - destruct H as (A & B & C & D). repeat split; try assumption. eapply extends_trans; eauto.
  - destruct H as (A & B & C & D). repeat split; try assumption. eapply extends_trans; eauto.
  - destruct H as (A & C & D). repeat split; try assumption. eapply extends_trans; eauto.
  - destruct H as (A & C & D). repeat split; try assumption. eapply extends_trans; eauto.
Qed.

Theorem h_run_ops_refines so c sc : forall ops idx off s hs hacc acc,
  reads hs (ds s) (als s) = true -> acc_ok (h_heap hs) hacc acc ->
  end_rel (h_heap hs) (h_run_ops so c sc ops idx off s hs hacc) (run_ops so c ops idx s acc).
Proof.
  induction ops as [|p rest IH]; intros idx off s hs hacc acc Hr Ha.
  - cbn [h_run_ops run_ops]. unfold end_rel. cbn [fst snd].
    repeat split; try assumption. apply extends_refl.
  - cbn [h_run_ops run_ops].
    pose proof (h_step_sound_match so c sc off p idx s hs) as Hc.
    destruct (h_step so c sc off p idx s hs) as [s1 hs1|s1 hs1| | |] eqn:Eh.
    + destruct Hc as (Ee & Hx & Hr1). rewrite Ee.
      destruct (max_stack c <? lenZ (ds s1) + lenZ (als s1)).
      * unfold end_rel. cbn [fst snd]. repeat split; try assumption. eapply acc_ok_extends; eauto.
      * destruct rest as [|p2 rest2].
        -- unfold end_rel. cbn [fst snd]. repeat split; try assumption. eapply acc_ok_extends; eauto.
        -- apply (end_rel_trans _ (h_heap hs1)); [exact Hx|].
           apply IH; [exact Hr1|].
           constructor; [apply reads_snap_ok; exact Hr1|eapply acc_ok_extends; eauto].
    + destruct Hc as (Ee & Hx & Hr1). rewrite Ee.
      unfold end_rel. cbn [fst snd]. repeat split; try assumption. eapply acc_ok_extends; eauto.
    + rewrite Hc. unfold end_rel. cbn [fst snd]. repeat split; try assumption. apply extends_refl.
    + rewrite Hc. unfold end_rel. cbn [fst snd]. repeat split; try assumption. apply extends_refl.
    + exact I.
Qed.

(** ** Whole executions *)
Definition res_rel (h0 : heap) (r : hresult) (r' : verdict * list snapshot) : Prop :=
  match r with
  | HRes v sn h => fst r' = v /\ Forall2 (snap_ok h) sn (snd r') /\ extends h0 h
  | HResStuck => True
  end.

Lemma res_rel_trans h0 h1 r r' : extends h0 h1 -> res_rel h1 r r' -> res_rel h0 r r'.
Proof.
  intros He. destruct r as [v sn h|]; [|intros; exact I].
  intros (A & B & C). repeat split; try assumption. eapply extends_trans; eauto.
Qed.

Lemma Forall2_rev {A B} (R : A -> B -> Prop) l l' : Forall2 R l l' -> Forall2 R (rev l) (rev l').
Proof.
  induction 1 as [|x y l l' Hxy Hl IH]; [constructor|].
  cbn [rev]. apply Forall2_app; [exact IH|constructor; [exact Hxy|constructor]].
Qed.

Lemma res_rel_stop h0 h v hacc acc :
  extends h0 h -> acc_ok h hacc acc -> res_rel h0 (HRes v (rev hacc) h) (v, rev acc).
Proof.
  intros He Ha. cbn [res_rel fst snd]. repeat split; [|exact He]. apply Forall2_rev. exact Ha.
Qed.

Lemma res_rel_finish h0 c d hs hacc acc :
  extends h0 (h_heap hs) -> acc_ok (h_heap hs) hacc acc ->
  res_rel h0 (h_finish c d hs hacc) (finish c d acc).
Proof. intros He Ha. unfold h_finish, finish. apply res_rel_stop; assumption. Qed.

Lemma end_script_some s s' : end_script s = Some s' -> s' = set_als s [].
Proof. unfold end_script. destruct (cond s); [|discriminate]. intros [= <-]. reflexivity. Qed.

(** the end of a script that ran: alt stack cleared, one more snapshot, the final check *)
Lemma res_rel_finish_clear h0 c s2 hs2 hacc acc :
  reads hs2 (ds s2) (als s2) = true -> extends h0 (h_heap hs2) -> acc_ok (h_heap hs2) hacc acc ->
  res_rel h0 (h_finish c (ds s2) (clear_alt hs2) (hsnap (clear_alt hs2) :: hacc))
             (finish c (ds s2) (mkSnap (rev (ds s2)) (rev []) :: acc)).
Proof.
  intros Hr He Ha. apply res_rel_finish; [exact He|].
  constructor; [|exact Ha]. apply (snap_ok_clear_alt hs2 (ds s2) (als s2)). exact Hr.
Qed.

Lemma h_run_redeem_refines so c saved hsaved s hs hacc acc :
  reads hs (ds s) (als s) = true ->
  all_in (h_heap hs) hsaved -> map (rd (h_heap hs)) hsaved = saved ->
  acc_ok (h_heap hs) hacc acc ->
  res_rel (h_heap hs) (h_run_redeem so c saved hsaved s hs hacc) (run_redeem so c saved s acc).
Proof.
  intros Hr Hin Hmap Ha. unfold h_run_redeem, run_redeem.
  destruct (negb (check_error_condition c false (ds s))).
  { apply res_rel_stop; [apply extends_refl|exact Ha]. }
  destruct saved as [|script below].
  { apply res_rel_stop; [apply extends_refl|exact Ha]. }
  destruct hsaved as [|hscript hbelow]; [exact I|].
  destruct (parse_script (c_err_on_checksig c) script) as [ops|].
  2:{ apply res_rel_stop; [apply extends_refl|exact Ha]. }
  cbv zeta.
  set (s' := set_ds (shift_script s ops) below).
  set (hs' := mkH (h_heap hs) hbelow (h_as hs)).
  cbn [map] in Hmap. injection Hmap as Hscript Hbelow.
  assert (Hin' : all_in (h_heap hs) hbelow) by (inversion Hin; assumption).
  assert (Hr' : reads hs' (ds s') (als s') = true).
  { apply reads_spec in Hr. destruct Hr as (H1 & H2 & H3 & H4).
    apply reads_spec. subst hs' s'. cbn [h_heap h_ds h_as ds als set_ds shift_script]. auto. }
  assert (Ha' : acc_ok (h_heap hs') (hsnap hs' :: hacc) (snap s' :: acc)).
  { constructor; [apply reads_snap_ok; exact Hr'|exact Ha]. }
  change (h_heap hs) with (h_heap hs').
  destruct ops as [|p0 ops0].
  { change below with (ds s'). apply res_rel_finish; [apply extends_refl|exact Ha']. }
  pose proof (h_run_ops_refines so c hscript (p0 :: ops0) 0 0 s' hs' _ _ Hr' Ha') as Hrun.
  destruct (h_run_ops so c hscript (p0 :: ops0) 0 0 s' hs' (hsnap hs' :: hacc)) as [e hacc'].
  destruct (run_ops so c (p0 :: ops0) 0 s' (snap s' :: acc)) as [e' acc'].
  unfold end_rel in Hrun. cbn [fst snd] in Hrun.
  destruct e as [s2 hs2|s2 hs2|h|h|].
  - destruct Hrun as (-> & Hr2 & Hx & Ha2).
    destruct (end_script s2) as [s3|] eqn:Ees.
    + apply end_script_some in Ees. subst s3.
      apply (res_rel_finish_clear _ c s2 hs2 hacc' acc'); assumption.
    + apply res_rel_stop; assumption.
  - destruct Hrun as (-> & Hr2 & Hx & Ha2).
    apply (res_rel_finish_clear _ c s2 hs2 hacc' acc'); assumption.
  - destruct Hrun as (-> & Hx & Ha2). apply res_rel_stop; assumption.
  - destruct Hrun as (-> & Hx & Ha2). apply res_rel_stop; assumption.
  - exact I.
Qed.

Lemma h_run_lock_refines so c bip16 saved hsaved sc lock s hs hacc acc :
  reads hs (ds s) (als s) = true ->
  all_in (h_heap hs) hsaved -> map (rd (h_heap hs)) hsaved = saved ->
  acc_ok (h_heap hs) hacc acc ->
  res_rel (h_heap hs) (h_run_lock so c bip16 saved hsaved sc lock s hs hacc) (run_lock so c bip16 saved lock s acc).
Proof.
  intros Hr Hin Hmap Ha. unfold h_run_lock, run_lock.
  pose proof (h_run_ops_refines so c sc lock 0 0 s hs _ _ Hr Ha) as Hrun.
  destruct (h_run_ops so c sc lock 0 0 s hs hacc) as [e hacc'].
  destruct (run_ops so c lock 0 s acc) as [e' acc'].
  unfold end_rel in Hrun. cbn [fst snd] in Hrun.
  destruct e as [s2 hs2|s2 hs2|h|h|].
  - destruct Hrun as (-> & Hr2 & Hx & Ha2).
    destruct (end_script s2) as [s3|] eqn:Ees.
    + apply end_script_some in Ees. subst s3.
      destruct (bip16 && negb (after_genesis c)).
      * apply (res_rel_trans _ (h_heap hs2)); [exact Hx|].
        change (h_heap hs2) with (h_heap (clear_alt hs2)).
        apply h_run_redeem_refines.
        -- cbn [ds als set_als]. eapply reads_clear_alt. exact Hr2.
        -- cbn [clear_alt h_heap]. eapply all_in_extends; eauto.
        -- cbn [clear_alt h_heap]. rewrite (map_rd_extends _ _ _ Hx Hin). exact Hmap.
        -- exact Ha2.
      * apply (res_rel_finish_clear _ c s2 hs2 hacc' acc'); assumption.
    + apply res_rel_stop; assumption.
  - destruct Hrun as (-> & Hr2 & Hx & Ha2).
    apply (res_rel_finish_clear _ c s2 hs2 hacc' acc'); assumption.
  - destruct Hrun as (-> & Hx & Ha2). apply res_rel_stop; assumption.
  - destruct Hrun as (-> & Hx & Ha2). apply res_rel_stop; assumption.
  - exact I.
Qed.

Lemma reads_init ub lb script : reads (mkH [ub; lb] [] []) (ds (init_st script)) (als (init_st script)) = true.
Proof. reflexivity. Qed.

Theorem h_execute_refines so c bip16 ub lb unlock lock :
  res_rel [ub; lb] (h_execute so c bip16 ub lb unlock lock) (execute so c bip16 unlock lock).
Proof.
  unfold h_execute, execute. cbv zeta.
  set (hs0 := mkH [ub; lb] [] []).
  change [ub; lb] with (h_heap hs0).
  destruct unlock as [|u0 unlock0].
  { destruct lock as [|l0 lock0].
    - cbn [res_rel fst snd]. repeat split; [constructor|apply extends_refl].
    - apply h_run_lock_refines; [apply reads_init|constructor|reflexivity|constructor]. }
  pose proof (h_run_ops_refines so c (whole 0 ub) (u0 :: unlock0) 0 0 (init_st (u0 :: unlock0)) hs0 [] []
                (reads_init ub lb _) (Forall2_nil _)) as Hrun.
  destruct (h_run_ops so c (whole 0 ub) (u0 :: unlock0) 0 0 (init_st (u0 :: unlock0)) hs0 []) as [e hacc'].
  destruct (run_ops so c (u0 :: unlock0) 0 (init_st (u0 :: unlock0)) []) as [e' acc'].
  unfold end_rel in Hrun. cbn [fst snd] in Hrun.
  destruct e as [s1 hs1|s1 hs1|h|h|].
  - destruct Hrun as (-> & Hr1 & Hx & Ha1).
    destruct (end_script s1) as [s2|] eqn:Ees; [|apply res_rel_stop; assumption].
    apply end_script_some in Ees. subst s2.
    set (s3 := shift_script (set_als s1 []) lock).
    set (hs3 := clear_alt hs1).
    assert (Hr3 : reads hs3 (ds s3) (als s3) = true) by (eapply reads_clear_alt; exact Hr1).
    assert (Ha3 : acc_ok (h_heap hs3) (hsnap hs3 :: hacc') (snap s3 :: acc')).
    { constructor; [apply reads_snap_ok; exact Hr3|exact Ha1]. }
    destruct lock as [|l0 lock0].
    + apply res_rel_finish; assumption.
    + apply (res_rel_trans _ (h_heap hs3)); [exact Hx|].
      apply reads_spec in Hr3. destruct Hr3 as (H1 & H2 & H3 & H4).
      apply h_run_lock_refines; try assumption. apply reads_spec. auto.
  - destruct Hrun as (-> & Hr1 & Hx & Ha1).
    set (s2 := shift_script (set_als s1 []) lock).
    set (hs2 := clear_alt hs1).
    assert (Hr2 : reads hs2 (ds s2) (als s2) = true) by (eapply reads_clear_alt; exact Hr1).
    assert (Ha2 : acc_ok (h_heap hs2) (hsnap hs2 :: hacc') (snap s2 :: acc')).
    { constructor; [apply reads_snap_ok; exact Hr2|exact Ha1]. }
    destruct lock as [|l0 lock0].
    + apply res_rel_finish; assumption.
    + apply (res_rel_trans _ (h_heap hs2)); [exact Hx|].
      apply h_run_lock_refines; [exact Hr2|constructor|reflexivity|exact Ha2].
  - destruct Hrun as (-> & Hx & Ha1). apply res_rel_stop; assumption.
  - destruct Hrun as (-> & Hx & Ha1). apply res_rel_stop; assumption.
  - exact I.
Qed.

Lemma res_rel_err h0 : res_rel h0 (HRes VErr [] h0) (VErr, []).
Proof. cbn [res_rel fst snd]. repeat split; [constructor|apply extends_refl]. Qed.

Lemma h_engine_execute_rel so i :
  res_rel [ei_unlock i; ei_lock i] (h_engine_execute so i) (engine_execute so i).
Proof.
  unfold h_engine_execute, engine_execute. cbv zeta.
  generalize (mkCtx (normalise_flags (ei_flags i)) (ei_has_tx i) (ei_tx_lock i) (ei_tx_version i)
                (ei_in_seq i) (negb (ei_has_tx i) || negb (ei_has_prevout i))).
  intros c.
  generalize (ei_unlock i) (ei_lock i). intros ub lb.
  assert (Hmain :
    res_rel [ub; lb]
      (if has_flag c F_CLEANSTACK && negb (has_flag c F_BIP16) then HRes VErr [] [ub; lb]
       else if (max_script_size c <? lenZ ub) || (max_script_size c <? lenZ lb) then HRes VErr [] [ub; lb]
       else match parse_script (c_err_on_checksig c) ub with
            | None => HRes VErr [] [ub; lb]
            | Some u =>
                match parse_script (c_err_on_checksig c) lb with
                | None => HRes VErr [] [ub; lb]
                | Some l =>
                    if has_flag c F_SIGPUSHONLY && negb (is_push_only u) then HRes VErr [] [ub; lb]
                    else if has_flag c F_BIP16 && negb (after_genesis c) && is_p2sh lb && negb (is_push_only u)
                         then HRes VErr [] [ub; lb]
                         else h_execute so c (has_flag c F_BIP16 && negb (after_genesis c) && is_p2sh lb) ub lb u l
                end
            end)
      (if has_flag c F_CLEANSTACK && negb (has_flag c F_BIP16) then (VErr, [])
       else if (max_script_size c <? lenZ ub) || (max_script_size c <? lenZ lb) then (VErr, [])
       else match parse_script (c_err_on_checksig c) ub with
            | None => (VErr, [])
            | Some u =>
                match parse_script (c_err_on_checksig c) lb with
                | None => (VErr, [])
                | Some l =>
                    if has_flag c F_SIGPUSHONLY && negb (is_push_only u) then (VErr, [])
                    else if has_flag c F_BIP16 && negb (after_genesis c) && is_p2sh lb && negb (is_push_only u)
                         then (VErr, [])
                         else execute so c (has_flag c F_BIP16 && negb (after_genesis c) && is_p2sh lb) u l
                end
            end)).
  { destruct (has_flag c F_CLEANSTACK && negb (has_flag c F_BIP16)); [apply res_rel_err|].
    destruct ((max_script_size c <? lenZ ub) || (max_script_size c <? lenZ lb)); [apply res_rel_err|].
    destruct (parse_script (c_err_on_checksig c) ub) as [u|]; [|apply res_rel_err].
    destruct (parse_script (c_err_on_checksig c) lb) as [l|]; [|apply res_rel_err].
    destruct (has_flag c F_SIGPUSHONLY && negb (is_push_only u)); [apply res_rel_err|].
    destruct (has_flag c F_BIP16 && negb (after_genesis c) && is_p2sh lb && negb (is_push_only u));
      [apply res_rel_err|].
    apply h_execute_refines. }
  destruct ub as [|ub0 ubr]; [destruct lb as [|lb0 lbr]; [apply res_rel_err|exact Hmain]|exact Hmain].
Qed.

Lemma Forall2_snap_ok_map h sn l : Forall2 (snap_ok h) sn l -> map (abs_snap h) sn = l.
Proof.
  induction 1 as [|x y sn l Hxy Hl IH]; [reflexivity|].
  cbn [map]. destruct Hxy as (_ & _ & ->). rewrite IH. reflexivity.
Qed.

(** ** A5: the headline theorem *)
Theorem h_engine_execute_refines : forall so i v sn h,
  h_engine_execute so i = HRes v sn h ->
  engine_execute so i = (v, map (abs_snap h) sn) /\
  nth 0 h [] = ei_unlock i /\ nth 1 h [] = ei_lock i.
Proof.
  intros so i v sn h E.
  pose proof (h_engine_execute_rel so i) as H. rewrite E in H.
  cbn [res_rel] in H. destruct H as (Hv & Hs & [e ->]).
  split; [|split; reflexivity].
  destruct (engine_execute so i) as [v' l']. cbn [fst snd] in *. subst v'.
  f_equal. symmetry. apply Forall2_snap_ok_map. exact Hs.
Qed.

(** every recorded snapshot's slices also lie inside their arrays in the final heap *)
Theorem h_engine_execute_in_bounds : forall so i v sn h,
  h_engine_execute so i = HRes v sn h ->
  Forall (fun x => all_in h (fst x) /\ all_in h (snd x)) sn.
Proof.
  intros so i v sn h E.
  pose proof (h_engine_execute_rel so i) as H. rewrite E in H.
  cbn [res_rel] in H. destruct H as (_ & Hs & _).
  clear E. induction Hs as [|x y sn l Hxy Hl IH]; [constructor|]. constructor; [|exact IH].
  destruct Hxy as (A & B & _). split; assumption.
Qed.

Corollary item_never_changes : forall so i v sn h k d a,
  h_engine_execute so i = HRes v sn h -> nth_error sn k = Some (d, a) ->
  exists s, nth_error (snd (engine_execute so i)) k = Some s /\ map (rd h) d = sn_ds s /\ map (rd h) a = sn_as s.
Proof.
  intros so i v sn h k d a E Hk.
  apply h_engine_execute_refines in E. destruct E as (E & _ & _).
  rewrite E. cbn [snd]. exists (abs_snap h (d, a)).
  split; [|split; reflexivity].
  rewrite nth_error_map, Hk. reflexivity.
Qed.


(** * Part B: progress — the sharing machine is never stuck on a non-signature opcode *)

(** ** Slices *)
Lemma rd_length h x : in_bounds h x = true -> length (rd h x) = sl_len x.
Proof.
  intros Hb. apply in_bounds_spec in Hb. destruct Hb as [_ Hle].
  unfold rd. rewrite firstn_length, skipn_length. lia.
Qed.

Lemma rd_sub h x off len :
  (off + len <= sl_len x)%nat -> rd h (sub x off len) = firstn len (skipn off (rd h x)).
Proof.
  intros Hle. unfold rd, sub. cbn [sl_arr sl_off sl_len].
  rewrite skipn_firstn_comm, firstn_firstn, <- skipn_add.
  replace (Nat.min len (sl_len x - off)) with len by lia. reflexivity.
Qed.

Lemma in_bounds_sub h x off len :
  in_bounds h x = true -> (off + len <= sl_len x)%nat -> in_bounds h (sub x off len) = true.
Proof.
  intros Hb Hle. apply in_bounds_spec in Hb. destruct Hb as [Hlt Hb].
  apply in_bounds_spec. unfold sub. cbn [sl_arr sl_off sl_len]. split; [exact Hlt|lia].
Qed.

Lemma rd_alloc h v : rd (h ++ [v]) (mkSl (length h) 0 (length v)) = v.
Proof.
  unfold rd. cbn [sl_arr sl_off sl_len]. rewrite app_nth2 by lia. rewrite PeanoNat.Nat.sub_diag.
  cbn [nth skipn]. apply firstn_all.
Qed.

Lemma in_bounds_alloc h v : in_bounds (h ++ [v]) (mkSl (length h) 0 (length v)) = true.
Proof.
  apply in_bounds_spec. cbn [sl_arr sl_off sl_len]. rewrite app_length, app_nth2 by lia.
  rewrite PeanoNat.Nat.sub_diag. cbn [nth length]. lia.
Qed.

Lemma extends_alloc h v : extends h (h ++ [v]).
Proof. exists [v]. reflexivity. Qed.

Lemma reads_intro h d1 a1 d a :
  all_in h d1 -> all_in h a1 -> map (rd h) d1 = d -> map (rd h) a1 = a -> reads (mkH h d1 a1) d a = true.
Proof. intros. apply reads_spec. cbn [h_heap h_ds h_as]. auto. Qed.

Lemma Forall_skipn {A} (P : A -> Prop) : forall n l, Forall P l -> Forall P (skipn n l).
Proof.
  induction n as [|n IH]; intros l Hl; [exact Hl|].
  destruct l as [|x l]; [constructor|]. cbn [skipn]. apply IH. inversion Hl; assumption.
Qed.

(** ** Naturality of the polymorphic stack primitives *)
Section MoveMap.
  Context {A B : Type} (f : A -> B).

  Lemma lenZ_map (l : list A) : lenZ (map f l) = lenZ l.
  Proof. unfold lenZ. rewrite map_length. reflexivity. Qed.

  Lemma pdup_n_map n d : pdup_n n (map f d) = option_map (map f) (pdup_n n d).
  Proof.
    unfold pdup_n. rewrite map_length. destruct (Nat.ltb (length d) n); [reflexivity|].
    cbn [option_map]. rewrite map_app, firstn_map. reflexivity.
  Qed.

  Lemma prot_n_map n d : prot_n n (map f d) = option_map (map f) (prot_n n d).
  Proof.
    unfold prot_n. rewrite map_length. destruct (Nat.ltb (length d) (3 * n)); [reflexivity|].
    cbn [option_map]. rewrite !map_app, !skipn_map, !firstn_map. reflexivity.
  Qed.

  Lemma pswap_n_map n d : pswap_n n (map f d) = option_map (map f) (pswap_n n d).
  Proof.
    unfold pswap_n. rewrite map_length. destruct (Nat.ltb (length d) (2 * n)); [reflexivity|].
    cbn [option_map]. rewrite !map_app, !skipn_map, !firstn_map. reflexivity.
  Qed.

  Lemma pover_n_map n d : pover_n n (map f d) = option_map (map f) (pover_n n d).
  Proof.
    unfold pover_n. rewrite map_length. destruct (Nat.ltb (length d) (2 * n)); [reflexivity|].
    cbn [option_map]. rewrite !map_app, !skipn_map, !firstn_map. reflexivity.
  Qed.

  Lemma ppick_n_map i d : ppick_n i (map f d) = option_map (map f) (ppick_n i d).
  Proof.
    unfold ppick_n. rewrite lenZ_map. destruct ((i <? 0) || (lenZ d <=? i)); [reflexivity|].
    rewrite nth_error_map. destruct (nth_error d (Z.to_nat i)); reflexivity.
  Qed.

  Lemma proll_n_map i d : proll_n i (map f d) = option_map (map f) (proll_n i d).
  Proof.
    unfold proll_n. rewrite lenZ_map. destruct ((i <? 0) || (lenZ d <=? i)); [reflexivity|].
    rewrite nth_error_map. destruct (nth_error d (Z.to_nat i)); [|reflexivity].
    cbn [option_map map]. rewrite !map_app, !skipn_map, !firstn_map. reflexivity.
  Qed.

  Definition pmap (x : list A * list A) : list B * list B := (map f (fst x), map f (snd x)).

  Lemma on_ds_map a o : on_ds (map f a) (option_map (map f) o) = option_map pmap (on_ds a o).
  Proof. destruct o; reflexivity. Qed.

  (** [move] never looks inside an item *)
  Theorem move_map v arg tb d a :
    move v arg tb (map f d) (map f a) = option_map pmap (move v arg tb d a).
  Proof.
    unfold move.
    destruct (v =? OP_TOALTSTACK)%N; [destruct d; reflexivity|].
    destruct (v =? OP_FROMALTSTACK)%N; [destruct a; reflexivity|].
    destruct (v =? OP_2DROP)%N; [destruct d as [|? [|? ?]]; reflexivity|].
    destruct (v =? OP_2DUP)%N; [rewrite pdup_n_map; apply on_ds_map|].
    destruct (v =? OP_3DUP)%N; [rewrite pdup_n_map; apply on_ds_map|].
    destruct (v =? OP_2OVER)%N; [rewrite pover_n_map; apply on_ds_map|].
    destruct (v =? OP_2ROT)%N; [rewrite prot_n_map; apply on_ds_map|].
    destruct (v =? OP_2SWAP)%N; [rewrite pswap_n_map; apply on_ds_map|].
    destruct (v =? OP_IFDUP)%N; [destruct d; [reflexivity|destruct tb; reflexivity]|].
    destruct (v =? OP_DROP)%N; [destruct d; reflexivity|].
    destruct (v =? OP_DUP)%N; [rewrite pdup_n_map; apply on_ds_map|].
    destruct (v =? OP_NIP)%N; [destruct d as [|? [|? ?]]; reflexivity|].
    destruct (v =? OP_OVER)%N; [rewrite pover_n_map; apply on_ds_map|].
    destruct (v =? OP_PICK)%N; [destruct d; [reflexivity|cbn [map]; rewrite ppick_n_map; apply on_ds_map]|].
    destruct (v =? OP_ROLL)%N; [destruct d; [reflexivity|cbn [map]; rewrite proll_n_map; apply on_ds_map]|].
    destruct (v =? OP_ROT)%N; [rewrite prot_n_map; apply on_ds_map|].
    destruct (v =? OP_SWAP)%N; [rewrite pswap_n_map; apply on_ds_map|].
    destruct (v =? OP_TUCK)%N; [destruct d as [|? [|? ?]]; reflexivity|].
    reflexivity.
  Qed.
End MoveMap.

(** consequently it returns only items it was given (naturality at a subset type) *)
Lemma Forall_sig {A} (P : A -> Prop) l : Forall P l -> exists l0 : list (sig P), map (@proj1_sig A P) l0 = l.
Proof.
  induction 1 as [|x l Hx Hl [l0 IH]]; [exists []; reflexivity|].
  exists (exist P x Hx :: l0). cbn [map proj1_sig]. rewrite IH. reflexivity.
Qed.

Lemma Forall_proj1 {A} (P : A -> Prop) (l0 : list (sig P)) : Forall P (map (@proj1_sig A P) l0).
Proof. induction l0 as [|[x Hx] l0 IH]; constructor; assumption. Qed.

Lemma move_Forall {A} (P : A -> Prop) v arg tb d a d' a' :
  Forall P d -> Forall P a -> move v arg tb d a = Some (d', a') -> Forall P d' /\ Forall P a'.
Proof.
  intros Hd Ha. destruct (Forall_sig P d Hd) as [d0 <-]. destruct (Forall_sig P a Ha) as [a0 <-].
  rewrite move_map. destruct (move v arg tb d0 a0) as [[d1 a1]|]; [|discriminate].
  unfold pmap. cbn [option_map fst snd]. intros [= <- <-]. split; apply Forall_proj1.
Qed.

(** ** Enumerating opcodes *)
Lemma N_enum n v : (v < N.of_nat n)%N -> In v (map N.of_nat (seq 0 n)).
Proof.
  intros H. apply in_map_iff. exists (N.to_nat v). split; [apply N2Nat.id|]. apply in_seq. lia.
Qed.

Ltac reduce_consts :=
  cbv beta iota delta [N.eqb N.leb N.ltb N.compare Pos.eqb Pos.compare Pos.compare_cont orb andb negb
    OP_0 OP_0NOTEQUAL OP_1 OP_16 OP_1ADD OP_1NEGATE OP_1SUB OP_2DIV OP_2DROP OP_2DUP OP_2MUL OP_2OVER OP_2ROT
    OP_2SWAP OP_3DUP OP_ABS OP_ADD OP_AND OP_BIN2NUM OP_BOOLAND OP_BOOLOR OP_CAT OP_CHECKMULTISIG
    OP_CHECKMULTISIGVERIFY OP_CHECKSIG OP_CHECKSIGVERIFY OP_CLTV OP_CODESEPARATOR OP_CSV OP_DEPTH OP_DIV OP_DROP
    OP_DUP OP_ELSE OP_ENDIF OP_EQUAL OP_EQUALVERIFY OP_FROMALTSTACK OP_GREATERTHAN OP_GREATERTHANOREQUAL
    OP_HASH160 OP_HASH256 OP_IF OP_IFDUP OP_INVERT OP_LESSTHAN OP_LESSTHANOREQUAL OP_LSHIFT OP_MAX OP_MIN OP_MOD
    OP_MUL OP_NEGATE OP_NIP OP_NOP OP_NOP1 OP_NOP10 OP_NOP4 OP_NOT OP_NOTIF OP_NUM2BIN OP_NUMEQUAL
    OP_NUMEQUALVERIFY OP_NUMNOTEQUAL OP_OR OP_OVER OP_PICK OP_PUSHDATA1 OP_PUSHDATA2 OP_PUSHDATA4 OP_RESERVED
    OP_RESERVED1 OP_RESERVED2 OP_RETURN OP_RIPEMD160 OP_ROLL OP_ROT OP_RSHIFT OP_SHA1 OP_SHA256 OP_SIZE OP_SPLIT
    OP_SUB OP_SWAP OP_TOALTSTACK OP_TUCK OP_VER OP_VERIF OP_VERIFY OP_VERNOTIF OP_WITHIN OP_XOR].

Ltac st_cbn := cbn [ds als cond els set_ds set_als set_cond set_nops set_sep set_early].

(** destruct the scrutinee of one [match] / [if] of the goal, innermost first *)
Ltac bm :=
  match goal with
  | |- context [match ds ?s with _ => _ end] => destruct (ds s) eqn:?
  | |- context [match als ?s with _ => _ end] => destruct (als s) eqn:?
  | |- context [match cond ?s with _ => _ end] => destruct (cond s) eqn:?
  | |- context [match els ?s with _ => _ end] => destruct (els s) eqn:?
  | |- context [match ?l with _ => _ end] => is_var l; destruct l
  | |- context [match pop_num ?c ?t with _ => _ end] => destruct (pop_num c t) eqn:?
  | |- context [match make_num ?a ?b ?c with _ => _ end] => destruct (make_num a b c) eqn:?
  | |- context [match pop_if_bool ?c ?s with _ => _ end] => destruct (pop_if_bool c s) as [[? ?]|] eqn:?
  | |- context [match dup_n ?n ?d with _ => _ end] => destruct (dup_n n d) eqn:?
  | |- context [match over_n ?n ?d with _ => _ end] => destruct (over_n n d) eqn:?
  | |- context [match rot_n ?n ?d with _ => _ end] => destruct (rot_n n d) eqn:?
  | |- context [match swap_n ?n ?d with _ => _ end] => destruct (swap_n n d) eqn:?
  | |- context [match pick_n ?n ?d with _ => _ end] => destruct (pick_n n d) eqn:?
  | |- context [match roll_n ?n ?d with _ => _ end] => destruct (roll_n n d) eqn:?
  | |- context [if ?b then _ else _] =>
      lazymatch b with
      | context [match _ with _ => _ end] => fail
      | _ => destruct b eqn:?
      end
  end.

(** ** The movers: the handler's result stacks are exactly [move] on the value stacks *)
Definition mv_arg (c : ctx) (s : st) : Z :=
  match ds s with t :: _ => match pop_num c t with Some n => to_int32 n | None => 0 end | [] => 0 end.
Definition mv_tb (s : st) : bool := match ds s with t :: _ => as_bool t | [] => false end.

Lemma is_mover_lt v : is_mover v = true -> (v < N.of_nat 126)%N.
Proof.
  unfold is_mover. intros H. apply andb_true_iff in H. destruct H as [H _].
  apply andb_true_iff in H. destruct H as [_ H]. apply N.leb_le in H.
  change (N.of_nat 126) with 126%N. unfold OP_TUCK in H. lia.
Qed.

Lemma mover_handler so c p idx s :
  p_real p = true -> is_mover (p_val p) = true ->
  match exec_handler so c p idx s with
  | OOk s' => move (p_val p) (mv_arg c s) (mv_tb s) (ds s) (als s) = Some (ds s', als s')
  | OReturn _ => False
  | _ => True
  end.
Proof.
  destruct p as [v l dat real]. cbn [p_val p_real]. intros -> Hm.
  pose proof (N_enum 126 v (is_mover_lt v Hm)) as Hin. vm_compute in Hin.
  repeat (destruct Hin as [<-|Hin]; [try solve [exfalso; vm_compute in Hm; discriminate]|]);
    try contradiction.
  all: unfold exec_handler, move, mv_arg, mv_tb, on_ds; cbn [p_val p_real p_data negb]; reduce_consts;
       change (@pdup_n bytes) with dup_n; change (@pover_n bytes) with over_n; change (@prot_n bytes) with rot_n;
       change (@pswap_n bytes) with swap_n; change (@ppick_n bytes) with pick_n; change (@proll_n bytes) with roll_n;
       unfold push; repeat (bm; st_cbn); try exact I; try reflexivity; try congruence.
Qed.

(** ** The remaining non-signature opcodes keep a suffix of the data stack and push at most one result *)
Definition suffix (l d : list bytes) : Prop := exists pre, d = pre ++ l.

Definition other_post (v : N) (s s' : st) : Prop :=
  als s' = als s /\
  if is_producer v then exists x rest, ds s' = x :: rest /\ suffix rest (ds s)
  else suffix (ds s') (ds s).

Ltac suffix_tac :=
  unfold suffix;
  repeat match goal with H : ds ?s = _ |- context [ds ?s] => rewrite H end;
  first [ exists []; reflexivity | eexists [_]; reflexivity | eexists [_; _]; reflexivity
        | eexists [_; _; _]; reflexivity ].

Ltac other_leaf :=
  st_cbn; split; [reflexivity|];
  first [ suffix_tac | do 2 eexists; split; [reflexivity|]; suffix_tac ].

(** opcodes 186..: opcodeInvalid *)
Lemma handler_invalid so c p idx s : (p_val p <? 186)%N = false -> p_real p = true -> exec_handler so c p idx s = OErr.
Proof.
  destruct p as [v l dat real]. cbn [p_val p_real]. intros Hge ->.
  pose proof Hge as Hge'. apply N.ltb_ge in Hge'.
  unfold exec_handler. cbn [p_val p_real p_data negb].
  repeat match goal with
  | |- context [(v =? ?K)%N] =>
      replace (v =? K)%N with false
        by (symmetry; apply N.eqb_neq; intros E; rewrite E in Hge; vm_compute in Hge; discriminate Hge)
  | |- context [(v <=? ?K)%N] =>
      replace (v <=? K)%N with false
        by (symmetry; apply N.leb_gt; eapply N.lt_le_trans; [|exact Hge']; reflexivity)
  | |- context [(?K <=? v)%N] =>
      replace (K <=? v)%N with true
        by (symmetry; apply N.leb_le; eapply N.le_trans; [|exact Hge']; vm_compute; discriminate)
  end.
  reflexivity.
Qed.

Lemma other_handler so c p idx s s' :
  p_real p = true -> (p_val p <=? OP_PUSHDATA4)%N = false -> is_mover (p_val p) = false ->
  (p_val p =? OP_SPLIT)%N = false -> (p_val p =? OP_BIN2NUM)%N = false -> is_sigop (p_val p) = false ->
  exec_handler so c p idx s = OOk s' \/ exec_handler so c p idx s = OReturn s' ->
  other_post (p_val p) s s'.
Proof.
  intros Hreal Hpd Hmv Hsp Hbn Hsig.
  destruct (p_val p <? 186)%N eqn:Hlt.
  2:{ rewrite (handler_invalid so c p idx s Hlt Hreal). intros [H|H]; discriminate H. }
  revert Hreal Hpd Hmv Hsp Hbn Hsig Hlt.
  destruct p as [v l dat real]. cbn [p_val p_real]. intros -> Hpd Hmv Hsp Hbn Hsig Hlt.
  apply N.ltb_lt in Hlt. pose proof (N_enum 186 v Hlt) as Hin. clear Hlt. vm_compute in Hin.
  repeat (destruct Hin as [<-|Hin];
          [try solve [exfalso; vm_compute in Hpd; discriminate Hpd | exfalso; vm_compute in Hmv; discriminate Hmv
                     | exfalso; vm_compute in Hsp; discriminate Hsp | exfalso; vm_compute in Hbn; discriminate Hbn
                     | exfalso; vm_compute in Hsig; discriminate Hsig]|]);
    try contradiction.
  all: clear Hpd Hmv Hsp Hbn Hsig; unfold other_post;
       match goal with |- context [is_producer ?k] =>
         let r := eval vm_compute in (is_producer k) in change (is_producer k) with r end;
       unfold exec_handler; cbn [p_val p_real p_data negb]; reduce_consts;
       unfold unary_num, binary_num, verify_top, nop_like, push_num, push_bool, push;
       intros [H|H]; revert H; repeat (bm; st_cbn); try discriminate; intros [= <-];
       repeat match goal with
       | H : pop_if_bool _ _ = Some (_, _) |- _ =>
           apply pop_if_bool_frame in H; destruct H as (? & ? & ? & ->)
       end.
  all: other_leaf.
Qed.

(** ** What [rebuild] and the handlers compute, class by class *)
Section Classes.
  Variables (so : sigops) (c : ctx) (sc : slice) (off : nat) (p : pop) (idx : nat) (s : st).
  Hypothesis Hreach : reaches_handler c s (p_val p) = true.

  Lemma rebuild_op0 d' hs : (p_val p =? OP_0)%N = true ->
    rebuild c sc off p s d' hs = Some (mkH (h_heap hs) (mkSl 0 0 0 :: h_ds hs) (h_as hs)).
  Proof. intros E. unfold rebuild. rewrite Hreach, E. reflexivity. Qed.

  Lemma rebuild_push d' hs : (p_val p =? OP_0)%N = false -> (p_val p <=? OP_PUSHDATA4)%N = true ->
    rebuild c sc off p s d' hs =
    Some (mkH (h_heap hs) (sub sc (off + data_off p) (length (p_data p)) :: h_ds hs) (h_as hs)).
  Proof. intros E0 E1. unfold rebuild. rewrite Hreach, E0, E1. reflexivity. Qed.

  Lemma rebuild_mover d' hs :
    (p_val p =? OP_0)%N = false -> (p_val p <=? OP_PUSHDATA4)%N = false -> is_mover (p_val p) = true ->
    rebuild c sc off p s d' hs =
    match move (p_val p) (mv_arg c s) (mv_tb s) (h_ds hs) (h_as hs) with
    | Some (d1, a1) => Some (mkH (h_heap hs) d1 a1)
    | None => None
    end.
  Proof. intros E0 E1 E2. unfold rebuild. rewrite Hreach, E0, E1, E2. reflexivity. Qed.

  Lemma rebuild_split d' hs :
    (p_val p =? OP_0)%N = false -> (p_val p <=? OP_PUSHDATA4)%N = false -> is_mover (p_val p) = false ->
    (p_val p =? OP_SPLIT)%N = true ->
    rebuild c sc off p s d' hs =
    match h_ds hs, ds s with
    | _ :: x :: r, nb :: _ =>
        match pop_num c nb with
        | Some n => let k := Z.to_nat n in
                    Some (mkH (h_heap hs) (sub x k (sl_len x - k) :: sub x 0 k :: r) (h_as hs))
        | None => None
        end
    | _, _ => None
    end.
  Proof. intros E0 E1 E2 E3. unfold rebuild. rewrite Hreach, E0, E1, E2, E3. reflexivity. Qed.

  Lemma rebuild_bin2num d' hs :
    (p_val p =? OP_0)%N = false -> (p_val p <=? OP_PUSHDATA4)%N = false -> is_mover (p_val p) = false ->
    (p_val p =? OP_SPLIT)%N = false -> (p_val p =? OP_BIN2NUM)%N = true ->
    rebuild c sc off p s d' hs =
    match h_ds hs, ds s, d' with
    | x :: r, a :: _, b :: _ =>
        if bin2num_shares a then Some (mkH (h_heap hs) (x :: r) (h_as hs))
        else Some (mkH (h_heap hs ++ [b]) (mkSl (length (h_heap hs)) 0 (length b) :: r) (h_as hs))
    | _, _, _ => None
    end.
  Proof.
    intros E0 E1 E2 E3 E4. unfold rebuild. rewrite Hreach, E0, E1, E2, E3, E4. cbn [negb].
    destruct (h_ds hs) as [|x r]; [reflexivity|]. destruct (ds s) as [|a r0]; [reflexivity|].
    destruct d' as [|b r1]; [reflexivity|]. destruct (bin2num_shares a); reflexivity.
  Qed.

  Definition rebuild_other (prod : bool) (d' : list bytes) (hs : hst) : option hst :=
    let keep := (length d' - (if prod then 1 else 0))%nat in
    let kept := skipn (length (h_ds hs) - keep) (h_ds hs) in
    if prod then
      match d' with
      | x :: _ => Some (mkH (h_heap hs ++ [x]) (mkSl (length (h_heap hs)) 0 (length x) :: kept) (h_as hs))
      | [] => None
      end
    else Some (mkH (h_heap hs) kept (h_as hs)).

  Lemma rebuild_other_eq d' hs :
    (p_val p =? OP_0)%N = false -> (p_val p <=? OP_PUSHDATA4)%N = false -> is_mover (p_val p) = false ->
    (p_val p =? OP_SPLIT)%N = false -> (p_val p =? OP_BIN2NUM)%N = false ->
    rebuild c sc off p s d' hs = rebuild_other (is_producer (p_val p)) d' hs.
  Proof.
    intros E0 E1 E2 E3 E4. unfold rebuild, rebuild_other. rewrite Hreach, E0, E1, E2, E3, E4. cbn [negb].
    destruct (is_producer (p_val p)); [|reflexivity]. destruct d' as [|x r]; reflexivity.
  Qed.

  Lemma handler_op0 : p_real p = true -> (p_val p =? OP_0)%N = true -> exec_handler so c p idx s = push s [].
  Proof. intros Hr E. unfold exec_handler. rewrite Hr, E. reflexivity. Qed.

  Lemma handler_push : p_real p = true -> (p_val p =? OP_0)%N = false -> (p_val p <=? OP_PUSHDATA4)%N = true ->
    exec_handler so c p idx s = push s (p_data p).
  Proof. intros Hr E0 E1. unfold exec_handler. rewrite Hr, E0, E1. reflexivity. Qed.

  Lemma handler_split : p_real p = true -> p_val p = OP_SPLIT ->
    exec_handler so c p idx s =
    match ds s with
    | nb :: r =>
        match pop_num c nb with
        | None => OErr
        | Some n =>
            match r with
            | x :: r' =>
                if lenZ x <? n then OErr
                else if n <? 0 then OErr
                else OOk (set_ds s (skipn (Z.to_nat n) x :: firstn (Z.to_nat n) x :: r'))
            | [] => OErr
            end
        end
    | [] => OErr
    end.
  Proof. intros Hr E. unfold exec_handler. rewrite Hr, E. reflexivity. Qed.

  Lemma handler_bin2num : p_real p = true -> p_val p = OP_BIN2NUM ->
    exec_handler so c p idx s =
    match ds s with
    | a :: r => if max_numlen c <? lenZ (minimally_encode a) then OErr else push (set_ds s r) (minimally_encode a)
    | [] => OErr
    end.
  Proof. intros Hr E. unfold exec_handler. rewrite Hr, E. reflexivity. Qed.
End Classes.

Lemma bin2num_shares_same a : bin2num_shares a = true -> minimally_encode a = a.
Proof.
  unfold bin2num_shares, minimally_encode. destruct (rev a) as [|last rest]; [reflexivity|].
  destruct (negb (b2n last mod 128 =? 0)%N); [reflexivity|]. cbn [orb].
  destruct rest as [|prev rest']; [discriminate|]. intros ->. reflexivity.
Qed.

Lemma rebuild_other_prod hs d a pre x rest :
  reads hs d a = true -> d = pre ++ rest ->
  exists hs', rebuild_other true (x :: rest) hs = Some hs' /\ reads hs' (x :: rest) a = true.
Proof.
  destruct hs as [h hd ha]. intros Hr ->. apply reads_spec in Hr. cbn [h_heap h_ds h_as] in Hr.
  destruct Hr as (Hd & Ha & Md & Ma).
  unfold rebuild_other. cbn [h_heap h_ds h_as length]. eexists. split; [reflexivity|].
  assert (Hlen : (length hd - (S (length rest) - 1) = length pre)%nat).
  { rewrite <- (map_length (rd h) hd), Md, app_length. lia. }
  rewrite Hlen.
  apply reads_intro.
  - constructor; [apply in_bounds_alloc|].
    apply (all_in_extends h); [apply extends_alloc|]. apply Forall_skipn. exact Hd.
  - apply (all_in_extends h); [apply extends_alloc|exact Ha].
  - cbn [map]. rewrite rd_alloc. f_equal.
    rewrite (map_rd_extends h); [|apply extends_alloc|apply Forall_skipn; exact Hd].
    rewrite <- skipn_map, Md, skipn_app, skipn_all, PeanoNat.Nat.sub_diag. reflexivity.
  - rewrite (map_rd_extends h); [exact Ma|apply extends_alloc|exact Ha].
Qed.

Lemma rebuild_other_keep hs d a pre d' :
  reads hs d a = true -> d = pre ++ d' ->
  exists hs', rebuild_other false d' hs = Some hs' /\ reads hs' d' a = true.
Proof.
  destruct hs as [h hd ha]. intros Hr ->. apply reads_spec in Hr. cbn [h_heap h_ds h_as] in Hr.
  destruct Hr as (Hd & Ha & Md & Ma).
  unfold rebuild_other. cbn [h_heap h_ds h_as]. eexists. split; [reflexivity|].
  assert (Hlen : (length hd - (length d' - 0) = length pre)%nat).
  { rewrite <- (map_length (rd h) hd), Md, app_length. lia. }
  rewrite Hlen.
  apply reads_intro; [apply Forall_skipn; exact Hd|exact Ha| |exact Ma].
  rewrite <- skipn_map, Md, skipn_app, skipn_all, PeanoNat.Nat.sub_diag. reflexivity.
Qed.

(** ** The handler was reached *)
Definition push_data_ok (sc : slice) (off : nat) (p : pop) (h : heap) : Prop :=
  (p_val p <=? OP_PUSHDATA4)%N = true -> (0 <? p_val p)%N = true ->
  rd h (sub sc (off + data_off p) (length (p_data p))) = p_data p /\
  in_bounds h (sub sc (off + data_off p) (length (p_data p))) = true.

Lemma handler_not_stuck so c sc off p idx s hs s' :
  is_sigop (p_val p) = false -> reads hs (ds s) (als s) = true ->
  push_data_ok sc off p (h_heap hs) -> (1 <= length (h_heap hs))%nat ->
  reaches_handler c s (p_val p) = true ->
  exec_handler so c p idx s = OOk s' \/ exec_handler so c p idx s = OReturn s' ->
  exists hs', rebuild c sc off p s (ds s') hs = Some hs' /\ reads hs' (ds s') (als s') = true.
Proof.
  intros Hsig Hr Hpush Hlen Hreach Hex.
  destruct (p_real p) eqn:Hreal.
  2:{ exfalso. unfold exec_handler in Hex. rewrite Hreal in Hex. destruct Hex as [H|H]; discriminate H. }
  pose proof Hr as Hr0. apply reads_spec in Hr0. destruct Hr0 as (Hd & Ha & Md & Ma).
  destruct (p_val p =? OP_0)%N eqn:E0.
  { (* PushByteArray(nil) *)
    rewrite (handler_op0 so c p idx s Hreal E0) in Hex. unfold push in Hex.
    destruct Hex as [H|H]; [|discriminate H]. injection H as <-. st_cbn.
    rewrite (rebuild_op0 c sc off p s Hreach _ hs E0). eexists. split; [reflexivity|].
    apply reads_intro; try assumption.
    - constructor; [|exact Hd]. apply in_bounds_spec. cbn [sl_arr sl_off sl_len]. split; lia.
    - cbn [map]. rewrite Md. reflexivity. }
  destruct (p_val p <=? OP_PUSHDATA4)%N eqn:E1.
  { (* a data push is a view of the script *)
    rewrite (handler_push so c p idx s Hreal E0 E1) in Hex. unfold push in Hex.
    destruct Hex as [H|H]; [|discriminate H]. injection H as <-. st_cbn.
    rewrite (rebuild_push c sc off p s Hreach _ hs E0 E1). eexists. split; [reflexivity|].
    destruct (Hpush E1) as [Prd Pin].
    { apply N.ltb_lt. apply N.eqb_neq in E0. unfold OP_0 in E0. lia. }
    apply reads_intro; try assumption.
    - constructor; [exact Pin|exact Hd].
    - cbn [map]. rewrite Prd, Md. reflexivity. }
  destruct (is_mover (p_val p)) eqn:E2.
  { (* the movers *)
    rewrite (rebuild_mover c sc off p s Hreach _ hs E0 E1 E2).
    pose proof (mover_handler so c p idx s Hreal E2) as Hmv.
    destruct Hex as [H|H]; rewrite H in Hmv; [|contradiction].
    rewrite <- Md, <- Ma, move_map in Hmv.
    destruct (move (p_val p) (mv_arg c s) (mv_tb s) (h_ds hs) (h_as hs)) as [[d1 a1]|] eqn:Em; [|discriminate Hmv].
    unfold pmap in Hmv. cbn [option_map fst snd] in Hmv. injection Hmv as Hd1 Ha1.
    destruct (move_Forall _ _ _ _ _ _ _ _ Hd Ha Em) as [Fd Fa].
    eexists. split; [reflexivity|]. apply reads_intro; assumption. }
  destruct (p_val p =? OP_SPLIT)%N eqn:E3.
  { (* two views of the operand *)
    rewrite (rebuild_split c sc off p s Hreach _ hs E0 E1 E2 E3).
    apply N.eqb_eq in E3. rewrite (handler_split so c p idx s Hreal E3) in Hex.
    destruct (ds s) as [|nb [|x r']] eqn:Eds.
    - destruct Hex as [H|H]; discriminate H.
    - destruct (pop_num c nb); destruct Hex as [H|H]; discriminate H.
    - destruct (pop_num c nb) as [n|]; [|destruct Hex as [H|H]; discriminate H].
      destruct (lenZ x <? n) eqn:L1; [destruct Hex as [H|H]; discriminate H|].
      destruct (n <? 0) eqn:L2; [destruct Hex as [H|H]; discriminate H|].
      destruct Hex as [H|H]; [|discriminate H]. injection H as <-. st_cbn.
      destruct hs as [h hd ha]. cbn [h_heap h_ds h_as] in *.
      destruct hd as [|hn [|hx hr]]; try discriminate Md.
      cbn [map] in Md. injection Md as Mn Mx Mr.
      inversion Hd as [|? ? Bn Hd1]; subst. inversion Hd1 as [|? ? Bx Hr']; subst.
      cbv zeta. eexists. split; [reflexivity|].
      apply Z.ltb_ge in L1. apply Z.ltb_ge in L2.
      assert (Hk : (Z.to_nat n <= sl_len hx)%nat).
      { rewrite <- (rd_length h hx Bx). unfold lenZ in L1. lia. }
      apply reads_intro; try assumption.
      + constructor; [apply in_bounds_sub; [exact Bx|lia]|].
        constructor; [apply in_bounds_sub; [exact Bx|lia]|exact Hr'].
      + cbn [map]. f_equal; [|f_equal].
        * rewrite rd_sub by lia. apply firstn_all2. rewrite skipn_length, (rd_length h hx Bx). lia.
        * rewrite rd_sub by lia. reflexivity. }
  destruct (p_val p =? OP_BIN2NUM)%N eqn:E4.
  { (* the operand itself, or a fresh copy *)
    apply N.eqb_eq in E4. pose proof E4 as E4'. apply N.eqb_eq in E4'.
    rewrite (handler_bin2num so c p idx s Hreal E4) in Hex.
    destruct (ds s) as [|a r] eqn:Eds; [destruct Hex as [H|H]; discriminate H|].
    destruct (max_numlen c <? lenZ (minimally_encode a)); [destruct Hex as [H|H]; discriminate H|].
    unfold push in Hex. destruct Hex as [H|H]; [|discriminate H]. injection H as <-. st_cbn.
    rewrite (rebuild_bin2num c sc off p s Hreach _ hs E0 E1 E2 E3 E4'). rewrite Eds.
    destruct hs as [h hd ha]. cbn [h_heap h_ds h_as] in *.
    destruct hd as [|hx hr]; try discriminate Md.
    cbn [map] in Md. injection Md as Mx Mr.
    inversion Hd as [|? ? Bx Hr']; subst.
    destruct (bin2num_shares (rd h hx)) eqn:Esh.
    - eexists. split; [reflexivity|]. apply reads_intro; try assumption.
      cbn [map]. rewrite (bin2num_shares_same _ Esh). reflexivity.
    - eexists. split; [reflexivity|]. apply reads_intro.
      + constructor; [apply in_bounds_alloc|]. apply (all_in_extends h); [apply extends_alloc|exact Hr'].
      + apply (all_in_extends h); [apply extends_alloc|exact Ha].
      + cbn [map]. rewrite rd_alloc. f_equal. apply map_rd_extends; [apply extends_alloc|exact Hr'].
      + rewrite (map_rd_extends h); [exact Ma|apply extends_alloc|exact Ha]. }
  (* everything else: at most one freshly allocated result on a suffix of the old stack *)
  rewrite (rebuild_other_eq c sc off p s Hreach _ hs E0 E1 E2 E3 E4).
  pose proof (other_handler so c p idx s s' Hreal E1 E2 E3 E4 Hsig Hex) as [Hals Hpost].
  rewrite Hals.
  destruct (is_producer (p_val p)).
  - destruct Hpost as (x & rest & -> & pre & Hpre).
    eapply rebuild_other_prod; [exact Hr|exact Hpre].
  - destruct Hpost as (pre & Hpre).
    eapply rebuild_other_keep; [exact Hr|exact Hpre].
Qed.

(** ** thread.executeOpcode: either an error, or an early return that changes neither stack, or the handler *)
Lemma execute_opcode_cases so c p idx s :
  execute_opcode so c p idx s = OErr \/
  (reaches_handler c s (p_val p) = false /\
   exists s1, execute_opcode so c p idx s = OOk s1 /\ ds s1 = ds s /\ als s1 = als s) \/
  (reaches_handler c s (p_val p) = true /\
   exists n, execute_opcode so c p idx s = exec_handler so c p idx (set_nops s n)).
Proof.
  unfold execute_opcode, reaches_handler. cbv zeta.
  assert (Hbe : branch_executing (if (OP_16 <? p_val p)%N then set_nops s (nops s + 1) else s) = branch_executing s)
    by (destruct (OP_16 <? p_val p)%N; reflexivity).
  rewrite Hbe.
  destruct (max_elem c <? lenZ (p_data p)); [left; reflexivity|].
  destruct (is_disabled (p_val p) && _); [left; reflexivity|].
  destruct (always_illegal (p_val p) && _); [left; reflexivity|].
  destruct ((OP_16 <? p_val p)%N && _); [left; reflexivity|].
  destruct (negb (branch_executing s) && negb (is_conditional (p_val p))).
  { right; left. split; [reflexivity|]. eexists. split; [reflexivity|].
    destruct (OP_16 <? p_val p)%N; split; reflexivity. }
  destruct (has_flag c F_MINIMALDATA && _ && _ && _ && _); [left; reflexivity|].
  destruct (negb (should_exec c s (p_val p)) && negb (is_conditional (p_val p))).
  { right; left. split; [reflexivity|]. eexists. split; [reflexivity|].
    destruct (OP_16 <? p_val p)%N; split; reflexivity. }
  right; right. split; [reflexivity|].
  destruct (OP_16 <? p_val p)%N; [eexists; reflexivity|].
  exists (nops s). destruct s; reflexivity.
Qed.

Lemma rebuild_not_reached c sc off p s d' hs :
  reaches_handler c s (p_val p) = false -> rebuild c sc off p s d' hs = Some hs.
Proof. intros E. unfold rebuild. rewrite E. reflexivity. Qed.

Lemma rebuild_set_nops c sc off p s n d' hs :
  rebuild c sc off p (set_nops s n) d' hs = rebuild c sc off p s d' hs.
Proof. reflexivity. Qed.

Theorem h_step_not_stuck : forall so c sc off p idx s hs,
  is_sigop (p_val p) = false ->
  reads hs (ds s) (als s) = true -> in_bounds (h_heap hs) sc = true ->
  ((p_val p <=? OP_PUSHDATA4)%N = true -> (0 <? p_val p)%N = true ->
   rd (h_heap hs) (sub sc (off + data_off p) (length (p_data p))) = p_data p /\
   in_bounds (h_heap hs) (sub sc (off + data_off p) (length (p_data p))) = true) ->
  (1 <= length (h_heap hs))%nat ->
  h_step so c sc off p idx s hs <> HStuck.
Proof.
  intros so c sc off p idx s hs Hsig Hr _ Hpush Hlen.
  assert (Hgoal : forall s', execute_opcode so c p idx s = OOk s' \/ execute_opcode so c p idx s = OReturn s' ->
            exists hs', rebuild c sc off p s (ds s') hs = Some hs' /\ reads hs' (ds s') (als s') = true).
  { intros s' Hex.
    destruct (execute_opcode_cases so c p idx s) as [E|[(Hreach & s1 & E & Hd1 & Ha1)|(Hreach & n & E)]].
    - rewrite E in Hex. destruct Hex as [H|H]; discriminate H.
    - rewrite E in Hex. destruct Hex as [H|H]; [|discriminate H]. injection H as <-.
      rewrite (rebuild_not_reached _ _ _ _ _ _ _ Hreach). exists hs. split; [reflexivity|].
      rewrite Hd1, Ha1. exact Hr.
    - rewrite E in Hex. rewrite <- (rebuild_set_nops c sc off p s n).
      apply (handler_not_stuck so c sc off p idx (set_nops s n) hs s'); try assumption. }
  unfold h_step. destruct (execute_opcode so c p idx s) as [s1|s1| |] eqn:Ee; try discriminate.
  - destruct (Hgoal s1 (or_introl eq_refl)) as (hs' & -> & ->). discriminate.
  - destruct (Hgoal s1 (or_intror eq_refl)) as (hs' & -> & ->). discriminate.
Qed.

Print Assumptions h_engine_execute_refines.
Print Assumptions h_step_not_stuck.
