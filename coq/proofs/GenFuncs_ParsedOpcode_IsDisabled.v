(** ParsedOpcode.IsDisabled (bscript/interpreter/opcodeparser.go), as printed from the Go source, is [is_disabled] of model/Interp.v on every opcode value (256-case sweep). *)
From Coq Require Import List ZArith NArith Bool Lia ZifyN ZifyNat ZifyBool.
From Coq Require Import Strings.Byte.
From GoBT Require Import lib.Bytes lib.GoSem gen.Funcs proofs.GenFuncsTac.
Import ListNotations.
Ltac Zify.zify_post_hook ::= Z.div_mod_to_equations.
Local Open Scope Z_scope.

From GoBT Require model.Interp.

Lemma ParsedOpcode_IsDisabled_is_model (v : N) : (v < 256)%N -> ParsedOpcode_IsDisabled (Z.of_N v) = Val (Interp.is_disabled v).
Proof.
  intros Hv. apply M_eqb_bool_eq.
  apply (all256_spec (fun v => M_eqb Bool.eqb (ParsedOpcode_IsDisabled (Z.of_N v)) (Val (Interp.is_disabled v)))); [vm_compute; reflexivity|exact Hv].
Qed.
