(** Script.PublicKeyHash (bscript/script.go), as printed from the Go source (it calls the PRINTED DecodeParts), is
    [public_key_hash] of model/Classify.v (C14, C16): the hash, an error (ErrEmptyScript / ErrNotP2PKH / the decoder's
    error are one [Err] in the model) or a panic -- the function indexes [parts[0]] without a length check, and the model
    says when that panics.  The receiver is a pointer: [None] is the nil *Script (ErrEmptyScript). *)
From Coq Require Import List ZArith NArith Bool Lia ZifyN ZifyNat ZifyBool.
From Coq Require Import Strings.Byte.
From GoBT Require Import lib.Bytes lib.GoSem lib.GoTx gen.Funcs proofs.GenFuncsTac proofs.GenFuncsLoopTac proofs.GenFuncsScriptTac proofs.GenFuncsPartsTac
  proofs.GenFuncs_DecodeParts.
From GoBT Require lib.Checked model.Push model.Classify.
Import ListNotations.
Ltac Zify.zify_post_hook ::= Z.div_mod_to_equations.
Local Open Scope Z_scope.

(** ([]byte, error) as the model's outcome: a non-nil error is [Err] *)
Definition to_res (m : M (bytes * bool)) : Checked.outcome bytes :=
  Checked.obind (to_outcome m) (fun r => if snd r then Checked.Err else Checked.Ok (fst r)).

Ltac extra_step ::=
  match goal with
  | |- context [DecodeParts ?t] => rewrite (DecodeParts_is_model t)
  | |- context [Classify.decoded ?t] => unfold Classify.decoded
  | |- context [of_dres _] => unfold of_dres
  end.

Lemma Script_PublicKeyHash_nil : Script_PublicKeyHash None = Val ([], true).
Proof. reflexivity. Qed.

Lemma Script_PublicKeyHash_is_model (b : bytes) : to_res (Script_PublicKeyHash (Some b)) = Classify.public_key_hash b.
Proof.
  unfold to_res, Script_PublicKeyHash, Classify.public_key_hash. cbv zeta.
  parts_auto.
Qed.
