(** scriptflag.Flag.HasFlag (bscript/interpreter/scriptflag/scriptflag.go), as printed from the Go source: on a
    one-bit mask [1 << f] it is the bit test [has_flag] of model/Interp.v ([N.testbit flags f]); in general it is
    "every bit of the mask is set". *)
From Coq Require Import List ZArith NArith Bool Lia ZifyN ZifyNat ZifyBool.
From GoBT Require Import lib.Bytes lib.GoSem gen.Funcs proofs.GenFuncsTac.
From GoBT Require model.Interp.
Ltac Zify.zify_post_hook ::= Z.div_mod_to_equations.
Local Open Scope Z_scope.

Lemma N_land_pow2 a n : N.land a (2 ^ n) = if N.testbit a n then (2 ^ n)%N else 0%N.
Proof.
  apply N.bits_inj. intros m. rewrite N.land_spec, N.pow2_bits_eqb.
  destruct (N.eqb_spec n m) as [->|Hne].
  - rewrite andb_true_r. destruct (N.testbit a m) eqn:E; [rewrite N.pow2_bits_true|rewrite N.bits_0]; reflexivity.
  - rewrite andb_false_r. destruct (N.testbit a n); [rewrite N.pow2_bits_false by exact Hne|rewrite N.bits_0]; reflexivity.
Qed.

Lemma ScriptFlag_HasFlag_mask (s m : N) : ScriptFlag_HasFlag (Z.of_N s) (Z.of_N m) = Val (N.land s m =? m)%N.
Proof.
  assert (G : forall x y : N, (Z.of_N x =? Z.of_N y) = (x =? y)%N).
  { intros x y. destruct (Z.eqb_spec (Z.of_N x) (Z.of_N y)), (N.eqb_spec x y); try reflexivity; exfalso; lia. }
  unfold ScriptFlag_HasFlag. cbv beta zeta. unfold go_and. rewrite ?Z_land_of_N, ?G.
  first [reflexivity | rewrite N.land_comm; reflexivity | rewrite N.eqb_sym; reflexivity | rewrite N.land_comm, N.eqb_sym; reflexivity].
Qed.

Lemma ScriptFlag_HasFlag_is_model (c : Interp.ctx) (f : N) :
  ScriptFlag_HasFlag (Z.of_N (Interp.c_flags c)) (Z.of_N (2 ^ f)) = Val (Interp.has_flag c f).
Proof.
  rewrite ScriptFlag_HasFlag_mask. unfold Interp.has_flag. rewrite N_land_pow2.
  destruct (N.testbit (Interp.c_flags c) f); [rewrite N.eqb_refl; reflexivity|].
  apply Val_inj. apply N.eqb_neq. intros H. symmetry in H. apply N.pow_nonzero in H; [exact H|discriminate].
Qed.
