(** C18 — proofs about calls that fail (model/FailedWrites.v). *)
From Coq Require Import List String Bool Arith PeanoNat Lia.
From GoBT Require Import model.Locks spec.RaceSpec model.FailedWrites proofs.LocksProofs.
Import ListNotations.
Local Open Scope string_scope.
Local Open Scope list_scope.

(* ------------------------------------------------------------------------------------------ *)
(** * Instantiating a path does not turn a non-write into a write *)

Lemma is_write_gmap : forall K K' (rho : K -> K') v (a : gact K), is_write (gmap rho v a) = is_write a.
Proof. intros K K' rho v a; destruct a; reflexivity. Qed.

Lemma stores_nothing_map : forall K K' (rho : K -> K') v (p : list (gact K)),
  stores_nothing (map (gmap rho v) p) = stores_nothing p.
Proof.
  intros K K' rho v p; unfold stores_nothing; induction p as [|a r IH]; simpl; auto.
  rewrite is_write_gmap, IH; reflexivity.
Qed.

Lemma stores_nothing_nil : forall K, @stores_nothing K [] = true.
Proof. reflexivity. Qed.

(* ------------------------------------------------------------------------------------------ *)
(** * From the per-source-path flags to the flattened paths the machine runs *)

Lemma nth_repeat_true : forall (f : bool) n k, nth k (repeat f n) false = true -> f = true /\ k < n.
Proof.
  intros f n; induction n as [|n IH]; intros k H; simpl in H.
  - destruct k; discriminate.
  - destruct k as [|k]; [split; [exact H | lia]|].
    destruct (IH k H) as [Hf Hk]; split; [exact Hf | lia].
Qed.

(** the flattened path list of a method, computed path by path (the shape of [expand_method]) *)
Fixpoint expand_all (tbl : list method) (T : ty) (ps : list (list action)) : option (list spath) :=
  match ps with
  | [] => Some []
  | q :: qs =>
      match expand (S (List.length tbl)) tbl T q, expand_all tbl T qs with
      | Some a, Some b => Some (a ++ b)
      | _, _ => None
      end
  end.

Lemma expand_method_all : forall tbl m, expand_method tbl m = expand_all tbl (m_ty m) (m_paths m).
Proof.
  intros tbl m; unfold expand_method. generalize (m_paths m) as ps.
  induction ps as [|q qs IH]; [reflexivity|].
  cbn [expand_all]. rewrite <- IH. reflexivity.
Qed.

Lemma flagged_flat_path_stores_nothing : forall tbl T ps fl es,
  paths_fail_ok tbl T ps fl = true -> expand_all tbl T ps = Some es ->
  forall k, nth k (flat_flags tbl T ps fl) false = true -> stores_nothing (nth k es []) = true.
Proof.
  intros tbl T ps; induction ps as [|q qs IH]; intros fl es Hok Hex k Hk.
  - destruct fl; destruct k; simpl in Hk; discriminate.
  - destruct fl as [|f fs]; [cbn [paths_fail_ok] in Hok; discriminate|].
    cbn [paths_fail_ok] in Hok. cbn [expand_all] in Hex. cbn [flat_flags] in Hk.
    destruct (expand (S (List.length tbl)) tbl T q) as [a|] eqn:Ea; [|discriminate].
    destruct (expand_all tbl T qs) as [b|] eqn:Eb; [|discriminate].
    injection Hex as <-.
    apply andb_true_iff in Hok as [Hf Hrest].
    destruct (Nat.lt_ge_cases k (List.length a)) as [Hlt|Hge].
    + rewrite app_nth1 in Hk by (rewrite repeat_length; exact Hlt).
      apply nth_repeat_true in Hk as [Hft _]. subst f. simpl in Hf.
      rewrite app_nth1 by exact Hlt.
      rewrite forallb_forall in Hf. apply Hf. apply nth_In; exact Hlt.
    + rewrite app_nth2 in Hk by (rewrite repeat_length; exact Hge).
      rewrite repeat_length in Hk.
      rewrite app_nth2 by exact Hge.
      eapply IH; eauto.
Qed.

Lemma find_flat_table : forall tbl0 tbl T n,
  find (fun e : ty * string * list spath => ty_eqb (fst (fst e)) T && (snd (fst e) =? n)) (map (flat_method tbl0) tbl)
  = option_map (flat_method tbl0) (find_method tbl T n).
Proof.
  intros tbl0 tbl T n; unfold find_method; induction tbl as [|m r IH]; simpl; auto.
  destruct (ty_eqb (m_ty m) T && (m_name m =? n)); simpl; auto.
Qed.

Lemma find_method_In : forall tbl T n m, find_method tbl T n = Some m -> In m tbl.
Proof. intros tbl T n m H; unfold find_method in H; apply find_some in H; tauto. Qed.

(** a call flagged failing, of tables the checker accepts, runs a program without any write action *)
Theorem failed_call_stores_nothing_proof : forall tbl ft, failed_calls_store_nothing tbl ft = true ->
  forall c, call_fails tbl ft c = true -> stores_nothing (inst (flat_table tbl) c) = true.
Proof.
  intros tbl ft Hchk c Hc. unfold inst. rewrite stores_nothing_map.
  unfold call_fails in Hc. unfold lookup_path, flat_table. rewrite find_flat_table.
  destruct (find_method tbl (c_ty c) (c_name c)) as [m|] eqn:Em; [|discriminate]. simpl.
  destruct (find_fails ft (m_ty m) (m_name m)) as [fl|] eqn:Ef; [|discriminate].
  unfold failed_calls_store_nothing in Hchk. rewrite forallb_forall in Hchk.
  specialize (Hchk m (find_method_In _ _ _ _ Em)). unfold method_fail_ok in Hchk. rewrite Ef in Hchk.
  rewrite expand_method_all.
  destruct (expand_all tbl (m_ty m) (m_paths m)) as [es|] eqn:Ex.
  - eapply flagged_flat_path_stores_nothing; eauto.
  - destruct (c_path c); reflexivity.
Qed.

(* ------------------------------------------------------------------------------------------ *)
(** * A step that is not a write leaves memory and the write history alone *)

Lemma step_non_write : forall s t g s' a rest,
  prog (thr s t) = a :: rest -> is_write a = false -> step s t g = Some s' ->
  (forall l, mem s' l = mem s l) /\ (forall l, written s' l = written s l) /\ prog (thr s' t) = rest.
Proof.
  intros s t g s' a rest Hp Hw Hs. unfold step in Hs. rewrite Hp in Hs.
  destruct a as [o m|o m|o f|o f|o f v]; simpl in Hw; try discriminate.
  - destruct m.
    + destruct (lw (lk s o)); [discriminate|]. injection Hs as <-; simpl. rewrite upd_thr_same; simpl; auto.
    + destruct (lw (lk s o)); [discriminate|]. destruct (lr (lk s o)); [|discriminate].
      injection Hs as <-; simpl. rewrite upd_thr_same; simpl; auto.
  - destruct m.
    + destruct (existsb (Nat.eqb t) (lr (lk s o))); [|discriminate].
      injection Hs as <-; simpl. rewrite upd_thr_same; simpl; auto.
    + destruct (lw (lk s o)) as [t'|]; [|discriminate]. destruct (t' =? t)%nat; [|discriminate].
      injection Hs as <-; simpl. rewrite upd_thr_same; simpl; auto.
  - injection Hs as <-; simpl. rewrite upd_thr_same; simpl; auto.
Qed.

(** inside a failing call: the thread's program is [p ++ rest] with [p] (what is left of the call) free of writes; a step
    of that thread changes no memory cell and no write history, and leaves it inside a shorter write-free block *)
Theorem failed_call_step_invisible_proof : forall s t g s' p rest,
  prog (thr s t) = p ++ rest -> p <> [] -> stores_nothing p = true -> step s t g = Some s' ->
  (forall l, mem s' l = mem s l) /\ (forall l, written s' l = written s l) /\
  exists p', prog (thr s' t) = p' ++ rest /\ stores_nothing p' = true /\ List.length p' < List.length p.
Proof.
  intros s t g s' p rest Hp Hne Hsn Hs. destruct p as [|a p']; [congruence|].
  simpl in Hp. unfold stores_nothing in Hsn; simpl in Hsn. apply andb_true_iff in Hsn as [Ha Hp'].
  apply negb_true_iff in Ha.
  destruct (step_non_write s t g s' a (p' ++ rest) Hp Ha Hs) as [Hm [Hw Hprog]].
  split; [exact Hm|]. split; [exact Hw|].
  exists p'. split; [exact Hprog|]. split; [exact Hp'|]. simpl; lia.
Qed.

(** steps of OTHER threads do not touch a thread's program: the block stays what it is *)
Lemma step_other_prog : forall s t g s' t', step s t g = Some s' -> t' <> t -> prog (thr s' t') = prog (thr s t').
Proof.
  intros s t g s' t' Hs Hne. unfold step in Hs.
  destruct (prog (thr s t)) as [|a rest]; [discriminate|].
  destruct a as [o m|o m|o f|o f|o f v].
  - destruct m.
    + destruct (lw (lk s o)); [discriminate|]. injection Hs as <-; simpl. rewrite upd_thr_other; auto.
    + destruct (lw (lk s o)); [discriminate|]. destruct (lr (lk s o)); [|discriminate].
      injection Hs as <-; simpl. rewrite upd_thr_other; auto.
  - destruct m.
    + destruct (existsb (Nat.eqb t) (lr (lk s o))); [|discriminate].
      injection Hs as <-; simpl. rewrite upd_thr_other; auto.
    + destruct (lw (lk s o)) as [t''|]; [|discriminate]. destruct (t'' =? t)%nat; [|discriminate].
      injection Hs as <-; simpl. rewrite upd_thr_other; auto.
  - injection Hs as <-; simpl. rewrite upd_thr_other; auto.
  - injection Hs as <-; simpl. rewrite upd_thr_other; auto.
  - injection Hs as <-; simpl. rewrite upd_thr_other; auto.
Qed.

(* ------------------------------------------------------------------------------------------ *)
(** * Histories: values that only rejected calls carried are not read *)

(** when the values a rejected call carried are values nobody stored (the harness gives every call values of its own),
    "every read is initial or stored" already implies "no read is a rejected value" - and conversely a read of a
    rejected value refutes [observed_ok] *)
Lemma observed_ok_rejected_unseen : forall L V (leqb : L -> L -> bool) (veqb : V -> V -> bool),
  (forall a b, leqb a b = true -> a = b) -> (forall a b, veqb a b = true -> a = b) ->
  (forall a, leqb a a = true) -> (forall a, veqb a a = true) ->
  forall init stored rejected reads,
  (forall w, In w rejected -> ~ In w (init ++ stored)) ->
  observed_ok leqb veqb init stored reads = true -> rejected_unseen leqb veqb rejected reads = true.
Proof.
  intros L V leqb veqb Hl Hv Hlr Hvr init stored rejected reads Hdis Hobs.
  unfold observed_ok in Hobs; unfold rejected_unseen. rewrite forallb_forall in *.
  intros r Hr. specialize (Hobs r Hr). apply negb_true_iff.
  destruct (existsb (fun w => leqb (fst w) (fst r) && veqb (snd w) (snd r)) rejected) eqn:E; auto.
  apply existsb_exists in E as [w [Hw Hwr]]. apply existsb_exists in Hobs as [w' [Hw' Hwr']].
  apply andb_true_iff in Hwr as [H1 H2]. apply andb_true_iff in Hwr' as [H1' H2'].
  apply Hl in H1, H1'. apply Hv in H2, H2'.
  assert (w = w') by (destruct w, w'; simpl in *; congruence). subst w'.
  exfalso; exact (Hdis w Hw Hw').
Qed.
