(** OP_LSHIFT / OP_RSHIFT as shifts of the big-endian bit string ([shl_bytes], [shr_bytes] of
    model/Interp.v), and the stack-permutation primitives.  All statements are for all inputs;
    the only finite sweep is the single-byte combination lemma (all byte pairs, bit shifts 0..7). *)
From Coq Require Import List NArith ZArith Lia Bool ZifyN ZifyNat ZifyBool.
From Coq Require Import Strings.Byte.
From GoBT Require Import lib.Bytes model.ScriptNum model.Interp proofs.ScriptNumProofs.
Import ListNotations.
Ltac Zify.zify_post_hook ::= Z.div_mod_to_equations.
Local Open Scope N_scope.

(** * Big-endian value of byte strings *)
Lemma be_dec_nil : be_dec [] = 0.
Proof. reflexivity. Qed.

Lemma be_dec_app a b : be_dec (a ++ b) = be_dec a * p256 (length b) + be_dec b.
Proof. unfold be_dec. rewrite rev_app_distr, le_dec_app, rev_length. lia. Qed.

Lemma be_dec_cons a r : be_dec (a :: r) = b2n a * p256 (length r) + be_dec r.
Proof.
  change (a :: r) with ([a] ++ r). rewrite be_dec_app. unfold be_dec at 1. cbn [rev app le_dec]. lia.
Qed.

Lemma be_dec_zeros k : be_dec (repeat_byte k x00) = 0.
Proof. unfold be_dec. rewrite rev_repeat_byte. apply le_dec_zeros. Qed.

Lemma be_dec_lt x : be_dec x < p256 (length x).
Proof. unfold be_dec. rewrite <- (rev_length x). apply le_dec_ltP. Qed.

Lemma pow2_split (n : nat) :
  2 ^ N.of_nat n = p256 (n / 8) * 2 ^ N.of_nat (n mod 8).
Proof.
  rewrite p256_pow2, <- N.pow_add_r. f_equal.
  pose proof (Nat.div_mod n 8 ltac:(lia)). lia.
Qed.

(** * Bounded sweeps over [N] *)
Definition below (k : nat) : list N := map N.of_nat (seq 0 k).

Lemma below_in k n : n < N.of_nat k -> In n (below k).
Proof.
  intros H. unfold below. apply in_map_iff. exists (N.to_nat n). split; [lia|].
  apply in_seq. lia.
Qed.

Lemma forall_below k (f : N -> bool) :
  forallb f (below k) = true -> forall n, n < N.of_nat k -> f n = true.
Proof. intros H n Hn. rewrite forallb_forall in H. apply H, below_in, Hn. Qed.

(** * The single-byte combination step (finite sweep: 8 * 256 * 256 cases each) *)
Definition shl_byte (r a h : N) : N := N.lor (N.shiftl a r mod 256) (N.shiftr h (8 - r)).
Definition shr_byte (r a p : N) : N := N.lor (N.shiftr a r) (N.shiftl p (8 - r) mod 256).

Definition shl_byte_check (r a h : N) : bool :=
  (shl_byte r a h <? 256) &&
  (shl_byte r a h + 256 * N.shiftr a (8 - r) =? a * 2 ^ r + N.shiftr h (8 - r)).
Definition shr_byte_check (r a p : N) : bool :=
  (shr_byte r a p <? 256) &&
  (shr_byte r a p * 2 ^ r + a mod 2 ^ r =? (p mod 2 ^ r) * 256 + a).

Lemma shl_byte_sweep :
  forallb (fun r => forallb (fun a => forallb (fun h => shl_byte_check r a h) (below 256)) (below 256)) (below 8) = true.
Proof. vm_compute. reflexivity. Qed.

Lemma shr_byte_sweep :
  forallb (fun r => forallb (fun a => forallb (fun p => shr_byte_check r a p) (below 256)) (below 256)) (below 8) = true.
Proof. vm_compute. reflexivity. Qed.

(** bound stated: r < 8, both bytes < 256 *)
Lemma shl_byte_ok r a h : r < 8 -> a < 256 -> h < 256 ->
  shl_byte r a h < 256 /\
  shl_byte r a h + 256 * N.shiftr a (8 - r) = a * 2 ^ r + N.shiftr h (8 - r).
Proof.
  intros Hr Ha Hh.
  pose proof (forall_below 256 _ (forall_below 256 _ (forall_below 8 _ shl_byte_sweep r Hr) a Ha) h Hh) as H.
  unfold shl_byte_check in H. apply andb_true_iff in H. destruct H as [H1 H2].
  apply N.ltb_lt in H1. apply N.eqb_eq in H2. split; assumption.
Qed.

Lemma shr_byte_ok r a p : r < 8 -> a < 256 -> p < 256 ->
  shr_byte r a p < 256 /\
  shr_byte r a p * 2 ^ r + a mod 2 ^ r = (p mod 2 ^ r) * 256 + a.
Proof.
  intros Hr Ha Hp.
  pose proof (forall_below 256 _ (forall_below 256 _ (forall_below 8 _ shr_byte_sweep r Hr) a Ha) p Hp) as H.
  unfold shr_byte_check in H. apply andb_true_iff in H. destruct H as [H1 H2].
  apply N.ltb_lt in H1. apply N.eqb_eq in H2. split; assumption.
Qed.

(** * Left shift: recursive form of the bit-shift pass *)
Definition hd0 (l : bytes) : N := match l with [] => 0 | h :: _ => b2n h end.

Fixpoint shl1 (r : N) (src : bytes) : bytes :=
  match src with
  | [] => []
  | a :: rest => n2b (shl_byte r (b2n a) (hd0 rest)) :: shl1 r rest
  end.

Lemma shl1_length r src : length (shl1 r src) = length src.
Proof. induction src as [|a rest IH]; cbn [shl1 length]; [reflexivity|]. rewrite IH. reflexivity. Qed.

Lemma skipn_S_tl {A} n (l : list A) : skipn (S n) l = tl (skipn n l).
Proof.
  revert l; induction n as [|n IH]; intros l.
  - destruct l; reflexivity.
  - destruct l as [|x l]; [reflexivity|]. change (skipn (S (S n)) (x :: l)) with (skipn (S n) l).
    change (skipn (S n) (x :: l)) with (skipn n l). apply IH.
Qed.

Lemma nth_error_S_tl {A} (l : list A) i : nth_error l (S i) = nth_error (tl l) i.
Proof. destruct l; [destruct i|]; reflexivity. Qed.

Lemma shl_body_eq r src :
  map (fun i => n2b (N.lor (N.shiftl (b2n (nth i src x00)) r mod 256)
                          (N.shiftr (match nth_error (tl src) i with Some y => b2n y | None => 0 end) (8 - r))))
      (seq 0 (length src)) = shl1 r src.
Proof.
  induction src as [|a rest IH]; [reflexivity|].
  cbn [length seq map shl1 nth tl]. f_equal.
  - unfold shl_byte, hd0. destruct rest; reflexivity.
  - rewrite <- seq_shift, map_map, <- IH. apply map_ext. intros i.
    rewrite nth_error_S_tl. reflexivity.
Qed.

Lemma shl_bytes_unfold x n :
  shl_bytes x n =
    shl1 (N.of_nat (n mod 8)) (skipn (n / 8) x)
    ++ repeat_byte (length x - length (skipn (n / 8) x)) x00.
Proof.
  unfold shl_bytes. cbv zeta. f_equal. rewrite skipn_S_tl. apply shl_body_eq.
Qed.

(** exact (no modulus) accounting: shifted value = result + the bits pushed out on the left *)
Lemma shl1_val r src : r < 8 ->
  be_dec (shl1 r src) + p256 (length src) * N.shiftr (hd0 src) (8 - r) = be_dec src * 2 ^ r.
Proof.
  intros Hr. induction src as [|a rest IH].
  - cbn [shl1 hd0 length]. rewrite be_dec_nil, N.shiftr_0_l. lia.
  - cbn [shl1 length]. rewrite !be_dec_cons, shl1_length, p256_S.
    change (hd0 (a :: rest)) with (b2n a).
    destruct (shl_byte_ok r (b2n a) (hd0 rest) Hr (b2n_lt a)) as [Hc Hs].
    { unfold hd0. destruct rest; [lia|apply b2n_lt]. }
    rewrite b2n_n2b_small by exact Hc.
    set (c := shl_byte r (b2n a) (hd0 rest)) in *.
    set (M := p256 (length rest)) in *. set (T := 2 ^ r) in *.
    set (oa := N.shiftr (b2n a) (8 - r)) in *. set (oh := N.shiftr (hd0 rest) (8 - r)) in *.
    set (W := be_dec (shl1 r rest)) in *. set (V := be_dec rest) in *.
    assert (E : M * (c + 256 * oa) = M * (b2n a * T + oh)) by (rewrite Hs; reflexivity).
    nia.
Qed.

Lemma shl1_spec r src : r < 8 ->
  be_dec (shl1 r src) = (be_dec src * 2 ^ r) mod p256 (length src).
Proof.
  intros Hr. rewrite <- (shl1_val r src Hr).
  pose proof (p256_pos (length src)) as Hp.
  rewrite (N.mul_comm (p256 (length src))), N.mod_add by lia.
  symmetry. apply N.mod_small. rewrite <- (shl1_length r src). apply be_dec_lt.
Qed.

(** * 9. lengths *)
Theorem shl_bytes_length : forall x n, length (shl_bytes x n) = length x.
Proof.
  intros x n. rewrite shl_bytes_unfold, app_length, shl1_length, repeat_byte_length.
  pose proof (skipn_length (n / 8) x). lia.
Qed.

(** * 10a. OP_LSHIFT: multiply by 2^n modulo 2^(8 len) *)
Theorem shl_bytes_spec_total : forall x n,
  be_dec (shl_bytes x n) = (be_dec x * 2 ^ N.of_nat n) mod 2 ^ (8 * N.of_nat (length x)).
Proof.
  intros x n. rewrite <- p256_pow2, shl_bytes_unfold, be_dec_app, be_dec_zeros, repeat_byte_length, N.add_0_r.
  set (bs := (n / 8)%nat). set (r := N.of_nat (n mod 8)).
  assert (Hr : r < 8) by (unfold r; pose proof (Nat.mod_upper_bound n 8 ltac:(lia)); lia).
  rewrite shl1_spec by exact Hr. rewrite skipn_length.
  rewrite pow2_split. fold bs r.
  destruct (Nat.le_gt_cases bs (length x)) as [Hle|Hgt].
  - (* the byte shift stays inside the string *)
    replace (length x - (length x - bs))%nat with bs by lia.
    pose proof (firstn_skipn bs x) as Ex.
    set (s := skipn bs x) in *. set (f := firstn bs x) in *.
    assert (Hlf : length f = bs) by (unfold f; apply firstn_length_le; exact Hle).
    assert (Hls : (length x - bs)%nat = length s) by (unfold s; rewrite skipn_length; reflexivity).
    rewrite Hls.
    assert (Hlen : p256 (length x) = p256 (length s) * p256 bs).
    { rewrite <- p256_add. f_equal. lia. }
    rewrite Hlen.
    pose proof (p256_pos (length s)) as Hp1. pose proof (p256_pos bs) as Hp2.
    replace (be_dec x * (p256 bs * 2 ^ r)) with ((be_dec x * 2 ^ r) * p256 bs) by lia.
    rewrite N.mul_mod_distr_r by lia. f_equal.
    replace (be_dec x) with (be_dec (f ++ s)) by (rewrite Ex; reflexivity). rewrite be_dec_app.
    replace ((be_dec f * p256 (length s) + be_dec s) * 2 ^ r)
      with (be_dec s * 2 ^ r + (be_dec f * 2 ^ r) * p256 (length s)) by lia.
    rewrite N.mod_add by lia. reflexivity.
  - (* shifting by more than the width: all zeros *)
    replace (length x - bs)%nat with 0%nat by lia. rewrite p256_0, N.mod_1_r. cbn [N.mul].
    symmetry. pose proof (p256_pos (length x)) as Hp.
    replace bs with (length x + (bs - length x))%nat by lia. rewrite p256_add.
    replace (be_dec x * (p256 (length x) * p256 (bs - length x) * 2 ^ r))
      with ((be_dec x * p256 (bs - length x) * 2 ^ r) * p256 (length x)) by lia.
    apply N.mod_mul. lia.
Qed.

Theorem shl_bytes_spec : forall x n, (n <= 8 * length x)%nat ->
  be_dec (shl_bytes x n) = (be_dec x * 2 ^ N.of_nat n) mod 2 ^ (8 * N.of_nat (length x)).
Proof. intros x n _. apply shl_bytes_spec_total. Qed.

Corollary shl_bytes_nil n : shl_bytes [] n = [].
Proof. pose proof (shl_bytes_length [] n) as H. destruct (shl_bytes [] n); [reflexivity|discriminate]. Qed.

(** * Right shift: recursive form *)
Fixpoint shr1 (r : N) (p : N) (src : bytes) : bytes :=
  match src with
  | [] => []
  | a :: rest => n2b (shr_byte r (b2n a) p) :: shr1 r (b2n a) rest
  end.

Lemma shr1_length r p src : length (shr1 r p src) = length src.
Proof. revert p; induction src as [|a rest IH]; intros p; cbn [shr1 length]; [reflexivity|]. rewrite IH. reflexivity. Qed.

Lemma shr_body_eq r p src :
  map (fun j => n2b (N.lor (N.shiftr (b2n (nth j src x00)) r)
                          (N.shiftl (match j with O => p | S j' => b2n (nth j' src x00) end) (8 - r) mod 256)))
      (seq 0 (length src)) = shr1 r p src.
Proof.
  revert p; induction src as [|a rest IH]; intros p; [reflexivity|].
  cbn [length seq map shr1 nth]. f_equal.
  rewrite <- seq_shift, map_map, <- IH. apply map_ext. intros j. destruct j; reflexivity.
Qed.

Lemma shr_bytes_unfold x n :
  shr_bytes x n =
    repeat_byte (length x - length (firstn (length x - n / 8) x)) x00
    ++ shr1 (N.of_nat (n mod 8)) 0 (firstn (length x - n / 8) x).
Proof. unfold shr_bytes. cbv zeta. f_equal. apply shr_body_eq. Qed.

Lemma shr1_val r p src : r < 8 -> p < 256 ->
  be_dec (shr1 r p src) = ((p mod 2 ^ r) * p256 (length src) + be_dec src) / 2 ^ r.
Proof.
  intros Hr. revert p. induction src as [|a rest IH]; intros p Hp.
  - cbn [shr1 length]. rewrite be_dec_nil, p256_0. symmetry. apply N.div_small.
    assert (2 ^ r <> 0) by (apply N.pow_nonzero; lia).
    pose proof (N.mod_lt p (2 ^ r)). lia.
  - cbn [shr1 length]. rewrite !be_dec_cons, shr1_length, p256_S, (IH (b2n a) (b2n_lt a)).
    destruct (shr_byte_ok r (b2n a) p Hr (b2n_lt a) Hp) as [Hc Hs].
    rewrite b2n_n2b_small by exact Hc.
    assert (HT : 2 ^ r <> 0) by (apply N.pow_nonzero; lia).
    set (c := shr_byte r (b2n a) p) in *. set (M := p256 (length rest)) in *. set (T := 2 ^ r) in *.
    set (V := be_dec rest). set (am := b2n a mod T) in *. set (pm := p mod T) in *.
    replace (pm * (256 * M) + (b2n a * M + V)) with ((c * M) * T + (am * M + V)).
    + rewrite N.div_add_l by exact HT. reflexivity.
    + assert (E : M * (c * T + am) = M * (pm * 256 + b2n a)) by (rewrite Hs; reflexivity). nia.
Qed.

Lemma shr1_spec r src : r < 8 -> be_dec (shr1 r 0 src) = be_dec src / 2 ^ r.
Proof.
  intros Hr. rewrite shr1_val by lia. rewrite N.mod_0_l by (apply N.pow_nonzero; lia).
  reflexivity.
Qed.

Theorem shr_bytes_length : forall x n, length (shr_bytes x n) = length x.
Proof.
  intros x n. rewrite shr_bytes_unfold, app_length, shr1_length, repeat_byte_length.
  pose proof (firstn_le_length (length x - n / 8) x). lia.
Qed.

(** * 10b. OP_RSHIFT: divide by 2^n *)
Theorem shr_bytes_spec_total : forall x n,
  be_dec (shr_bytes x n) = be_dec x / 2 ^ N.of_nat n.
Proof.
  intros x n. rewrite shr_bytes_unfold, be_dec_app, be_dec_zeros, N.mul_0_l, N.add_0_l.
  set (bs := (n / 8)%nat). set (r := N.of_nat (n mod 8)).
  assert (Hr : r < 8) by (unfold r; pose proof (Nat.mod_upper_bound n 8 ltac:(lia)); lia).
  rewrite shr1_spec by exact Hr. rewrite pow2_split. fold bs r.
  pose proof (p256_pos bs) as Hp. assert (HT : 2 ^ r <> 0) by (apply N.pow_nonzero; lia).
  rewrite <- N.div_div by lia. f_equal.
  destruct (Nat.le_gt_cases bs (length x)) as [Hle|Hgt].
  - pose proof (firstn_skipn (length x - bs) x) as Ex.
    set (s := firstn (length x - bs) x) in *. set (t := skipn (length x - bs) x) in *.
    assert (Hlt : length t = bs) by (unfold t; rewrite skipn_length; lia).
    replace (be_dec x) with (be_dec (s ++ t)) by (rewrite Ex; reflexivity). rewrite be_dec_app, Hlt.
    pose proof (be_dec_lt t) as Ht. rewrite Hlt in Ht.
    rewrite N.div_add_l by lia. rewrite (N.div_small (be_dec t)) by exact Ht. lia.
  - replace (length x - bs)%nat with 0%nat by lia. cbn [firstn]. rewrite be_dec_nil.
    symmetry. apply N.div_small. pose proof (be_dec_lt x). pose proof (p256_mono (length x) bs ltac:(lia)). lia.
Qed.

Theorem shr_bytes_spec : forall x n, (n <= 8 * length x)%nat ->
  be_dec (shr_bytes x n) = be_dec x / 2 ^ N.of_nat n.
Proof. intros x n _. apply shr_bytes_spec_total. Qed.

Corollary shr_bytes_nil n : shr_bytes [] n = [].
Proof. pose proof (shr_bytes_length [] n) as H. destruct (shr_bytes [] n); [reflexivity|discriminate]. Qed.

(** a string is determined by its length and big-endian value, so the two specifications
    characterise the results completely *)
Lemma be_dec_inj a b : length a = length b -> be_dec a = be_dec b -> a = b.
Proof. intros Hl Hv. rewrite <- (be_enc_dec a), <- (be_enc_dec b), Hl, Hv. reflexivity. Qed.

Corollary shl_bytes_is_be_enc x n :
  shl_bytes x n = be_enc (length x) ((be_dec x * 2 ^ N.of_nat n) mod 2 ^ (8 * N.of_nat (length x))).
Proof.
  rewrite <- shl_bytes_spec_total, <- (shl_bytes_length x n). symmetry. apply be_enc_dec.
Qed.

Corollary shr_bytes_is_be_enc x n :
  shr_bytes x n = be_enc (length x) (be_dec x / 2 ^ N.of_nat n).
Proof.
  rewrite <- shr_bytes_spec_total, <- (shr_bytes_length x n). symmetry. apply be_enc_dec.
Qed.

(** shifting by the full width (or more) gives all zeros *)
Corollary shl_bytes_full x n : (8 * length x <= n)%nat -> shl_bytes x n = repeat_byte (length x) x00.
Proof.
  intros H. apply be_dec_inj; [rewrite shl_bytes_length, repeat_byte_length; reflexivity|].
  rewrite shl_bytes_spec_total, be_dec_zeros.
  replace (N.of_nat n) with (8 * N.of_nat (length x) + (N.of_nat n - 8 * N.of_nat (length x))) by lia.
  rewrite N.pow_add_r.
  replace (be_dec x * (2 ^ (8 * N.of_nat (length x)) * 2 ^ (N.of_nat n - 8 * N.of_nat (length x))))
    with ((be_dec x * 2 ^ (N.of_nat n - 8 * N.of_nat (length x))) * 2 ^ (8 * N.of_nat (length x))) by lia.
  apply N.mod_mul. apply N.pow_nonzero. lia.
Qed.

Corollary shr_bytes_full x n : (8 * length x <= n)%nat -> shr_bytes x n = repeat_byte (length x) x00.
Proof.
  intros H. apply be_dec_inj; [rewrite shr_bytes_length, repeat_byte_length; reflexivity|].
  rewrite shr_bytes_spec_total, be_dec_zeros. apply N.div_small.
  pose proof (be_dec_lt x) as Hx. rewrite p256_pow2 in Hx.
  eapply N.lt_le_trans; [exact Hx|]. apply N.pow_le_mono_r; lia.
Qed.

(** * bytes_map2 (OP_AND / OP_OR / OP_XOR): pointwise on equal lengths *)
Lemma bytes_map2_length f a b : length a = length b -> length (bytes_map2 f a b) = length a.
Proof. intros H. unfold bytes_map2. rewrite map_length, combine_length. lia. Qed.

Lemma bytes_map2_nth f a b i : length a = length b -> (i < length a)%nat ->
  nth i (bytes_map2 f a b) x00 = n2b (f (b2n (nth i a x00)) (b2n (nth i b x00))).
Proof.
  intros Hl Ha. unfold bytes_map2.
  rewrite (nth_indep _ x00 ((fun xy => n2b (f (b2n (fst xy)) (b2n (snd xy)))) (x00, x00)))
    by (rewrite map_length, combine_length; lia).
  rewrite map_nth, combine_nth by exact Hl. reflexivity.
Qed.
