(** OP_LSHIFT / OP_RSHIFT as shifts of the big-endian bit string ([shl_bytes], [shr_bytes] of
    model/Interp.v), and the stack-permutation primitives.  All statements are for all inputs;
    the only finite sweep is the single-byte combination lemma (all byte pairs, bit shifts 0..7). *)
From Coq Require Import List NArith ZArith Lia Bool ZifyN ZifyNat ZifyBool.
From Coq Require Import Strings.Byte.
From GoBT Require Import lib.Bytes model.ScriptNum model.Interp proofs.ScriptNumProofs.
Import ListNotations.
Ltac Zify.zify_post_hook ::= Z.div_mod_to_equations.
Local Open Scope N_scope.

(** * Big-endian value of byte strings *)
Lemma be_dec_nil : be_dec [] = 0.
Proof. reflexivity. Qed.

Lemma be_dec_app a b : be_dec (a ++ b) = be_dec a * p256 (length b) + be_dec b.
Proof. unfold be_dec. rewrite rev_app_distr, le_dec_app, rev_length. lia. Qed.

Lemma be_dec_cons a r : be_dec (a :: r) = b2n a * p256 (length r) + be_dec r.
Proof.
  change (a :: r) with ([a] ++ r). rewrite be_dec_app. unfold be_dec at 1. cbn [rev app le_dec]. lia.
Qed.

Lemma be_dec_zeros k : be_dec (repeat_byte k x00) = 0.
Proof. unfold be_dec. rewrite rev_repeat_byte. apply le_dec_zeros. Qed.

Lemma be_dec_lt x : be_dec x < p256 (length x).
Proof. unfold be_dec. rewrite <- (rev_length x). apply le_dec_ltP. Qed.

Lemma pow2_split (n : nat) :
  2 ^ N.of_nat n = p256 (n / 8) * 2 ^ N.of_nat (n mod 8).
Proof.
  rewrite p256_pow2, <- N.pow_add_r. f_equal.
  pose proof (Nat.div_mod n 8 ltac:(lia)). lia.
Qed.

(** * Bounded sweeps over [N] *)
Definition below (k : nat) : list N := map N.of_nat (seq 0 k).

Lemma below_in k n : n < N.of_nat k -> In n (below k).
Proof.
  intros H. unfold below. apply in_map_iff. exists (N.to_nat n). split; [lia|].
  apply in_seq. lia.
Qed.

Lemma forall_below k (f : N -> bool) :
  forallb f (below k) = true -> forall n, n < N.of_nat k -> f n = true.
Proof. intros H n Hn. rewrite forallb_forall in H. apply H, below_in, Hn. Qed.

(** * The single-byte combination step (finite sweep: 8 * 256 * 256 cases each) *)
Definition shl_byte (r a h : N) : N := N.lor (N.shiftl a r mod 256) (N.shiftr h (8 - r)).
Definition shr_byte (r a p : N) : N := N.lor (N.shiftr a r) (N.shiftl p (8 - r) mod 256).

Definition shl_byte_check (r a h : N) : bool :=
  (shl_byte r a h <? 256) &&
  (shl_byte r a h + 256 * N.shiftr a (8 - r) =? a * 2 ^ r + N.shiftr h (8 - r)).
Definition shr_byte_check (r a p : N) : bool :=
  (shr_byte r a p <? 256) &&
  (shr_byte r a p * 2 ^ r + a mod 2 ^ r =? (p mod 2 ^ r) * 256 + a).

(** the lists are bound once so that [vm_compute] builds them once *)
Definition sweep3 (f : N -> N -> N -> bool) : bool :=
  let l8 := below 8 in let l256 := below 256 in
  forallb (fun r => forallb (fun a => forallb (fun h => f r a h) l256) l256) l8.

Lemma sweep3_ok f : sweep3 f = true ->
  forall r a h, r < 8 -> a < 256 -> h < 256 -> f r a h = true.
Proof.
  unfold sweep3. cbv zeta. intros H r a h Hr Ha Hh.
  exact (forall_below 256 _ (forall_below 256 _ (forall_below 8 _ H r Hr) a Ha) h Hh).
Qed.

Lemma shl_byte_sweep : sweep3 shl_byte_check = true.
Proof. vm_cast_no_check (eq_refl true). Qed.  (* evaluated once, by the kernel, at Qed *)

Lemma shr_byte_sweep : sweep3 shr_byte_check = true.
Proof. vm_cast_no_check (eq_refl true). Qed.

(** bound stated: r < 8, both bytes < 256 *)
Lemma shl_byte_ok r a h : r < 8 -> a < 256 -> h < 256 ->
  shl_byte r a h < 256 /\
  shl_byte r a h + 256 * N.shiftr a (8 - r) = a * 2 ^ r + N.shiftr h (8 - r).
Proof.
  intros Hr Ha Hh. pose proof (sweep3_ok _ shl_byte_sweep r a h Hr Ha Hh) as H.
  unfold shl_byte_check in H. apply andb_true_iff in H. destruct H as [H1 H2].
  apply N.ltb_lt in H1. apply N.eqb_eq in H2. split; assumption.
Qed.

Lemma shr_byte_ok r a p : r < 8 -> a < 256 -> p < 256 ->
  shr_byte r a p < 256 /\
  shr_byte r a p * 2 ^ r + a mod 2 ^ r = (p mod 2 ^ r) * 256 + a.
Proof.
  intros Hr Ha Hp. pose proof (sweep3_ok _ shr_byte_sweep r a p Hr Ha Hp) as H.
  unfold shr_byte_check in H. apply andb_true_iff in H. destruct H as [H1 H2].
  apply N.ltb_lt in H1. apply N.eqb_eq in H2. split; assumption.
Qed.

(** * Left shift: recursive form of the bit-shift pass *)
Definition hd0 (l : bytes) : N := match l with [] => 0 | h :: _ => b2n h end.

Fixpoint shl1 (r : N) (src : bytes) : bytes :=
  match src with
  | [] => []
  | a :: rest => n2b (shl_byte r (b2n a) (hd0 rest)) :: shl1 r rest
  end.

Lemma shl1_length r src : length (shl1 r src) = length src.
Proof. induction src as [|a rest IH]; cbn [shl1 length]; [reflexivity|]. rewrite IH. reflexivity. Qed.

Lemma skipn_S_tl {A} n (l : list A) : skipn (S n) l = tl (skipn n l).
Proof.
  revert l; induction n as [|n IH]; intros l.
  - destruct l; reflexivity.
  - destruct l as [|x l]; [reflexivity|]. change (skipn (S (S n)) (x :: l)) with (skipn (S n) l).
    change (skipn (S n) (x :: l)) with (skipn n l). apply IH.
Qed.

Lemma nth_error_S_tl {A} (l : list A) i : nth_error l (S i) = nth_error (tl l) i.
Proof. destruct l; [destruct i|]; reflexivity. Qed.

Lemma shl_body_eq r src :
  map (fun i => n2b (N.lor (N.shiftl (b2n (nth i src x00)) r mod 256)
                          (N.shiftr (match nth_error (tl src) i with Some y => b2n y | None => 0 end) (8 - r))))
      (seq 0 (length src)) = shl1 r src.
Proof.
  induction src as [|a rest IH]; [reflexivity|].
  cbn [length seq map shl1 nth tl]. f_equal.
  - unfold shl_byte, hd0. destruct rest; reflexivity.
  - rewrite <- seq_shift, map_map, <- IH. apply map_ext. intros i.
    rewrite nth_error_S_tl. reflexivity.
Qed.

Lemma shl_bytes_unfold x n :
  shl_bytes x n =
    shl1 (N.of_nat (n mod 8)) (skipn (n / 8) x)
    ++ repeat_byte (length x - length (skipn (n / 8) x)) x00.
Proof.
  unfold shl_bytes. cbv zeta. f_equal. rewrite skipn_S_tl. apply shl_body_eq.
Qed.

(** exact (no modulus) accounting: shifted value = result + the bits pushed out on the left *)
Lemma shl1_val r src : r < 8 ->
  be_dec (shl1 r src) + p256 (length src) * N.shiftr (hd0 src) (8 - r) = be_dec src * 2 ^ r.
Proof.
  intros Hr. induction src as [|a rest IH].
  - cbn [shl1 hd0 length]. rewrite be_dec_nil, N.shiftr_0_l. lia.
  - cbn [shl1 length]. rewrite !be_dec_cons, shl1_length, p256_S.
    change (hd0 (a :: rest)) with (b2n a).
    destruct (shl_byte_ok r (b2n a) (hd0 rest) Hr (b2n_lt a)) as [Hc Hs].
    { unfold hd0. destruct rest; [lia|apply b2n_lt]. }
    rewrite b2n_n2b_small by exact Hc.
    set (c := shl_byte r (b2n a) (hd0 rest)) in *.
    set (M := p256 (length rest)) in *. set (T := 2 ^ r) in *.
    set (oa := N.shiftr (b2n a) (8 - r)) in *. set (oh := N.shiftr (hd0 rest) (8 - r)) in *.
    set (W := be_dec (shl1 r rest)) in *. set (V := be_dec rest) in *.
    assert (E : M * (c + 256 * oa) = M * (b2n a * T + oh)) by (rewrite Hs; reflexivity).
    nia.
Qed.

Lemma shl1_spec r src : r < 8 ->
  be_dec (shl1 r src) = (be_dec src * 2 ^ r) mod p256 (length src).
Proof.
  intros Hr. rewrite <- (shl1_val r src Hr).
  pose proof (p256_pos (length src)) as Hp.
  rewrite (N.mul_comm (p256 (length src))), N.mod_add by lia.
  symmetry. apply N.mod_small. rewrite <- (shl1_length r src). apply be_dec_lt.
Qed.

(** * 9. lengths *)
Theorem shl_bytes_length : forall x n, length (shl_bytes x n) = length x.
Proof.
  intros x n. rewrite shl_bytes_unfold, app_length, shl1_length, repeat_byte_length.
  pose proof (skipn_length (n / 8) x). lia.
Qed.

(** * 10a. OP_LSHIFT: multiply by 2^n modulo 2^(8 len) *)
Theorem shl_bytes_spec_total : forall x n,
  be_dec (shl_bytes x n) = (be_dec x * 2 ^ N.of_nat n) mod 2 ^ (8 * N.of_nat (length x)).
Proof.
  intros x n. rewrite <- p256_pow2, shl_bytes_unfold, be_dec_app, be_dec_zeros, repeat_byte_length, N.add_0_r.
  set (bs := (n / 8)%nat). set (r := N.of_nat (n mod 8)).
  assert (Hr : r < 8) by (unfold r; pose proof (Nat.mod_upper_bound n 8 ltac:(lia)); lia).
  rewrite shl1_spec by exact Hr. rewrite skipn_length.
  rewrite pow2_split. fold bs r.
  destruct (Nat.le_gt_cases bs (length x)) as [Hle|Hgt].
  - (* the byte shift stays inside the string *)
    replace (length x - (length x - bs))%nat with bs by lia.
    pose proof (firstn_skipn bs x) as Ex.
    set (s := skipn bs x) in *. set (f := firstn bs x) in *.
    assert (Hlf : length f = bs) by (unfold f; apply firstn_length_le; exact Hle).
    assert (Hls : (length x - bs)%nat = length s) by (unfold s; rewrite skipn_length; reflexivity).
    rewrite Hls.
    assert (Hlen : p256 (length x) = p256 (length s) * p256 bs).
    { rewrite <- p256_add. f_equal. lia. }
    rewrite Hlen.
    pose proof (p256_pos (length s)) as Hp1. pose proof (p256_pos bs) as Hp2.
    replace (be_dec x * (p256 bs * 2 ^ r)) with ((be_dec x * 2 ^ r) * p256 bs) by lia.
    rewrite N.mul_mod_distr_r by lia. f_equal.
    replace (be_dec x) with (be_dec (f ++ s)) by (rewrite Ex; reflexivity). rewrite be_dec_app.
    replace ((be_dec f * p256 (length s) + be_dec s) * 2 ^ r)
      with (be_dec s * 2 ^ r + (be_dec f * 2 ^ r) * p256 (length s)) by lia.
    rewrite N.mod_add by lia. reflexivity.
  - (* shifting by more than the width: all zeros *)
    replace (length x - bs)%nat with 0%nat by lia. rewrite p256_0, N.mod_1_r. cbn [N.mul].
    symmetry. pose proof (p256_pos (length x)) as Hp.
    replace bs with (length x + (bs - length x))%nat by lia. rewrite p256_add.
    replace (be_dec x * (p256 (length x) * p256 (bs - length x) * 2 ^ r))
      with ((be_dec x * p256 (bs - length x) * 2 ^ r) * p256 (length x)) by lia.
    apply N.mod_mul. lia.
Qed.

Theorem shl_bytes_spec : forall x n, (n <= 8 * length x)%nat ->
  be_dec (shl_bytes x n) = (be_dec x * 2 ^ N.of_nat n) mod 2 ^ (8 * N.of_nat (length x)).
Proof. intros x n _. apply shl_bytes_spec_total. Qed.

Corollary shl_bytes_nil n : shl_bytes [] n = [].
Proof. pose proof (shl_bytes_length [] n) as H. destruct (shl_bytes [] n); [reflexivity|discriminate]. Qed.

(** * Right shift: recursive form *)
Fixpoint shr1 (r : N) (p : N) (src : bytes) : bytes :=
  match src with
  | [] => []
  | a :: rest => n2b (shr_byte r (b2n a) p) :: shr1 r (b2n a) rest
  end.

Lemma shr1_length r p src : length (shr1 r p src) = length src.
Proof. revert p; induction src as [|a rest IH]; intros p; cbn [shr1 length]; [reflexivity|]. rewrite IH. reflexivity. Qed.

Lemma shr_body_eq r p src :
  map (fun j => n2b (N.lor (N.shiftr (b2n (nth j src x00)) r)
                          (N.shiftl (match j with O => p | S j' => b2n (nth j' src x00) end) (8 - r) mod 256)))
      (seq 0 (length src)) = shr1 r p src.
Proof.
  revert p; induction src as [|a rest IH]; intros p; [reflexivity|].
  cbn [length seq map shr1 nth]. f_equal.
  rewrite <- seq_shift, map_map, <- IH. apply map_ext. intros j. destruct j; reflexivity.
Qed.

Lemma shr_bytes_unfold x n :
  shr_bytes x n =
    repeat_byte (length x - length (firstn (length x - n / 8) x)) x00
    ++ shr1 (N.of_nat (n mod 8)) 0 (firstn (length x - n / 8) x).
Proof. unfold shr_bytes. cbv zeta. f_equal. apply shr_body_eq. Qed.

Lemma shr1_val r p src : r < 8 -> p < 256 ->
  be_dec (shr1 r p src) = ((p mod 2 ^ r) * p256 (length src) + be_dec src) / 2 ^ r.
Proof.
  intros Hr. revert p. induction src as [|a rest IH]; intros p Hp.
  - cbn [shr1 length]. rewrite be_dec_nil, p256_0. symmetry. apply N.div_small.
    assert (2 ^ r <> 0) by (apply N.pow_nonzero; lia).
    pose proof (N.mod_lt p (2 ^ r)). lia.
  - cbn [shr1 length]. rewrite !be_dec_cons, shr1_length, p256_S, (IH (b2n a) (b2n_lt a)).
    destruct (shr_byte_ok r (b2n a) p Hr (b2n_lt a) Hp) as [Hc Hs].
    rewrite b2n_n2b_small by exact Hc.
    assert (HT : 2 ^ r <> 0) by (apply N.pow_nonzero; lia).
    set (c := shr_byte r (b2n a) p) in *. set (M := p256 (length rest)) in *. set (T := 2 ^ r) in *.
    set (V := be_dec rest). set (am := b2n a mod T) in *. set (pm := p mod T) in *.
    replace (pm * (256 * M) + (b2n a * M + V)) with ((c * M) * T + (am * M + V)).
    + rewrite N.div_add_l by exact HT. reflexivity.
    + assert (E : M * (c * T + am) = M * (pm * 256 + b2n a)) by (rewrite Hs; reflexivity). nia.
Qed.

Lemma shr1_spec r src : r < 8 -> be_dec (shr1 r 0 src) = be_dec src / 2 ^ r.
Proof.
  intros Hr. rewrite shr1_val by lia. rewrite N.mod_0_l by (apply N.pow_nonzero; lia).
  reflexivity.
Qed.

Theorem shr_bytes_length : forall x n, length (shr_bytes x n) = length x.
Proof.
  intros x n. rewrite shr_bytes_unfold, app_length, shr1_length, repeat_byte_length.
  pose proof (firstn_le_length (length x - n / 8) x). lia.
Qed.

(** * 10b. OP_RSHIFT: divide by 2^n *)
Theorem shr_bytes_spec_total : forall x n,
  be_dec (shr_bytes x n) = be_dec x / 2 ^ N.of_nat n.
Proof.
  intros x n. rewrite shr_bytes_unfold, be_dec_app, be_dec_zeros, N.mul_0_l, N.add_0_l.
  set (bs := (n / 8)%nat). set (r := N.of_nat (n mod 8)).
  assert (Hr : r < 8) by (unfold r; pose proof (Nat.mod_upper_bound n 8 ltac:(lia)); lia).
  rewrite shr1_spec by exact Hr. rewrite pow2_split. fold bs r.
  pose proof (p256_pos bs) as Hp. assert (HT : 2 ^ r <> 0) by (apply N.pow_nonzero; lia).
  rewrite <- N.div_div by lia. f_equal.
  destruct (Nat.le_gt_cases bs (length x)) as [Hle|Hgt].
  - pose proof (firstn_skipn (length x - bs) x) as Ex.
    set (s := firstn (length x - bs) x) in *. set (t := skipn (length x - bs) x) in *.
    assert (Hlt : length t = bs) by (unfold t; rewrite skipn_length; lia).
    replace (be_dec x) with (be_dec (s ++ t)) by (rewrite Ex; reflexivity). rewrite be_dec_app, Hlt.
    pose proof (be_dec_lt t) as Ht. rewrite Hlt in Ht.
    rewrite N.div_add_l by lia. rewrite (N.div_small (be_dec t)) by exact Ht. lia.
  - replace (length x - bs)%nat with 0%nat by lia. cbn [firstn]. rewrite be_dec_nil.
    symmetry. apply N.div_small. pose proof (be_dec_lt x). pose proof (p256_mono (length x) bs ltac:(lia)). lia.
Qed.

Theorem shr_bytes_spec : forall x n, (n <= 8 * length x)%nat ->
  be_dec (shr_bytes x n) = be_dec x / 2 ^ N.of_nat n.
Proof. intros x n _. apply shr_bytes_spec_total. Qed.

Corollary shr_bytes_nil n : shr_bytes [] n = [].
Proof. pose proof (shr_bytes_length [] n) as H. destruct (shr_bytes [] n); [reflexivity|discriminate]. Qed.

(** a string is determined by its length and big-endian value, so the two specifications
    characterise the results completely *)
Lemma be_dec_inj a b : length a = length b -> be_dec a = be_dec b -> a = b.
Proof. intros Hl Hv. rewrite <- (be_enc_dec a), <- (be_enc_dec b), Hl, Hv. reflexivity. Qed.

Corollary shl_bytes_is_be_enc x n :
  shl_bytes x n = be_enc (length x) ((be_dec x * 2 ^ N.of_nat n) mod 2 ^ (8 * N.of_nat (length x))).
Proof.
  rewrite <- shl_bytes_spec_total, <- (shl_bytes_length x n). symmetry. apply be_enc_dec.
Qed.

Corollary shr_bytes_is_be_enc x n :
  shr_bytes x n = be_enc (length x) (be_dec x / 2 ^ N.of_nat n).
Proof.
  rewrite <- shr_bytes_spec_total, <- (shr_bytes_length x n). symmetry. apply be_enc_dec.
Qed.

(** shifting by the full width (or more) gives all zeros *)
Corollary shl_bytes_full x n : (8 * length x <= n)%nat -> shl_bytes x n = repeat_byte (length x) x00.
Proof.
  intros H. apply be_dec_inj; [rewrite shl_bytes_length, repeat_byte_length; reflexivity|].
  rewrite shl_bytes_spec_total, be_dec_zeros.
  replace (N.of_nat n) with (8 * N.of_nat (length x) + (N.of_nat n - 8 * N.of_nat (length x))) by lia.
  rewrite N.pow_add_r.
  replace (be_dec x * (2 ^ (8 * N.of_nat (length x)) * 2 ^ (N.of_nat n - 8 * N.of_nat (length x))))
    with ((be_dec x * 2 ^ (N.of_nat n - 8 * N.of_nat (length x))) * 2 ^ (8 * N.of_nat (length x))) by lia.
  apply N.mod_mul. apply N.pow_nonzero. lia.
Qed.

Corollary shr_bytes_full x n : (8 * length x <= n)%nat -> shr_bytes x n = repeat_byte (length x) x00.
Proof.
  intros H. apply be_dec_inj; [rewrite shr_bytes_length, repeat_byte_length; reflexivity|].
  rewrite shr_bytes_spec_total, be_dec_zeros. apply N.div_small.
  pose proof (be_dec_lt x) as Hx. rewrite p256_pow2 in Hx.
  eapply N.lt_le_trans; [exact Hx|]. apply N.pow_le_mono_r; lia.
Qed.

(** * bytes_map2 (OP_AND / OP_OR / OP_XOR): pointwise on equal lengths *)
Lemma bytes_map2_length f a b : length a = length b -> length (bytes_map2 f a b) = length a.
Proof. intros H. unfold bytes_map2. rewrite map_length, combine_length. lia. Qed.

Lemma bytes_map2_nth f a b i : length a = length b -> (i < length a)%nat ->
  nth i (bytes_map2 f a b) x00 = n2b (f (b2n (nth i a x00)) (b2n (nth i b x00))).
Proof.
  intros Hl Ha. unfold bytes_map2.
  set (g := fun xy : byte * byte => n2b (f (b2n (fst xy)) (b2n (snd xy)))).
  rewrite (nth_indep _ x00 (g (x00, x00))) by (rewrite map_length, combine_length; lia).
  rewrite map_nth, combine_nth by exact Hl. reflexivity.
Qed.

(** * 11. Stack permutations (top of stack = head of the list) *)
Section StackPerms.
Local Open Scope nat_scope.
Context {A : Type}.

Lemma firstn_app_exact (a l : list A) n : length a = n -> firstn n (a ++ l) = a.
Proof. intros <-. rewrite firstn_app, Nat.sub_diag, firstn_all. cbn [firstn]. apply app_nil_r. Qed.

Lemma skipn_app_exact (a l : list A) n : length a = n -> skipn n (a ++ l) = l.
Proof. intros <-. rewrite skipn_app, Nat.sub_diag, skipn_all. reflexivity. Qed.

(** cut a prefix of exactly [n] items off a list that is long enough *)
Lemma cut_prefix n (d : list A) : n <= length d ->
  exists a rest, d = a ++ rest /\ length a = n /\ a = firstn n d /\ rest = skipn n d.
Proof.
  intros H. exists (firstn n d), (skipn n d). split; [symmetry; apply firstn_skipn|].
  split; [apply firstn_length_le; exact H|]. split; reflexivity.
Qed.
End StackPerms.

Local Open Scope nat_scope.

Lemma Some_eq {T} (a b : T) : Some a = Some b -> a = b.
Proof. intros H. injection H as H. exact H. Qed.

(** OP_DUP / OP_2DUP / OP_3DUP: copy the top [n] items *)
Theorem dup_n_spec : forall n d r, dup_n n d = Some r ->
  n <= length d /\ r = firstn n d ++ d /\ length r = n + length d /\ skipn n r = d.
Proof.
  intros n d r H. unfold dup_n in H. destruct (Nat.ltb_spec (length d) n) as [Hlt|Hge]; [discriminate|].
  apply Some_eq in H; subst r. destruct (cut_prefix n d Hge) as (a & rest & Ed & La & Ea & _).
  rewrite <- Ea. split; [exact Hge|]. split; [reflexivity|]. split.
  - rewrite app_length. lia.
  - apply skipn_app_exact. exact La.
Qed.

Theorem dup_n_none : forall n d, dup_n n d = None <-> length d < n.
Proof. intros n d. unfold dup_n. destruct (Nat.ltb_spec (length d) n); split; intros; try discriminate; try lia; reflexivity. Qed.

(** OP_SWAP / OP_2SWAP: exchange the two top groups of [n] items *)
Theorem swap_n_spec : forall n d r, swap_n n d = Some r ->
  exists a b rest, d = a ++ b ++ rest /\ length a = n /\ length b = n /\
    r = b ++ a ++ rest /\ length r = length d /\ skipn (2 * n) r = skipn (2 * n) d.
Proof.
  intros n d r H. unfold swap_n in H. destruct (Nat.ltb_spec (length d) (2 * n)) as [Hlt|Hge]; [discriminate|].
  apply Some_eq in H; subst r.
  destruct (cut_prefix n d ltac:(lia)) as (a & d1 & Ed & La & _ & _). subst d.
  rewrite app_length in Hge.
  destruct (cut_prefix n d1 ltac:(lia)) as (b & rest & Ed1 & Lb & _ & _). subst d1.
  exists a, b, rest.
  assert (Lab : length (a ++ b) = 2 * n) by (rewrite app_length; lia).
  rewrite (firstn_app_exact a _ n La), (skipn_app_exact a _ n La), (firstn_app_exact b _ n Lb).
  rewrite (app_assoc a b rest), (skipn_app_exact (a ++ b) rest (2 * n) Lab), <- (app_assoc a b rest).
  split; [reflexivity|]. split; [exact La|]. split; [exact Lb|]. split; [reflexivity|]. split.
  - rewrite !app_length. lia.
  - rewrite (app_assoc b a rest). apply skipn_app_exact. rewrite app_length. lia.
Qed.

Theorem swap_n_none : forall n d, swap_n n d = None <-> length d < 2 * n.
Proof. intros n d. unfold swap_n. destruct (Nat.ltb_spec (length d) (2 * n)); split; intros; try discriminate; try lia; reflexivity. Qed.

(** OP_ROT / OP_2ROT: the third group comes to the top *)
Theorem rot_n_spec : forall n d r, rot_n n d = Some r ->
  exists a b c rest, d = a ++ b ++ c ++ rest /\ length a = n /\ length b = n /\ length c = n /\
    r = c ++ a ++ b ++ rest /\ length r = length d /\ skipn (3 * n) r = skipn (3 * n) d.
Proof.
  intros n d r H. unfold rot_n in H. destruct (Nat.ltb_spec (length d) (3 * n)) as [Hlt|Hge]; [discriminate|].
  apply Some_eq in H; subst r.
  destruct (cut_prefix n d ltac:(lia)) as (a & d1 & Ed & La & _ & _). subst d.
  rewrite app_length in Hge.
  destruct (cut_prefix n d1 ltac:(lia)) as (b & d2 & Ed1 & Lb & _ & _). subst d1.
  rewrite app_length in Hge.
  destruct (cut_prefix n d2 ltac:(lia)) as (c & rest & Ed2 & Lc & _ & _). subst d2.
  exists a, b, c, rest.
  assert (Lab : length (a ++ b) = 2 * n) by (rewrite app_length; lia).
  assert (Labc : length (a ++ b ++ c) = 3 * n) by (rewrite !app_length; lia).
  assert (E2 : a ++ b ++ c ++ rest = (a ++ b) ++ c ++ rest) by (rewrite <- app_assoc; reflexivity).
  assert (E3 : a ++ b ++ c ++ rest = (a ++ b ++ c) ++ rest) by (rewrite <- !app_assoc; reflexivity).
  assert (S2 : skipn (2 * n) (a ++ b ++ c ++ rest) = c ++ rest) by (rewrite E2; apply skipn_app_exact; exact Lab).
  assert (F2 : firstn (2 * n) (a ++ b ++ c ++ rest) = a ++ b) by (rewrite E2; apply firstn_app_exact; exact Lab).
  assert (S3 : skipn (3 * n) (a ++ b ++ c ++ rest) = rest) by (rewrite E3; apply skipn_app_exact; exact Labc).
  rewrite S2, F2, S3, (firstn_app_exact c rest n Lc), <- (app_assoc a b rest).
  split; [reflexivity|]. split; [exact La|]. split; [exact Lb|]. split; [exact Lc|]. split; [reflexivity|]. split.
  - rewrite !app_length. lia.
  - replace (c ++ a ++ b ++ rest) with ((c ++ a ++ b) ++ rest) by (rewrite <- !app_assoc; reflexivity).
    apply skipn_app_exact. rewrite !app_length. lia.
Qed.

Theorem rot_n_none : forall n d, rot_n n d = None <-> length d < 3 * n.
Proof. intros n d. unfold rot_n. destruct (Nat.ltb_spec (length d) (3 * n)); split; intros; try discriminate; try lia; reflexivity. Qed.

(** OP_OVER / OP_2OVER: copy the second group to the top *)
Theorem over_n_spec : forall n d r, over_n n d = Some r ->
  exists a b rest, d = a ++ b ++ rest /\ length a = n /\ length b = n /\
    r = b ++ a ++ b ++ rest /\ length r = n + length d /\ skipn n r = d.
Proof.
  intros n d r H. unfold over_n in H. destruct (Nat.ltb_spec (length d) (2 * n)) as [Hlt|Hge]; [discriminate|].
  apply Some_eq in H; subst r.
  destruct (cut_prefix n d ltac:(lia)) as (a & d1 & Ed & La & _ & _). subst d.
  rewrite app_length in Hge.
  destruct (cut_prefix n d1 ltac:(lia)) as (b & rest & Ed1 & Lb & _ & _). subst d1.
  exists a, b, rest.
  rewrite (skipn_app_exact a _ n La), (firstn_app_exact b _ n Lb).
  split; [reflexivity|]. split; [exact La|]. split; [exact Lb|]. split; [reflexivity|]. split.
  - rewrite !app_length. lia.
  - apply skipn_app_exact. exact Lb.
Qed.

Theorem over_n_none : forall n d, over_n n d = None <-> length d < 2 * n.
Proof. intros n d. unfold over_n. destruct (Nat.ltb_spec (length d) (2 * n)); split; intros; try discriminate; try lia; reflexivity. Qed.

(** OP_PICK: copy item [i] (0 = top) to the top *)
Lemma pick_roll_guard (i : Z) (d : list bytes) :
  ((i <? 0) || (lenZ d <=? i))%Z = false <-> (0 <= i < lenZ d)%Z.
Proof. rewrite orb_false_iff, Z.ltb_ge, Z.leb_gt. reflexivity. Qed.

Theorem pick_n_spec : forall i d r, pick_n i d = Some r ->
  (0 <= i < lenZ d)%Z /\
  exists x, nth_error d (Z.to_nat i) = Some x /\ r = x :: d /\ length r = S (length d) /\ skipn 1 r = d.
Proof.
  intros i d r H. unfold pick_n in H.
  destruct ((i <? 0) || (lenZ d <=? i))%Z eqn:G; [discriminate|]. apply pick_roll_guard in G.
  split; [exact G|]. destruct (nth_error d (Z.to_nat i)) as [x|] eqn:E; [|discriminate].
  apply Some_eq in H; subst r. exists x. repeat split.
Qed.

Theorem pick_n_none : forall i d, pick_n i d = None <-> (i < 0 \/ lenZ d <= i)%Z.
Proof.
  intros i d. unfold pick_n. destruct ((i <? 0) || (lenZ d <=? i))%Z eqn:G.
  - apply orb_true_iff in G. rewrite Z.ltb_lt, Z.leb_le in G. split; [intros _; exact G|reflexivity].
  - apply pick_roll_guard in G. destruct (nth_error d (Z.to_nat i)) eqn:E.
    + split; [discriminate|lia].
    + apply nth_error_None in E. unfold lenZ in G. lia.
Qed.

(** OP_ROLL: move item [i] to the top *)
Theorem roll_n_spec : forall i d r, roll_n i d = Some r ->
  (0 <= i < lenZ d)%Z /\
  exists a x rest, d = a ++ x :: rest /\ length a = Z.to_nat i /\ r = x :: a ++ rest /\
    length r = length d /\ skipn (S (Z.to_nat i)) r = skipn (S (Z.to_nat i)) d.
Proof.
  intros i d r H. unfold roll_n in H.
  destruct ((i <? 0) || (lenZ d <=? i))%Z eqn:G; [discriminate|]. apply pick_roll_guard in G.
  split; [exact G|]. destruct (nth_error d (Z.to_nat i)) as [x|] eqn:E; [|discriminate].
  apply Some_eq in H; subst r. destruct (nth_error_split d (Z.to_nat i) E) as (a & rest & -> & La).
  exists a, x, rest.
  assert (La1 : length (a ++ [x]) = S (Z.to_nat i)) by (rewrite app_length; cbn [length]; lia).
  assert (E1 : a ++ x :: rest = (a ++ [x]) ++ rest) by (rewrite <- app_assoc; reflexivity).
  assert (S1 : skipn (S (Z.to_nat i)) (a ++ x :: rest) = rest) by (rewrite E1; apply skipn_app_exact; exact La1).
  rewrite (firstn_app_exact a _ _ La), S1.
  split; [reflexivity|]. split; [exact La|]. split; [reflexivity|]. split.
  - cbn [length]. rewrite !app_length. cbn [length]. lia.
  - change (x :: a ++ rest) with ((x :: a) ++ rest). apply skipn_app_exact. cbn [length]. lia.
Qed.

Theorem roll_n_none : forall i d, roll_n i d = None <-> (i < 0 \/ lenZ d <= i)%Z.
Proof.
  intros i d. unfold roll_n. destruct ((i <? 0) || (lenZ d <=? i))%Z eqn:G.
  - apply orb_true_iff in G. rewrite Z.ltb_lt, Z.leb_le in G. split; [intros _; exact G|reflexivity].
  - apply pick_roll_guard in G. destruct (nth_error d (Z.to_nat i)) eqn:E.
    + split; [discriminate|lia].
    + apply nth_error_None in E. unfold lenZ in G. lia.
Qed.
