(** stack.PeekByteArray (bscript/interpreter/stack.go), as printed from the Go source: the item [idx] places below the top, or an error when there is none.
    The Go stack is [rev d], [d] being the stack of model/Interp.v (top first). *)
From Coq Require Import List ZArith NArith Bool Lia ZifyN ZifyNat ZifyBool.
From Coq Require Import Strings.Byte.
From GoBT Require Import lib.Bytes lib.GoSem lib.GoInterp gen.Funcs proofs.GenFuncsTac proofs.GenFuncsInterpTac.
From GoBT Require model.Interp model.ScriptNum.
Import ListNotations.
Ltac Zify.zify_post_hook ::= Z.div_mod_to_equations.
Local Open Scope Z_scope.

Lemma stack_PeekByteArray_spec (i : Z) (d : list bytes) : Interp.lenZ d < 2147483648 -> in31 i ->
  stack_PeekByteArray i (rev d) = Val (peek_model i d).
Proof.
  intros Hd Hi. pose proof (lenZ_nonneg d) as Hn. unfold in31 in Hi.
  unfold stack_PeekByteArray, peek_model. rewrite !go_len_rev. cbv zeta.
  destruct ((i <? 0) || (Interp.lenZ d <=? i)) eqn:Ebad; wrap32; go_decide; [reflexivity|].
  rewrite (go_index_rev_at d _ i) by lia. reflexivity.
Qed.

#[global] Hint Rewrite stack_PeekByteArray_spec using stk_small : stk.
