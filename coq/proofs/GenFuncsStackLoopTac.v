(** Lemmas for the statements "for EVERY n" about the five counted methods of stack.go (proofs/GenFuncs_stack_DropN_all_n.v,
    _DupN_, _RotN_, _SwapN_, _OverN_): each is a loop [for i := n; i > 0; i-- { one stack step }] that returns early
    when the step fails.  The printed [go_for] is shown to be [n] iterations of a step function in the model's order
    ([iter_step]; the fuel suffices), and [n] iterations of "move / copy the item [m] places below the top to the top"
    are computed on a stack cut into groups. *)
From Coq Require Import List ZArith NArith Bool Lia ZifyN ZifyNat ZifyBool.
From Coq Require Import Strings.Byte.
From GoBT Require Import lib.Bytes lib.GoSem lib.GoInterp proofs.GenFuncsTac proofs.GenFuncsInterpTac.
From GoBT Require model.Interp.
Import ListNotations.
Ltac Zify.zify_post_hook ::= Z.div_mod_to_equations.
Local Open Scope Z_scope.

(** [k] iterations of a partial step *)
Fixpoint iter_step {A} (step : A -> option A) (k : nat) (d : A) : option A :=
  match k with
  | O => Some d
  | Datatypes.S k' => match step d with Some d' => iter_step step k' d' | None => None end
  end.

(** what the printed loop returns, against the iterated step: the stack after the loop, or an early return with an error *)
Definition loop_result (r : after (Z * list bytes) (list bytes * bool)) (o : option (list bytes)) : Prop :=
  match o, r with
  | Some d', Fall (_, g) => g = rev d'
  | None, Returned (_, e) => e = true
  | _, _ => False
  end.

Section CountDown.
  Variables (step : list bytes -> option (list bytes)) (inv : nat -> list bytes -> Prop).
  Variables (cond : Z * list bytes -> M bool) (body : Z * list bytes -> M (ctl (Z * list bytes) (list bytes * bool)))
            (post : Z * list bytes -> M (Z * list bytes)).
  Hypothesis Hcond : forall i g, cond (i, g) = Val (0 <? i).
  Hypothesis Hpost : forall i g, 0 < i < 2147483648 -> post (i, g) = Val (i - 1, g).
  Hypothesis Hbody : forall k d, inv (Datatypes.S k) d ->
    match step d with
    | Some d' => body (Z.of_nat (Datatypes.S k), rev d) = Val (Next (Z.of_nat (Datatypes.S k), rev d')) /\ inv k d'
    | None => exists g, body (Z.of_nat (Datatypes.S k), rev d) = Val (Return (g, true))
    end.
  (** [for i := k; i > 0; i-- { step }] with fuel at least [k] *)
  Lemma go_for_count_down : forall (fuel k : nat) (d : list bytes),
    (k <= fuel)%nat -> Z.of_nat k < 2147483648 -> inv k d ->
    exists r, go_for fuel (Z.of_nat k, rev d) cond body post = Val r /\ loop_result r (iter_step step k d).
  Proof.
    induction fuel as [|f IH]; intros k d Hk Hr Hi.
    - assert (k = 0%nat) as -> by lia. cbn [go_for iter_step]. rewrite Hcond. cbn [bind negb Z.of_nat Z.ltb Z.compare].
      eexists. split; [reflexivity|]. reflexivity.
    - cbn [go_for]. rewrite Hcond. cbn [bind]. destruct k as [|k].
      + cbn [Z.of_nat Z.ltb Z.compare negb iter_step]. eexists. split; [reflexivity|]. reflexivity.
      + replace (0 <? Z.of_nat (Datatypes.S k)) with true by lia. cbn [negb iter_step].
        pose proof (Hbody k d Hi) as Hb. destruct (step d) as [d'|].
        * destruct Hb as [Hb Hi']. rewrite Hb. cbn [bind]. rewrite Hpost by lia. cbn [bind].
          replace (Z.of_nat (Datatypes.S k) - 1) with (Z.of_nat k) by lia. apply IH; [lia|lia|exact Hi'].
        * destruct Hb as [g Hb]. rewrite Hb. cbn [bind]. eexists. split; [reflexivity|]. reflexivity.
  Qed.
End CountDown.

(** the end of every one of the five printed functions: [st_view] of the loop's result *)
Lemma loop_result_view r o (fin : after (Z * list bytes) (list bytes * bool) -> M (list bytes * bool)) :
  loop_result r o ->
  (forall i g, fin (Fall (i, g)) = Val (g, false)) -> (forall t, fin (Returned t) = Val t) ->
  st_view (fin r) = Val o.
Proof.
  intros H Hf Hr. destruct o as [d'|], r as [[i g]|[g e]]; cbn [loop_result] in H; try contradiction.
  - subst g. rewrite Hf. cbn [st_view]. rewrite rev_involutive. reflexivity.
  - subst e. rewrite Hr. reflexivity.
Qed.

(** ** the steps, on a stack cut into groups (model order: top first) *)
Lemma roll_n_at (X T : list bytes) (y : bytes) :
  Interp.roll_n (Interp.lenZ X) (X ++ y :: T) = Some (y :: X ++ T).
Proof.
  unfold Interp.roll_n. pose proof (lenZ_nonneg X) as H0. rewrite lenZ_app, lenZ_cons. pose proof (lenZ_nonneg T).
  replace ((Interp.lenZ X <? 0) || (Interp.lenZ X + (1 + Interp.lenZ T) <=? Interp.lenZ X)) with false by lia.
  unfold Interp.lenZ. rewrite Nat2Z.id.
  rewrite nth_error_app2 by lia. rewrite Nat.sub_diag. cbn [nth_error].
  rewrite firstn_app, firstn_all, Nat.sub_diag. cbn [firstn]. rewrite app_nil_r.
  replace (X ++ y :: T) with ((X ++ [y]) ++ T) by (rewrite <- app_assoc; reflexivity).
  replace (Datatypes.S (length X)) with (length (X ++ [y])) by (rewrite app_length; cbn [length]; lia).
  rewrite skipn_app, skipn_all, Nat.sub_diag. reflexivity.
Qed.
Lemma pick_n_at (X T : list bytes) (y : bytes) :
  Interp.pick_n (Interp.lenZ X) (X ++ y :: T) = Some (y :: X ++ y :: T).
Proof.
  unfold Interp.pick_n. pose proof (lenZ_nonneg X) as H0. rewrite lenZ_app, lenZ_cons. pose proof (lenZ_nonneg T).
  replace ((Interp.lenZ X <? 0) || (Interp.lenZ X + (1 + Interp.lenZ T) <=? Interp.lenZ X)) with false by lia.
  unfold Interp.lenZ. rewrite Nat2Z.id.
  rewrite nth_error_app2 by lia. rewrite Nat.sub_diag. reflexivity.
Qed.

(** [k] times "move the item [m] places below the top to the top": the group [Y] of [k] items below the group [X]
    comes to the top, in order *)
Lemma iter_roll (m : Z) : forall (k : nat) (X Y T : list bytes),
  length Y = k -> Interp.lenZ X + Z.of_nat k = m + 1 ->
  iter_step (Interp.roll_n m) k (X ++ Y ++ T) = Some (Y ++ X ++ T).
Proof.
  induction k as [|k IH]; intros X Y T HY Hm.
  - destruct Y; [reflexivity|discriminate].
  - destruct (exists_last (l := Y)) as [Y' [y ->]]; [intros ->; discriminate|].
    rewrite app_length in HY. cbn [length] in HY.
    cbn [iter_step].
    replace (X ++ (Y' ++ [y]) ++ T) with ((X ++ Y') ++ y :: T) by (rewrite <- !app_assoc; reflexivity).
    replace m with (Interp.lenZ (X ++ Y')) by (rewrite lenZ_app; unfold Interp.lenZ in *; lia).
    rewrite roll_n_at.
    replace (Interp.lenZ (X ++ Y')) with m by (rewrite lenZ_app; unfold Interp.lenZ in *; lia).
    replace (y :: (X ++ Y') ++ T) with ((y :: X) ++ Y' ++ T) by (rewrite <- !app_assoc; reflexivity).
    rewrite (IH (y :: X) Y' T) by (rewrite ?lenZ_cons; lia).
    rewrite <- !app_assoc. reflexivity.
Qed.
(** [k] times "copy the item [m] places below the top to the top" *)
Lemma iter_pick (m : Z) : forall (k : nat) (X Y T : list bytes),
  length Y = k -> Interp.lenZ X + Z.of_nat k = m + 1 ->
  iter_step (Interp.pick_n m) k (X ++ Y ++ T) = Some (Y ++ X ++ Y ++ T).
Proof.
  induction k as [|k IH]; intros X Y T HY Hm.
  - destruct Y; [reflexivity|discriminate].
  - destruct (exists_last (l := Y)) as [Y' [y ->]]; [intros ->; discriminate|].
    rewrite app_length in HY. cbn [length] in HY.
    cbn [iter_step].
    replace (X ++ (Y' ++ [y]) ++ T) with ((X ++ Y') ++ y :: T) by (rewrite <- !app_assoc; reflexivity).
    replace m with (Interp.lenZ (X ++ Y')) by (rewrite lenZ_app; unfold Interp.lenZ in *; lia).
    rewrite pick_n_at.
    replace (Interp.lenZ (X ++ Y')) with m by (rewrite lenZ_app; unfold Interp.lenZ in *; lia).
    replace (y :: (X ++ Y') ++ y :: T) with ((y :: X) ++ Y' ++ (y :: T)) by (rewrite <- !app_assoc; reflexivity).
    rewrite (IH (y :: X) Y' (y :: T)) by (rewrite ?lenZ_cons; lia).
    rewrite <- !app_assoc. reflexivity.
Qed.
(** [k] pops *)
Definition pop_step (d : list bytes) : option (list bytes) := match d with [] => None | _ :: r => Some r end.
Lemma iter_pop : forall (k : nat) (d : list bytes),
  iter_step pop_step k d = if Nat.ltb (length d) k then None else Some (skipn k d).
Proof.
  induction k as [|k IH]; intros d; [reflexivity|].
  cbn [iter_step]. destruct d as [|x r]; [reflexivity|]. cbn [pop_step length skipn]. rewrite IH.
  destruct (Nat.ltb_spec (length r) k), (Nat.ltb_spec (Datatypes.S (length r)) (Datatypes.S k)); try reflexivity; lia.
Qed.

(** a step that fails on the first iteration *)
Lemma iter_fails {A} (step : A -> option A) k d : step d = None -> iter_step step (Datatypes.S k) d = None.
Proof. intros H. cbn [iter_step]. rewrite H. reflexivity. Qed.

Lemma skipn_skipn' {A} (l : list A) : forall a b, skipn b (skipn a l) = skipn (a + b) l.
Proof.
  induction l as [|x l IH]; intros [|a] b; cbn [skipn Nat.add]; try reflexivity.
  - destruct b; reflexivity.
  - apply IH.
Qed.

(** cut a stack that is long enough *)
Lemma cut2 (a b : nat) (d : list bytes) : (a + b <= length d)%nat ->
  d = firstn a d ++ firstn b (skipn a d) ++ skipn (a + b) d /\ length (firstn a d) = a /\ length (firstn b (skipn a d)) = b.
Proof.
  intros H. split; [|split].
  - rewrite <- (firstn_skipn a d) at 1. f_equal. rewrite <- (firstn_skipn b (skipn a d)) at 1. f_equal.
    rewrite skipn_skipn'. reflexivity.
  - rewrite firstn_length. lia.
  - rewrite firstn_length, skipn_length. lia.
Qed.

(** lengths *)
Lemma roll_n_length i d d' : Interp.roll_n i d = Some d' -> Interp.lenZ d' = Interp.lenZ d.
Proof.
  unfold Interp.roll_n. destruct ((i <? 0) || (Interp.lenZ d <=? i)) eqn:E; [discriminate|].
  destruct (nth_error d (Z.to_nat i)) eqn:En; [|discriminate]. intros H. injection H as <-.
  unfold Interp.lenZ in *. cbn [length]. rewrite app_length, firstn_length.
  change (match d with [] => [] | _ :: l => skipn (Z.to_nat i) l end) with (skipn (Datatypes.S (Z.to_nat i)) d). rewrite skipn_length. lia.
Qed.
Lemma pick_n_length i d d' : Interp.pick_n i d = Some d' -> Interp.lenZ d' = Interp.lenZ d + 1.
Proof.
  unfold Interp.pick_n. destruct ((i <? 0) || (Interp.lenZ d <=? i)) eqn:E; [discriminate|].
  destruct (nth_error d (Z.to_nat i)) eqn:En; [|discriminate]. intros H. injection H as <-.
  unfold Interp.lenZ in *. cbn [length]. lia.
Qed.
Lemma roll_n_out i d : i < 0 \/ Interp.lenZ d <= i -> Interp.roll_n i d = None.
Proof. intros H. unfold Interp.roll_n. replace ((i <? 0) || (Interp.lenZ d <=? i)) with true by lia. reflexivity. Qed.
Lemma pick_n_out i d : i < 0 \/ Interp.lenZ d <= i -> Interp.pick_n i d = None.
Proof. intros H. unfold Interp.pick_n. replace ((i <? 0) || (Interp.lenZ d <=? i)) with true by lia. reflexivity. Qed.
Lemma pick_n_in i d : 0 <= i < Interp.lenZ d -> Interp.pick_n i d <> None.
Proof.
  intros H. unfold Interp.pick_n. replace ((i <? 0) || (Interp.lenZ d <=? i)) with false by lia.
  destruct (nth_error d (Z.to_nat i)) eqn:E; [discriminate|]. apply nth_error_None in E. unfold Interp.lenZ in H. lia.
Qed.

(** the end of a printed counted method: apply [loop_result_view] to whatever follows the loop *)
Ltac loop_finish r :=
  cbn [bind]; cbv beta;
  match goal with |- st_view ?body = _ =>
    let F := eval pattern r in body in
    match F with ?f r => apply (loop_result_view r _ f) end
  end; [ | intros; reflexivity | intros; reflexivity ].
