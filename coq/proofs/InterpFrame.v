(** Frame property of the opcode handlers (C08, second sentence, in the model): an opcode changes only the
    top [arity] items of the data stack; every other item of either stack is the same value at the same
    distance from the bottom afterwards.  (In the model values cannot alias; what Go can do in addition —
    write through a shared backing array — is decided by the correspondence check.) *)
From Coq Require Import List NArith ZArith Lia Bool.
From Coq Require Import Strings.Byte.
From GoBT Require Import lib.Bytes model.ScriptNum model.Interp proofs.ScriptNumProofs proofs.ShiftProofs proofs.InterpTotal.
Import ListNotations.
Local Open Scope Z_scope.

(** how many of the topmost items an opcode may consume or replace *)
Definition arity (v : N) : nat :=
  if (v =? OP_IF)%N || (v =? OP_NOTIF)%N || (v =? OP_VERIFY)%N || (v =? OP_TOALTSTACK)%N || (v =? OP_DROP)%N ||
     (v =? OP_PICK)%N || (v =? OP_BIN2NUM)%N || (v =? OP_INVERT)%N || (v =? OP_1ADD)%N || (v =? OP_1SUB)%N ||
     (v =? OP_NEGATE)%N || (v =? OP_ABS)%N || (v =? OP_NOT)%N || (v =? OP_0NOTEQUAL)%N ||
     ((OP_RIPEMD160 <=? v)%N && (v <=? OP_HASH256)%N) then 1
  else if (v =? OP_2DROP)%N || (v =? OP_NIP)%N || (v =? OP_SWAP)%N || (v =? OP_TUCK)%N || (v =? OP_CAT)%N ||
     (v =? OP_SPLIT)%N || (v =? OP_NUM2BIN)%N || (v =? OP_AND)%N || (v =? OP_OR)%N || (v =? OP_XOR)%N ||
     (v =? OP_EQUAL)%N || (v =? OP_EQUALVERIFY)%N || ((OP_ADD <=? v)%N && (v <=? OP_MAX)%N) then 2
  else if (v =? OP_ROT)%N || (v =? OP_WITHIN)%N then 3
  else if (v =? OP_2SWAP)%N then 4
  else if (v =? OP_2ROT)%N then 6
  else 0.

(** below some new items, everything under the old top [k] items is still there *)
Definition frame_rel (k : nat) (d d' : list bytes) : Prop := exists n, skipn n d' = skipn k d.

Ltac try_skip :=
  cbn [skipn ds als set_ds set_als set_cond set_nops set_sep set_early];
  first [ exists 0%nat; reflexivity | exists 1%nat; reflexivity | exists 2%nat; reflexivity
        | exists 3%nat; reflexivity | exists 4%nat; reflexivity | exists 5%nat; reflexivity
        | exists 6%nat; reflexivity ].

Lemma frame_helpers :
  (forall s s', verify_top s = OOk s' -> frame_rel 1 (ds s) (ds s') /\ als s' = als s) /\
  (forall c s f s', unary_num c s f = OOk s' -> frame_rel 1 (ds s) (ds s') /\ als s' = als s) /\
  (forall c s f s', binary_num c s f = OOk s' -> frame_rel 2 (ds s) (ds s') /\ als s' = als s) /\
  (forall c s s', nop_like c s = OOk s' -> s' = s).
Proof.
  split; [|split; [|split]].
  - intros s s'. unfold verify_top. repeat break_match; try discriminate. intros [= <-].
    split; [unfold frame_rel; try_skip|reflexivity].
  - intros c s f s'. unfold unary_num, push_num, push. repeat break_match; try discriminate. intros [= <-].
    split; [unfold frame_rel; try_skip|reflexivity].
  - intros c s f s'. unfold binary_num, push_num, push. repeat break_match; try discriminate. intros [= <-].
    split; [unfold frame_rel; try_skip|reflexivity].
  - intros c s s'. unfold nop_like. break_if; try discriminate. intros [= <-]. reflexivity.
Qed.

Lemma skipn_add {A} (a b : nat) (l : list A) : skipn (a + b) l = skipn b (skipn a l).
Proof. revert l. induction a as [|a IH]; intros l; [reflexivity|]. destruct l; cbn [skipn Nat.add]; [destruct b; reflexivity|apply IH]. Qed.

Lemma frame_rel_mono k k' d d' : (k <= k')%nat -> frame_rel k d d' -> frame_rel k' d d'.
Proof.
  intros Hk [n Hn]. exists (n + (k' - k))%nat.
  rewrite skipn_add, Hn, <- skipn_add. f_equal. lia.
Qed.

Lemma binary_then_verify c s f s' :
  match binary_num c s f with OOk s1 => verify_top s1 | OReturn s0 => OReturn s0 | OErr => OErr | OPanic => OPanic end = OOk s' ->
  frame_rel 2 (ds s) (ds s') /\ als s' = als s.
Proof.
  unfold binary_num. destruct (ds s) as [|a [|b r]] eqn:Ed.
  - discriminate.
  - destruct (pop_num c a); discriminate.
  - destruct (pop_num c a); [|discriminate]. destruct (pop_num c b); [|discriminate].
    destruct (f z z0); [|discriminate].
    unfold push_num, push, verify_top. cbn [ds set_ds].
    destruct (as_bool _); [|discriminate]. intros [= <-]. split; [exists 0%nat; reflexivity|reflexivity].
Qed.

Definition is_sigop (v : N) : bool := (OP_CHECKSIG <=? v)%N && (v <=? OP_CHECKMULTISIGVERIFY)%N.

Ltac concretize :=
  repeat match goal with
  | H : (_ || _) = true |- _ => apply orb_true_iff in H; destruct H as [H|H]
  end;
  repeat match goal with
  | H : (p_val ?p =? ?k)%N = true |- _ => apply N.eqb_eq in H; rewrite H in *
  end.

Lemma pop_if_bool_frame c s ok s0 : pop_if_bool c s = Some (ok, s0) -> exists b r, ds s = b :: r /\ s0 = set_ds s r.
Proof.
  unfold pop_if_bool. destruct (ds s) as [|b r]; [discriminate|].
  repeat (first [break_match | break_if]); try discriminate; intros [= _ <-]; eauto.
Qed.

Ltac use_stack_specs :=
  repeat match goal with
  | H : pop_if_bool _ _ = Some (_, _) |- _ => apply pop_if_bool_frame in H; destruct H as (? & ? & ? & ?); subst
  | H : dup_n _ _ = Some _ |- _ => apply dup_n_spec in H; destruct H as (_ & _ & _ & H)
  | H : over_n _ _ = Some _ |- _ => apply over_n_spec in H; destruct H as (? & ? & ? & _ & _ & _ & _ & _ & H)
  | H : swap_n _ _ = Some _ |- _ => apply swap_n_spec in H; destruct H as (? & ? & ? & _ & _ & _ & _ & _ & H)
  | H : rot_n _ _ = Some _ |- _ => apply rot_n_spec in H; destruct H as (? & ? & ? & ? & _ & _ & _ & _ & _ & _ & H)
  | H : pick_n _ _ = Some _ |- _ => apply pick_n_spec in H; destruct H as (_ & ? & _ & _ & _ & H)
  end.

Ltac frame_goal :=
  repeat match goal with H : ds _ = _ |- _ => rewrite ?H in * end;
  first
  [ apply (frame_rel_mono 0); [apply PeanoNat.Nat.le_0_l | unfold frame_rel; try_skip]
  | concretize; unfold frame_rel;
    match goal with |- context [arity ?k] => let r := eval vm_compute in (arity k) in change (arity k) with r end;
    first [ try_skip
          | cbn [skipn ds als set_ds set_als set_cond set_nops set_sep set_early];
            match goal with H : skipn ?n ?l = _ |- exists m, skipn m ?l = _ => exists n; rewrite H; reflexivity end ] ].

Ltac leaf :=
  repeat (first [break_match | break_if]); try discriminate;
  intros [= <-]; use_stack_specs;
  (split; [frame_goal | intros; first [reflexivity | discriminate]]).

Theorem handler_frame so c p idx s s' :
  p_real p = true -> is_sigop (p_val p) = false -> (p_val p =? OP_ROLL)%N = false ->
  exec_handler so c p idx s = OOk s' ->
  frame_rel (arity (p_val p)) (ds s) (ds s') /\
  ((p_val p =? OP_TOALTSTACK)%N = false -> (p_val p =? OP_FROMALTSTACK)%N = false -> als s' = als s).
Proof.
  intros Hreal Hsig Hroll.
  destruct frame_helpers as (Hv & Hu & Hb & Hn).
  unfold exec_handler. rewrite Hreal. cbn [negb].
  unfold push_num, push_bool, push.
  repeat match goal with
  | |- (if (?v =? ?k)%N then _ else _) = _ -> _ => destruct (v =? k)%N eqn:?
  | |- (if (?v <=? ?k)%N then _ else _) = _ -> _ => destruct (v <=? k)%N eqn:?
  | |- (if ((?v =? ?k)%N || _) then _ else _) = _ -> _ => destruct (v =? k)%N eqn:?; cbn [orb]
  | |- (if ((?a <=? ?v)%N && (?v <=? ?b)%N) then _ else _) = _ -> _ => destruct ((a <=? v)%N && (v <=? b)%N) eqn:?
  | |- (if (_ || _) then _ else _) = _ -> _ => break_if
  end;
  try discriminate;
  try solve [ exfalso; concretize; vm_compute in Hsig; discriminate ];
  try solve [ leaf ];
  try solve [ intros H; apply Hn in H; subst s'; split; [exists (arity (p_val p)); reflexivity | reflexivity] ];
  try solve [ intros H; first [apply Hv in H | apply Hu in H | apply Hb in H]; destruct H as [H1 H2];
              split; [ concretize; eapply frame_rel_mono; [|exact H1]; vm_compute; lia | intros; exact H2 ] ].
  - (* OP_AND / OP_OR / OP_XOR *)
    assert (Har : arity (p_val p) = 2%nat).
    { repeat match goal with
      | H : (_ || _) = true |- _ => apply orb_true_iff in H; destruct H as [H|H]
      end; match goal with H : (p_val p =? _)%N = true |- _ => apply N.eqb_eq in H; rewrite H end; reflexivity. }
    rewrite Har. destruct (ds s) as [|a [|b r]]; try discriminate.
    destruct (negb _); [discriminate|]. intros [= <-]. split; [exists 1%nat; reflexivity|intros; reflexivity].
  - (* OP_NUMEQUALVERIFY *)
    match goal with H : (p_val p =? OP_NUMEQUALVERIFY)%N = true |- _ => apply N.eqb_eq in H; rewrite H in * end.
    change (arity OP_NUMEQUALVERIFY) with 2%nat.
    intros H. apply binary_then_verify in H. destruct H as [H1 H2]. split; [exact H1|intros; exact H2].
Qed.

(** OP_ROLL moves one item to the top; all others keep their values and relative order *)
Theorem roll_frame so c p idx s s' :
  p_real p = true -> p_val p = OP_ROLL -> exec_handler so c p idx s = OOk s' ->
  exists nb a x rest, ds s = nb :: a ++ x :: rest /\ ds s' = x :: a ++ rest /\ als s' = als s.
Proof.
  intros Hreal Hv. unfold exec_handler. rewrite Hreal, Hv. cbn [negb].
  repeat match goal with
  | |- context [(OP_ROLL =? ?k)%N] => let r := eval vm_compute in (OP_ROLL =? k)%N in change (OP_ROLL =? k)%N with r
  | |- context [(OP_ROLL <=? ?k)%N] => let r := eval vm_compute in (OP_ROLL <=? k)%N in change (OP_ROLL <=? k)%N with r
  end.
  cbn [orb].
  destruct (ds s) as [|nb r] eqn:Ed; [discriminate|].
  destruct (pop_num c nb); [|discriminate].
  destruct (roll_n (to_int32 z) r) as [d'|] eqn:Er; [|discriminate].
  intros [= <-]. apply roll_n_spec in Er. destruct Er as (_ & a & x & rest & -> & _ & -> & _).
  exists nb, a, x, rest. auto.
Qed.

(** a whole step (thread.executeOpcode): the same frame, and an opcode skipped in a non-executing branch
    changes neither stack *)
Theorem step_frame so c p idx s s' :
  p_real p = true -> is_sigop (p_val p) = false -> (p_val p =? OP_ROLL)%N = false ->
  execute_opcode so c p idx s = OOk s' ->
  frame_rel (arity (p_val p)) (ds s) (ds s') /\
  ((p_val p =? OP_TOALTSTACK)%N = false -> (p_val p =? OP_FROMALTSTACK)%N = false -> als s' = als s).
Proof.
  intros Hreal Hsig Hroll. unfold execute_opcode.
  repeat match goal with |- (if ?b then _ else _) = _ -> _ => destruct b eqn:? end; try discriminate.
  all: try (intros [= <-]; split; [exists (arity (p_val p)); destruct (OP_16 <? p_val p)%N; reflexivity
                                  | intros; destruct (OP_16 <? p_val p)%N; reflexivity]).
  all: intros H; apply handler_frame in H; auto;
       destruct (OP_16 <? p_val p)%N; exact H.
Qed.

(** the alt-stack opcodes move exactly one item between the stacks *)
Theorem altstack_frame so c p idx s s' :
  p_real p = true -> exec_handler so c p idx s = OOk s' ->
  (p_val p = OP_TOALTSTACK -> exists t, ds s = t :: ds s' /\ als s' = t :: als s) /\
  (p_val p = OP_FROMALTSTACK -> exists t, als s = t :: als s' /\ ds s' = t :: ds s).
Proof.
  intros Hreal H. split; intros Hv; unfold exec_handler in H; rewrite Hreal, Hv in H; cbn [negb] in H.
  - repeat match type of H with
    | context [(OP_TOALTSTACK =? ?k)%N] => let r := eval vm_compute in (OP_TOALTSTACK =? k)%N in change (OP_TOALTSTACK =? k)%N with r in H
    | context [(OP_TOALTSTACK <=? ?k)%N] => let r := eval vm_compute in (OP_TOALTSTACK <=? k)%N in change (OP_TOALTSTACK <=? k)%N with r in H
    end.
    cbn [orb] in H. destruct (ds s) as [|t r]; [discriminate|]. injection H as <-. exists t. auto.
  - repeat match type of H with
    | context [(OP_FROMALTSTACK =? ?k)%N] => let r := eval vm_compute in (OP_FROMALTSTACK =? k)%N in change (OP_FROMALTSTACK =? k)%N with r in H
    | context [(OP_FROMALTSTACK <=? ?k)%N] => let r := eval vm_compute in (OP_FROMALTSTACK <=? k)%N in change (OP_FROMALTSTACK <=? k)%N with r in H
    end.
    cbn [orb] in H. destruct (als s) as [|t r]; [discriminate|]. injection H as <-. exists t. auto.
Qed.
