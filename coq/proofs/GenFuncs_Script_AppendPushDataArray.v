(** Script.AppendPushDataArray (bscript/script.go), as printed from the Go source (it calls the PRINTED EncodeParts), is
    [append_push_data_array] of model/Inscription.v (C20).  The receiver's target [*s] is state: the printed function takes
    it and returns it with the error; on an error the script is unchanged.  Hypothesis (Go's): parts shorter than 2^63. *)
From Coq Require Import List ZArith NArith Bool Lia ZifyN ZifyNat ZifyBool.
From Coq Require Import Strings.Byte.
From GoBT Require Import lib.Bytes lib.GoSem gen.Funcs proofs.GenFuncsTac proofs.GenFuncs_PushDataPrefix proofs.GenFuncs_EncodeParts.
From GoBT Require model.Push model.Inscription.
Import ListNotations.
Local Open Scope Z_scope.

(** (new *s, error) from the model's option: on an error the script is unchanged *)
Definition of_append (s : bytes) (o : option bytes) : bytes * bool :=
  match o with Some s' => (s', false) | None => (s, true) end.

Lemma Script_AppendPushDataArray_is_model (dd : list bytes) (s : bytes) : Forall part_fits dd ->
  Script_AppendPushDataArray dd s = Val (of_append s (Inscription.append_push_data_array s dd)).
Proof.
  intros H. unfold Script_AppendPushDataArray, Inscription.append_push_data_array. cbv zeta.
  rewrite (EncodeParts_is_model dd H). unfold of_option, of_append.
  destruct (Push.encode_parts dd); reflexivity.
Qed.
