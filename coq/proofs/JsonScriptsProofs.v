(** Node-dialect marshalling for ANY script bytes: the oracle hypotheses of proofs/JsonProofs.v discharged by
    the theorems about bscript's inspection code (proofs/ClassifyProofs.v, proofs/TemplateProofs.v). *)
From Coq Require Import List NArith Lia ZifyN ZifyNat ZifyBool ZArith Bool String.
From Coq Require Import Strings.Byte.
From GoBT Require Import lib.Bytes lib.Hex lib.Checked lib.Parse lib.VarInt model.Push model.Asm model.Classify
  spec.PushSpec spec.TemplateSpec proofs.PushProofs proofs.ClassifyProofs proofs.TemplateProofs
  model.Tx proofs.TxProofs model.Amount proofs.AmountProofs model.Json proofs.JsonProofs proofs.AuditC16 model.JsonScripts.
Import ListNotations.
Local Open Scope N_scope.

(** PublicKeyHash of the exact 25-byte template is its hash; hence Addresses never returns an error (it asks
    PublicKeyHash only after IsP2PKH) *)
Lemma public_key_hash_p2pkh s : is_p2pkh_t s -> is_ok (public_key_hash s).
Proof.
  intros (h & Hl & ->).
  do 20 (destruct h as [|? h]; [discriminate Hl|]). destruct h; [|discriminate Hl].
  eexists. vm_compute. reflexivity.
Qed.

Theorem addresses_ok s : is_ok (addresses s).
Proof.
  unfold addresses. destruct (is_p2pkh_ok s) as [a Ha]. rewrite Ha. cbn [obind].
  destruct a; [|apply is_ok_ok].
  destruct (public_key_hash_p2pkh s (is_p2pkh_true_inv s Ha)) as [h Hh]. rewrite Hh. cbn [obind]. apply is_ok_ok.
Qed.

(** what the node marshaller asks about a script always has an answer: never a panic, never an error *)
Theorem node_output_ok s : is_ok (node_output s).
Proof.
  unfold node_output.
  destruct (to_asm_ok s) as [asm ->]. cbn [obind].
  destruct (addresses_ok s) as [a ->]. cbn [obind].
  destruct (script_type_ok s) as [t ->]. cbn [obind]. apply is_ok_ok.
Qed.

Theorem script_info_bscript_ok s : exists i, script_info_bscript s = JOk i.
Proof.
  unfold script_info_bscript. destruct (node_output_ok s) as [[[asm n] t] ->]. eexists. reflexivity.
Qed.

Theorem script_info_bscript_no_panic s : script_info_bscript s <> JPanic.
Proof. destruct (script_info_bscript_ok s) as [i ->]. discriminate. Qed.

(** the asm of the document is ToASM's, the type is ScriptType's, reqSigs the number of addresses *)
Theorem script_info_bscript_spec s asm n ty : script_info_bscript s = JOk (asm, n, ty) ->
  to_asm s = Ok asm /\ (exists a, addresses s = Ok a /\ n = lenNg a) /\ exists t, script_type s = Ok t /\ ty = stype_name t.
Proof.
  unfold script_info_bscript, node_output.
  destruct (to_asm s) as [asm'| | |]; cbn [obind]; try discriminate.
  destruct (addresses s) as [a| | |]; cbn [obind]; try discriminate.
  destruct (script_type s) as [t| | |]; cbn [obind]; try discriminate.
  intros [= <- <- <-]. repeat split; eauto.
Qed.

(** ** the node dialect, any script bytes *)

(** marshalling a transaction whose locking scripts are set - whatever bytes they and the unlocking scripts
    hold - does not panic, and succeeds *)
Theorem node_marshal_tx_any_script_no_panic g : outs_set g -> node_marshal_tx script_info_bscript g <> JPanic.
Proof. apply node_marshal_tx_no_panic. exact script_info_bscript_no_panic. Qed.

Theorem node_marshal_tx_any_script_ok g : outs_set g -> exists j, node_marshal_tx script_info_bscript g = JOk j.
Proof. apply node_marshal_tx_ok. exact script_info_bscript_ok. Qed.

(** ... and what it produces unmarshals to the transaction (identical serialisation, hence txid) *)
Theorem node_tx_json_roundtrip_any_script prev g : wf_gtx g -> ~ ambiguous (plain_tx g) ->
  exists j, node_marshal_tx script_info_bscript g = JOk j /\ node_unmarshal_tx prev j = JOk (tx_back g).
Proof.
  intros Hw Ha. destruct (node_marshal_tx_any_script_ok g (proj1 Hw)) as [j Hj]. exists j. split; [exact Hj|].
  exact (node_tx_json_roundtrip script_info_bscript prev g j Hw Ha Hj).
Qed.

Theorem node_txs_json_roundtrip_any_script l : Forall wf_gtx l -> Forall (fun g => ~ ambiguous (plain_tx g)) l ->
  exists js, node_marshal_txs script_info_bscript l = JOk js /\ node_unmarshal_txs js = JOk (map tx_back l).
Proof.
  intros Hw Ha.
  assert (exists js, node_marshal_txs script_info_bscript l = JOk js) as [js Hjs].
  { unfold node_marshal_txs. clear Ha. induction Hw as [|g l Hg Hl IH]; cbn [jmapM]; [eexists; reflexivity|].
    destruct (node_marshal_tx_any_script_ok g (proj1 Hg)) as [j ->]. destruct IH as [js ->]. cbn [jbind]. eexists. reflexivity. }
  exists js. split; [exact Hjs|]. exact (node_txs_json_roundtrip script_info_bscript l js Hw Ha Hjs).
Qed.

(** a single output: any script bytes, any amount up to 21e14 *)
Theorem node_output_roundtrip_any_script o : wf_goutput o -> go_sats o <= max_money ->
  exists j, node_marshal_output script_info_bscript o = JOk j /\
            node_unmarshal_output (Some j) = JOk (mkGOutput (go_sats o) (Some (script_or_empty (go_lock o)))).
Proof.
  intros Hw Hm. unfold node_marshal_output.
  assert (exists j, from_output script_info_bscript 0 o = JOk j) as [j Hj].
  { unfold from_output. unfold wf_goutput in Hw. destruct (go_lock o) as [s|]; [|congruence]. cbn [deref jbind].
    destruct (script_info_bscript_ok s) as [i ->]. cbn [jbind]. eexists. reflexivity. }
  exists j. split; [exact Hj|]. exact (node_output_roundtrip script_info_bscript 0 o j Hm Hj).
Qed.

(** the documents of one script (corr/C16.v evaluates this on the observed scripts) always exist *)
Theorem node_script_docs_ok s : exists d, node_script_docs s = JOk d.
Proof.
  unfold node_script_docs, from_output, from_input. cbn [go_lock gi_unlock deref jbind].
  destruct (script_info_bscript_ok s) as [i ->]. cbn [jbind]. eexists. reflexivity.
Qed.
