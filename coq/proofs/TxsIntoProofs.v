(** Txs.ReadFrom with an explicit destination (model/TxsInto.v) refines [read_txs]: what the destination holds after
    a successful read is the list [read_txs] yields - in particular it does not depend on what it held before. *)
From Coq Require Import List NArith Lia.
From Coq Require Import Strings.Byte.
From GoBT Require Import lib.Bytes lib.Parse lib.VarInt model.Tx model.TxsInto proofs.TxLocal.
Import ListNotations.
Local Open Scope N_scope.

Definition item : parser (parsed * bool) := fun b => pmap (fun p => (p, p_min p)) (read_tx b).

Definition loop_agrees (acc : list parsed) (n : N) (r : pres (list parsed * bool)) (i : into_res) : Prop :=
  match r with
  | POk lm k rest => i = IOk (acc ++ fst lm) (n + k) rest
  | PErr k => exists d, i = IErr d (n + k)
  | PFuel => i = IFuel
  end.

Lemma loop_refines fuel : forall count acc n bs,
  loop_agrees acc n (read_many fuel item count bs) (read_txs_loop fuel count acc n bs).
Proof.
  induction fuel as [|f IH]; intros count acc n bs; cbn [read_many read_txs_loop];
    destruct (count =? 0) eqn:Ec.
  - unfold pret, loop_agrees; cbn [fst]. rewrite app_nil_r, N.add_0_r. reflexivity.
  - reflexivity.
  - unfold pret, loop_agrees; cbn [fst]. rewrite app_nil_r, N.add_0_r. reflexivity.
  - unfold item at 1. destruct (read_tx bs) as [p m rest|m|]; cbn [pmap pbind].
    + specialize (IH (count - 1) (acc ++ [p]) (n + m) rest).
      destruct (read_many f item (count - 1) rest) as [[l mn] k r2|k|]; cbn [pbind pret loop_agrees fst snd] in *.
      * rewrite IH, <- app_assoc. cbn [app]. f_equal. lia.
      * destruct IH as (d & ->). exists d. f_equal. lia.
      * exact IH.
    + exists acc. reflexivity.
    + reflexivity.
Qed.

Definition into_agrees (r : pres (list parsed * bool)) (i : into_res) : Prop :=
  match r with
  | POk lm n rest => i = IOk (fst lm) n rest
  | PErr n => exists d, i = IErr d n
  | PFuel => i = IFuel
  end.

Theorem read_txs_into_refines dst bs : into_agrees (read_txs bs) (read_txs_into dst bs).
Proof.
  unfold read_txs, read_txs_into.
  destruct (read_varint bs) as [c n r|n|]; cbn [pbind]; [|exists dst; reflexivity|reflexivity].
  pose proof (loop_refines (S (length bs)) (fst c) [] n r) as H. fold item.
  destruct (read_many (S (length bs)) item (fst c) r) as [[l mn] k r2|k|];
    cbn [pbind pret loop_agrees into_agrees fst snd app] in *.
  - rewrite H. f_equal. lia.
  - destruct H as (d & ->). exists d. reflexivity.
  - exact H.
Qed.

(** the statement with the destination visible: success, the list, the bytes consumed and the remainder are the
    same for every previous content of the destination, and they are those of [read_txs] *)
Theorem read_txs_into_destination_irrelevant d1 bs l n rest :
  read_txs_into d1 bs = IOk l n rest ->
  (forall d2, read_txs_into d2 bs = IOk l n rest) /\ exists m, read_txs bs = POk (l, m) n rest.
Proof.
  intros H. pose proof (read_txs_into_refines d1 bs) as R.
  destruct (read_txs bs) as [[l' m] n' rest'|n'|] eqn:E; cbn [into_agrees fst] in R.
  - rewrite H in R. injection R as -> -> ->. split; [|exists m; reflexivity].
    intros d2. pose proof (read_txs_into_refines d2 bs) as R2. rewrite E in R2. exact R2.
  - destruct R as (d & R). rewrite H in R. discriminate.
  - rewrite H in R. discriminate.
Qed.

Theorem read_txs_into_of_read_txs bs l m n rest :
  read_txs bs = POk (l, m) n rest -> forall dst, read_txs_into dst bs = IOk l n rest.
Proof. intros E dst. pose proof (read_txs_into_refines dst bs) as R. rewrite E in R. exact R. Qed.

Theorem read_txs_into_never_out_of_fuel dst bs : read_txs_into dst bs <> IFuel.
Proof.
  pose proof (read_txs_into_refines dst bs) as R. pose proof (read_txs_never_out_of_fuel bs) as F.
  destruct (read_txs bs) as [lm n rest|n|]; cbn [into_agrees] in R; [rewrite R; discriminate| |congruence].
  destruct R as (d & ->). discriminate.
Qed.
