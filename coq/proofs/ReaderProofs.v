(** io.ReadFull over any reader depends on the reader's content and final error only (model/Reader.v), and so does
    every program whose only access to the reader is io.ReadFull. *)
From Coq Require Import List Arith NArith Bool Lia.
From Coq Require Import Strings.Byte.
From GoBT Require Import lib.Bytes model.Reader.
Import ListNotations.

Definition final_status (e : rerr) (got : bytes) : status :=
  match e with
  | REOF => if is_nil got then SEOF else SUnexpectedEOF
  | ROther => SOther
  end.

(** what a (sufficiently fuelled) ReadAtLeast loop returns, in terms of the content *)
Definition ral_post (need : nat) (acc : bytes) (r : reader) (res : bytes * status * reader) : Prop :=
  let '(got, st, r') := res in
  fin r' = fin r /\ eager r' = eager r /\
  if need <=? length (content r)
  then got = acc ++ firstn need (content r) /\ st = SFull /\ content r' = skipn need (content r)
  else got = acc ++ content r /\ st = final_status (fin r) got /\ content r' = [].

Lemma ral_zero fuel acc r : read_at_least fuel 0 acc r = (acc, SFull, r).
Proof. destruct fuel; reflexivity. Qed.

Lemma ral_spec : forall fuel need acc r,
  length (evs r) < fuel -> ral_post need acc r (read_at_least fuel need acc r).
Proof.
  induction fuel as [|f IH]; intros need acc r Hf; [lia|].
  destruct need as [|m].
  - cbn. unfold ral_post. cbn. rewrite app_nil_r. auto.
  - destruct r as [ev fi ea]. cbn [evs] in Hf.
    destruct ev as [|e t].
    + (* nothing left: the final error *)
      cbn. unfold ral_post, content. cbn. rewrite !app_nil_r. auto.
    + destruct e as [c|].
      * (* a chunk *)
        cbn [read_at_least read evs fin eager].
        destruct (length c <=? S m) eqn:Hc.
        -- apply Nat.leb_le in Hc.
           assert (Hcont : content (mkReader (EData c :: t) fi ea) = c ++ content_evs t) by reflexivity.
           destruct (ea && is_nil t) eqn:Hea.
           ++ (* the error arrives with the last bytes *)
              apply andb_prop in Hea as [-> Ht]. destruct t; [|discriminate].
              unfold with_evs. cbn [fin eager].
              destruct (S m - length c) eqn:Hn.
              ** unfold ral_post. rewrite Hcont. cbn [content_evs fin eager content evs]. rewrite !app_nil_r.
                 assert (length c = S m) by lia.
                 replace (S m <=? length c) with true by (symmetry; apply Nat.leb_le; lia).
                 rewrite firstn_all2 by lia. rewrite skipn_all2 by lia. auto.
              ** unfold ral_post. rewrite Hcont. cbn [content_evs fin eager content evs]. rewrite !app_nil_r.
                 replace (S m <=? length c) with false by (symmetry; apply Nat.leb_gt; lia).
                 auto.
           ++ (* more to come *)
              unfold with_evs. cbn [fin eager].
              specialize (IH (S m - length c) (acc ++ c) (mkReader t fi ea)).
              cbn [evs] in IH. specialize (IH ltac:(cbn in Hf; lia)).
              unfold ral_post in *.
              destruct (read_at_least f (S m - length c) (acc ++ c) (mkReader t fi ea)) as [[got st] r'].
              cbv beta iota in IH |- *.
              destruct IH as (Hfin & Heag & IH). cbn [fin eager] in *.
              split; [exact Hfin|]. split; [exact Heag|].
              rewrite Hcont. change (content (mkReader t fi ea)) with (content_evs t) in IH.
              rewrite app_length.
              destruct (S m - length c <=? length (content_evs t)) eqn:Hle.
              ** apply Nat.leb_le in Hle.
                 replace (S m <=? length c + length (content_evs t)) with true by (symmetry; apply Nat.leb_le; lia).
                 destruct IH as (-> & -> & ->).
                 rewrite firstn_app, skipn_app.
                 rewrite (firstn_all2 (n:=S m) c) by lia. rewrite (skipn_all2 (n:=S m) c) by lia.
                 rewrite <- app_assoc. cbn [app]. auto.
              ** apply Nat.leb_gt in Hle.
                 replace (S m <=? length c + length (content_evs t)) with false by (symmetry; apply Nat.leb_gt; lia).
                 destruct IH as (-> & -> & ->).
                 rewrite <- app_assoc. auto.
        -- (* the chunk is longer than the buffer: it is handed out in pieces *)
           apply Nat.leb_gt in Hc.
           rewrite firstn_length_le by lia. rewrite Nat.sub_diag. rewrite ral_zero.
           unfold ral_post, content. cbn [with_evs evs fin eager content_evs].
           rewrite app_length.
           replace (S m <=? length c + length (content_evs t)) with true by (symmetry; apply Nat.leb_le; lia).
           rewrite firstn_app, skipn_app.
           replace (S m - length c) with 0 by lia. cbn [firstn skipn]. rewrite app_nil_r. auto.
      * (* (0, nil) *)
        cbn [read_at_least read evs fin eager]. unfold with_evs. cbn [fin eager]. rewrite app_nil_r.
        change (S m - length (@nil byte)) with (S m).
        specialize (IH (S m) acc (mkReader t fi ea)). cbn [evs] in IH. specialize (IH ltac:(cbn in Hf; lia)).
        unfold ral_post in *.
        destruct (read_at_least f (S m) acc (mkReader t fi ea)) as [[got st] r'].
        exact IH.
Qed.

(** io.ReadFull: the first [n] bytes of the content and nil, or - when there are fewer - all of it with io.EOF (none
    read), io.ErrUnexpectedEOF (some), or the reader's own error; the reader is left with the rest. *)
Theorem read_full_spec : forall n r, ral_post n [] r (read_full n r).
Proof. intros n r. unfold read_full. apply ral_spec. lia. Qed.

Lemma read_full_not_stuck : forall n r, snd (fst (read_full n r)) <> SStuck.
Proof.
  intros n r. pose proof (read_full_spec n r) as H. unfold ral_post in H.
  destruct (read_full n r) as [[got st] r']. cbn.
  destruct H as (_ & _ & H). destruct (n <=? length (content r)).
  - destruct H as (_ & -> & _). discriminate.
  - destruct H as (_ & -> & _). unfold final_status. destruct (fin r); [destruct (is_nil got)|]; discriminate.
Qed.

(** two readers with the same content and the same final error answer io.ReadFull alike and are left alike *)
Lemma read_full_content : forall n r1 r2,
  content r1 = content r2 -> fin r1 = fin r2 ->
  fst (read_full n r1) = fst (read_full n r2) /\
  content (snd (read_full n r1)) = content (snd (read_full n r2)) /\
  fin (snd (read_full n r1)) = fin (snd (read_full n r2)).
Proof.
  intros n r1 r2 Hc Hf.
  pose proof (read_full_spec n r1) as H1. pose proof (read_full_spec n r2) as H2. unfold ral_post in *.
  destruct (read_full n r1) as [[g1 s1] r1']. destruct (read_full n r2) as [[g2 s2] r2']. cbn.
  destruct H1 as (F1 & _ & H1). destruct H2 as (F2 & _ & H2).
  rewrite <- Hc, <- Hf in H2.
  destruct (n <=? length (content r1)).
  - destruct H1 as (-> & -> & ->). destruct H2 as (-> & -> & ->). rewrite Hc. repeat split; congruence.
  - destruct H1 as (-> & -> & ->). destruct H2 as (-> & -> & ->). repeat split; congruence.
Qed.

(** a decoder that only uses io.ReadFull computes the same result on both, and leaves the same bytes unread *)
Theorem run_depends_on_content_only : forall A (p : prog A) r1 r2,
  content r1 = content r2 -> fin r1 = fin r2 ->
  fst (run p r1) = fst (run p r2) /\ content (snd (run p r1)) = content (snd (run p r2)).
Proof.
  intros A p. induction p as [a|n k IH]; intros r1 r2 Hc Hf.
  - cbn. auto.
  - cbn [run].
    destruct (read_full_content n r1 r2 Hc Hf) as (E & C & F).
    destruct (read_full n r1) as [[g1 s1] r1']. destruct (read_full n r2) as [[g2 s2] r2'].
    cbn in E, C, F. inversion E; subst. apply IH; assumption.
Qed.

(** in particular: what it computes through ANY reader is what it computes on the plain byte string *)
Corollary run_as_on_plain_bytes : forall A (p : prog A) r,
  fst (run p r) = fst (run p (plain (content r) (fin r))).
Proof.
  intros A p r. apply run_depends_on_content_only.
  - unfold plain, content. cbn. rewrite app_nil_r. reflexivity.
  - reflexivity.
Qed.

(** it never reads past what it asked for: the bytes taken from the reader are a prefix of its content, and what is
    left is the rest (so "bytes consumed" is the same number through every reader) *)
Lemma read_full_consumes_prefix : forall n r,
  content r = fst (fst (read_full n r)) ++ content (snd (read_full n r)).
Proof.
  intros n r. pose proof (read_full_spec n r) as H. unfold ral_post in H.
  destruct (read_full n r) as [[got st] r']. cbn.
  destruct H as (_ & _ & H). destruct (n <=? length (content r)).
  - destruct H as (-> & _ & ->). cbn. symmetry. apply firstn_skipn.
  - destruct H as (-> & _ & ->). cbn. rewrite app_nil_r. reflexivity.
Qed.

(** non-vacuity: a length-prefixed field (one length byte, then that many bytes) through a reader that hands out one
    and two bytes at a time with (0, nil) answers in between and the EOF together with the last byte, and through the
    plain byte string *)
Definition field_prog : prog (option bytes) :=
  ReadFull 1 (fun l st =>
    match st, l with
    | SFull, [b] => ReadFull (N.to_nat (b2n b)) (fun body st2 => match st2 with SFull => Ret (Some body) | _ => Ret None end)
    | _, _ => Ret None
    end).

Example field_through_awkward_reader :
  fst (run field_prog (mkReader [EStall; EData [x03]; EStall; EData [x0a; x0b]; EData []; EData [x0c; x0d]] REOF true))
  = Some [x0a; x0b; x0c] /\
  fst (run field_prog (plain [x03; x0a; x0b; x0c; x0d] REOF)) = Some [x0a; x0b; x0c] /\
  fst (run field_prog (mkReader [EData [x03; x0a]; EData [x0b]] ROther false)) = None.
Proof. vm_compute. auto. Qed.
