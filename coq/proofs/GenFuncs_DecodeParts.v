(** bscript.DecodeParts (bscript/oppushdata.go), as printed from the Go source, is [decode_parts] of model/Push.v
    (C13, C14, C16, C20), for every input, panic and fuel outcomes included (both are then unreachable by
    [PushProofs.decode_parts_total]: the printed function never panics and its fuel [S (length b)] suffices).
    The loop [for len(b) > 0] is printed as [go_for] without a post statement; it is compared with a pure step function
    written over the model's [decode_step_clean] (proofs/GenFuncsLoopTac.v: [go_for_pure]). *)
From Coq Require Import List ZArith NArith Bool Lia ZifyN ZifyNat ZifyBool.
From Coq Require Import Strings.Byte.
From GoBT Require Import lib.Bytes lib.GoSem lib.GoInterp gen.Funcs proofs.GenFuncsTac proofs.GenFuncsLoopTac proofs.GenFuncsScriptTac.
From GoBT Require model.Push proofs.PushProofs.
Import ListNotations.
Ltac Zify.zify_post_hook ::= Z.div_mod_to_equations.
Local Open Scope Z_scope.

(** ([][]byte, error) of the Go function from the model's result *)
Definition of_dres (r : Push.dres) : M (list bytes * bool) :=
  match r with
  | Push.DOk l => Val (l, false) | Push.DErr l => Val (l, true) | Push.DPanic => Panic | Push.DFuel => NoFuel
  end.

Notation dstate := (bytes * list bytes)%type (only parsing).
Notation dres_t := (list bytes * bool)%type (only parsing).

Definition d_cond (s : dstate) : bool := 0 <? go_len (fst s).
(** one iteration, over the model's step: a part is appended to the parts so far *)
Definition d_body (s : dstate) : ctl dstate dres_t :=
  match Push.decode_step_clean (fst s) with
  | Push.DSPart p rest => Next (rest, snd s ++ [p])
  | Push.DSErr => Return (snd s, true)
  | Push.DSPanic => Return (snd s, true)       (* unreachable on a non-empty slice *)
  end.

Lemma le_dec_2_lt a b : (le_dec [a; b] < 65536)%N.
Proof. pose proof (le_dec_lt [a; b]) as H. cbn [length] in H. exact H. Qed.
Lemma le_dec_4_lt a b c d : (le_dec [a; b; c; d] < 4294967296)%N.
Proof. pose proof (le_dec_lt [a; b; c; d]) as H. cbn [length] in H. exact H. Qed.

(** the data part of a push: [if len(b) < l {error}; part := b[:l]; b = b[l:]] against [take_data] *)
Ltac take_tail r lN :=
  unfold Push.take_data;
  let E := fresh "E" in
  destruct (N.ltb_spec (lenN r) lN) as [E|E];
  slice_norm; try (repeat f_equal; unfold go_add, go_conv, go_wrap, b2z; lia).


Ltac d_case :=
  unfold go_conv, go_add, go_sub, go_wrap, go_append_item, go_bytes_lit;
  slice_norm; cbn [le_dec map]; byte_bounds;
  try match goal with |- context [Push.take_data ?l ?t] =>
    unfold Push.take_data; let E := fresh "E" in destruct (N.ltb_spec (lenN t) l) as [E|E]
  end;
  slice_norm; rewrite ?z2b_of_N, ?n2b_b2n; first [reflexivity | repeat f_equal; lia].

(** the pure loop is the model's recursion, with the parts decoded so far in front *)
Definition d_finish (a : after dstate dres_t) : M dres_t :=
  match a with Fall s => Val (snd s, false) | Returned t => Val t end.
Definition of_dres_acc (acc : list bytes) (r : Push.dres) : M dres_t :=
  match r with
  | Push.DOk l => Val (acc ++ l, false) | Push.DErr l => Val (acc ++ l, true) | Push.DPanic => Panic | Push.DFuel => NoFuel
  end.

Lemma d_loop_model : forall (b : bytes) (fuel : nat) (acc : list bytes), (length b <= fuel)%nat ->
  d_finish (for_pure d_cond d_body (fun s => s) fuel (b, acc)) = of_dres_acc acc (Push.decode_parts b).
Proof.
  induction b as [b IH] using PushProofs.bytes_len_ind. intros fuel acc Hf.
  destruct b as [|b0 r].
  - destruct fuel; cbn; rewrite app_nil_r; reflexivity.
  - destruct fuel as [|fuel]; [cbn [length] in Hf; lia|].
    rewrite PushProofs.decode_parts_cons. cbn [for_pure]. unfold d_cond at 1. cbn [fst].
    rewrite go_len_cons. replace (0 <? 1 + go_len r) with true by (pose proof (go_len_nonneg r); lia). cbn [negb].
    unfold d_body at 1. cbn [fst snd].
    destruct (Push.decode_step_clean (b0 :: r)) as [p rest| |] eqn:E.
    + pose proof (PushProofs.decode_step_clean_shorter _ _ _ E) as Hs. cbn [length] in Hs, Hf.
      rewrite (IH rest) by (cbn [length]; lia).
      destruct (Push.decode_parts rest); cbn [Push.dcons of_dres_acc]; rewrite <- ?app_assoc; reflexivity.
    + cbn. rewrite app_nil_r. reflexivity.
    + exfalso. eapply PushProofs.decode_step_clean_no_panic; eauto.
Qed.

Lemma DecodeParts_is_model (b : bytes) : DecodeParts b = of_dres (Push.decode_parts b).
Proof.
  unfold DecodeParts. cbv zeta.
  rewrite (go_for_pure (fun _ => True) (fun s => length (fst s)) _ _ _ d_cond d_body (fun s => s)).
  - cbn [bind].
    match goal with |- match ?a with _ => _ end = _ =>
      assert (H : d_finish a = of_dres_acc [] (Push.decode_parts b)) by (apply d_loop_model; lia);
      destruct a as [[b' r']|t]
    end; cbn [d_finish snd] in H; cbv beta iota; (etransitivity; [exact H|]); destruct (Push.decode_parts b); reflexivity.
  - (* condition *) intros [b1 r1] _. unfold d_cond. cbn [fst]. pose proof (go_len_nonneg b1). apply Val_inj. lia.
  - (* body: by the model's case analysis of the first byte *)
    intros [b1 r1] _ Hc. unfold d_cond in Hc. cbn [fst] in Hc.
    destruct b1 as [|b0 r]; [cbn in Hc; discriminate|]. clear Hc.
    unfold d_body. cbn [fst snd Push.decode_step_clean].
    pose proof (b2n_lt b0) as Hb0.
    destruct (PushProofs.push_kind_cases (b2n b0) Hb0) as [[Hr K]|[[Hr K]|[[Hr K]|[[Hr K]|[Hr K]]]]]; rewrite K.
    all: byte_bounds.
    + (* OP_PUSHDATA1 *)
      destruct (N.ltb_spec (lenN r) (N.of_nat 1)) as [E|E]; [slice_norm; reflexivity|].
      explode r E 1. d_case.
    + (* OP_PUSHDATA2 *)
      destruct (N.ltb_spec (lenN r) (N.of_nat 2)) as [E|E]; [slice_norm; reflexivity|].
      explode r E 2. d_case.
    + (* OP_PUSHDATA4 *)
      destruct (N.ltb_spec (lenN r) (N.of_nat 4)) as [E|E]; [slice_norm; reflexivity|].
      explode r E 4. d_case.
    + (* a direct push *) d_case.
    + (* any other byte: a one-byte part *) destruct Hr as [Hr|Hr]; d_case.
  - (* no post statement; every iteration shortens the slice *)
    intros [b1 r1] [b2 r2] _ _ Hb. split; [reflexivity|split; [exact I|]].
    unfold d_body in Hb. cbn [fst snd] in Hb |- *.
    destruct (Push.decode_step_clean b1) as [p rest| |] eqn:E; try discriminate.
    injection Hb as <- _. exact (PushProofs.decode_step_clean_shorter _ _ _ E).
  - intros [b1 r1] _ Hm. cbn [fst] in Hm. unfold d_cond, go_len. cbn [fst]. rewrite Hm. reflexivity.
  - exact I.
  - cbn [fst]. lia.
Qed.

(** the printed function never panics and its fuel suffices *)
Corollary DecodeParts_total (b : bytes) : exists parts err, DecodeParts b = Val (parts, err).
Proof.
  rewrite DecodeParts_is_model. destruct (PushProofs.decode_parts_total b) as [H1 H2].
  destruct (Push.decode_parts b); cbn [of_dres]; try congruence; eauto.
Qed.

Example DecodeParts_example :
  DecodeParts [x00; x01; xaa; x4c; x02; x01; x02; x4d; x01; x00; x09; x6a; x4e; x01] = Val ([[x00]; [xaa]; [x01; x02]; [x09]; [x6a]], true).
Proof. vm_compute. reflexivity. Qed.
