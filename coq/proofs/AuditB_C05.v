(** Audit B, C05: statements that relate the interpreter model to something it does not already say.
    - which numbers the data stack admits as numeric operands, as a statement about magnitudes;
    - conditional execution: an opcode's handler runs exactly when every enclosing branch is taken
      (an invariant of the condition stack, different before and after Genesis);
    - OP_NUM2BIN at handler level: range checks and the meaning of the result. *)
From Coq Require Import List NArith ZArith Lia Bool.
From Coq Require Import Strings.Byte.
From GoBT Require Import lib.Bytes model.ScriptNum model.Interp proofs.ScriptNumProofs proofs.ShiftProofs proofs.InterpTotal.
Import ListNotations.
Local Open Scope Z_scope.

(** ** Numeric operands *)

Lemma max_numlen_nat c : exists k : nat, max_numlen c = Z.of_nat k /\ (1 <= k)%nat.
Proof.
  unfold max_numlen. destruct (after_genesis c); [exists (Z.to_nat 750000)|exists 4%nat]; split; try reflexivity; lia.
Qed.

(** the canonical encoding of [z] is admitted as an operand exactly when |z| < 2^(8*limit-1): before Genesis
    |z| <= 2^31 - 1, after Genesis 750000 bytes of magnitude *)
Theorem pop_num_enc : forall c z,
  pop_num c (num_enc z) = if Z.abs z <? 2 ^ (8 * max_numlen c - 1) then Some z else None.
Proof.
  intros c z. unfold pop_num, make_num. rewrite num_enc_minimal, num_dec_enc, andb_false_r.
  destruct (max_numlen_nat c) as (k & Ek & Hk1). rewrite Ek.
  pose proof (num_enc_length_iff z k Hk1) as Hiff.
  destruct (Z.ltb_spec (Z.of_nat k) (Z.of_nat (length (num_enc z)))) as [Hlen|Hlen];
  destruct (Z.ltb_spec (Z.abs z) (2 ^ (8 * Z.of_nat k - 1))) as [Habs|Habs]; try reflexivity.
  - apply Hiff in Habs. lia.
  - assert (Hle : (length (num_enc z) <= k)%nat) by lia. apply Hiff in Hle. lia.
Qed.

(** ** Conditional execution *)

Definition is_true (x : N) : bool := (x =? COND_TRUE)%N.

(** before Genesis: every entry pushed above an entry that is not TRUE is SKIP (top first) *)
Fixpoint cond_wf_pre (l : list N) : bool :=
  match l with
  | [] => true
  | t :: r => cond_wf_pre r && (forallb is_true r || (t =? COND_SKIP)%N)
  end.
(** after Genesis: SKIP never occurs *)
Definition cond_wf_post (l : list N) : bool := forallb (fun t => (t =? COND_TRUE)%N || (t =? COND_FALSE)%N) l.
Definition cond_inv (c : ctx) (s : st) : bool :=
  if after_genesis c then cond_wf_post (cond s) else cond_wf_pre (cond s).

Lemma post_all_true l : cond_wf_post l = true ->
  forallb (fun x => negb (x =? COND_FALSE)%N) l = forallb is_true l.
Proof.
  induction l as [|a l IH]; [reflexivity|]. cbn [cond_wf_post forallb]. intros Hl.
  apply andb_true_iff in Hl. destruct Hl as [Ha Hl]. fold (cond_wf_post l) in Hl.
  rewrite (IH Hl). f_equal. apply orb_true_iff in Ha.
  destruct Ha as [Ha|Ha]; apply N.eqb_eq in Ha; subst a; reflexivity.
Qed.

(** the guard under which [execute_opcode] reaches the handler of a non-conditional opcode, read off the
    condition stack: all enclosing branches taken (and, after Genesis, no OP_RETURN met yet) *)
Theorem handler_runs_iff_all_branches_taken : forall c s v,
  cond_inv c s = true ->
  branch_executing s && should_exec c s v =
  forallb is_true (cond s) && (negb (after_genesis c) || negb (early s) || (v =? OP_RETURN)%N).
Proof.
  intros c s v. unfold cond_inv, branch_executing, should_exec.
  destruct (after_genesis c); cbn [negb orb].
  - intros Hinv. rewrite (post_all_true _ Hinv).
    destruct (cond s) as [|t r]; [reflexivity|].
    cbn [cond_wf_post forallb] in Hinv. apply andb_true_iff in Hinv. destruct Hinv as [Ht _].
    cbn [forallb]. unfold is_true at 1 2.
    apply orb_true_iff in Ht. destruct Ht as [Ht|Ht]; apply N.eqb_eq in Ht; subst t; reflexivity.
  - intros Hinv. rewrite !andb_true_r. destruct (cond s) as [|t r]; [reflexivity|].
    cbn [cond_wf_pre forallb] in *. apply andb_true_iff in Hinv. destruct Hinv as [_ Hinv].
    unfold is_true at 1. destruct (t =? COND_TRUE)%N eqn:Et; [|reflexivity]. cbn [andb].
    apply orb_true_iff in Hinv. destruct Hinv as [Hall|Hskip]; [rewrite Hall; reflexivity|].
    apply N.eqb_eq in Et. subst t. discriminate Hskip.
Qed.

Lemma pop_if_bool_cond c s ok s1 : pop_if_bool c s = Some (ok, s1) -> cond s1 = cond s.
Proof.
  unfold pop_if_bool. destruct (ds s) as [|b r]; [discriminate|].
  destruct (has_flag c F_MINIMALIF).
  - destruct (Nat.ltb 1 (length b)); [discriminate|]. destruct b as [|x [|y b']].
    + intros [= _ <-]. reflexivity.
    + destruct (b2n x =? 1)%N; [|discriminate]. intros [= _ <-]. reflexivity.
    + intros [= _ <-]. reflexivity.
  - intros [= _ <-]. reflexivity.
Qed.

(** pushing an entry keeps the invariant when: SKIP only before Genesis in a non-executing branch; TRUE / FALSE
    before Genesis only in an executing branch *)
Lemma cond_inv_push c s s0 x e :
  cond_inv c s = true -> cond s0 = cond s ->
  (x = COND_SKIP -> after_genesis c = false /\ branch_executing s = false) ->
  (x <> COND_SKIP -> x = COND_TRUE \/ x = COND_FALSE) ->
  (after_genesis c = false -> x <> COND_SKIP -> branch_executing s = true) ->
  cond_inv c (set_cond s0 (x :: cond s0) e) = true.
Proof.
  intros Hinv E Hsk Htf Hbe. unfold cond_inv in *. cbn [cond set_cond]. rewrite E.
  destruct (after_genesis c).
  - cbn [cond_wf_post forallb]. fold (cond_wf_post (cond s)). rewrite Hinv, andb_true_r.
    destruct (N.eq_dec x COND_SKIP) as [Ex|Ex]; [destruct (Hsk Ex) as [Hag _]; discriminate Hag|].
    destruct (Htf Ex) as [-> | ->]; reflexivity.
  - cbn [cond_wf_pre]. rewrite Hinv. cbn [andb].
    destruct (N.eq_dec x COND_SKIP) as [Ex|Ex]; [subst x; apply orb_true_r|].
    specialize (Hbe eq_refl Ex). unfold branch_executing in Hbe.
    destruct (cond s) as [|t r]; [reflexivity|]. cbn [cond_wf_pre] in Hinv.
    apply andb_true_iff in Hinv. destruct Hinv as [_ Hinv]. cbn [forallb]. unfold is_true at 1. rewrite Hbe. cbn [andb].
    apply orb_true_iff in Hinv. destruct Hinv as [Hall|Hskip]; [rewrite Hall; reflexivity|].
    apply N.eqb_eq in Hbe. rewrite Hbe in Hskip. vm_compute in Hskip. discriminate Hskip.
Qed.

(** OP_IF and OP_NOTIF share everything but the sense of the test *)
Lemma cond_inv_if c s s' (v : N) (flip : bool -> bool) :
  cond_inv c s = true ->
  (if should_exec c s v
   then if branch_executing s
        then match pop_if_bool c s with
             | Some (ok, s0) =>
                 OOk (set_cond s0 ((if flip ok then COND_TRUE else COND_FALSE) :: cond s0)
                        (if after_genesis c then false :: els s0 else els s0))
             | None => OErr
             end
        else OOk (set_cond s (COND_SKIP :: cond s) (if after_genesis c then false :: els s else els s))
   else OOk (set_cond s (COND_FALSE :: cond s) (if after_genesis c then false :: els s else els s))) = OOk s' ->
  cond_inv c s' = true.
Proof.
  intros Hinv. destruct (should_exec c s v) eqn:Ese.
  - destruct (branch_executing s) eqn:Ebe.
    + destruct (pop_if_bool c s) as [[ok s1]|] eqn:Ep; [|discriminate].
      pose proof (pop_if_bool_cond _ _ _ _ Ep) as E1.
      intros [= <-]. apply (cond_inv_push c s); auto.
      * destruct (flip ok); discriminate.
      * intros _. destruct (flip ok); auto.
    + intros [= <-]. apply (cond_inv_push c s); auto; try congruence.
      intros _. split; [|exact Ebe]. unfold cond_inv in Hinv. destruct (after_genesis c) eqn:Eag; [|reflexivity]. exfalso.
      unfold should_exec in Ese. rewrite Eag in Ese. cbn [negb] in Ese. apply andb_true_iff in Ese. destruct Ese as [Ese _].
      rewrite (post_all_true _ Hinv) in Ese. unfold branch_executing in Ebe. destruct (cond s) as [|t r]; [discriminate|].
      cbn [forallb] in Ese. apply andb_true_iff in Ese. destruct Ese as [Et _]. unfold is_true in Et. congruence.
  - intros [= <-]. apply (cond_inv_push c s); auto; try discriminate.
    intros Eag. unfold should_exec in Ese. rewrite Eag in Ese. discriminate.
Qed.

Lemma cond_inv_handler_conditional so c p idx s s' :
  p_real p = true -> is_conditional (p_val p) = true -> cond_inv c s = true ->
  (exec_handler so c p idx s = OOk s' \/ exec_handler so c p idx s = OReturn s') -> cond_inv c s' = true.
Proof.
  intros Hreal Hc Hinv. unfold exec_handler. rewrite Hreal. cbn [negb].
  unfold is_conditional in Hc.
  repeat (apply orb_true_iff in Hc; destruct Hc as [Hc|Hc]); apply N.eqb_eq in Hc; rewrite Hc;
    cbn -[should_exec branch_executing pop_if_bool set_cond after_genesis has_flag cond_inv].
  - (* OP_IF *) intros [H|H]; [|destruct (should_exec c s OP_IF); [destruct (branch_executing s); [destruct (pop_if_bool c s) as [[? ?]|]|]|]; discriminate].
    exact (cond_inv_if c s s' OP_IF (fun b => b) Hinv H).
  - (* OP_NOTIF *) intros [H|H]; [|destruct (should_exec c s OP_NOTIF); [destruct (branch_executing s); [destruct (pop_if_bool c s) as [[? ?]|]|]|]; discriminate].
    exact (cond_inv_if c s s' OP_NOTIF negb Hinv H).
  - (* OP_ELSE *)
    unfold cond_inv in *. destruct (cond s) as [|t cr] eqn:Ec; [intros [H|H]; discriminate|].
    destruct (after_genesis c) eqn:Eag.
    + destruct (els s) as [|e er]; [intros [H|H]; discriminate|]. destruct e; [intros [H|H]; discriminate|].
      intros [H|H]; [|discriminate]. injection H as <-. cbn [cond set_cond]. cbn [cond_wf_post forallb] in *.
      apply andb_true_iff in Hinv. destruct Hinv as [Ht Hr]. rewrite Hr, andb_true_r.
      apply orb_true_iff in Ht. destruct Ht as [Ht|Ht]; apply N.eqb_eq in Ht; subst t; reflexivity.
    + intros [H|H]; [|discriminate]. injection H as <-. cbn [cond set_cond]. cbn [cond_wf_pre] in *.
      apply andb_true_iff in Hinv. destruct Hinv as [Hr Ht]. rewrite Hr. cbn [andb].
      apply orb_true_iff in Ht. destruct Ht as [Ht|Ht]; [rewrite Ht; reflexivity|].
      apply N.eqb_eq in Ht. subst t. cbn. apply orb_true_r.
  - (* OP_ENDIF *)
    unfold cond_inv in *. destruct (cond s) as [|t cr] eqn:Ec; [intros [H|H]; discriminate|].
    destruct (after_genesis c) eqn:Eag.
    + destruct (els s) as [|e er]; [intros [H|H]; discriminate|].
      intros [H|H]; [|discriminate]. injection H as <-. cbn [cond set_cond]. cbn [cond_wf_post forallb] in Hinv.
      apply andb_true_iff in Hinv. apply Hinv.
    + intros [H|H]; [|discriminate]. injection H as <-. cbn [cond set_cond]. cbn [cond_wf_pre] in Hinv.
      apply andb_true_iff in Hinv. apply Hinv.
  - (* OP_VERIF *)
    destruct (after_genesis c && negb (should_exec c s OP_VERIF)); intros [H|H]; try discriminate. injection H as <-. exact Hinv.
  - (* OP_VERNOTIF *)
    destruct (after_genesis c && negb (should_exec c s OP_VERNOTIF)); intros [H|H]; try discriminate. injection H as <-. exact Hinv.
Qed.

Lemma cond_inv_ext c s s1 : cond s1 = cond s -> cond_inv c s1 = cond_inv c s.
Proof. intros E. unfold cond_inv. rewrite E. reflexivity. Qed.

(** one step of the interpreter keeps the invariant *)
Theorem cond_inv_step : forall so c p idx s s', sigops_ok so -> p_real p = true ->
  (c_has_tx c = false -> (p_val p =? OP_CSV)%N = false) ->
  cond_inv c s = true ->
  (execute_opcode so c p idx s = OOk s' \/ execute_opcode so c p idx s = OReturn s') -> cond_inv c s' = true.
Proof.
  intros so c p idx s s' Hso Hreal Hcsv Hinv. unfold execute_opcode.
  destruct (max_elem c <? lenZ (p_data p)); [intros [H|H]; discriminate|].
  destruct (is_disabled (p_val p) && _); [intros [H|H]; discriminate|].
  destruct (always_illegal (p_val p) && _); [intros [H|H]; discriminate|].
  set (s1 := if (OP_16 <? p_val p)%N then set_nops s (nops s + 1) else s).
  assert (Hs1 : cond s1 = cond s) by (subst s1; destruct (OP_16 <? p_val p)%N; reflexivity).
  destruct ((OP_16 <? p_val p)%N && (max_ops c <? nops s1)); [intros [H|H]; discriminate|].
  assert (Hinv1 : cond_inv c s1 = true) by (rewrite (cond_inv_ext c s s1 Hs1); exact Hinv).
  destruct (is_conditional (p_val p)) eqn:Econd.
  - cbn [negb andb]. rewrite !andb_false_r.
    destruct (has_flag c F_MINIMALDATA && _ && _ && _ && _); [intros [H|H]; discriminate|].
    apply cond_inv_handler_conditional; auto.
  - cbn [negb].
    assert (Hskip : forall o, keeps_cond s1 o -> (o = OOk s' \/ o = OReturn s') -> cond_inv c s' = true).
    { intros o [_ Hk] H. rewrite (cond_inv_ext c s1 s' (Hk s' H)). exact Hinv1. }
    destruct (negb (branch_executing s1) && true); [apply Hskip; apply keeps_ok; reflexivity|].
    destruct (has_flag c F_MINIMALDATA && _ && _ && _ && _); [apply Hskip; apply keeps_err|].
    destruct (negb (should_exec c s (p_val p)) && true); [apply Hskip; apply keeps_ok; reflexivity|].
    apply Hskip. apply handler_keeps_cond; auto.
Qed.

(** every script starts in a state that satisfies it *)
Lemma cond_inv_init : forall c ops d, cond_inv c (set_ds (init_st ops) d) = true.
Proof. intros c ops d. unfold cond_inv. cbn [cond set_ds init_st]. destruct (after_genesis c); reflexivity. Qed.

(** ** OP_NUM2BIN at handler level *)
Theorem num2bin_handler_spec : forall so c p idx s nb a r n,
  p_real p = true -> p_val p = OP_NUM2BIN -> ds s = nb :: a :: r -> pop_num c nb = Some n ->
  exec_handler so c p idx s =
    if (max_elem c <? n) || (n <? lenZ (num_enc (num_dec a))) then OErr
    else OOk (set_ds s ((if n =? lenZ (num_enc (num_dec a)) then num_enc (num_dec a)
                         else num2bin_pad (num_enc (num_dec a)) (Z.to_nat n)) :: r)).
Proof.
  intros so c p idx s nb a r n. unfold exec_handler. intros Hreal Hv Hds Hn. rewrite Hreal, Hv. cbn [negb].
  repeat match goal with |- context [(OP_NUM2BIN =? ?b)%N] =>
    let x := eval vm_compute in (OP_NUM2BIN =? b)%N in change (OP_NUM2BIN =? b)%N with x end.
  repeat match goal with |- context [(OP_NUM2BIN <=? ?b)%N] =>
    let x := eval vm_compute in (OP_NUM2BIN <=? b)%N in change (OP_NUM2BIN <=? b)%N with x end.
  cbn [orb andb]. rewrite Hds, Hn.
  destruct (max_elem c <? n); [reflexivity|]. cbn [orb].
  destruct (n <? lenZ (num_enc (num_dec a))); [reflexivity|].
  destruct (n =? lenZ (num_enc (num_dec a))); reflexivity.
Qed.

Corollary num2bin_result_meaning : forall so c p idx s nb a r n s',
  p_real p = true -> p_val p = OP_NUM2BIN -> ds s = nb :: a :: r -> pop_num c nb = Some n ->
  exec_handler so c p idx s = OOk s' ->
  exists x, ds s' = x :: r /\ lenZ x = n /\ num_dec x = num_dec a.
Proof.
  intros so c p idx s nb a r n s' Hreal Hv Hds Hn. rewrite (num2bin_handler_spec so c p idx s nb a r n Hreal Hv Hds Hn).
  destruct (_ || _) eqn:E; [discriminate|]. apply orb_false_iff in E. destruct E as [_ E2].
  intros [= <-]. cbn [ds set_ds]. eexists. split; [reflexivity|].
  destruct (Z.eqb_spec n (lenZ (num_enc (num_dec a)))) as [->|Hne].
  - split; [reflexivity|apply num_dec_enc].
  - assert (Hlt : (length (num_enc (num_dec a)) < Z.to_nat n)%nat) by (unfold lenZ in *; lia).
    destruct (num2bin_pad_spec_gen _ _ Hlt) as [Hd Hl]. split.
    + unfold lenZ. rewrite Hl. unfold lenZ in *. lia.
    + rewrite Hd. apply num_dec_enc.
Qed.

(** ** The invariant along a whole script *)
Theorem cond_inv_run : forall so c, sigops_ok so -> forall ops idx s acc,
  Forall (fun p => p_real p = true /\ (c_has_tx c = false -> (p_val p =? OP_CSV)%N = false)) ops ->
  cond_inv c s = true ->
  match fst (run_ops so c ops idx s acc) with
  | SEnd s' | SReturn s' => cond_inv c s' = true
  | SErr | SPanic => True
  end.
Proof.
  intros so c Hso. induction ops as [|p rest IH]; intros idx s acc Hall Hinv; [exact Hinv|].
  inversion Hall as [|? ? [Hreal Hcsv] Hrest]; subst. cbn [run_ops].
  destruct (execute_opcode so c p idx s) as [s'|s'| |] eqn:Ee; cbn [fst]; try exact I.
  - pose proof (cond_inv_step so c p idx s s' Hso Hreal Hcsv Hinv (or_introl Ee)) as Hinv'.
    destruct (max_stack c <? lenZ (ds s') + lenZ (als s')); [exact I|].
    destruct rest as [|p2 rest2]; [exact Hinv'|]. apply IH; assumption.
  - exact (cond_inv_step so c p idx s s' Hso Hreal Hcsv Hinv (or_intror Ee)).
Qed.
