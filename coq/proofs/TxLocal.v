(** Locality of the transaction decoder (audit A, C01 clause 4): what [read_tx] / [read_txs] return, the number
    of bytes they report and what they leave behind do not depend on what follows the transaction in the
    stream - for minimal and non-minimal length prefixes, standard and extended format alike.  Consequences:
    the consumed prefix is itself a transaction ([parse (firstn n b) = Ok], DESIGN section 5), and no truncated
    transaction is accepted.  Built from lib/ParseLocal.v by composition. *)
From Coq Require Import List NArith Lia ZifyN ZifyNat ZifyBool Bool.
From Coq Require Import Strings.Byte.
From GoBT Require Import lib.Bytes lib.Parse lib.ParseLocal lib.VarInt model.Tx proofs.TxProofs.
Import ListNotations.
Local Open Scope N_scope.

(** ** primitive readers *)

Lemma read_varint_local : local read_varint.
Proof.
  unfold read_varint. apply pbind_local; [apply read_exact_local|]. intros b. cbv beta zeta.
  repeat match goal with |- context [if ?c then _ else _] => destruct c end;
    try (apply pbind_local; [apply read_exact_local|]; intros x; apply pret_local);
    apply pret_local.
Qed.

(** the length guard of [read_script_safe] inspects the remaining input: by hand *)
Lemma read_script_safe_local : local read_script_safe.
Proof.
  intros bs v n rest H. unfold read_script_safe in H.
  apply pbind_inv in H. destruct H as (lm & n1 & r & m1 & H1 & H2 & ->).
  destruct (N.ltb_spec (lenN r) (fst lm)) as [|Hle]; [discriminate|].
  apply pbind_inv in H2. destruct H2 as (s & n2 & r2 & m2 & H2 & H3 & ->).
  injection H3 as <- <- <-.
  destruct (read_varint_local _ _ _ _ H1) as (pre1 & -> & -> & K1).
  apply read_exact_inv in H2. destruct H2 as (-> & Hl & ->).
  exists (pre1 ++ s). repeat split.
  - apply app_assoc.
  - unfold lenN. rewrite app_length, Hl. lia.
  - intros rest'. unfold read_script_safe. rewrite <- app_assoc, K1. cbn [pbind].
    destruct (N.ltb_spec (lenN (s ++ rest')) (fst lm)) as [Hlt|_].
    { exfalso. unfold lenN in Hlt. rewrite app_length in Hlt. lia. }
    rewrite (read_exact_app _ s rest' Hl). reflexivity.
Qed.

Lemma read_input_local ext : local (read_input ext).
Proof.
  unfold read_input.
  apply pbind_local; [apply read_exact_local|]; intros txidw.
  apply pbind_local; [apply read_exact_local|]; intros vout.
  apply pbind_local; [apply read_script_safe_local|]; intros sm.
  apply pbind_local; [apply read_exact_local|]; intros sq.
  destruct ext; [|apply pret_local].
  apply pbind_local; [apply read_exact_local|]; intros sats.
  apply pbind_local; [apply read_script_safe_local|]; intros pm.
  apply pret_local.
Qed.

Lemma read_output_local : local read_output.
Proof.
  unfold read_output.
  apply pbind_local; [apply read_exact_local|]; intros sats.
  apply pbind_local; [apply read_script_safe_local|]; intros sm.
  apply pret_local.
Qed.

Lemma read_many_S {A} f (p : parser (A * bool)) c :
  read_many (S f) p c = fun bs =>
    if c =? 0 then pret ([], true) bs else
    pbind (p bs) (fun xm r => pbind (read_many f p (c - 1) r)
                                (fun rest r2 => pret (fst xm :: fst rest, snd xm && snd rest)%bool r2)).
Proof. reflexivity. Qed.
Lemma read_many_O {A} (p : parser (A * bool)) c :
  read_many O p c = fun bs => if c =? 0 then pret ([], true) bs else PFuel.
Proof. reflexivity. Qed.

Lemma read_many_local {A} (p : parser (A * bool)) : local p -> forall fuel c, local (read_many fuel p c).
Proof.
  intros Hp. induction fuel as [|f IH]; intros c.
  - rewrite read_many_O. apply if_local; [apply pret_local|apply pfuel_local].
  - rewrite read_many_S. apply if_local; [apply pret_local|].
    apply pbind_local; [exact Hp|]. intros xm.
    apply pbind_local; [apply IH|]. intros rest. apply pret_local.
Qed.

(** ** the transaction reader at a fixed fuel *)

Lemma read_tx_body_local fuel ver ext ic oc m0 : local (read_tx_body fuel ver ext ic oc m0).
Proof.
  unfold read_tx_body.
  apply pbind_local; [apply read_many_local, read_input_local|]; intros ins.
  apply pbind_local; [destruct oc; [apply pret_local|apply read_varint_local]|]; intros ocv.
  apply pbind_local; [apply read_many_local, read_output_local|]; intros outs.
  apply pbind_local; [apply read_exact_local|]; intros lt.
  apply pret_local.
Qed.

(** [read_tx] with the fuel as a parameter; [read_tx] picks [S (length bs)] *)
Definition read_tx_fuel (fuel : nat) : parser parsed := fun bs =>
  plet ver := read_exact 4 on bs as r1 in
  plet ic := read_varint on r1 as r2 in
  if fst ic =? 0 then
    plet oc := read_varint on r2 as r3 in
    if fst oc =? 0 then
      plet lt := read_exact 4 on r3 as r4 in
      if be_dec lt =? 239 then
        plet ic2 := read_varint on r4 as r5 in
        read_tx_body fuel ver true (fst ic2) None (snd ic && snd oc && snd ic2)%bool r5
      else pret (mkParsed (mkTx (le_dec ver) [] [] (le_dec lt)) false (snd ic && snd oc)%bool) r4
    else read_tx_body fuel ver false 0 (Some (fst oc)) (snd ic && snd oc)%bool r3
  else read_tx_body fuel ver false (fst ic) None (snd ic) r2.

Lemma read_tx_fuel_eq bs : read_tx bs = read_tx_fuel (S (length bs)) bs.
Proof. reflexivity. Qed.

Lemma read_tx_fuel_local fuel : local (read_tx_fuel fuel).
Proof.
  unfold read_tx_fuel.
  apply pbind_local; [apply read_exact_local|]; intros ver.
  apply pbind_local; [apply read_varint_local|]; intros ic.
  apply if_local; [|apply read_tx_body_local].
  apply pbind_local; [apply read_varint_local|]; intros oc.
  apply if_local; [|apply read_tx_body_local].
  apply pbind_local; [apply read_exact_local|]; intros lt.
  apply if_local; [|apply pret_local].
  apply pbind_local; [apply read_varint_local|]; intros ic2.
  apply read_tx_body_local.
Qed.

(** ** the fuel does not matter once it suffices *)

(** [fuel_mono g]: a run that did not exhaust its fuel is unchanged by more fuel *)
Definition fuel_mono {A} (g : nat -> parser A) : Prop :=
  forall f f' bs, (f <= f')%nat -> g f bs <> PFuel -> g f' bs = g f bs.

Lemma const_fuel_mono {A} (p : parser A) : fuel_mono (fun _ => p).
Proof. intros f f' bs _ _. reflexivity. Qed.

Lemma pbind_fuel_mono {A B} (g : nat -> parser A) (h : nat -> A -> parser B) :
  fuel_mono g -> (forall a, fuel_mono (fun f => h f a)) ->
  fuel_mono (fun f bs => pbind (g f bs) (h f)).
Proof.
  intros Hg Hh f f' bs Hle Hn. cbv beta in *.
  assert (Hg1 : g f bs <> PFuel) by (intros E; rewrite E in Hn; apply Hn; reflexivity).
  rewrite (Hg f f' bs Hle Hg1). destruct (g f bs) as [a n r|n|]; cbn [pbind] in *; auto.
  assert (Hh1 : h f a r <> PFuel) by (intros E; rewrite E in Hn; apply Hn; reflexivity).
  rewrite (Hh a f f' r Hle Hh1). reflexivity.
Qed.

Lemma if_fuel_mono {A} (c : bool) (g h : nat -> parser A) :
  fuel_mono g -> fuel_mono h -> fuel_mono (fun f bs => if c then g f bs else h f bs).
Proof. destruct c; auto. Qed.

Lemma read_many_fuel_mono {A} (p : parser (A * bool)) c : fuel_mono (fun f => read_many f p c).
Proof.
  intros f. revert c. induction f as [|f IH]; intros c f' bs Hle Hn.
  - rewrite read_many_O in Hn. rewrite read_many_O. destruct f' as [|f'']; [rewrite read_many_O; reflexivity|].
    rewrite read_many_S. cbv beta in *.
    destruct (c =? 0); [reflexivity|]. exfalso; apply Hn; reflexivity.
  - destruct f' as [|f'']; [lia|]. rewrite (read_many_S f) in Hn. rewrite (read_many_S f), (read_many_S f'').
    cbv beta in *. destruct (c =? 0); [reflexivity|].
    destruct (p bs) as [xm n r|n|]; cbn [pbind] in *; auto.
    assert (H1 : read_many f p (c - 1) r <> PFuel) by (intros E; rewrite E in Hn; apply Hn; reflexivity).
    rewrite (IH (c - 1) f'' r ltac:(lia) H1). reflexivity.
Qed.

Lemma read_tx_body_fuel_mono ver ext ic oc m0 : fuel_mono (fun f => read_tx_body f ver ext ic oc m0).
Proof.
  unfold read_tx_body.
  apply (pbind_fuel_mono (fun f => read_many f (read_input ext) ic)); [apply read_many_fuel_mono|]; intros ins.
  apply (pbind_fuel_mono (fun _ => match oc with Some c => pret (c, true) | None => read_varint end));
    [apply const_fuel_mono|]; intros ocv.
  apply (pbind_fuel_mono (fun f => read_many f read_output (fst ocv))); [apply read_many_fuel_mono|]; intros outs.
  apply const_fuel_mono.
Qed.

Lemma read_tx_fuel_mono : fuel_mono read_tx_fuel.
Proof.
  unfold read_tx_fuel.
  apply (pbind_fuel_mono (fun _ => read_exact 4)); [apply const_fuel_mono|]; intros ver.
  apply (pbind_fuel_mono (fun _ => read_varint)); [apply const_fuel_mono|]; intros ic.
  apply if_fuel_mono; [|apply read_tx_body_fuel_mono].
  apply (pbind_fuel_mono (fun _ => read_varint)); [apply const_fuel_mono|]; intros oc.
  apply if_fuel_mono; [|apply read_tx_body_fuel_mono].
  apply (pbind_fuel_mono (fun _ => read_exact 4)); [apply const_fuel_mono|]; intros lt.
  apply if_fuel_mono; [|apply const_fuel_mono].
  apply (pbind_fuel_mono (fun _ => read_varint)); [apply const_fuel_mono|]; intros ic2.
  apply read_tx_body_fuel_mono.
Qed.

(** two runs that both had enough fuel agree *)
Lemma fuel_irrelevant {A} (g : nat -> parser A) : fuel_mono g ->
  forall f f' bs, g f bs <> PFuel -> g f' bs <> PFuel -> g f' bs = g f bs.
Proof.
  intros Hg f f' bs H1 H2. destruct (PeanoNat.Nat.le_ge_cases f f') as [L|L].
  - apply Hg; auto.
  - symmetry. apply Hg; auto.
Qed.

(** ** (1) locality of [read_tx] (= Tx.ReadFrom = NewTxFromStream: one function in the model) *)
Theorem read_tx_local : local read_tx.
Proof.
  intros bs p n rest H. rewrite read_tx_fuel_eq in H.
  destruct (read_tx_fuel_local _ _ _ _ _ H) as (pre & -> & -> & K).
  exists pre. repeat split; auto. intros rest'.
  rewrite <- (K rest'). rewrite read_tx_fuel_eq.
  apply (fuel_irrelevant read_tx_fuel read_tx_fuel_mono).
  - rewrite K. discriminate.
  - rewrite <- read_tx_fuel_eq. apply read_tx_never_out_of_fuel.
Qed.

(** the same statement spelled out, for export *)
Theorem read_tx_local_stmt bs p n rest : read_tx bs = POk p n rest ->
  exists pre, bs = pre ++ rest /\ n = lenN pre /\ forall rest', read_tx (pre ++ rest') = POk p n rest'.
Proof. apply read_tx_local. Qed.

(** (2) the consumed prefix is itself a transaction: parsing exactly it gives the same result, nothing left *)
Theorem parse_prefix_is_transaction bs p n rest : read_tx bs = POk p n rest ->
  exists pre, bs = pre ++ rest /\ n = lenN pre /\ read_tx pre = POk p n [].
Proof. apply (local_prefix read_tx read_tx_local). Qed.

(** DESIGN section 5's wording: [parse (firstn n b) = Ok (t, n)]; and NewTxFromBytes accepts those n bytes *)
Theorem parse_firstn bs p n rest : read_tx bs = POk p n rest ->
  read_tx (firstn (N.to_nat n) bs) = POk p n [] /\ rest = skipn (N.to_nat n) bs /\
  tx_from_bytes (firstn (N.to_nat n) bs) = ROk p.
Proof.
  intros H. destruct (local_firstn read_tx read_tx_local _ _ _ _ H) as (H1 & H2).
  repeat split; auto. apply from_bytes_iff.
  remember (firstn (N.to_nat n) bs) as x.
  destruct (parse_consumes_exactly _ _ _ _ H1) as (pre & E & En & _).
  rewrite app_nil_r in E. subst pre. rewrite <- En. exact H1.
Qed.

(** stream form: accepting [bs] means accepting [bs] followed by anything, with that left over as well *)
Theorem read_tx_extend bs p n rest suf : read_tx bs = POk p n rest ->
  read_tx (bs ++ suf) = POk p n (rest ++ suf).
Proof. apply (local_extend read_tx read_tx_local). Qed.

(** ** counted lists *)

Definition tx_item : parser (parsed * bool) := fun b => pmap (fun p => (p, p_min p)) (read_tx b).

Lemma tx_item_local : local tx_item.
Proof. unfold tx_item. apply pmap_local. apply read_tx_local. Qed.

Lemma tx_item_nf : no_fuel tx_item.
Proof.
  intros bs. unfold tx_item. pose proof (read_tx_never_out_of_fuel bs). destruct (read_tx bs); cbn; congruence.
Qed.

Lemma tx_item_progress : progresses tx_item.
Proof.
  intros bs a n rest H. unfold tx_item in H.
  destruct (read_tx bs) as [p n' r'|?|] eqn:E; cbn in H; try discriminate. injection H as <- <- <-.
  destruct (parse_consumes_exactly _ _ _ _ E) as (pre & -> & -> & _).
  unfold read_tx in E. apply pbind_inv in E. destruct E as (ver & n1 & r1 & m1 & E1 & _ & Hn).
  apply read_exact_inv in E1. destruct E1 as (_ & _ & ->).
  rewrite app_length. unfold lenN in Hn. lia.
Qed.

Definition read_txs_fuel (fuel : nat) : parser (list parsed * bool) := fun bs =>
  plet c := read_varint on bs as r in
  plet l := read_many fuel tx_item (fst c) on r as r2 in
  pret (fst l, snd c && snd l)%bool r2.

Lemma read_txs_fuel_eq bs : read_txs bs = read_txs_fuel (S (length bs)) bs.
Proof. reflexivity. Qed.

Lemma read_txs_fuel_local fuel : local (read_txs_fuel fuel).
Proof.
  unfold read_txs_fuel.
  apply pbind_local; [apply read_varint_local|]; intros c.
  apply pbind_local; [apply read_many_local, tx_item_local|]; intros l.
  apply pret_local.
Qed.

Lemma read_txs_fuel_mono : fuel_mono read_txs_fuel.
Proof.
  unfold read_txs_fuel.
  apply (pbind_fuel_mono (fun _ => read_varint)); [apply const_fuel_mono|]; intros c.
  apply (pbind_fuel_mono (fun f => read_many f tx_item (fst c))); [apply read_many_fuel_mono|]; intros l.
  apply const_fuel_mono.
Qed.

(** the list decoder never runs out of fuel either *)
Theorem read_txs_never_out_of_fuel bs : read_txs bs <> PFuel.
Proof.
  rewrite read_txs_fuel_eq. unfold read_txs_fuel.
  destruct (read_varint bs) as [c n1 r|?|] eqn:E1; cbn [pbind]; [|discriminate|exfalso; eapply read_varint_nf; eauto].
  assert (L1 : (length r <= length bs)%nat).
  { pose proof (read_varint_ok bs) as H. rewrite E1 in H. eapply consumed_ok_len; eauto. }
  pose proof (read_many_nf tx_item tx_item_progress tx_item_nf (S (length bs)) (fst c) r ltac:(lia)) as Hn.
  destruct (read_many (S (length bs)) tx_item (fst c) r); cbn; congruence.
Qed.

Theorem read_txs_local : local read_txs.
Proof.
  intros bs l n rest H. rewrite read_txs_fuel_eq in H.
  destruct (read_txs_fuel_local _ _ _ _ _ H) as (pre & -> & -> & K).
  exists pre. repeat split; auto. intros rest'.
  rewrite <- (K rest'). rewrite read_txs_fuel_eq.
  apply (fuel_irrelevant read_txs_fuel read_txs_fuel_mono).
  - rewrite K. discriminate.
  - rewrite <- read_txs_fuel_eq. apply read_txs_never_out_of_fuel.
Qed.

Theorem read_txs_local_stmt bs l n rest : read_txs bs = POk l n rest ->
  exists pre, bs = pre ++ rest /\ n = lenN pre /\ forall rest', read_txs (pre ++ rest') = POk l n rest'.
Proof. apply read_txs_local. Qed.

Theorem txs_prefix_is_list bs l n rest : read_txs bs = POk l n rest ->
  exists pre, bs = pre ++ rest /\ n = lenN pre /\ read_txs pre = POk l n [].
Proof. apply (local_prefix read_txs read_txs_local). Qed.

(** ** (3) failures.  The model's only error is [PErr n] (Go: an io error from a short read; the decoder has no
    other way to reject).  Every such failure reports the WHOLE input as consumed ... *)

Lemma read_varint_short : err_short read_varint.
Proof.
  unfold read_varint. apply pbind_short; [intros bs; apply read_exact_ok|apply read_exact_short|].
  intros b. cbv beta zeta.
  repeat match goal with |- context [if ?c then _ else _] => destruct c end;
    try (apply pbind_short; [intros bs; apply read_exact_ok|apply read_exact_short|]; intros x; apply pret_short);
    apply pret_short.
Qed.

Lemma read_script_safe_short : err_short read_script_safe.
Proof.
  unfold read_script_safe.
  apply pbind_short; [intros bs; apply read_varint_ok|apply read_varint_short|]. intros lm r n.
  destruct (lenN r <? fst lm); [intros [= <-]; reflexivity|].
  revert r n. apply pbind_short; [intros bs; apply read_exact_ok|apply read_exact_short|].
  intros s. apply pret_short.
Qed.

Lemma read_input_short ext : err_short (read_input ext).
Proof.
  unfold read_input.
  apply pbind_short; [intros bs; apply read_exact_ok|apply read_exact_short|]; intros txidw.
  apply pbind_short; [intros bs; apply read_exact_ok|apply read_exact_short|]; intros vout.
  apply pbind_short; [intros bs; apply read_script_safe_ok|apply read_script_safe_short|]; intros sm.
  apply pbind_short; [intros bs; apply read_exact_ok|apply read_exact_short|]; intros sq.
  destruct ext; [|apply pret_short].
  apply pbind_short; [intros bs; apply read_exact_ok|apply read_exact_short|]; intros sats.
  apply pbind_short; [intros bs; apply read_script_safe_ok|apply read_script_safe_short|]; intros pm.
  apply pret_short.
Qed.

Lemma read_output_short : err_short read_output.
Proof.
  unfold read_output.
  apply pbind_short; [intros bs; apply read_exact_ok|apply read_exact_short|]; intros sats.
  apply pbind_short; [intros bs; apply read_script_safe_ok|apply read_script_safe_short|]; intros sm.
  apply pret_short.
Qed.

Lemma pfuel_short {A} : err_short (fun _ : bytes => @PFuel A).
Proof. intros bs n H; discriminate. Qed.

Lemma read_many_short {A} (p : parser (A * bool)) : reports p -> err_short p ->
  forall fuel c, err_short (read_many fuel p c).
Proof.
  intros Rp Hp. induction fuel as [|f IH]; intros c.
  - rewrite read_many_O. apply if_short; [apply pret_short|apply pfuel_short].
  - rewrite read_many_S. apply if_short; [apply pret_short|].
    apply pbind_short; [exact Rp|exact Hp|]. intros xm.
    apply pbind_short; [intros bs; apply read_many_ok; exact Rp|apply IH|]. intros rest. apply pret_short.
Qed.

Lemma read_tx_body_short fuel ver ext ic oc m0 : err_short (read_tx_body fuel ver ext ic oc m0).
Proof.
  unfold read_tx_body.
  apply pbind_short; [intros bs; apply read_many_ok, read_input_ok
                     |apply read_many_short; [intros bs; apply read_input_ok|apply read_input_short]|]; intros ins.
  apply pbind_short; [intros bs; destruct oc; [apply pret_ok|apply read_varint_ok]
                     |destruct oc; [apply pret_short|apply read_varint_short]|]; intros ocv.
  apply pbind_short; [intros bs; apply read_many_ok, read_output_ok
                     |apply read_many_short; [intros bs; apply read_output_ok|apply read_output_short]|]; intros outs.
  apply pbind_short; [intros bs; apply read_exact_ok|apply read_exact_short|]; intros lt.
  apply pret_short.
Qed.

Lemma read_tx_fuel_short fuel : err_short (read_tx_fuel fuel).
Proof.
  unfold read_tx_fuel.
  apply pbind_short; [intros bs; apply read_exact_ok|apply read_exact_short|]; intros ver.
  apply pbind_short; [intros bs; apply read_varint_ok|apply read_varint_short|]; intros ic.
  apply if_short; [|apply read_tx_body_short].
  apply pbind_short; [intros bs; apply read_varint_ok|apply read_varint_short|]; intros oc.
  apply if_short; [|apply read_tx_body_short].
  apply pbind_short; [intros bs; apply read_exact_ok|apply read_exact_short|]; intros lt.
  apply if_short; [|apply pret_short].
  apply pbind_short; [intros bs; apply read_varint_ok|apply read_varint_short|]; intros ic2.
  apply read_tx_body_short.
Qed.

(** every failure of the transaction decoder is a short read: all of the input was consumed *)
Theorem read_tx_error_is_short : err_short read_tx.
Proof. intros bs n H. rewrite read_tx_fuel_eq in H. eapply read_tx_fuel_short; eauto. Qed.

Theorem read_tx_error_is_short_stmt bs n : read_tx bs = PErr n -> n = lenN bs.
Proof. apply read_tx_error_is_short. Qed.

(** ... a rejected input has no accepted prefix: every prefix of it (proper or not) is rejected too ... *)
Theorem read_tx_prefix_fails pre suf n : read_tx (pre ++ suf) = PErr n -> read_tx pre = PErr (lenN pre).
Proof.
  apply (local_prefix_fails read_tx read_tx_local read_tx_never_out_of_fuel read_tx_error_is_short).
Qed.

(** ... and no truncated transaction is accepted: cutting at least one byte off the end of the bytes an accepted
    transaction occupies ([q ++ s], [s] non-empty) gives an input that is rejected *)
Theorem read_tx_truncated_fails q s rest p n :
  read_tx (q ++ s ++ rest) = POk p n rest -> s <> [] -> read_tx q = PErr (lenN q).
Proof.
  apply (local_truncated_fails read_tx read_tx_local read_tx_never_out_of_fuel read_tx_error_is_short).
Qed.

(** NewTxFromBytes rejects every proper prefix of a byte string it accepts *)
Theorem from_bytes_truncated_fails q s p :
  tx_from_bytes (q ++ s) = ROk p -> s <> [] -> tx_from_bytes q = RErr.
Proof.
  intros H Hs. apply from_bytes_iff in H.
  assert (E : read_tx (q ++ s ++ []) = POk p (lenN (q ++ s)) []) by (rewrite app_nil_r; exact H).
  apply read_tx_truncated_fails in E; auto. unfold tx_from_bytes. rewrite E. reflexivity.
Qed.

(** the same three for counted lists *)
Lemma tx_item_reports : reports tx_item.
Proof. intros bs. unfold tx_item. pose proof (read_tx_ok bs) as H. destruct (read_tx bs); cbn in *; auto. Qed.

Lemma tx_item_short : err_short tx_item.
Proof.
  intros bs n H. unfold tx_item in H. destruct (read_tx bs) as [| m |] eqn:E; cbn in H; try discriminate.
  injection H as <-. apply read_tx_error_is_short. exact E.
Qed.

Lemma read_txs_fuel_short fuel : err_short (read_txs_fuel fuel).
Proof.
  unfold read_txs_fuel.
  apply pbind_short; [intros bs; apply read_varint_ok|apply read_varint_short|]; intros c.
  apply pbind_short; [intros bs; apply read_many_ok, tx_item_reports
                     |apply read_many_short; [apply tx_item_reports|apply tx_item_short]|]; intros l.
  apply pret_short.
Qed.

Theorem read_txs_error_is_short : err_short read_txs.
Proof. intros bs n H. rewrite read_txs_fuel_eq in H. eapply read_txs_fuel_short; eauto. Qed.

Theorem read_txs_error_is_short_stmt bs n : read_txs bs = PErr n -> n = lenN bs.
Proof. apply read_txs_error_is_short. Qed.

Theorem read_txs_prefix_fails pre suf n : read_txs (pre ++ suf) = PErr n -> read_txs pre = PErr (lenN pre).
Proof.
  apply (local_prefix_fails read_txs read_txs_local read_txs_never_out_of_fuel read_txs_error_is_short).
Qed.

Theorem read_txs_truncated_fails q s rest l n :
  read_txs (q ++ s ++ rest) = POk l n rest -> s <> [] -> read_txs q = PErr (lenN q).
Proof.
  apply (local_truncated_fails read_txs read_txs_local read_txs_never_out_of_fuel read_txs_error_is_short).
Qed.
