(** stack.SwapN (bscript/interpreter/stack.go), as printed from the Go source, for EVERY argument: on a stack of fewer than
    2^31 - 16 items, for every int32 [n], the printed function is the model's general primitive [Interp.swap_n] (the top n
    items exchanged with the n below; specified by [swap_n_spec] / [swap_n_none] of proofs/ShiftProofs.v), and an error
    for n < 1.  The loop runs n times (the fuel suffices); each iteration moves the item 2n-1 places below the top to the
    top.  ([entry := 2*n - 1] is computed in int32; where it wraps -- n >= 2^30 -- it is negative or 2^31 - 1, and the
    first iteration fails, as the model does on a stack of fewer than 2n items.) *)
From Coq Require Import List ZArith NArith Bool Lia ZifyN ZifyNat ZifyBool.
From Coq Require Import Strings.Byte.
From GoBT Require Import lib.Bytes lib.GoSem lib.GoInterp gen.Funcs proofs.GenFuncsTac proofs.GenFuncsInterpTac proofs.GenFuncsStackLoopTac proofs.GenFuncs_stack_nipN proofs.GenFuncs_stack_PushByteArray.
From GoBT Require model.Interp model.ScriptNum.
Import ListNotations.
Ltac Zify.zify_post_hook ::= Z.div_mod_to_equations.
Local Open Scope Z_scope.

(** n iterations of "move the item 2n-1 places below the top to the top" are [swap_n n] *)
Lemma iter_roll_swap (n : nat) (e : Z) (d : list bytes) : (1 <= n)%nat -> Interp.lenZ d < 2147483648 ->
  (2 * Z.of_nat n <= Interp.lenZ d -> e = 2 * Z.of_nat n - 1) ->
  (Interp.lenZ d < 2 * Z.of_nat n -> e < 0 \/ Interp.lenZ d <= e) ->
  iter_step (Interp.roll_n e) n d = Interp.swap_n n d.
Proof.
  intros Hn Hd He1 He2. unfold Interp.swap_n. destruct (Nat.ltb_spec (length d) (2 * n)) as [Hlt|Hge].
  - destruct n as [|k]; [lia|]. apply iter_fails. apply roll_n_out. apply He2. unfold Interp.lenZ. lia.
  - destruct (cut2 n n d ltac:(lia)) as [Hcut [HX HY]].
    rewrite Hcut at 1.
    rewrite (iter_roll e n) by (unfold Interp.lenZ in *; rewrite ?HX; lia).
    replace (n + n)%nat with (2 * n)%nat by lia. reflexivity.
Qed.

Lemma stack_SwapN_all_n (n : Z) (d : list bytes) : small d -> in31 n ->
  st_view (stack_SwapN n (rev d)) = Val (if n <? 1 then None else Interp.swap_n (Z.to_nat n) d).
Proof.
  intros Hs Hn. unfold small, in31 in *. unfold stack_SwapN. destruct (n <? 1) eqn:E1; [reflexivity|]. cbv zeta.
  (* the index the loop body hands to nipN: whatever expression the source computes it with *)
  match goal with |- context [stack_nipN ?ee] => remember ee as e eqn:He end.
  assert (Hin : in31 e) by (subst e; unfold in31, go_sub, go_mul, go_add, go_conv, go_wrap; lia).
  match goal with |- context [go_for ?fuel (n, rev d) ?cnd ?bdy ?pst] =>
    set (CND := cnd); set (BDY := bdy); set (PST := pst); set (FUEL := fuel)
  end.
  destruct (go_for_count_down (Interp.roll_n e) (fun _ d0 => Interp.lenZ d0 < 2147483648) CND BDY PST) with (fuel := FUEL) (k := Z.to_nat n) (d := d)
    as [r [Hr Hres]].
  - intros i g. reflexivity.
  - intros i g Hi. subst PST. cbv beta iota zeta. apply Val_inj. f_equal. unfold go_sub, go_add, go_conv, go_wrap. lia.
  - intros k d0 Hinv. subst BDY. cbv beta iota.
    rewrite stack_nipN_spec by assumption. rewrite nip_model_roll. unfold go_st.
    pose proof (roll_n_length e d0) as Hlen. rewrite nip_model_roll in Hlen.
    destruct (nip_model e d0) as [d' [x [|]]]; cbn [bind fst snd].
    + eexists. reflexivity.
    + rewrite stack_PushByteArray_spec. cbn [bind]. split; [reflexivity|]. rewrite (Hlen _ eq_refl). exact Hinv.
  - subst FUEL. lia.
  - lia.
  - lia.
  - rewrite Z2Nat.id in Hr by lia. rewrite Hr. loop_finish r.
    rewrite <- (iter_roll_swap (Z.to_nat n) e d); [exact Hres|lia|lia| |]; intros H; subst e; unfold go_sub, go_mul, go_add, go_conv, go_wrap; lia.
Qed.

(** the instances the opcode handlers use (OP_SWAP, OP_2SWAP) *)
Corollary stack_SwapN_handlers (n : Z) (d : list bytes) : small d -> n = 1 \/ n = 2 ->
  st_view (stack_SwapN n (rev d)) = Val (Interp.swap_n (Z.to_nat n) d).
Proof.
  intros Hd Hn. rewrite stack_SwapN_all_n by (assumption || unfold in31; lia).
  replace (n <? 1) with false by lia. reflexivity.
Qed.
