(** Output.Bytes (output.go), as printed from the Go source, is [output_bytes] of model/Tx.v on every output whose
    LockingScript pointer is not nil; on a nil pointer it panics ([*o.LockingScript]). *)
From Coq Require Import List ZArith NArith Bool Lia ZifyN ZifyNat ZifyBool.
From Coq Require Import Strings.Byte.
From GoBT Require Import lib.Bytes lib.VarInt lib.GoSem lib.GoTx gen.Funcs proofs.GenFuncsTac proofs.GenFuncsTxTac model.Tx.
Import ListNotations.
Ltac Zify.zify_post_hook ::= Z.div_mod_to_equations.
Local Open Scope Z_scope.

Lemma Output_Bytes_is_model sats s : u64 sats -> len_ok s ->
  Output_Bytes sats (Some s) = Val (output_bytes (mkOutput (Z.to_N sats) s)).
Proof.
  intros Hs Hl. unfold Output_Bytes. tx_norm. apply Val_inj.
  unfold output_bytes, script_bytes, lenN. cbn [out_sats out_script]. tx_bytes_eq.
Qed.

Lemma Output_Bytes_nil_script sats : Output_Bytes sats None = Panic.
Proof. unfold Output_Bytes. tx_norm. reflexivity. Qed.

(** over the printed record *)
Lemma Output_Bytes_go (g : go_Output) : go_output_ok g ->
  Output_Bytes (Output_Satoshis g) (Output_LockingScript g) = Val (output_bytes (output_of_go g)).
Proof.
  intros (Hs & Hn & Hl). destruct g as [sats [s|]]; cbn [Output_Satoshis Output_LockingScript] in *; [|congruence].
  apply Output_Bytes_is_model; assumption.
Qed.
