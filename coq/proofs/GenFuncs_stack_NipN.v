(** stack.NipN (bscript/interpreter/stack.go), as printed from the Go source: nipN without the item.
    The Go stack is [rev d], [d] being the stack of model/Interp.v (top first). *)
From Coq Require Import List ZArith NArith Bool Lia ZifyN ZifyNat ZifyBool.
From Coq Require Import Strings.Byte.
From GoBT Require Import lib.Bytes lib.GoSem lib.GoInterp gen.Funcs proofs.GenFuncsTac proofs.GenFuncsInterpTac proofs.GenFuncs_stack_nipN.
From GoBT Require model.Interp model.ScriptNum.
Import ListNotations.
Ltac Zify.zify_post_hook ::= Z.div_mod_to_equations.
Local Open Scope Z_scope.

Lemma stack_NipN_spec (i : Z) (d : list bytes) : Interp.lenZ d < 2147483648 -> in31 i ->
  stack_NipN i (rev d) = Val (rev (fst (nip_model i d)), snd (snd (nip_model i d))).
Proof.
  intros Hd Hi. unfold stack_NipN. rewrite stack_nipN_spec by assumption.
  destruct (nip_model i d) as [d' [x e]]; reflexivity.
Qed.

(** the instance OP_NIP uses, as [exec_handler] has it *)
Lemma stack_NipN_1 (d : list bytes) : Interp.lenZ d < 2147483648 ->
  st_view (stack_NipN 1 (rev d)) = Val (match d with a :: _ :: r => Some (a :: r) | _ => None end).
Proof.
  intros Hd. rewrite stack_NipN_spec by (unfold in31; lia). unfold nip_model.
  destruct d as [|a [|b r]]; try reflexivity.
  rewrite !lenZ_cons. pose proof (lenZ_nonneg r). replace ((1 <? 0) || (1 + (1 + Interp.lenZ r) <=? 1)) with false by lia.
  stk_beta. cbn [st_view]. rewrite rev_involutive. reflexivity.
Qed.

#[global] Hint Rewrite stack_NipN_spec using stk_small : stk.
