(** Dispatch: the model's opcode decoding agrees with go-bt's opcodeArray, which is REGENERATED from
    bscript/interpreter/operations.go on every run (gen/OpTable.v).  [model_handler] is the hand-written
    expectation: which Go handler each branch of [Interp.exec_handler] models.  A re-wired, renamed or
    re-sized opcode in the Go table breaks these theorems at build time. *)
From Coq Require Import List NArith ZArith String Bool.
From GoBT Require Import model.Interp gen.OpTable.
Import ListNotations.
Local Open Scope string_scope.

Definition model_handler (v : N) : string :=
  if (v =? 0)%N then "opcodeFalse" else
  if (1 <=? v)%N && (v <=? 78)%N then "opcodePushData" else
  if (v =? 79)%N then "opcode1Negate" else
  if (v =? 80)%N then "opcodeReserved" else
  if (81 <=? v)%N && (v <=? 96)%N then "opcodeN" else
  if (v =? 97)%N then "opcodeNop" else
  if (v =? 98)%N then "opcodeReserved" else
  if (v =? 99)%N then "opcodeIf" else
  if (v =? 100)%N then "opcodeNotIf" else
  if (101 <=? v)%N && (v <=? 102)%N then "opcodeVerConditional" else
  if (v =? 103)%N then "opcodeElse" else
  if (v =? 104)%N then "opcodeEndif" else
  if (v =? 105)%N then "opcodeVerify" else
  if (v =? 106)%N then "opcodeReturn" else
  if (v =? 107)%N then "opcodeToAltStack" else
  if (v =? 108)%N then "opcodeFromAltStack" else
  if (v =? 109)%N then "opcode2Drop" else
  if (v =? 110)%N then "opcode2Dup" else
  if (v =? 111)%N then "opcode3Dup" else
  if (v =? 112)%N then "opcode2Over" else
  if (v =? 113)%N then "opcode2Rot" else
  if (v =? 114)%N then "opcode2Swap" else
  if (v =? 115)%N then "opcodeIfDup" else
  if (v =? 116)%N then "opcodeDepth" else
  if (v =? 117)%N then "opcodeDrop" else
  if (v =? 118)%N then "opcodeDup" else
  if (v =? 119)%N then "opcodeNip" else
  if (v =? 120)%N then "opcodeOver" else
  if (v =? 121)%N then "opcodePick" else
  if (v =? 122)%N then "opcodeRoll" else
  if (v =? 123)%N then "opcodeRot" else
  if (v =? 124)%N then "opcodeSwap" else
  if (v =? 125)%N then "opcodeTuck" else
  if (v =? 126)%N then "opcodeCat" else
  if (v =? 127)%N then "opcodeSplit" else
  if (v =? 128)%N then "opcodeNum2bin" else
  if (v =? 129)%N then "opcodeBin2num" else
  if (v =? 130)%N then "opcodeSize" else
  if (v =? 131)%N then "opcodeInvert" else
  if (v =? 132)%N then "opcodeAnd" else
  if (v =? 133)%N then "opcodeOr" else
  if (v =? 134)%N then "opcodeXor" else
  if (v =? 135)%N then "opcodeEqual" else
  if (v =? 136)%N then "opcodeEqualVerify" else
  if (137 <=? v)%N && (v <=? 138)%N then "opcodeReserved" else
  if (v =? 139)%N then "opcode1Add" else
  if (v =? 140)%N then "opcode1Sub" else
  if (141 <=? v)%N && (v <=? 142)%N then "opcodeDisabled" else
  if (v =? 143)%N then "opcodeNegate" else
  if (v =? 144)%N then "opcodeAbs" else
  if (v =? 145)%N then "opcodeNot" else
  if (v =? 146)%N then "opcode0NotEqual" else
  if (v =? 147)%N then "opcodeAdd" else
  if (v =? 148)%N then "opcodeSub" else
  if (v =? 149)%N then "opcodeMul" else
  if (v =? 150)%N then "opcodeDiv" else
  if (v =? 151)%N then "opcodeMod" else
  if (v =? 152)%N then "opcodeLShift" else
  if (v =? 153)%N then "opcodeRShift" else
  if (v =? 154)%N then "opcodeBoolAnd" else
  if (v =? 155)%N then "opcodeBoolOr" else
  if (v =? 156)%N then "opcodeNumEqual" else
  if (v =? 157)%N then "opcodeNumEqualVerify" else
  if (v =? 158)%N then "opcodeNumNotEqual" else
  if (v =? 159)%N then "opcodeLessThan" else
  if (v =? 160)%N then "opcodeGreaterThan" else
  if (v =? 161)%N then "opcodeLessThanOrEqual" else
  if (v =? 162)%N then "opcodeGreaterThanOrEqual" else
  if (v =? 163)%N then "opcodeMin" else
  if (v =? 164)%N then "opcodeMax" else
  if (v =? 165)%N then "opcodeWithin" else
  if (v =? 166)%N then "opcodeRipemd160" else
  if (v =? 167)%N then "opcodeSha1" else
  if (v =? 168)%N then "opcodeSha256" else
  if (v =? 169)%N then "opcodeHash160" else
  if (v =? 170)%N then "opcodeHash256" else
  if (v =? 171)%N then "opcodeCodeSeparator" else
  if (v =? 172)%N then "opcodeCheckSig" else
  if (v =? 173)%N then "opcodeCheckSigVerify" else
  if (v =? 174)%N then "opcodeCheckMultiSig" else
  if (v =? 175)%N then "opcodeCheckMultiSigVerify" else
  if (v =? 176)%N then "opcodeNop" else
  if (v =? 177)%N then "opcodeCheckLockTimeVerify" else
  if (v =? 178)%N then "opcodeCheckSequenceVerify" else
  if (179 <=? v)%N && (v <=? 185)%N then "opcodeNop" else
  if (186 <=? v)%N && (v <=? 255)%N then "opcodeInvalid" else
  "?".

Definition row_ok (r : N * string * Z * string) : bool :=
  let '(v, _, len, h) := r in
  (len =? op_length v)%Z && String.eqb h (model_handler v).

Definition values_ok (t : list (N * string * Z * string)) : bool :=
  forallb (fun iv => (fst (fst (fst (snd iv))) =? N.of_nat (fst iv))%N) (combine (seq 0 (List.length t)) t).

Theorem dispatch_table_ok :
  List.length op_table = 256%nat /\ values_ok op_table = true /\ forallb row_ok op_table = true.
Proof. vm_compute. repeat split; reflexivity. Qed.

(** lifted to a statement about every opcode value *)
Theorem dispatch_ok : forall v name len h, In (v, name, len, h) op_table ->
  len = op_length v /\ h = model_handler v.
Proof.
  intros v name len h Hin. destruct dispatch_table_ok as (_ & _ & Hall).
  rewrite forallb_forall in Hall. specialize (Hall _ Hin). cbn in Hall.
  apply andb_true_iff in Hall. destruct Hall as [Hl Hh].
  apply Z.eqb_eq in Hl. apply String.eqb_eq in Hh. auto.
Qed.
