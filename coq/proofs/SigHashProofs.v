(** Proofs for C02 / C03: the code-shaped model (model/SigHash.v) computes the digests of the
    specification (spec/DigestSpec.v) on the node's wire view of the transaction (model/SigHashWire.v). *)
From Coq Require Import List NArith ZArith Lia ZifyN ZifyNat ZifyBool Bool.
From Coq Require Import Strings.Byte.
From GoBT Require Import lib.Bytes lib.Parse lib.VarInt lib.Sha256 model.Tx proofs.TxProofs
  spec.DigestSpec model.SigHash model.SigHashWire.
Import ListNotations.
Ltac Zify.zify_post_hook ::= Z.div_mod_to_equations.
Local Open Scope N_scope.

(** * generalities *)
Lemma sha256_length m : length (sha256 m) = 32%nat.
Proof.
  unfold sha256.
  destruct (fold_left compress256 _ iv256) as [[[[[[[a b] c] d] e] f] g] h]. reflexivity.
Qed.
Lemma sha256d_length m : length (sha256d m) = 32%nat.
Proof. apply sha256_length. Qed.

Lemma nthN_nth_error {A} (l : list A) i : nthN l i = nth_error l (N.to_nat i).
Proof.
  revert i; induction l as [|x r IH]; intros i; cbn [nthN].
  - destruct (N.to_nat i); reflexivity.
  - destruct (N.eqb_spec i 0) as [->|Hi]; [reflexivity|].
    rewrite IH. replace (N.to_nat i) with (S (N.to_nat (i - 1))) by lia. reflexivity.
Qed.

Lemma input_idx_spec t i : input_idx t i = nth_error (tx_ins t) (N.to_nat i).
Proof.
  unfold input_idx. destruct (Z.gtb_spec (Z.of_N i) (Z.of_nat (length (tx_ins t)) - 1)) as [H|H].
  - symmetry. apply nth_error_None. lia.
  - apply nthN_nth_error.
Qed.

(** finite enumeration over the 256 values of go-bt's 8-bit sighash.Flag *)
Lemma below256 (p : N -> bool) :
  forallb p (map N.of_nat (seq 0 256)) = true -> forall ht, ht < 256 -> p ht = true.
Proof.
  intros H ht Hlt. rewrite forallb_forall in H. apply H.
  apply in_map_iff. exists (N.to_nat ht). split; [apply N2Nat.id|]. apply (proj2 (List.in_seq 256 0 (N.to_nat ht))). lia.
Qed.

Lemma flag_acp ht : ht < 256 -> (N.land ht sh_anyonecanpay =? 0) = negb (anyone_can_pay ht).
Proof.
  intros H. apply (below256 (fun h => Bool.eqb (N.land h sh_anyonecanpay =? 0) (negb (anyone_can_pay h)))) in H;
    [apply eqb_prop; exact H | vm_compute; reflexivity].
Qed.
Lemma flag_base ht : ht < 256 -> N.land ht 31 = base_type ht.
Proof.
  intros H. apply (below256 (fun h => N.land h 31 =? base_type h)) in H;
    [apply N.eqb_eq; exact H | vm_compute; reflexivity].
Qed.
Lemma flag_forkid ht : ht < 256 -> flag_has ht sh_forkid = has_forkid ht.
Proof.
  intros H. apply (below256 (fun h => Bool.eqb (flag_has h sh_forkid) (has_forkid h))) in H;
    [apply eqb_prop; exact H | vm_compute; reflexivity].
Qed.
Lemma flag_single ht : ht < 256 -> flag_has_with_mask ht sh_single = is_single ht.
Proof. intros H. unfold flag_has_with_mask, is_single, sh_mask. rewrite flag_base by exact H. reflexivity. Qed.
Lemma flag_none ht : ht < 256 -> flag_has_with_mask ht sh_none = is_none ht.
Proof. intros H. unfold flag_has_with_mask, is_none, sh_mask. rewrite flag_base by exact H. reflexivity. Qed.

Lemma zero32_is_zero : zero32 = uint256_zero. Proof. reflexivity. Qed.
Lemma default_hex_is_one : default_hex = uint256_one. Proof. reflexivity. Qed.
Lemma uint256_one_le : uint256_one = le_enc 32 1. Proof. reflexivity. Qed.

(** * C02: the FORKID digest *)
Lemma previous_out_hash_spec t ht : commits_to_all_prevouts ht = true ->
  previous_out_hash t = hash_prevouts (wire_tx t) ht.
Proof.
  intros H. unfold hash_prevouts, previous_out_hash. rewrite H. cbn [wire_tx t_vin]. rewrite map_map. reflexivity.
Qed.
Lemma sequence_hash_spec t ht : commits_to_all_sequences ht = true ->
  sequence_hash t = hash_sequence (wire_tx t) ht.
Proof.
  intros H. unfold hash_sequence, sequence_hash. rewrite H. cbn [wire_tx t_vin]. rewrite map_map. reflexivity.
Qed.
Lemma outputs_hash_all t :
  outputs_hash t (-1) = Some (hash256 (concat (map ser_txout (t_vout (wire_tx t))))).
Proof. unfold outputs_hash. cbn [Z.eqb wire_tx t_vout]. rewrite map_map. reflexivity. Qed.

Definition two31 : N := 2147483648.

Lemma outputs_hash_one t i o : i < two31 -> nth_error (tx_outs t) (N.to_nat i) = Some o ->
  outputs_hash t (int32_of_uint32 i) = Some (hash256 (ser_txout (wire_out o))).
Proof.
  intros Hi Ho. unfold outputs_hash, int32_of_uint32.
  destruct (N.ltb_spec i 2147483648) as [_|Hc]; [|unfold two31 in Hi; lia].
  destruct (Z.eqb_spec (Z.of_N i) (-1)) as [Hc|_]; [lia|].
  destruct (Z.ltb_spec (Z.of_N i) 0) as [Hc|_]; [lia|].
  rewrite N2Z.id, nthN_nth_error, Ho. reflexivity.
Qed.

Theorem forkid_preimage_is_spec t i ht inp sc :
  ht < 256 -> i < two32 -> N.of_nat (length (tx_outs t)) < two31 ->
  nth_error (tx_ins t) (N.to_nat i) = Some inp -> in_txid inp <> [] -> in_script inp = Some sc ->
  option_map SOk (forkid_preimage (wire_tx t) (N.to_nat i) sc (in_sats inp) ht)
  = Some (fst (calc_input_preimage t i ht)).
Proof.
  intros Hht Hi Hlen Hnth Htxid Hsc.
  unfold calc_input_preimage, forkid_preimage.
  rewrite input_idx_spec, Hnth.
  cbn [wire_tx t_vin]. rewrite nth_error_map, Hnth. cbn [option_map].
  destruct (in_txid inp) as [|b0 txr] eqn:Etx; [congruence|]. cbn [length Nat.eqb]. rewrite <- Etx.
  rewrite Hsc. rewrite flag_acp, flag_base by exact Hht.
  fold (is_single ht) (is_none ht). unfold sh_single, sh_none.
  change (base_type ht =? 3) with (is_single ht). change (base_type ht =? 2) with (is_none ht).
  unfold digest_bytes, forkid_fields. cbn [d_version d_hash_prevouts d_hash_sequence d_outpoint d_script_code
    d_value d_sequence d_hash_outputs d_locktime d_hash_type].
  (* the three hashes *)
  assert (HP : (if negb (anyone_can_pay ht) then previous_out_hash t else zero32) = hash_prevouts (wire_tx t) ht).
  { destruct (anyone_can_pay ht) eqn:Ea; cbn [negb].
    - unfold hash_prevouts, commits_to_all_prevouts. rewrite Ea. reflexivity.
    - apply previous_out_hash_spec. unfold commits_to_all_prevouts. rewrite Ea. reflexivity. }
  assert (HS : (if negb (anyone_can_pay ht) && negb (is_single ht) && negb (is_none ht) then sequence_hash t else zero32)
               = hash_sequence (wire_tx t) ht).
  { destruct (negb (anyone_can_pay ht) && negb (is_single ht) && negb (is_none ht)) eqn:Ea.
    - apply sequence_hash_spec. exact Ea.
    - unfold hash_sequence, commits_to_all_sequences. rewrite Ea. reflexivity. }
  assert (HO : (if negb (is_single ht) && negb (is_none ht) then outputs_hash t (-1)
                else if is_single ht && (i <? uint32_of_len (tx_outs t)) then outputs_hash t (int32_of_uint32 i)
                else Some zero32) = Some (hash_outputs (wire_tx t) (N.to_nat i) ht)).
  { unfold hash_outputs, committed_outputs.
    destruct (negb (is_single ht) && negb (is_none ht)) eqn:Ea; [apply outputs_hash_all|].
    assert (Hu : uint32_of_len (tx_outs t) = N.of_nat (length (tx_outs t))).
    { unfold uint32_of_len. apply N.mod_small. unfold two31, two32 in *. lia. }
    rewrite Hu. cbn [wire_tx t_vout]. rewrite nth_error_map.
    destruct (is_single ht); cbn [andb]; [|reflexivity].
    destruct (N.ltb_spec i (N.of_nat (length (tx_outs t)))) as [Hlt|Hge].
    - destruct (nth_error (tx_outs t) (N.to_nat i)) as [o|] eqn:Eo.
      + cbn [option_map]. apply outputs_hash_one; [lia|exact Eo].
      + apply nth_error_None in Eo. lia.
    - assert (Eo : nth_error (tx_outs t) (N.to_nat i) = None) by (apply nth_error_None; lia).
      rewrite Eo. reflexivity. }
  rewrite HP, HS, HO. cbn [fst]. unfold ser_outpoint, ser_script, u32, u64, compact_size.
  cbn [wire_in ti_prevout op_hash op_n ti_sequence]. rewrite <- !app_assoc. reflexivity.
Qed.

Theorem forkid_missing_input t i ht : N.of_nat (length (tx_ins t)) <= i ->
  fst (calc_input_preimage t i ht) = SErr ErrInputNoExist.
Proof.
  intros H. unfold calc_input_preimage. rewrite input_idx_spec.
  replace (nth_error (tx_ins t) (N.to_nat i)) with (@None input) by (symmetry; apply nth_error_None; lia).
  reflexivity.
Qed.
Theorem forkid_missing_txid t i ht inp : nth_error (tx_ins t) (N.to_nat i) = Some inp -> in_txid inp = [] ->
  fst (calc_input_preimage t i ht) = SErr ErrEmptyPreviousTxID.
Proof. intros H E. unfold calc_input_preimage. rewrite input_idx_spec, H, E. reflexivity. Qed.
Theorem forkid_missing_script t i ht inp : nth_error (tx_ins t) (N.to_nat i) = Some inp -> in_txid inp <> [] ->
  in_script inp = None -> fst (calc_input_preimage t i ht) = SErr ErrEmptyPreviousTxScript.
Proof.
  intros H E S. unfold calc_input_preimage. rewrite input_idx_spec, H, S.
  destruct (in_txid inp); [congruence|]. reflexivity.
Qed.

Theorem forkid_leaves_tx_unchanged t i ht : snd (calc_input_preimage t i ht) = t.
Proof.
  unfold calc_input_preimage. destruct (input_idx t i); [|reflexivity].
  destruct (length (in_txid i0) =? 0)%nat; [reflexivity|]. destruct (in_script i0); [|reflexivity].
  match goal with |- snd (match ?x with _ => _ end) = _ => destruct x end; reflexivity.
Qed.

(** length of the spec's preimage: 156 bytes of fixed-width fields + the CompactSize-prefixed script code *)
Lemma hash_prevouts_length tx ht : length (hash_prevouts tx ht) = 32%nat.
Proof. unfold hash_prevouts. destruct (commits_to_all_prevouts ht); [apply sha256_length|reflexivity]. Qed.
Lemma hash_sequence_length tx ht : length (hash_sequence tx ht) = 32%nat.
Proof. unfold hash_sequence. destruct (commits_to_all_sequences ht); [apply sha256_length|reflexivity]. Qed.
Lemma hash_outputs_length tx n ht : length (hash_outputs tx n ht) = 32%nat.
Proof. unfold hash_outputs. destruct (committed_outputs ht n (t_vout tx)); try apply sha256_length; reflexivity. Qed.

Theorem forkid_preimage_length tx nIn inp sc amount ht p :
  nth_error (t_vin tx) nIn = Some inp -> length (op_hash (ti_prevout inp)) = 32%nat ->
  forkid_preimage tx nIn sc amount ht = Some p ->
  lenN p = 156 + varint_len (lenN sc) + lenN sc.
Proof.
  intros Hn H32 Hp. unfold forkid_preimage in Hp. rewrite Hn in Hp. injection Hp as <-.
  unfold digest_bytes, forkid_fields. cbn [d_version d_hash_prevouts d_hash_sequence d_outpoint d_script_code
    d_value d_sequence d_hash_outputs d_locktime d_hash_type].
  unfold lenN, ser_outpoint, ser_script, u32, u64, compact_size. rewrite varint_len_spec. unfold lenN.
  rewrite !app_length, !le_enc_length, hash_prevouts_length, hash_sequence_length, hash_outputs_length, H32.
  lia.
Qed.

(** CalcInputSignatureHash on a FORKID type: the double SHA-256 of the preimage; errors pass through *)
Lemma bytes_eqb_neq_length a b : length a <> length b -> bytes_eqb a b = false.
Proof.
  intros H. destruct (bytes_eqb a b) eqn:E; [|reflexivity]. apply bytes_eqb_eq in E. congruence.
Qed.

Lemma forkid_model_preimage_long t i ht p : fst (calc_input_preimage t i ht) = SOk p -> (36 <= length p)%nat.
Proof.
  unfold calc_input_preimage. destruct (input_idx t i) as [inp|]; [|discriminate].
  destruct (length (in_txid inp) =? 0)%nat; [discriminate|]. destruct (in_script inp); [|discriminate].
  match goal with |- fst (match ?x with _ => _ end) = _ -> _ => destruct x as [ho|] end; [|discriminate].
  cbn [fst]. intros H. apply (f_equal (fun r => match r with SOk b => length b | _ => 0%nat end)) in H.
  cbn beta iota in H. rewrite <- H. rewrite !app_length, le_enc_length.
  match goal with |- context [length (if ?c then _ else _)] => destruct c end;
    rewrite ?sha256d_length; unfold previous_out_hash; rewrite ?sha256d_length; cbn [zero32 repeat_byte length]; lia.
Qed.

Theorem forkid_hash_is_sha256d t i ht : ht < 256 -> has_forkid ht = true ->
  fst (calc_input_signature_hash t i ht) =
  match fst (calc_input_preimage t i ht) with
  | SOk p => SOk (sha256 (sha256 p))
  | other => other
  end.
Proof.
  intros Hht Hf. unfold calc_input_signature_hash. rewrite flag_forkid, Hf by exact Hht.
  destruct (calc_input_preimage t i ht) as [r t'] eqn:E. cbn [fst].
  destruct r as [p| | | |]; try reflexivity.
  assert (Hl : (36 <= length p)%nat) by (apply (forkid_model_preimage_long t i ht); rewrite E; reflexivity).
  rewrite bytes_eqb_neq_length; [reflexivity|]. cbn [default_hex length repeat_byte]. lia.
Qed.

Theorem sighash_leaves_tx_unchanged_forkid t i ht : has_forkid ht = true -> ht < 256 ->
  snd (calc_input_signature_hash t i ht) = t.
Proof.
  intros Hf Hht. unfold calc_input_signature_hash. rewrite flag_forkid, Hf by exact Hht.
  pose proof (forkid_leaves_tx_unchanged t i ht) as H.
  destruct (calc_input_preimage t i ht) as [r t']. cbn [snd] in H. subst t'.
  destruct r; try reflexivity. destruct (bytes_eqb default_hex b); reflexivity.
Qed.

Theorem forkid_sighash_is_spec t i ht inp sc :
  ht < 256 -> has_forkid ht = true -> i < two32 -> N.of_nat (length (tx_outs t)) < two31 ->
  nth_error (tx_ins t) (N.to_nat i) = Some inp -> in_txid inp <> [] -> in_script inp = Some sc ->
  option_map SOk (forkid_sighash (wire_tx t) (N.to_nat i) sc (in_sats inp) ht)
  = Some (fst (calc_input_signature_hash t i ht)).
Proof.
  intros Hht Hf Hi Hlen Hnth Htxid Hsc.
  pose proof (forkid_preimage_is_spec t i ht inp sc Hht Hi Hlen Hnth Htxid Hsc) as H.
  rewrite (forkid_hash_is_sha256d t i ht Hht Hf). unfold forkid_sighash.
  destruct (forkid_preimage (wire_tx t) (N.to_nat i) sc (in_sats inp) ht) as [p|]; [|discriminate].
  cbn [option_map] in *. injection H as <-. reflexivity.
Qed.

Theorem zeroing_rules_table ht : ht < 256 ->
  commits_to_all_prevouts ht = negb (128 <=? ht) /\
  commits_to_all_sequences ht = negb (128 <=? ht) && negb (ht mod 32 =? 2) && negb (ht mod 32 =? 3).
Proof.
  intros H.
  apply (below256 (fun h => Bool.eqb (commits_to_all_prevouts h) (negb (128 <=? h)) &&
                            Bool.eqb (commits_to_all_sequences h)
                              (negb (128 <=? h) && negb (h mod 32 =? 2) && negb (h mod 32 =? 3)))) in H;
    [|vm_compute; reflexivity].
  apply andb_true_iff in H. destruct H as [H1 H2]. split; apply eqb_prop; assumption.
Qed.

(** * C03: the legacy digest *)

(** ** the index-carrying loops *)
Lemma mapi_from_ext {A B} (f g : N -> A -> B) k l :
  (forall j x, f j x = g j x) -> mapi_from f k l = mapi_from g k l.
Proof. intros H. revert k; induction l as [|x r IH]; intros k; cbn [mapi_from]; [reflexivity|]. rewrite H, IH. reflexivity. Qed.

Lemma mapi_from_comp {A B C} (f : N -> B -> C) (g : N -> A -> B) k l :
  mapi_from f k (mapi_from g k l) = mapi_from (fun j x => f j (g j x)) k l.
Proof. revert k; induction l as [|x r IH]; intros k; cbn [mapi_from]; [reflexivity|]. rewrite IH. reflexivity. Qed.

Lemma mapi_from_const {A B} (f : N -> A -> B) (h : A -> B) k l :
  (forall j y, k <= j -> f j y = h y) -> mapi_from f k l = map h l.
Proof.
  revert k; induction l as [|x r IH]; intros k H; cbn [mapi_from map]; [reflexivity|].
  rewrite H by lia. rewrite IH; [reflexivity|]. intros j y Hj. apply H. lia.
Qed.

Lemma mapi_from_split {A B} (g h : A -> B) n : forall k l x, nth_error l n = Some x ->
  mapi_from (fun j y => if j =? k + N.of_nat n then g y else h y) k l
  = map h (firstn n l) ++ g x :: map h (skipn (S n) l).
Proof.
  induction n as [|n IH]; intros k l x Hn; destruct l as [|y r]; try discriminate.
  - cbn in Hn. injection Hn as ->. cbn [mapi_from firstn skipn map app].
    replace (k + N.of_nat 0) with k by lia. rewrite N.eqb_refl. f_equal.
    apply mapi_from_const. intros j z Hj. destruct (N.eqb_spec j k); [lia|reflexivity].
  - cbn [nth_error] in Hn. cbn [mapi_from firstn map app].
    destruct (N.eqb_spec k (k + N.of_nat (S n))); [lia|]. f_equal.
    rewrite (mapi_from_ext _ (fun j y => if j =? (k + 1) + N.of_nat n then g y else h y)).
    + rewrite (IH (k + 1) r x Hn). reflexivity.
    + intros j z. replace (k + 1 + N.of_nat n) with (k + N.of_nat (S n)) by lia. reflexivity.
Qed.

Lemma mapi_split {A B} (g h : A -> B) i l x : nth_error l (N.to_nat i) = Some x ->
  mapi (fun j y => if j =? i then g y else h y) l
  = map h (firstn (N.to_nat i) l) ++ g x :: map h (skipn (S (N.to_nat i)) l).
Proof.
  intros H. unfold mapi. rewrite <- (mapi_from_split g h (N.to_nat i) 0 l x H).
  apply mapi_from_ext. intros j y. rewrite N.add_0_l, N2Nat.id. reflexivity.
Qed.

(** SINGLE: outputs before the signed index are nulled, the list is cut after it *)
Lemma mapi_from_below {A} (c : A) n : forall k (l : list A), (n < length l)%nat ->
  mapi_from (fun j o => if j <? k + N.of_nat n then c else o) k (firstn (S n) l)
  = repeat c n ++ firstn 1 (skipn n l).
Proof.
  induction n as [|n IH]; intros k l Hl; destruct l as [|y r]; cbn [length] in Hl; try lia.
  - cbn [firstn mapi_from repeat app skipn]. destruct (N.ltb_spec k (k + N.of_nat 0)); [lia|reflexivity].
  - change (firstn (S (S n)) (y :: r)) with (y :: firstn (S n) r). cbn [mapi_from repeat app skipn].
    destruct (N.ltb_spec k (k + N.of_nat (S n))); [|lia]. f_equal.
    rewrite (mapi_from_ext _ (fun j o => if j <? (k + 1) + N.of_nat n then c else o)).
    + apply IH. lia.
    + intros j z. replace (k + 1 + N.of_nat n) with (k + N.of_nat (S n)) by lia. reflexivity.
Qed.

Lemma map_repeat' {A B} (f : A -> B) x n : map f (repeat x n) = repeat (f x) n.
Proof. induction n; cbn; [reflexivity|]. rewrite IHn. reflexivity. Qed.

Lemma skipn_app_exact {A} (a b : list A) n : length a = n -> skipn n (a ++ b) = b.
Proof. intros <-. rewrite skipn_app, skipn_all, Nat.sub_diag. reflexivity. Qed.

(** ** the serialisation loop *)
Definition legacy_wire (x : input) : txin :=
  mkTxIn (mkOutPoint (rev (in_txid x)) (in_vout x))
         (match in_script x with Some s => s | None => [] end) (in_seq x).

Lemma ser_txin_legacy_wire x s : in_script x = Some s ->
  ser_txin (legacy_wire x) = rev (in_txid x) ++ le_enc 4 (in_vout x) ++ varint_bytes (lenN s) ++ s ++ le_enc 4 (in_seq x).
Proof.
  intros H. unfold ser_txin, legacy_wire, ser_outpoint, ser_script, u32, compact_size.
  cbn [ti_prevout op_hash op_n ti_script_sig ti_sequence]. rewrite H, <- !app_assoc. reflexivity.
Qed.

Lemma legacy_inputs_bytes_ok ins : Forall (fun x => in_script x <> None) ins ->
  legacy_inputs_bytes ins = Some (concat (map ser_txin (map legacy_wire ins))).
Proof.
  induction 1 as [|x r Hx _ IH]; [reflexivity|].
  cbn [legacy_inputs_bytes map concat]. rewrite IH.
  destruct (in_script x) as [s|] eqn:Es; [|congruence].
  rewrite (ser_txin_legacy_wire x s Es), <- !app_assoc. reflexivity.
Qed.

Lemma legacy_outputs_bytes outs :
  concat (map legacy_output_bytes outs) = concat (map ser_txout (map wire_out outs)).
Proof. rewrite map_map. reflexivity. Qed.

(** ** main refinement *)
Definition legacy_expected (sc : bytes) (t : tx) (i ht : N) : sres :=
  match legacy_signature_hash sc (wire_tx t) (N.to_nat i) ht with
  | LegacyOne => SOk default_hex
  | LegacyPreimage p => SOk p
  end.

Lemma wf_tx_not_ambiguous t inp n : nth_error (tx_ins t) n = Some inp -> ~ ambiguous t.
Proof. intros H [E _]. rewrite E in H. destruct n; discriminate. Qed.

Lemma wf_tx_txid t inp n : wf_tx t -> nth_error (tx_ins t) n = Some inp -> length (in_txid inp) = 32%nat.
Proof.
  intros (_ & _ & Hins & _) Hn. rewrite Forall_forall in Hins.
  apply nth_error_In in Hn. apply Hins in Hn. destruct Hn as (H & _). exact H.
Qed.

Theorem legacy_preimage_is_spec t i ht inp sc :
  wf_tx t -> ht < 256 -> i + 1 < two32 ->
  nth_error (tx_ins t) (N.to_nat i) = Some inp -> in_script inp = Some sc ->
  fst (calc_input_preimage_legacy t i ht) = legacy_expected sc t i ht.
Proof.
  intros Hwf Hht Hi Hnth Hsc.
  pose proof (wf_tx_txid t inp _ Hwf Hnth) as H32.
  unfold calc_input_preimage_legacy, legacy_expected, legacy_signature_hash.
  rewrite input_idx_spec, Hnth, H32, Hsc. cbn [Nat.eqb].
  cbn [wire_tx t_vin t_vout]. rewrite nth_error_map, Hnth. cbn [option_map].
  rewrite flag_single by exact Hht. rewrite map_length.
  assert (Hg : (Z.of_N i >? Z.of_nat (length (tx_outs t)) - 1)%Z = Nat.leb (length (tx_outs t)) (N.to_nat i)).
  { destruct (Z.gtb_spec (Z.of_N i) (Z.of_nat (length (tx_outs t)) - 1));
      destruct (Nat.leb_spec (length (tx_outs t)) (N.to_nat i)); try reflexivity; lia. }
  rewrite Hg.
  destruct (is_single ht && Nat.leb (length (tx_outs t)) (N.to_nat i)) eqn:Eone; [reflexivity|].
  rewrite (clone_eq t Hwf (wf_tx_not_ambiguous t inp _ Hnth)).
  cbv zeta. rewrite flag_none, flag_acp by exact Hht. rewrite negb_involutive.
  assert (Hnext : (i + 1) mod two32 = i + 1) by (apply N.mod_small; exact Hi).
  rewrite Hnext.
  (* the blanked inputs, and the blanked inputs with the others' sequences zeroed *)
  set (G := fun x : input => set_prev_script x (Some sc)).
  assert (Hins1 : mapi (fun j x => if j =? i then set_prev_script x (Some sc) else blank_input x) (tx_ins t)
                  = map blank_input (firstn (N.to_nat i) (tx_ins t)) ++ G inp ::
                    map blank_input (skipn (S (N.to_nat i)) (tx_ins t))).
  { apply (mapi_split G blank_input i _ inp Hnth). }
  assert (Hins2 : mapi (fun j x => if negb (j =? i) then zero_seq x else x)
                    (mapi (fun j x => if j =? i then set_prev_script x (Some sc) else blank_input x) (tx_ins t))
                  = map (fun x => zero_seq (blank_input x)) (firstn (N.to_nat i) (tx_ins t)) ++ G inp ::
                    map (fun x => zero_seq (blank_input x)) (skipn (S (N.to_nat i)) (tx_ins t))).
  { unfold mapi. rewrite mapi_from_comp.
    rewrite (mapi_from_ext _ (fun j x => if j =? i then G x else zero_seq (blank_input x))).
    - apply (mapi_split G (fun x => zero_seq (blank_input x)) i _ inp Hnth).
    - intros j x. destruct (j =? i); reflexivity. }
  rewrite Hins2, Hins1. clear Hins1 Hins2.
  assert (Hlenpre : forall h : input -> input, length (map h (firstn (N.to_nat i) (tx_ins t))) = N.to_nat i).
  { intros h. rewrite map_length, firstn_length.
    assert (N.to_nat i < length (tx_ins t))%nat by (apply nth_error_Some; congruence). lia. }
  (* general shape of the remaining computation: inputs [pre ++ G inp :: post] built with [h] *)
  assert (Hfinal : forall (h : input -> input) (other : txin -> txin) (outs2 : list output) (vout : list txout),
     (forall x, legacy_wire (h x) = other (wire_in x)) -> (forall x, in_script (h x) <> None) ->
     map wire_out outs2 = vout ->
     fst (match (if anyone_can_pay ht
                 then if (i + 1 <? i) || (N.of_nat (length (map h (firstn (N.to_nat i) (tx_ins t)) ++ G inp ::
                                                            map h (skipn (S (N.to_nat i)) (tx_ins t)))) <? i + 1)
                      then None
                      else Some (firstn (N.to_nat (i + 1 - i)) (skipn (N.to_nat i)
                              (map h (firstn (N.to_nat i) (tx_ins t)) ++ G inp :: map h (skipn (S (N.to_nat i)) (tx_ins t)))))
                 else Some (map h (firstn (N.to_nat i) (tx_ins t)) ++ G inp :: map h (skipn (S (N.to_nat i)) (tx_ins t))))
          with
          | None => (SPanic, t)
          | Some ins3 =>
              match legacy_inputs_bytes ins3 with
              | None => (SPanic, t)
              | Some ib =>
                  (SOk (le_enc 4 (tx_version t) ++ varint_bytes (N.of_nat (length ins3)) ++ ib ++
                        varint_bytes (N.of_nat (length outs2)) ++ concat (map legacy_output_bytes outs2) ++
                        le_enc 4 (tx_lock t) ++ le_enc 4 ht), t)
              end
          end)
     = SOk (ser_transaction (mkTransaction (tx_version t)
              (if anyone_can_pay ht then [with_script sc (wire_in inp)]
               else map other (firstn (N.to_nat i) (map wire_in (tx_ins t))) ++ with_script sc (wire_in inp) ::
                    map other (skipn (S (N.to_nat i)) (map wire_in (tx_ins t))))
              vout (tx_lock t)) ++ u32 ht)).
  { intros h other outs2 vout Hh Hsome Hout.
    assert (HG : legacy_wire (G inp) = with_script sc (wire_in inp)) by reflexivity.
    assert (HGs : in_script (G inp) <> None) by discriminate.
    set (full := map h (firstn (N.to_nat i) (tx_ins t)) ++ G inp :: map h (skipn (S (N.to_nat i)) (tx_ins t))).
    assert (Hfull : Forall (fun x => in_script x <> None) full).
    { apply Forall_app. split; [|constructor; [exact HGs|]]; apply Forall_forall; intros x Hx;
        apply in_map_iff in Hx; destruct Hx as (y & <- & _); apply Hsome. }
    assert (Hwfull : map legacy_wire full =
                     map other (firstn (N.to_nat i) (map wire_in (tx_ins t))) ++ with_script sc (wire_in inp) ::
                     map other (skipn (S (N.to_nat i)) (map wire_in (tx_ins t)))).
    { unfold full. rewrite map_app. cbn [map]. rewrite HG, firstn_map, skipn_map, !map_map.
      f_equal; [|f_equal]; apply map_ext; exact Hh. }
    assert (Hsel : forall ins3 vin, Forall (fun x => in_script x <> None) ins3 -> map legacy_wire ins3 = vin ->
       fst (match legacy_inputs_bytes ins3 with
            | None => (SPanic, t)
            | Some ib => (SOk (le_enc 4 (tx_version t) ++ varint_bytes (N.of_nat (length ins3)) ++ ib ++
                               varint_bytes (N.of_nat (length outs2)) ++ concat (map legacy_output_bytes outs2) ++
                               le_enc 4 (tx_lock t) ++ le_enc 4 ht), t)
            end) = SOk (ser_transaction (mkTransaction (tx_version t) vin vout (tx_lock t)) ++ u32 ht)).
    { intros ins3 vin Hf Hv. rewrite (legacy_inputs_bytes_ok ins3 Hf). cbn [fst].
      unfold ser_transaction, ser_vector, u32, compact_size. cbn [t_version t_vin t_vout t_locktime].
      rewrite <- Hv, <- Hout, !map_length, legacy_outputs_bytes, <- !app_assoc. reflexivity. }
    destruct (anyone_can_pay ht).
    - destruct (N.ltb_spec (i + 1) i) as [Hc|_]; [lia|]. cbn [orb].
      assert (Hl : length full = (N.to_nat i + S (length (skipn (S (N.to_nat i)) (tx_ins t))))%nat).
      { unfold full. rewrite app_length, Hlenpre. cbn [length]. rewrite map_length. reflexivity. }
      fold full. destruct (N.ltb_spec (N.of_nat (length full)) (i + 1)) as [Hc|_]; [lia|].
      replace (N.to_nat (i + 1 - i)) with 1%nat by lia.
      assert (Hsk : skipn (N.to_nat i) full = G inp :: map h (skipn (S (N.to_nat i)) (tx_ins t)))
        by (apply skipn_app_exact, Hlenpre).
      rewrite Hsk. cbn [firstn].
      apply Hsel; [constructor; [exact HGs|constructor]|]. cbn [map]. rewrite HG. reflexivity.
    - fold full. apply Hsel; [exact Hfull|exact Hwfull]. }
  unfold legacy_tx_copy. cbn [t_version t_vin t_vout t_locktime].
  destruct (is_none ht) eqn:En.
  - (* NONE *)
    cbn [orb]. apply (Hfinal (fun x => zero_seq (blank_input x)) (fun x => zero_sequence (blank_script x)) [] []);
      [reflexivity|discriminate|reflexivity].
  - destruct (is_single ht) eqn:Es; cbn [orb andb] in *.
    + (* SINGLE with a matching output *)
      apply Nat.leb_gt in Eone.
      destruct (N.ltb_spec (N.of_nat (length (tx_outs t))) (i + 1)) as [Hc|_]; [lia|].
      destruct (N.ltb_spec (i + 1) i) as [Hc|_]; [lia|]. cbn [orb].
      apply (Hfinal (fun x => zero_seq (blank_input x)) (fun x => zero_sequence (blank_script x)));
        [reflexivity|discriminate|].
      replace (N.to_nat (i + 1)) with (S (N.to_nat i)) by lia. unfold mapi.
      rewrite (mapi_from_ext _ (fun j o => if j <? 0 + N.of_nat (N.to_nat i) then mkOutput max_u64 [] else o))
        by (intros j o; rewrite N.add_0_l, N2Nat.id; reflexivity).
      rewrite (mapi_from_below _ _ 0 _ Eone). cbn [wire_tx t_vout]. rewrite map_app, map_repeat', skipn_map, firstn_map. reflexivity.
    + (* ALL and the undefined base types *)
      apply (Hfinal blank_input blank_script); [reflexivity|discriminate|reflexivity].
Qed.

(** ** consequences *)
Theorem legacy_single_bug_preimage t i ht inp : ht < 256 ->
  nth_error (tx_ins t) (N.to_nat i) = Some inp -> in_txid inp <> [] -> in_script inp <> None ->
  is_single ht = true -> N.of_nat (length (tx_outs t)) <= i ->
  fst (calc_input_preimage_legacy t i ht) = SOk default_hex.
Proof.
  intros Hht Hnth Htx Hsc Hs Hout. unfold calc_input_preimage_legacy.
  rewrite input_idx_spec, Hnth. destruct (in_txid inp) as [|b0 r]; [congruence|]. cbn [length Nat.eqb].
  destruct (in_script inp); [|congruence]. rewrite flag_single, Hs by exact Hht.
  destruct (Z.gtb_spec (Z.of_N i) (Z.of_nat (length (tx_outs t)) - 1)); [reflexivity|lia].
Qed.

Theorem legacy_single_bug t i ht inp : ht < 256 -> has_forkid ht = false ->
  nth_error (tx_ins t) (N.to_nat i) = Some inp -> in_txid inp <> [] -> in_script inp <> None ->
  is_single ht = true -> N.of_nat (length (tx_outs t)) <= i ->
  fst (calc_input_signature_hash t i ht) = SOk (le_enc 32 1).
Proof.
  intros Hht Hf Hnth Htx Hsc Hs Hout. unfold calc_input_signature_hash.
  rewrite flag_forkid, Hf by exact Hht.
  pose proof (legacy_single_bug_preimage t i ht inp Hht Hnth Htx Hsc Hs Hout) as H.
  destruct (calc_input_preimage_legacy t i ht) as [r t']. cbn [fst] in H. subst r.
  rewrite bytes_eqb_refl. reflexivity.
Qed.

Lemma concat_map_In_length {A} (f : A -> bytes) x l : In x l -> (length (f x) <= length (concat (map f l)))%nat.
Proof.
  induction l as [|y r IH]; [intros []|]. intros [->|H]; cbn [map concat]; rewrite app_length; [lia|].
  specialize (IH H). lia.
Qed.

Lemma legacy_spec_preimage_long sc tx n ht inp p :
  nth_error (t_vin tx) n = Some inp -> length (op_hash (ti_prevout inp)) = 32%nat ->
  legacy_signature_hash sc tx n ht = LegacyPreimage p -> (32 < length p)%nat.
Proof.
  intros Hn H32. unfold legacy_signature_hash. rewrite Hn.
  destruct (is_single ht && Nat.leb (length (t_vout tx)) n); [discriminate|]. intros H.
  apply (f_equal (fun d => match d with LegacyPreimage b => length b | LegacyOne => 0%nat end)) in H.
  cbn beta iota in H. rewrite <- H. clear H.
  unfold ser_transaction, ser_vector. rewrite !app_length. unfold u32 at 1. rewrite le_enc_length.
  set (cp := legacy_tx_copy sc tx n inp ht).
  assert (Hin : In (with_script sc inp) (t_vin cp)).
  { unfold cp, legacy_tx_copy. cbn [t_vin]. destruct (anyone_can_pay ht); [left; reflexivity|].
    apply in_or_app. right. left. reflexivity. }
  pose proof (concat_map_In_length ser_txin _ _ Hin) as Hl.
  unfold ser_txin at 1, ser_outpoint in Hl. rewrite !app_length in Hl. cbn [with_script ti_prevout] in Hl.
  rewrite H32 in Hl. lia.
Qed.

Theorem legacy_sighash_is_spec t i ht inp sc :
  wf_tx t -> ht < 256 -> has_forkid ht = false -> i + 1 < two32 ->
  nth_error (tx_ins t) (N.to_nat i) = Some inp -> in_script inp = Some sc ->
  fst (calc_input_signature_hash t i ht) = SOk (legacy_sighash sc (wire_tx t) (N.to_nat i) ht).
Proof.
  intros Hwf Hht Hf Hi Hnth Hsc. unfold calc_input_signature_hash. rewrite flag_forkid, Hf by exact Hht.
  pose proof (legacy_preimage_is_spec t i ht inp sc Hwf Hht Hi Hnth Hsc) as H.
  destruct (calc_input_preimage_legacy t i ht) as [r t']. cbn [fst] in H. subst r.
  unfold legacy_expected, legacy_sighash.
  destruct (legacy_signature_hash sc (wire_tx t) (N.to_nat i) ht) as [|p] eqn:E.
  - rewrite bytes_eqb_refl. reflexivity.
  - assert (Hl : (32 < length p)%nat).
    { apply (legacy_spec_preimage_long sc (wire_tx t) (N.to_nat i) ht (wire_in inp) p); [| |exact E].
      - cbn [wire_tx t_vin]. rewrite nth_error_map, Hnth. reflexivity.
      - cbn [wire_in ti_prevout op_hash]. rewrite rev_length. apply (wf_tx_txid t inp _ Hwf Hnth). }
    rewrite bytes_eqb_neq_length; [reflexivity|]. cbn [default_hex length repeat_byte]. lia.
Qed.

Theorem legacy_missing_input t i ht : N.of_nat (length (tx_ins t)) <= i ->
  fst (calc_input_preimage_legacy t i ht) = SErr ErrInputNoExist.
Proof.
  intros H. unfold calc_input_preimage_legacy. rewrite input_idx_spec.
  replace (nth_error (tx_ins t) (N.to_nat i)) with (@None input) by (symmetry; apply nth_error_None; lia).
  reflexivity.
Qed.
Theorem legacy_missing_txid t i ht inp : nth_error (tx_ins t) (N.to_nat i) = Some inp -> in_txid inp = [] ->
  fst (calc_input_preimage_legacy t i ht) = SErr ErrEmptyPreviousTxID.
Proof. intros H E. unfold calc_input_preimage_legacy. rewrite input_idx_spec, H, E. reflexivity. Qed.
Theorem legacy_missing_script t i ht inp : nth_error (tx_ins t) (N.to_nat i) = Some inp -> in_txid inp <> [] ->
  in_script inp = None -> fst (calc_input_preimage_legacy t i ht) = SErr ErrEmptyPreviousTxScript.
Proof.
  intros H E S. unfold calc_input_preimage_legacy. rewrite input_idx_spec, H, S.
  destruct (in_txid inp); [congruence|]. reflexivity.
Qed.

Theorem legacy_leaves_tx_unchanged t i ht : snd (calc_input_preimage_legacy t i ht) = t.
Proof.
  unfold calc_input_preimage_legacy. cbv zeta.
  repeat match goal with
         | |- snd (match ?x with _ => _ end) = _ => destruct x
         | |- snd (if ?c then _ else _) = _ => destruct c
         end; reflexivity.
Qed.

Theorem sighash_leaves_tx_unchanged t i ht : snd (calc_input_signature_hash t i ht) = t.
Proof.
  unfold calc_input_signature_hash.
  pose proof (forkid_leaves_tx_unchanged t i ht) as H1. pose proof (legacy_leaves_tx_unchanged t i ht) as H2.
  destruct (flag_has ht sh_forkid).
  - destruct (calc_input_preimage t i ht) as [r t']. cbn [snd] in H1. subst t'.
    destruct r; try reflexivity. destruct (bytes_eqb default_hex b); reflexivity.
  - destruct (calc_input_preimage_legacy t i ht) as [r t']. cbn [snd] in H2. subst t'.
    destruct r; try reflexivity. destruct (bytes_eqb default_hex b); reflexivity.
Qed.

(** the unlocking scripts already present in the transaction (of the signed input and of the
    others) do not influence the digest *)
Definition erase_unlock (x : input) : input :=
  mkInput (in_txid x) (in_vout x) [] (in_seq x) (in_sats x) (in_script x).
Definition erase_unlocks (t : tx) : tx :=
  mkTx (tx_version t) (map erase_unlock (tx_ins t)) (tx_outs t) (tx_lock t).

Lemma legacy_spec_ignores_script_sigs sc tx1 tx2 n ht :
  t_version tx1 = t_version tx2 -> t_vout tx1 = t_vout tx2 -> t_locktime tx1 = t_locktime tx2 ->
  map blank_script (t_vin tx1) = map blank_script (t_vin tx2) ->
  legacy_signature_hash sc tx1 n ht = legacy_signature_hash sc tx2 n ht.
Proof.
  intros Hv Ho Hl Hb. unfold legacy_signature_hash.
  assert (Hn : option_map blank_script (nth_error (t_vin tx1) n) = option_map blank_script (nth_error (t_vin tx2) n))
    by (rewrite <- !nth_error_map, Hb; reflexivity).
  destruct (nth_error (t_vin tx1) n) as [a|], (nth_error (t_vin tx2) n) as [b|]; try discriminate; [|reflexivity].
  cbn [option_map] in Hn. injection Hn as Hp Hq. rewrite Ho.
  destruct (is_single ht && Nat.leb (length (t_vout tx2)) n); [reflexivity|].
  f_equal. f_equal. f_equal. unfold legacy_tx_copy. rewrite Hv, Ho, Hl. f_equal.
  assert (Hs : with_script sc a = with_script sc b) by (unfold with_script; rewrite Hp, Hq; reflexivity).
  rewrite Hs. destruct (anyone_can_pay ht); [reflexivity|].
  assert (Hother : forall (f : txin -> txin) l1 l2, (forall x, f x = f (blank_script x)) ->
            map blank_script l1 = map blank_script l2 -> map f l1 = map f l2).
  { intros f l1 l2 Hf Hm. rewrite (map_ext f (fun x => f (blank_script x)) Hf l1), (map_ext f (fun x => f (blank_script x)) Hf l2).
    rewrite <- !(map_map blank_script f), Hm. reflexivity. }
  f_equal; [|f_equal]; apply Hother;
    try (intros x; destruct (is_none ht || is_single ht); reflexivity);
    rewrite <- ?firstn_map, <- ?skipn_map, Hb; reflexivity.
Qed.

Theorem legacy_ignores_unlocking_scripts t1 t2 i ht inp1 sc :
  wf_tx t1 -> wf_tx t2 -> ht < 256 -> i + 1 < two32 ->
  erase_unlocks t1 = erase_unlocks t2 ->
  nth_error (tx_ins t1) (N.to_nat i) = Some inp1 -> in_script inp1 = Some sc ->
  fst (calc_input_preimage_legacy t1 i ht) = fst (calc_input_preimage_legacy t2 i ht).
Proof.
  intros Hwf1 Hwf2 Hht Hi He Hn1 Hsc1.
  injection He as Hv Hins Hout Hl.
  assert (Hn : option_map erase_unlock (nth_error (tx_ins t1) (N.to_nat i))
               = option_map erase_unlock (nth_error (tx_ins t2) (N.to_nat i)))
    by (rewrite <- !nth_error_map, Hins; reflexivity).
  rewrite Hn1 in Hn. destruct (nth_error (tx_ins t2) (N.to_nat i)) as [inp2|] eqn:Hn2; [|discriminate].
  cbn [option_map] in Hn. injection Hn as _ _ _ _ Hsc. rewrite Hsc1 in Hsc. symmetry in Hsc.
  rewrite (legacy_preimage_is_spec t1 i ht inp1 sc Hwf1 Hht Hi Hn1 Hsc1),
          (legacy_preimage_is_spec t2 i ht inp2 sc Hwf2 Hht Hi Hn2 Hsc).
  unfold legacy_expected.
  rewrite (legacy_spec_ignores_script_sigs sc (wire_tx t1) (wire_tx t2) (N.to_nat i) ht); try reflexivity;
    cbn [wire_tx t_version t_vout t_locktime t_vin]; try congruence.
  rewrite !map_map.
  transitivity (map (fun x => blank_script (wire_in x)) (map erase_unlock (tx_ins t1))); [rewrite map_map; reflexivity|].
  rewrite Hins, map_map. reflexivity.
Qed.
