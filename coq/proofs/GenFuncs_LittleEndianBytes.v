(** LittleEndianBytes (bytemanipulation.go), as printed from the Go source: with the length 4 that every caller in
    package bt passes it is [le_enc 4]; with a shorter length it panics (PutUint32 on a short buffer). *)
From Coq Require Import List ZArith NArith Bool Lia ZifyN ZifyNat ZifyBool.
From Coq Require Import Strings.Byte.
From GoBT Require Import lib.Bytes lib.GoSem lib.GoTx gen.Funcs proofs.GenFuncsTac proofs.GenFuncsTxTac.
Import ListNotations.
Ltac Zify.zify_post_hook ::= Z.div_mod_to_equations.
Local Open Scope Z_scope.

Lemma LittleEndianBytes_4 v : LittleEndianBytes v 4 = Val (le_enc 4 (Z.to_N v)).
Proof. unfold LittleEndianBytes. tx_norm. reflexivity. Qed.

Lemma LittleEndianBytes_short v l : 0 <= l < 4 -> LittleEndianBytes v l = Panic.
Proof.
  intros H. assert (E : l = 0 \/ l = 1 \/ l = 2 \/ l = 3) by lia.
  destruct E as [-> | [-> | [-> | ->]]]; unfold LittleEndianBytes; tx_make; reflexivity.
Qed.
