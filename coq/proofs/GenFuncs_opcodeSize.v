(** opcodeSize (bscript/interpreter/operations.go), as printed from the Go source, is the branch of [Interp.exec_handler]
    for OP_SIZE: for every context and state (data stack of fewer than 2^31 - 16 items, items shorter than 2^63 bytes), the printed
    function applied to the thread fields it uses -- the data stack in Go order, [rev (ds s)] --
    yields the model's outcome (ok with the new stack / script error / panic), and never runs out of fuel. *)
From Coq Require Import List ZArith NArith Bool Lia ZifyN ZifyNat ZifyBool.
From Coq Require Import Strings.Byte.
From GoBT Require Import lib.Bytes lib.GoSem lib.GoInterp gen.Funcs proofs.GenFuncsTac proofs.GenFuncsInterpTac proofs.GenFuncs_stack_PeekByteArray proofs.GenFuncs_stack_PushInt.
From GoBT Require model.Interp model.ScriptNum.
Import ListNotations.
Ltac Zify.zify_post_hook ::= Z.div_mod_to_equations.
Local Open Scope Z_scope.

(** the branch of the model this handler is compared with (opcode OP_SIZE; proofs/DispatchProofs.v ties the table) *)
Lemma exec_at_opcodeSize so c p idx s : Interp.p_real p = true -> Interp.p_val p = Interp.OP_SIZE ->
  Interp.exec_handler so c p idx s = match Interp.ds s with t :: _ => Interp.push_num s (Interp.lenZ t) | [] => Interp.OErr end.
Proof. intros Hr Hv. unfold Interp.exec_handler. rewrite Hr, Hv. reflexivity. Qed.

Lemma opcodeSize_is_model so c p idx s : small (Interp.ds s) -> items_ok (Interp.ds s) -> Interp.p_real p = true -> Interp.p_val p = Interp.OP_SIZE ->
  h_view s (opcodeSize (rev (Interp.ds s))) = Some (Interp.exec_handler so c p idx s).
Proof.
  intros Hs Hi Hr Hv. rewrite (exec_at_opcodeSize so c p idx s Hr Hv).
  destruct s as [d a cd el no ls ea cu]. cbn [Interp.ds Interp.als] in *. h_model.
  go_list_cases d 1%nat; h_items; unfold opcodeSize, sn_of_int64; stk_run; try h_done.
  rewrite go_len_lenN. wrap32. stk_run. cbn [h_view]. h_model. rewrite rev_involutive.
  replace (Z.of_N (lenN x)) with (Interp.lenZ x) by (unfold Interp.lenZ, lenN; lia). reflexivity.
Qed.
