(** checkSignatureEncoding (model/CheckSig.v, [check_sig_enc]) accepts exactly the BIP66 strict-DER
    signatures of spec/MultisigSpec.v, and with the low-S flag exactly those whose S is at most half the
    group order.  The model indexes into the byte string as the Go code does; the specification is a
    grammar.  [enc_struct] evaluates the model on a string that has the grammar's shape; [enc_ok_shape]
    shows that acceptance forces the shape. *)
From Coq Require Import List NArith ZArith Lia Bool ZifyN ZifyNat ZifyBool.
From Coq Require Import Strings.Byte.
From GoBT Require Import lib.Bytes model.Tx model.SigHash model.ScriptNum model.Interp model.CheckSig
  spec.MultisigSpec proofs.CheckSigProofs.
Import ListNotations.
Definition enc_flags_on (c : ctx) : bool := has_flag c F_DERSIG || has_flag c F_LOWS || has_flag c F_STRICTENC.

Definition int_ok_b (x : bytes) : bool :=
  match x with
  | [] => false
  | b0 :: r => (b2n b0 <? 128)%N &&
               match r with [] => true | b1 :: _ => negb (b2n b0 =? 0)%N || (128 <=? b2n b1)%N end
  end.

Lemma int_ok_b_spec x : int_ok_b x = true <-> der_integer x.
Proof.
  destruct x as [|b0 [|b1 r]]; cbn [int_ok_b der_integer].
  - split; [discriminate|tauto].
  - rewrite andb_true_r. split; [intros H; split; [lia|exact I]|intros [H _]; lia].
  - split.
    + intros H. apply andb_true_iff in H. destruct H as [H1 H2]. split; [lia|]. intros E. rewrite E in H2. cbn in H2. lia.
    + intros [H1 H2]. apply andb_true_iff. split; [lia|]. destruct (b2n b0 =? 0)%N eqn:E; cbn; [|reflexivity].
      apply N.eqb_eq in E. specialize (H2 E). lia.
Qed.

Lemma nth_app_0 {A} (R X : list A) : nth_error (R ++ X) (length R) = nth_error X 0.
Proof. rewrite nth_error_app2 by lia. f_equal. lia. Qed.
Lemma nth_app_1 {A} (R X : list A) : nth_error (R ++ X) (length R + 1) = nth_error X 1.
Proof. rewrite nth_error_app2 by lia. f_equal. lia. Qed.
Lemma nth_app_2 {A} (R X : list A) : nth_error (R ++ X) (length R + 1 + 1) = nth_error X 2.
Proof. rewrite nth_error_app2 by lia. f_equal. lia. Qed.
Lemma nth_app_3 {A} (R X : list A) : nth_error (R ++ X) (length R + 1 + 1 + 1) = nth_error X 3.
Proof. rewrite nth_error_app2 by lia. f_equal. lia. Qed.
Lemma skipn_app_2 {A} (R : list A) a b X : skipn (length R + 1 + 1) (R ++ a :: b :: X) = X.
Proof. rewrite skipn_app. rewrite skipn_all2 by lia. replace (length R + 1 + 1 - length R)%nat with 2%nat by lia. reflexivity. Qed.

Lemma land128 v : (v < 256)%N -> (N.land v 128 =? 0)%N = (v <? 128)%N.
Proof.
  intros H.
  assert (E : forallb (fun k => Bool.eqb (N.land (N.of_nat k) 128 =? 0)%N (N.of_nat k <? 128)%N) (seq 0 256) = true) by (vm_compute; reflexivity).
  rewrite forallb_forall in E. specialize (E (N.to_nat v)). rewrite N2Nat.id in E.
  apply Bool.eqb_prop. apply E. apply (proj2 (List.in_seq 256 0 (N.to_nat v))). lia.
Qed.
Lemma land128b x : (N.land (b2n x) 128 =? 0)%N = (b2n x <? 128)%N.
Proof. apply land128, b2n_lt. Qed.

Definition struct_conds (c : ctx) (t0 l0 t1 lr : byte) (R : bytes) (t2 ls : byte) (Sv : bytes) : bool :=
  (b2n t0 =? 48)%N && (N.to_nat (b2n l0) =? 4 + length R + length Sv)%nat && (b2n t1 =? 2)%N && (b2n t2 =? 2)%N &&
  (N.to_nat (b2n ls) =? length Sv)%nat && int_ok_b R && int_ok_b Sv &&
  (negb (has_flag c F_LOWS) ||
   negb ((be_dec R <? curve_order)%N && (be_dec Sv <? curve_order)%N && (half_order <? be_dec Sv)%N)).

Lemma firstn_app_len {A} (R X : list A) : firstn (length R) (R ++ X) = R.
Proof. induction R; cbn; [destruct X; reflexivity|f_equal; assumption]. Qed.

Ltac ev_at := unfold at_; cbn [nth_error length Nat.add app];
              rewrite ?nth_app_0, ?nth_app_1, ?nth_app_2, ?nth_app_3; cbn [nth_error]; cbv iota beta.

Lemma enc_struct c t0 l0 t1 lr R t2 ls Sv : enc_flags_on c = true ->
  length R = N.to_nat (b2n lr) -> (length R + length Sv <= 66)%nat ->
  check_sig_enc c (t0 :: l0 :: t1 :: lr :: R ++ t2 :: ls :: Sv) =
  if struct_conds c t0 l0 t1 lr R t2 ls Sv then EncOk else EncErr.
Proof.
  intros Hf HR Hlen. unfold check_sig_enc. fold (enc_flags_on c). rewrite Hf. cbn [negb]. cbv zeta.
  assert (Lb : length (t0 :: l0 :: t1 :: lr :: R ++ t2 :: ls :: Sv) = (6 + length R + length Sv)%nat).
  { cbn [length]. rewrite app_length. cbn [length]. lia. }
  rewrite !Lb. clear Lb.
  unfold at_ at 1 2 3. cbn [nth_error]. cbv iota beta. rewrite <- !HR.
  replace (firstn (length R) (skipn 4 (t0 :: l0 :: t1 :: lr :: R ++ t2 :: ls :: Sv))) with R
    by (cbn [skipn]; symmetry; apply firstn_app_len).
  destruct R as [|r0 [|r1 R']]; destruct Sv as [|s0 [|s1 Sv']].
  all: unfold struct_conds; cbn [int_ok_b length] in *.
  all: ev_at.
  all: rewrite ?land128b.
  all: cbn [skipn]; rewrite ?skipn_app_2.
  all: repeat match goal with
       | |- context [be_dec (firstn ?n ?l)] =>
           replace (firstn n l) with l by (symmetry; apply firstn_all2; cbn [length]; lia)
       | |- (if ?b then _ else _) = _ => let E := fresh "E" in destruct b eqn:E
       end.
  all: match goal with |- _ = (if ?b then _ else _) => let E := fresh "Hc" in destruct b eqn:E end.
  all: try reflexivity.
  all: exfalso; lia.
Qed.

Lemma half_order_spec : half_order = (secp256k1_order / 2)%N.
Proof. vm_compute. reflexivity. Qed.
Lemma curve_order_spec : curve_order = secp256k1_order.
Proof. vm_compute. reflexivity. Qed.

(** acceptance forces the shape  T L T L R T L S *)
Lemma enc_ok_shape c b : enc_flags_on c = true -> check_sig_enc c b = EncOk ->
  exists t0 l0 t1 lr R t2 ls Sv,
    b = t0 :: l0 :: t1 :: lr :: R ++ t2 :: ls :: Sv /\ length R = N.to_nat (b2n lr) /\
    (length R + length Sv <= 66)%nat.
Proof.
  intros Hf H. unfold check_sig_enc in H. fold (enc_flags_on c) in H. rewrite Hf in H. cbn [negb] in H. cbv zeta in H.
  destruct (Nat.ltb (length b) 8) eqn:E8; [discriminate|].
  destruct (Nat.ltb 72 (length b)) eqn:E72; [discriminate|].
  destruct b as [|t0 [|l0 [|t1 [|lr rest]]]]; try (cbn in E8; discriminate).
  unfold at_ at 1 2 3 in H. cbn [nth_error] in H.
  destruct (negb (b2n t0 =? 48)%N); [discriminate|].
  destruct (negb (N.to_nat (b2n l0) =? length (t0 :: l0 :: t1 :: lr :: rest) - 2)%nat); [discriminate|].
  destruct (Nat.leb (length (t0 :: l0 :: t1 :: lr :: rest)) (4 + N.to_nat (b2n lr))) eqn:EA; [discriminate|].
  destruct (Nat.leb (length (t0 :: l0 :: t1 :: lr :: rest)) (4 + N.to_nat (b2n lr) + 1)) eqn:EB; [discriminate|].
  clear H. cbn [length] in *.
  pose proof (firstn_skipn (N.to_nat (b2n lr)) rest) as Hsplit.
  pose proof (skipn_length (N.to_nat (b2n lr)) rest) as Hsl.
  destruct (skipn (N.to_nat (b2n lr)) rest) as [|t2 [|ls Sv]] eqn:Esk; cbn [length] in Hsl; try lia.
  exists t0, l0, t1, lr, (firstn (N.to_nat (b2n lr)) rest), t2, ls, Sv.
  split; [rewrite Hsplit; reflexivity|]. rewrite firstn_length. split; lia.
Qed.

Lemma b2n_eq_byte x y : b2n x = b2n y -> x = y.
Proof. apply b2n_inj. Qed.

Lemma struct_conds_spec c t0 l0 t1 lr R t2 ls Sv : length R = N.to_nat (b2n lr) -> (length R + length Sv <= 66)%nat ->
  struct_conds c t0 l0 t1 lr R t2 ls Sv = true <->
  (t0 = x30 /\ l0 = n2b (N.of_nat (4 + length R + length Sv)) /\ t1 = x02 /\ lr = n2b (N.of_nat (length R)) /\
   t2 = x02 /\ ls = n2b (N.of_nat (length Sv)) /\ der_integer R /\ der_integer Sv /\
   (has_flag c F_LOWS = true -> low_s R Sv)).
Proof.
  intros HR Hlen. unfold struct_conds. rewrite !andb_true_iff, !int_ok_b_spec.
  assert (Hb : forall (x : byte) (k : nat), (k < 256)%nat -> N.to_nat (b2n x) = k <-> x = n2b (N.of_nat k)).
  { intros x k Hk. split.
    - intros E. rewrite <- (n2b_b2n x). f_equal. lia.
    - intros ->. rewrite b2n_n2b_small by lia. lia. }
  assert (Hc : forall (x y : byte), (b2n x =? b2n y)%N = true <-> x = y).
  { intros x y. rewrite N.eqb_eq. split; [apply b2n_inj|intros ->; reflexivity]. }
  change 48%N with (b2n x30). change 2%N with (b2n x02). rewrite !Hc, !Nat.eqb_eq.
  rewrite (Hb l0 (4 + length R + length Sv)%nat) by lia. rewrite (Hb ls (length Sv)) by lia.
  assert (HlrR : lr = n2b (N.of_nat (length R))) by (apply (Hb lr (length R)); lia).
  assert (Hlow : negb (has_flag c F_LOWS) ||
                 negb ((be_dec R <? curve_order)%N && (be_dec Sv <? curve_order)%N && (half_order <? be_dec Sv)%N) = true
                 <-> (has_flag c F_LOWS = true -> low_s R Sv)).
  { unfold low_s, in_range. rewrite <- half_order_spec, <- curve_order_spec. destruct (has_flag c F_LOWS); cbn [negb orb].
    - split.
      + intros H _ [H1 H2]. destruct (half_order <? be_dec Sv)%N eqn:E; [|lia].
        replace (be_dec R <? curve_order)%N with true in H by lia.
        replace (be_dec Sv <? curve_order)%N with true in H by lia. discriminate.
      + intros H. specialize (H eq_refl).
        destruct (be_dec R <? curve_order)%N eqn:E1; [|reflexivity].
        destruct (be_dec Sv <? curve_order)%N eqn:E2; [|reflexivity].
        cbn [andb]. assert (be_dec Sv <= half_order)%N by (apply H; split; lia).
        replace (half_order <? be_dec Sv)%N with false by lia. reflexivity.
    - split; [intros _ H; discriminate|reflexivity]. }
  rewrite Hlow. tauto.
Qed.

(** ** the theorems *)
Theorem check_sig_enc_off c b : enc_flags_on c = false -> check_sig_enc c b = EncOk.
Proof. intros H. unfold check_sig_enc. fold (enc_flags_on c). rewrite H. reflexivity. Qed.

Lemma check_sig_enc_iff c b : enc_flags_on c = true ->
  (check_sig_enc c b = EncOk <->
   exists R Sv : bytes,
     b = x30 :: n2b (N.of_nat (4 + length R + length Sv)) :: x02 :: n2b (N.of_nat (length R)) :: R ++
         x02 :: n2b (N.of_nat (length Sv)) :: Sv /\
     der_integer R /\ der_integer Sv /\ (length b <= 72)%nat /\ (has_flag c F_LOWS = true -> low_s R Sv)).
Proof.
  intros Hf. split.
  - intros H. destruct (enc_ok_shape c b Hf H) as (t0 & l0 & t1 & lr & R & t2 & ls & Sv & -> & HR & Hlen).
    rewrite (enc_struct c t0 l0 t1 lr R t2 ls Sv Hf HR Hlen) in H.
    destruct (struct_conds c t0 l0 t1 lr R t2 ls Sv) eqn:Ec; [|discriminate].
    apply (struct_conds_spec c t0 l0 t1 lr R t2 ls Sv HR Hlen) in Ec.
    destruct Ec as (-> & -> & -> & -> & -> & -> & HRi & HSi & Hlow).
    exists R, Sv. repeat split; try assumption. cbn [length]. rewrite app_length. cbn [length]. lia.
  - intros (R & Sv & -> & HRi & HSi & Hlen & Hlow).
    assert (Hl : (length R + length Sv <= 66)%nat).
    { cbn [length] in Hlen. rewrite app_length in Hlen. cbn [length] in Hlen. lia. }
    assert (HR : length R = N.to_nat (b2n (n2b (N.of_nat (length R))))) by (rewrite b2n_n2b_small by lia; lia).
    rewrite (enc_struct c _ _ _ _ R _ _ Sv Hf HR Hl).
    replace (struct_conds c x30 (n2b (N.of_nat (4 + length R + length Sv))) x02 (n2b (N.of_nat (length R))) R x02
               (n2b (N.of_nat (length Sv))) Sv) with true; [reflexivity|].
    symmetry. apply (struct_conds_spec c _ _ _ _ R _ _ Sv HR Hl). repeat split; assumption.
Qed.

(** BIP66: with DERSIG or STRICTENC (and without LOW_S) the accepted signatures are exactly the strict-DER ones *)
Theorem der_check_spec c b : enc_flags_on c = true -> has_flag c F_LOWS = false ->
  (check_sig_enc c b = EncOk <-> strict_der b).
Proof.
  intros Hf Hl. rewrite (check_sig_enc_iff c b Hf). unfold strict_der. rewrite Hl.
  split; intros (R & Sv & H1 & H2 & H3 & H4); exists R, Sv; repeat split; try tauto. discriminate.
Qed.

(** LOW_S: additionally S <= n/2 for the group order n of secp256k1 *)
Theorem low_s_spec c b : has_flag c F_LOWS = true ->
  (check_sig_enc c b = EncOk <-> strict_der_low_s b).
Proof.
  intros Hl. assert (Hf : enc_flags_on c = true) by (unfold enc_flags_on; rewrite Hl; apply orb_true_iff; left; apply orb_true_r).
  rewrite (check_sig_enc_iff c b Hf). unfold strict_der_low_s.
  split; intros (R & Sv & H1 & H2 & H3 & H4 & H5); exists R, Sv; repeat split; auto.
Qed.

(** the check never answers anything but accept / reject *)
Theorem check_sig_enc_total c b : check_sig_enc c b = EncOk \/ check_sig_enc c b = EncErr.
Proof. pose proof (check_sig_enc_no_panic c b). destruct (check_sig_enc c b); auto. congruence. Qed.

(** LOW_S speaks of signatures in range: a strict-DER signature whose R or S is not below the group
    order passes the encoding check under every flag set (it is not "high S"; it never verifies) *)
Theorem out_of_range_passes c R Sv :
  der_integer R -> der_integer Sv -> (length R + length Sv <= 66)%nat ->
  (secp256k1_order <= be_dec R \/ secp256k1_order <= be_dec Sv)%N ->
  check_sig_enc c (x30 :: n2b (N.of_nat (4 + length R + length Sv)) :: x02 :: n2b (N.of_nat (length R)) :: R ++
                   x02 :: n2b (N.of_nat (length Sv)) :: Sv) = EncOk.
Proof.
  intros HR HS Hlen Hout. destruct (enc_flags_on c) eqn:Ef; [|apply check_sig_enc_off; exact Ef].
  apply (check_sig_enc_iff c _ Ef). exists R, Sv. split; [reflexivity|]. split; [exact HR|]. split; [exact HS|].
  split; [cbn [length]; rewrite app_length; cbn [length]; lia|].
  intros _ [H1 H2]. exfalso. lia.
Qed.

(** and for a signature in range LOW_S is the plain comparison with half the order *)
Theorem in_range_low_s R Sv : in_range R Sv -> (low_s R Sv <-> (be_dec Sv <= secp256k1_order / 2)%N).
Proof. intros H. unfold low_s. tauto. Qed.
