(** stack.PeekBool (bscript/interpreter/stack.go), as printed from the Go source: PeekByteArray followed by asBool.
    The Go stack is [rev d], [d] being the stack of model/Interp.v (top first). *)
From Coq Require Import List ZArith NArith Bool Lia ZifyN ZifyNat ZifyBool.
From Coq Require Import Strings.Byte.
From GoBT Require Import lib.Bytes lib.GoSem lib.GoInterp gen.Funcs proofs.GenFuncsTac proofs.GenFuncsInterpTac proofs.GenFuncs_stack_PeekByteArray.
From GoBT Require model.Interp model.ScriptNum.
Import ListNotations.
Ltac Zify.zify_post_hook ::= Z.div_mod_to_equations.
Local Open Scope Z_scope.

Lemma stack_PeekBool_spec (i : Z) (d : list bytes) : Interp.lenZ d < 2147483648 -> in31 i ->
  stack_PeekBool i (rev d) =
  match peek_model i d with (x, false) => bind (asBool x) (fun b => Val (b, false)) | (_, true) => Val (false, true) end.
Proof.
  intros Hd Hi. unfold stack_PeekBool. rewrite stack_PeekByteArray_spec by assumption.
  destruct (peek_model i d) as [x [|]]; [reflexivity|]. cbn [bind]. cbv beta iota. destruct (asBool x); reflexivity.
Qed.

#[global] Hint Rewrite stack_PeekBool_spec using stk_small : stk.
