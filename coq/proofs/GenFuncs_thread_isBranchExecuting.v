(** thread.isBranchExecuting (bscript/interpreter/thread.go), as printed from the Go source, is
    [branch_executing] of model/Interp.v.  The Go condition stack grows at the END of the slice, the model's
    [cond] list has the top FIRST: the slice is [map Z.of_N (rev (cond s))].  The hypothesis is Go's: a slice
    has fewer than 2^63 elements (the function computes [len(t.condStack)-1] in [int]). *)
From Coq Require Import List ZArith NArith Bool Lia ZifyN ZifyNat ZifyBool.
From Coq Require Import Strings.Byte.
From GoBT Require Import lib.Bytes lib.GoSem gen.Funcs proofs.GenFuncsTac proofs.GenFuncsLoopTac.
From GoBT Require model.Interp.
Import ListNotations.
Ltac Zify.zify_post_hook ::= Z.div_mod_to_equations.
Local Open Scope Z_scope.

(** the Go slice t.condStack of a model state *)
Definition go_cond_stack (cs : list N) : list Z := map Z.of_N (rev cs).

Lemma thread_isBranchExecuting_is_model_list (cs : list N) : (Z.of_nat (length cs) < 9223372036854775808) ->
  thread_isBranchExecuting (go_cond_stack cs) =
  Val (match cs with [] => true | t :: _ => (t =? Interp.COND_TRUE)%N end).
Proof.
  intros Hl. unfold thread_isBranchExecuting, go_cond_stack. destruct cs as [|t r]; [vm_compute; reflexivity|].
  cbn [rev]. rewrite map_app. cbn [map].
  assert (Hlen : length (map Z.of_N (rev r)) = length r) by (rewrite map_length, rev_length; reflexivity).
  cbn [length] in Hl. remember (map Z.of_N (rev r)) as l eqn:El. clear El.
  unfold go_orelse.
  repeat match goal with
  | |- context [go_index (l ++ [Z.of_N t]) ?e] =>
      rewrite (go_index_at (l ++ [Z.of_N t]) e (length l) (Z.of_N t) (nth_error_snoc_last l (Z.of_N t)))
        by (go_arith; unfold go_len; rewrite app_length; cbn [length]; lia)
  end.
  unfold go_len. rewrite app_length. cbn [length]. unfold Interp.COND_TRUE.
  go_cases; go_close.
Qed.

Lemma thread_isBranchExecuting_is_model (s : Interp.st) : (Z.of_nat (length (Interp.cond s)) < 9223372036854775808) ->
  thread_isBranchExecuting (go_cond_stack (Interp.cond s)) = Val (Interp.branch_executing s).
Proof. intros H. unfold Interp.branch_executing. apply thread_isBranchExecuting_is_model_list, H. Qed.
