(** The model's handlers of OP_CHECKLOCKTIMEVERIFY / OP_CHECKSEQUENCEVERIFY (model/Interp.v [exec_handler]) refine
    BIP65 / BIP112 as stated over the integers in spec/LockTimeSpec.v, for EVERY transaction context (lock time,
    version, sequence: any integers - in particular the whole unsigned 32-bit range) and every operand; and the
    flag word an option list denotes (model/FlagOptions.v) is what these handlers, like all others, run under. *)
From Coq Require Import List NArith ZArith Lia Bool ZifyN ZifyNat ZifyBool.
From Coq Require Import Strings.Byte.
From GoBT Require Import lib.Bytes model.ScriptNum model.Interp proofs.ScriptNumProofs spec.LockTimeSpec.
Import ListNotations.
Local Open Scope Z_scope.

(** decide the opcode dispatch of [exec_handler] for a concrete opcode value *)
Ltac eval_op_tests v :=
  repeat match goal with
  | |- context [(v =? ?x)%N] => let b := eval vm_compute in (v =? x)%N in change (v =? x)%N with b
  | |- context [(v <=? ?x)%N] => let b := eval vm_compute in (v <=? x)%N in change (v <=? x)%N with b
  end.

Lemma cltv_handler : forall so c p idx s,
  p_real p = true -> p_val p = OP_CLTV ->
  exec_handler so c p idx s =
    if negb (has_flag c F_CLTV) || after_genesis c then nop_like c s
    else if negb (c_has_tx c) then OErr
    else match ds s with
         | [] => OErr
         | t :: _ =>
             match make_num t 5 (has_flag c F_MINIMALDATA) with
             | NumOk lt =>
                 if lt <? 0 then OErr
                 else if negb (verify_locktime (c_tx_lock c) 500000000 (to_int64 lt)) then OErr
                 else if c_in_seq c =? 4294967295 then OErr else OOk s
             | _ => OErr
             end
         end.
Proof.
  intros so c p idx s Hr Hv. unfold exec_handler. rewrite Hr, Hv. cbn [negb].
  eval_op_tests OP_CLTV. cbn [orb]. reflexivity.
Qed.

Lemma csv_handler : forall so c p idx s,
  p_real p = true -> p_val p = OP_CSV ->
  exec_handler so c p idx s =
    if negb (has_flag c F_CSV) || after_genesis c then nop_like c s
    else match ds s with
         | [] => OErr
         | t :: _ =>
             match make_num t 5 (has_flag c F_MINIMALDATA) with
             | NumOk sq =>
                 if sq <? 0 then OErr
                 else
                   let sequence := to_int64 sq in
                   if Z.testbit sequence 31 then OOk s
                   else if negb (c_has_tx c) then OPanic
                   else if c_tx_version c <? 2 then OErr
                   else if Z.testbit (c_in_seq c) 31 then OErr
                   else if verify_locktime (Z.land (c_in_seq c) 4259839) 4194304 (Z.land sequence 4259839)
                        then OOk s else OErr
             | _ => OErr
             end
         end.
Proof.
  intros so c p idx s Hr Hv. unfold exec_handler. rewrite Hr, Hv. cbn [negb].
  eval_op_tests OP_CSV. cbn [orb]. reflexivity.
Qed.

(** a script number of at most five bytes is below 2^39 in magnitude: the 64-bit conversion the handlers apply
    to the operand is the identity, nothing is clamped or truncated *)
Lemma make_num_5_bound : forall t m z, make_num t 5 m = NumOk z -> - 2 ^ 39 < z < 2 ^ 39.
Proof.
  intros t m z. unfold make_num.
  destruct (5 <? Z.of_nat (length t)) eqn:Hlen; [discriminate|].
  destruct (m && negb (is_minimal t)); [discriminate|].
  intros E. injection E as <-.
  destruct (snoc_cases t) as [->|[body [last ->]]].
  - rewrite num_dec_nil. lia.
  - rewrite num_dec_snoc. rewrite app_length in Hlen. cbn [length] in Hlen.
    pose proof (mag_of_lt body last) as Hm.
    assert (Hp : (p256 (length body) <= p256 4)%N) by (apply p256_mono; lia).
    change (p256 4) with 4294967296%N in Hp.
    change (2 ^ 39) with 549755813888.
    unfold sgn_of. destruct (hi_bit last); lia.
Qed.

Lemma operand_to_int64 : forall t m z, make_num t 5 m = NumOk z -> to_int64 z = z.
Proof.
  intros t m z H. apply to_int64_id_in_range. pose proof (make_num_5_bound t m z H) as B.
  change (2 ^ 39) with 549755813888 in B. change (2 ^ 63) with 9223372036854775808. lia.
Qed.

(** OP_CHECKLOCKTIMEVERIFY with its flag, before Genesis, with a transaction: exactly BIP65, for every lock time,
    every sequence number and every operand the number decoder accepts *)
Theorem cltv_is_bip65 : forall so c p idx s t rest,
  p_real p = true -> p_val p = OP_CLTV -> ds s = t :: rest ->
  has_flag c F_CLTV = true -> after_genesis c = false -> c_has_tx c = true ->
  exec_handler so c p idx s =
    match make_num t 5 (has_flag c F_MINIMALDATA) with
    | NumOk z => if bip65_ok (c_tx_lock c) (c_in_seq c) z then OOk s else OErr
    | _ => OErr
    end.
Proof.
  intros so c p idx s t rest Hr Hv Hds Hf Hg Htx.
  rewrite cltv_handler by assumption. rewrite Hf, Hg, Htx, Hds. cbn [negb orb].
  destruct (make_num t 5 (has_flag c F_MINIMALDATA)) as [z| |] eqn:Hn; try reflexivity.
  rewrite (operand_to_int64 _ _ _ Hn).
  unfold verify_locktime, bip65_ok, same_kind, locktime_threshold, seq_final.
  set (L := c_tx_lock c). set (Q := c_in_seq c).
  destruct (z <? 0) eqn:E1; destruct (0 <=? z) eqn:E1'; try lia; cbn [andb negb]; try reflexivity.
  destruct (L <? 500000000) eqn:E2; destruct (z <? 500000000) eqn:E3;
  destruct (500000000 <=? L) eqn:E4; destruct (500000000 <=? z) eqn:E5; try lia;
  destruct (z <=? L) eqn:E6; destruct (Q =? 4294967295) eqn:E7; cbn; reflexivity.
Qed.

(** OP_CHECKSEQUENCEVERIFY with its flag, before Genesis, with a transaction: exactly BIP112, for every version
    (0 .. 2^32-1 and beyond: the comparison with 2 is a comparison of integers), every sequence number and operand *)
Theorem csv_is_bip112 : forall so c p idx s t rest,
  p_real p = true -> p_val p = OP_CSV -> ds s = t :: rest ->
  has_flag c F_CSV = true -> after_genesis c = false -> c_has_tx c = true ->
  exec_handler so c p idx s =
    match make_num t 5 (has_flag c F_MINIMALDATA) with
    | NumOk z => if bip112_ok (c_tx_version c) (c_in_seq c) z then OOk s else OErr
    | _ => OErr
    end.
Proof.
  intros so c p idx s t rest Hr Hv Hds Hf Hg Htx.
  rewrite csv_handler by assumption. rewrite Hf, Hg, Htx, Hds. cbn [negb orb].
  destruct (make_num t 5 (has_flag c F_MINIMALDATA)) as [z| |] eqn:Hn; try reflexivity.
  cbv zeta. rewrite (operand_to_int64 _ _ _ Hn).
  unfold verify_locktime, bip112_ok, same_kind, seq_disable_bit, seq_type_flag, seq_mask.
  set (V := c_tx_version c). set (A := Z.land (c_in_seq c) 4259839). set (B := Z.land z 4259839).
  destruct (z <? 0) eqn:E1; destruct (0 <=? z) eqn:E1'; try lia; cbn [andb negb]; try reflexivity.
  destruct (Z.testbit z 31); cbn [orb]; try reflexivity.
  destruct (V <? 2) eqn:E2; destruct (2 <=? V) eqn:E2'; try lia; cbn [andb]; try reflexivity.
  destruct (Z.testbit (c_in_seq c) 31); cbn [andb negb]; try reflexivity.
  destruct (A <? 4194304) eqn:E3; destruct (B <? 4194304) eqn:E4;
  destruct (4194304 <=? A) eqn:E5; destruct (4194304 <=? B) eqn:E6; try lia;
  destruct (B <=? A) eqn:E7; cbn; reflexivity.
Qed.

(** without the flag, or after Genesis, both are upgradable NOPs whatever the transaction and the stack hold *)
Theorem cltv_csv_are_nops_otherwise : forall so c p idx s,
  p_real p = true ->
  (p_val p = OP_CLTV /\ (has_flag c F_CLTV = false \/ after_genesis c = true)) \/
  (p_val p = OP_CSV /\ (has_flag c F_CSV = false \/ after_genesis c = true)) ->
  exec_handler so c p idx s = if has_flag c F_DISCOURAGE_NOPS then OErr else OOk s.
Proof.
  intros so c p idx s Hr [[Hv H]|[Hv H]].
  - rewrite cltv_handler by assumption. destruct H as [H|H]; rewrite H; cbn [negb orb].
    + reflexivity.
    + rewrite Bool.orb_true_r. reflexivity.
  - rewrite csv_handler by assumption. destruct H as [H|H]; rewrite H; cbn [negb orb].
    + reflexivity.
    + rewrite Bool.orb_true_r. reflexivity.
Qed.

(** the cases a fixed-width reading of the fields gets wrong, decided by the specification *)
Example bip65_wide_operand_rejected :
  bip65_ok 100 0 (2 ^ 32 + 100) = false /\ bip65_ok 0 0 (2 ^ 32) = false /\ bip65_ok 100 0 100 = true /\
  bip65_ok 4294967295 0 4294967295 = true /\ bip65_ok 2147483648 0 2147483648 = true /\
  bip65_ok 499999999 0 500000000 = false /\ bip65_ok 100 4294967295 100 = false.
Proof. vm_compute. repeat split. Qed.
Example bip112_version_is_unsigned :
  bip112_ok 2147483648 10 5 = true /\ bip112_ok 4294967295 10 5 = true /\ bip112_ok 2 10 5 = true /\
  bip112_ok 1 10 5 = false /\ bip112_ok 0 10 5 = false /\ bip112_ok 2 10 11 = false /\
  bip112_ok 2 (4194304 + 10) 5 = false /\ bip112_ok 1 10 (2 ^ 31 + 5) = true /\ bip112_ok 2 (2 ^ 31 + 10) 5 = false /\
  bip112_ok 2 10 (2 ^ 32 + 5) = true /\ bip112_ok 2 4 (2 ^ 32 + 5) = false.
Proof. vm_compute. repeat split. Qed.
