(** Lemmas and tactics shared by the equivalence proofs of the transaction package's functions
    (proofs/GenFuncs_Output_Bytes.v, ..Input_Bytes.v, ..Tx_toBytesHelper.v, ..Tx_SizeWithTypes.v, ..Tx_PreviousOutHash.v ...).

    The Go values a printed function takes are related to the model's records (model/Tx.v) by the ABSTRACTION
    FUNCTIONS below ([input_of_go], [output_of_go], [tx_of_go]): the theorems are stated for every Go value in the
    range of its Go type ([go_input_ok] ...: the integer fields within their widths, slices shorter than 2^63 --
    every value a Go program can hold), so that nothing about the code is assumed; what the model abstracts from
    (a nil and an empty unlocking script are the same [in_unlock]) is visible in the abstraction function.

    The proofs never match the shape of a printed term: they unfold it, normalise the monadic plumbing with the
    semantic facts about the primitives ([tx_norm]: closed [make]s are computed, a PutUintN that fills its buffer
    is [le_enc], a printed callee is rewritten with ITS equivalence theorem), replace a loop by a fold with
    [go_range_fold_some] / [go_for_fold_some] (the step function is given, the loop body is whatever was printed)
    and compare byte strings up to associativity of [++]. *)
From Coq Require Import List ZArith NArith Bool Lia ZifyN ZifyNat ZifyBool.
From Coq Require Import Strings.Byte.
From GoBT Require Import lib.Bytes lib.VarInt lib.GoSem lib.GoTx gen.Funcs proofs.GenFuncsTac proofs.GenFuncs_VarInt_Bytes.
From GoBT Require Import model.Tx.
Import ListNotations.
Ltac Zify.zify_post_hook ::= Z.div_mod_to_equations.
Local Open Scope Z_scope.

(** ** abstraction: Go values -> model records *)
Definition script_of (p : option bytes) : bytes := match p with Some s => s | None => [] end.

Definition input_of_go (g : go_Input) : input :=
  mkInput (Input_previousTxID g) (Z.to_N (Input_PreviousTxOutIndex g)) (script_of (Input_UnlockingScript g))
          (Z.to_N (Input_SequenceNumber g)) (Z.to_N (Input_PreviousTxSatoshis g)) (Input_PreviousTxScript g).
Definition output_of_go (g : go_Output) : output :=
  mkOutput (Z.to_N (Output_Satoshis g)) (script_of (Output_LockingScript g)).
Definition tx_of_go (ins : list go_Input) (outs : list go_Output) (version locktime : Z) : tx :=
  mkTx (Z.to_N version) (map input_of_go ins) (map output_of_go outs) (Z.to_N locktime).

(** the ranges of the Go types *)
Definition u32 (z : Z) : Prop := 0 <= z < 4294967296.
Definition u64 (z : Z) : Prop := 0 <= z < 18446744073709551616.
(** the length of a Go slice is an [int] *)
Definition len_ok {A} (l : list A) : Prop := go_len l < 9223372036854775808.
Definition go_input_ok (g : go_Input) : Prop :=
  u32 (Input_PreviousTxOutIndex g) /\ u32 (Input_SequenceNumber g) /\ u64 (Input_PreviousTxSatoshis g) /\
  len_ok (script_of (Input_UnlockingScript g)) /\ len_ok (script_of (Input_PreviousTxScript g)).
(** ... and the one thing that is NOT a range: an output whose LockingScript pointer is nil makes every
    serialiser panic ([*o.LockingScript]); the model's outputs always have a script *)
Definition go_output_ok (g : go_Output) : Prop :=
  u64 (Output_Satoshis g) /\ Output_LockingScript g <> None /\ len_ok (script_of (Output_LockingScript g)).

(** ** primitives *)
Lemma go_conv_U64_small z : 0 <= z < 18446744073709551616 -> go_conv U64 z = z.
Proof. intros H. unfold go_conv, go_wrap. apply Z.mod_small. exact H. Qed.
Lemma go_conv_U32_small z : 0 <= z < 4294967296 -> go_conv U32 z = z.
Proof. intros H. unfold go_conv, go_wrap. apply Z.mod_small. exact H. Qed.
Lemma go_conv_I64_small z : -9223372036854775808 <= z < 9223372036854775808 -> go_conv I64 z = z.
Proof. intros H. unfold go_conv, go_wrap. lia. Qed.

Lemma skipn_all_len {A} (l : list A) n : length l = n -> skipn n l = [].
Proof. intros <-. apply skipn_all. Qed.

(** PutUintN into a buffer of exactly N bytes *)
Lemma go_le_put_full n l v : length l = n -> go_le_put n l v = Val (le_enc n (Z.to_N v)).
Proof.
  intros H. unfold go_le_put, go_len. rewrite H. rewrite Z.ltb_irrefl.
  rewrite (skipn_all_len l n H), app_nil_r. reflexivity.
Qed.

Lemma varint_of_len {A} (l : list A) : len_ok l ->
  VarInt_Bytes (go_conv U64 (go_conv U64 (go_len l))) = Val (varint_bytes (N.of_nat (length l))).
Proof.
  unfold len_ok. intros H. pose proof (go_len_nonneg l).
  rewrite !(go_conv_U64_small (go_len l)) by lia.
  replace (go_len l) with (Z.of_N (N.of_nat (length l))) by (unfold go_len; lia).
  apply VarInt_Bytes_is_model. unfold go_len in H. lia.
Qed.
Lemma varint_of_len1 {A} (l : list A) : len_ok l ->
  VarInt_Bytes (go_conv U64 (go_len l)) = Val (varint_bytes (N.of_nat (length l))).
Proof.
  intros H. rewrite <- (varint_of_len l H). unfold len_ok in H. pose proof (go_len_nonneg l).
  rewrite !(go_conv_U64_small (go_len l)) by lia. reflexivity.
Qed.
Lemma varint_of_0 : VarInt_Bytes 0 = Val (varint_bytes 0).
Proof. exact (VarInt_Bytes_is_model 0%N eq_refl). Qed.

Lemma len_ok_some_inv {A} (l : list A) : len_ok l -> len_ok (map Some l).
Proof. unfold len_ok, go_len. rewrite map_length. auto. Qed.

(** ** loops *)
(** [for i, x := range xs] over a slice of non-nil pointers whose body appends / accumulates *)
Lemma go_range_fold_some {A S R} (xs : list A) (body : Z -> option A -> S -> M (ctl S R)) (step : S -> A -> S)
    (P : A -> Prop) :
  Forall P xs ->
  (forall i x s, P x -> body i (Some x) s = Val (Next (step s x))) ->
  forall i s, go_range (map Some xs) i s body = Val (Fall (fold_left step xs s)).
Proof.
  intros HP Hb. induction HP as [|x r Hx Hr IH]; intros i s; cbn [map go_range fold_left]; [reflexivity|].
  rewrite (Hb i x s Hx). cbn [bind]. apply IH.
Qed.

(** the same with a step that sees the index *)
Fixpoint foldi_left {A S} (step : Z -> S -> A -> S) (xs : list A) (i : Z) (s : S) : S :=
  match xs with [] => s | x :: r => foldi_left step r (i + 1) (step i s x) end.
Lemma go_range_foldi_some {A S R} (xs : list A) (body : Z -> option A -> S -> M (ctl S R)) (step : Z -> S -> A -> S)
    (P : A -> Prop) :
  Forall P xs ->
  (forall i x s, P x -> body i (Some x) s = Val (Next (step i s x))) ->
  forall i s, go_range (map Some xs) i s body = Val (Fall (foldi_left step xs i s)).
Proof.
  intros HP Hb. induction HP as [|x r Hx Hr IH]; intros i s; cbn [map go_range foldi_left]; [reflexivity|].
  rewrite (Hb i x s Hx). cbn [bind]. apply IH.
Qed.

(** [for i := 0; i < len(xs); i++ { x := xs[i]; ... }]: the three-clause loop over the same slice, with the loop
    variable first in the printed state tuple; what the printed condition / body / post compute is stated, not
    how they are written *)
Lemma go_for_fold_gen {A T R} (xs : list A) (cond : Z * T -> M bool) (body : Z * T -> M (ctl (Z * T) R))
    (post : Z * T -> M (Z * T)) (step : T -> A -> T) :
  (forall i s, cond (i, s) = Val (i <? go_len xs)) ->
  (forall i s x, nth_error xs (Z.to_nat i) = Some x -> 0 <= i -> body (i, s) = Val (Next (i, step s x))) ->
  (forall i s, 0 <= i < go_len xs -> post (i, s) = Val (i + 1, s)) ->
  forall (fuel : nat) s, (length xs <= fuel)%nat ->
  go_for fuel (0, s) cond body post = Val (Fall (go_len xs, fold_left step xs s)).
Proof.
  intros Hc Hb Hp.
  assert (G : forall (done rest : list A) (fuel : nat) s, xs = done ++ rest -> (length rest <= fuel)%nat ->
              go_for fuel (go_len done, s) cond body post = Val (Fall (go_len xs, fold_left step rest s))).
  { intros done rest. revert done. induction rest as [|x rest IH]; intros done fuel s E Hf.
    - rewrite app_nil_r in E. subst done. destruct fuel; cbn [go_for]; rewrite Hc, Z.ltb_irrefl; reflexivity.
    - destruct fuel as [|fuel]; [cbn [length] in Hf; lia|]. cbn [go_for]. rewrite Hc.
      assert (Hlt : go_len done < go_len xs) by (subst xs; unfold go_len; rewrite app_length; cbn [length]; lia).
      replace (go_len done <? go_len xs) with true by lia. cbn [bind negb].
      rewrite (Hb (go_len done) s x).
      + cbn [bind]. rewrite Hp by (pose proof (go_len_nonneg done); lia). cbn [bind fold_left].
        replace (go_len done + 1) with (go_len (done ++ [x])) by (unfold go_len; rewrite app_length; cbn [length]; lia).
        apply IH; [rewrite <- app_assoc; exact E | cbn [length] in Hf; lia].
      + subst xs. unfold go_len. rewrite Nat2Z.id. rewrite nth_error_app2 by lia. rewrite Nat.sub_diag. reflexivity.
      + apply go_len_nonneg. }
  intros fuel s Hf. exact (G [] xs fuel s eq_refl Hf).
Qed.

Lemma go_index_map_some {A} (xs : list A) i x : nth_error xs (Z.to_nat i) = Some x -> 0 <= i ->
  go_index (map Some xs) i = Val (Some x).
Proof.
  intros H Hi. replace i with (Z.of_nat (Z.to_nat i)) by lia. rewrite go_index_nth, nth_error_map, H. reflexivity.
Qed.

(** ... over a slice of non-nil pointers, in the form the proofs use: the element read is handed to the iteration goal
    as the equation [go_index (map Some xs) i = Val (Some x)] *)
Lemma go_for_fold_some {A T R} (xs : list A) (cond : Z * T -> M bool) (body : Z * T -> M (ctl (Z * T) R))
    (post : Z * T -> M (Z * T)) (step : T -> A -> T) (P : A -> Prop) (fuel : nat) (s : T) :
  Forall P xs ->
  go_len xs < 9223372036854775808 ->
  (length xs <= fuel)%nat ->
  (forall i s, cond (i, s) = Val (i <? go_len (map Some xs))) ->
  (forall i s, 0 <= i < go_len xs -> post (i, s) = Val (i + 1, s)) ->
  (forall i x s, P x -> go_index (map Some xs) i = Val (Some x) -> body (i, s) = Val (Next (i, step s x))) ->
  go_for fuel (0, s) cond body post = Val (Fall (go_len (map Some xs), fold_left step xs s)).
Proof.
  intros HP Hlen Hf Hc Hp Hb.
  assert (E : go_len (map Some xs) = go_len xs) by (unfold go_len; rewrite map_length; reflexivity).
  rewrite E. apply go_for_fold_gen; try assumption.
  - intros i s0. rewrite Hc, E. reflexivity.
  - intros i s0 x Hn Hi. apply Hb.
    + rewrite Forall_forall in HP. apply HP. eapply nth_error_In. exact Hn.
    + apply go_index_map_some; assumption.
Qed.

Lemma fold_left_app_concat {A} (f : A -> bytes) (xs : list A) (h : bytes) :
  fold_left (fun h x => h ++ f x) xs h = h ++ concat (map f xs).
Proof.
  revert h. induction xs as [|x r IH]; intros h; cbn [fold_left map concat]; [rewrite app_nil_r; reflexivity|].
  rewrite IH, <- app_assoc. reflexivity.
Qed.

(** ** the normaliser *)
(** closed allocations are computed *)
Ltac tx_make :=
  repeat match goal with
  | |- context [go_make_bytes ?n] =>
      let r := eval vm_compute in (go_make_bytes n) in change (go_make_bytes n) with r
  | |- context [go_make_bytes_cap ?n ?c] =>
      let r := eval vm_compute in (go_make_bytes_cap n c) in change (go_make_bytes_cap n c) with r
  end.

Ltac tx_arith :=
  unfold u32, u64, len_ok in *;
  repeat match goal with
  | |- context [go_len ?l] => lazymatch goal with
                              | _ : 0 <= go_len l |- _ => fail
                              | _ => pose proof (go_len_nonneg l)
                              end
  end; lia.

Ltac tx_red :=
  cbn [bind go_deref go_field go_isnil go_bytes_of go_reverse_bytes go_sha256d go_andthen go_orelse negb andb orb
       Input_previousTxID Input_PreviousTxSatoshis Input_PreviousTxScript Input_UnlockingScript
       Input_PreviousTxOutIndex Input_SequenceNumber Output_Satoshis Output_LockingScript script_of].

(** the equivalence theorems of printed callees, added by the proof files that need them ([Ltac tx_extra ::= ...]) *)
Ltac tx_extra := fail.

Ltac tx_step :=
  first
  [ progress tx_red
  | tx_extra
  | progress tx_make
  | rewrite go_le_put_full by reflexivity
  | rewrite varint_of_len by (first [assumption | apply len_ok_some_inv; assumption | tx_arith])
  | rewrite varint_of_len1 by (first [assumption | apply len_ok_some_inv; assumption | tx_arith])
  | rewrite varint_of_0
  | match goal with H : go_index _ _ = Val _ |- _ => rewrite H end
  | rewrite andb_false_r
  | rewrite andb_true_r
  | rewrite app_nil_l ].
Ltac tx_norm := repeat tx_step.

(** equality of two byte strings built with [++] / [::] from the same pieces *)
Ltac tx_bytes_eq :=
  unfold go_append1, go_bytes_lit; cbn [map app];
  repeat rewrite <- app_assoc; cbn [app];
  repeat rewrite app_nil_r;
  try reflexivity;
  repeat (f_equal; try reflexivity).

(** ** a loop over a slice of non-nil pointers, written as [range] or as a three-clause [for] from 0 to len: both
    leave the goal after the loop and ONE iteration goal ([P x -> body ... = Val (Next ...)], in the [for] form with
    the equation for [xs[i]] as a further hypothesis) *)
Ltac tx_for_side :=
  intros; cbv beta iota zeta; unfold u32, u64, len_ok in *;
  first [ reflexivity
        | apply Val_inj; first [ reflexivity | lia | (f_equal; unfold go_add, go_sub, go_wrap; lia) ]
        | unfold go_len in *; rewrite ?map_length; lia ].

Ltac tx_loop xs step P H :=
  first
  [ rewrite (go_range_fold_some xs _ step P H)
  | rewrite (go_for_fold_some xs _ _ _ step P _ _ H);
    [ | tx_arith | unfold go_len; rewrite ?map_length; lia | tx_for_side | tx_for_side | ] ].

(** the iteration goal: [Val (Next a) = Val (Next b)] or [Val (Next (i, a)) = Val (Next (i, b))] from [a = b] *)
Ltac tx_next_eq :=
  first [ apply (f_equal (fun z => Val (Next z))) | idtac ];
  lazymatch goal with
  | |- (?i, _) = (?i, _) => apply (f_equal (fun z => (i, z)))
  | _ => idtac
  end.
