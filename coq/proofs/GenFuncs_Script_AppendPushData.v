(** Script.AppendPushData (bscript/script.go), as printed from the Go source (it calls the PRINTED EncodeParts on the
    one-element list), is [append_push_data] of model/Inscription.v (C20).  [*s] is state, see
    proofs/GenFuncs_Script_AppendPushDataArray.v.  Hypothesis (Go's): the data is shorter than 2^63 bytes. *)
From Coq Require Import List ZArith NArith Bool Lia ZifyN ZifyNat ZifyBool.
From Coq Require Import Strings.Byte.
From GoBT Require Import lib.Bytes lib.GoSem gen.Funcs proofs.GenFuncsTac proofs.GenFuncs_PushDataPrefix proofs.GenFuncs_EncodeParts
  proofs.GenFuncs_Script_AppendPushDataArray.
From GoBT Require model.Push model.Inscription.
Import ListNotations.
Local Open Scope Z_scope.

Lemma Script_AppendPushData_is_model (d s : bytes) : part_fits d ->
  Script_AppendPushData d s = Val (of_append s (Inscription.append_push_data s d)).
Proof.
  intros H. unfold Script_AppendPushData, Inscription.append_push_data, Inscription.append_push_data_array. cbv zeta.
  rewrite (EncodeParts_is_model [d]) by (constructor; [exact H|constructor]). unfold of_option, of_append.
  destruct (Push.encode_parts [d]); reflexivity.
Qed.
