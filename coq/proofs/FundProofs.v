(** Proofs about model/Fund.v (C12), by induction on the supplier history. *)
From Coq Require Import List NArith ZArith Lia Bool ZifyN ZifyNat ZifyBool.
From Coq Require Import Strings.Byte.
From GoBT Require Import lib.Bytes lib.Parse lib.VarInt model.Tx proofs.TxProofs gen.Consts spec.FeeSpec
  model.Fees proofs.FeesProofs model.Change proofs.ChangeProofs model.Fund.
Import ListNotations.
Ltac Zify.zify_post_hook ::= Z.div_mod_to_equations.
Local Open Scope N_scope.
Local Open Scope bool_scope.

(** the transaction with the given UTXOs appended as inputs *)
Definition add_all (t : tx) (us : list utxo) : tx :=
  mkTx (tx_version t) (tx_ins t ++ map of_utxo us) (tx_outs t) (tx_lock t).

Lemma add_all_nil t : add_all t [] = t.
Proof. destruct t. unfold add_all. cbn. rewrite app_nil_r. reflexivity. Qed.
Lemma add_all_app t a b : add_all (add_all t a) b = add_all t (a ++ b).
Proof. unfold add_all. cbn. rewrite map_app, app_assoc. reflexivity. Qed.
Lemma add_input_add_all t u : add_input t (of_utxo u) = add_all t [u].
Proof. reflexivity. Qed.

(** every consumed UTXO becomes an input with the supplier's txid, index, value and script, no unlocking
    script, and the final sequence number 0xFFFFFFFF (DefaultSequenceNumber, regenerated from input.go) *)
Lemma of_utxo_fields u :
  in_txid (of_utxo u) = u_txid u /\ in_vout (of_utxo u) = u_vout u /\ in_sats (of_utxo u) = u_sats u /\
  in_script (of_utxo u) = u_script u /\ in_unlock (of_utxo u) = [] /\ in_seq (of_utxo u) = 4294967295.
Proof. repeat split. Qed.

(** ** FromUTXOs *)
Definition valid_utxo (u : utxo) : Prop := length (u_txid u) = 32%nat.

Lemma from_utxos_spec t us :
  (Forall valid_utxo us /\ from_utxos t us = (FOk tt, add_all t us)) \/
  (exists pre u post, us = pre ++ u :: post /\ Forall valid_utxo pre /\ ~ valid_utxo u /\
     from_utxos t us = (FErr ErrInvalidTxID, add_all t pre)).
Proof.
  revert t. induction us as [|u r IH]; intros t.
  - left. split; [constructor|]. cbn. rewrite add_all_nil. reflexivity.
  - cbn [from_utxos]. unfold valid_txid. destruct (Nat.eqb_spec (length (u_txid u)) 32) as [V|V].
    + rewrite add_input_add_all. destruct (IH (add_all t [u])) as [[F E]|(pre & x & post & -> & F & NV & E)].
      * left. split; [constructor; assumption|]. rewrite E, add_all_app. reflexivity.
      * right. exists (u :: pre), x, post. split; [reflexivity|]. split; [constructor; assumption|].
        split; [exact NV|]. rewrite E, add_all_app. reflexivity.
    + right. exists [], u, r. split; [reflexivity|]. split; [constructor|]. split; [exact V|].
      rewrite add_all_nil. reflexivity.
Qed.

(** ** estimateDeficit reports only the three estimation / quote errors *)
Lemma estimate_deficit_err t q e : estimate_deficit t q = FErr e ->
  e = ErrEmptyPreviousTxScript \/ e = ErrUnsupportedScript \/ e = ErrFeeTypeNotFound.
Proof.
  unfold estimate_deficit, estimate_fees_paid, estimate_size_with_types, estimated_final_tx.
  destruct (clone t) as [c| |]; cbn [obind]; try discriminate.
  destruct (fill_dummy (tx_ins c)) as [ins|e'| |] eqn:F; cbn [obind]; try discriminate.
  - unfold fees_paid, get_fee, fee_of.
    destruct (q_std q); cbn [obind]; [|intros [= <-]; auto].
    destruct (q_data q); cbn [obind]; [|intros [= <-]; auto].
    destruct (r_bytes _ =? 0); cbn [obind]; try discriminate.
    destruct (r_bytes _ =? 0); cbn [obind]; try discriminate.
    destruct (_ <? _); discriminate.
  - intros [= <-]. apply fill_dummy_err in F. destruct F as (_ & _ & _ & _ & _ & [[_ ->]|(_ & _ & _ & ->)]); auto.
Qed.

(** ** the loop *)
Definition inter (t : tx) (hist : list response) (k : nat) : tx :=
  add_all t (concat (map batch_utxos (firstn k hist))).

Lemma inter_0 t hist : inter t hist 0 = t.
Proof. unfold inter. cbn. apply add_all_nil. Qed.
Lemma inter_S t us rest k : inter t (Batch us :: rest) (S k) = inter (add_all t us) rest k.
Proof. unfold inter. cbn [firstn map concat batch_utxos]. rewrite add_all_app. reflexivity. Qed.

(** everything the property says about the loop, for every history, by induction on it *)
Lemma fund_loop_spec q hist : forall t d, estimate_deficit t q = FOk d ->
  let r := fund_loop q hist t d in
  (* outputs, version, locktime untouched in every case *)
  tx_outs (f_tx r) = tx_outs t /\ tx_version (f_tx r) = tx_version t /\ tx_lock (f_tx r) = tx_lock t /\
  (* one recorded argument per call *)
  f_consumed r = length (f_calls r) /\
  (* the inputs are the previous inputs followed by a prefix of the consumed UTXOs, in order ... *)
  (exists l rest', concat (map batch_utxos (firstn (f_consumed r) hist)) = l ++ rest' /\ f_tx r = add_all t l /\
     (* ... all of them unless an error interrupted the last batch *)
     (f_res r = FOk tt \/ f_res r = FErr ErrInsufficientFunds \/ f_res r = FErr ErrSupplier -> rest' = [])) /\
  (* the k-th call is given the deficit of the k-th intermediate transaction, which is positive, and every
     earlier answer was a batch of valid UTXOs *)
  (forall k, (k < length (f_calls r))%nat ->
     estimate_deficit (inter t hist k) q = FOk (nth k (f_calls r) 0) /\ 0 < nth k (f_calls r) 0 /\
     forall j, (j < k)%nat -> exists us, nth_error hist j = Some (Batch us) /\ Forall valid_utxo us) /\
  (* success: every consumed answer was a valid batch and the deficit of the result is zero *)
  (f_res r = FOk tt ->
     f_tx r = inter t hist (f_consumed r) /\ estimate_deficit (f_tx r) q = FOk 0 /\
     forall j, (j < f_consumed r)%nat -> exists us, nth_error hist j = Some (Batch us) /\ Forall valid_utxo us) /\
  (* insufficient funds exactly when the supplier reported exhaustion while a deficit remained *)
  (f_res r = FErr ErrInsufficientFunds <->
     (1 <= f_consumed r)%nat /\
     (nth_error hist (f_consumed r - 1) = Some NoUTXO \/ nth_error hist (f_consumed r - 1) = None)).
Proof.
  induction hist as [|resp rest IH]; intros t d Hd; cbn [fund_loop].
  - (* history used up: the supplier is depleted *)
    destruct (N.eqb_spec d 0) as [->|Dn]; cbv zeta; cbn [f_tx f_res f_calls f_consumed length].
    + split; [reflexivity|]. split; [reflexivity|]. split; [reflexivity|]. split; [reflexivity|].
      split; [exists [], []; split; [reflexivity|]; split; [symmetry; apply add_all_nil|reflexivity]|].
      split; [intros k Hk; lia|].
      split; [intros _; rewrite inter_0; split; [reflexivity|]; split; [exact Hd|]; intros j Hj; lia|].
      split; [discriminate|]. intros [H _]. lia.
    + split; [reflexivity|]. split; [reflexivity|]. split; [reflexivity|]. split; [reflexivity|].
      split; [exists [], []; split; [reflexivity|]; split; [symmetry; apply add_all_nil|reflexivity]|].
      split.
      { intros k Hk. assert (k = 0%nat) as -> by lia. rewrite inter_0. cbn [nth].
        split; [exact Hd|]. split; [lia|]. intros j Hj; lia. }
      split; [discriminate|].
      split; [intros _; split; [lia|]; right; reflexivity|reflexivity].
  - destruct (N.eqb_spec d 0) as [->|Dn].
    { cbv zeta; cbn [f_tx f_res f_calls f_consumed length].
      split; [reflexivity|]. split; [reflexivity|]. split; [reflexivity|]. split; [reflexivity|].
      split; [exists [], []; split; [reflexivity|]; split; [symmetry; apply add_all_nil|reflexivity]|].
      split; [intros k Hk; lia|].
      split; [intros _; rewrite inter_0; split; [reflexivity|]; split; [exact Hd|]; intros j Hj; lia|].
      split; [discriminate|]. intros [H _]. lia. }
    destruct resp as [us| |].
    + (* a batch *)
      destruct (from_utxos_spec t us) as [[Fv E]|(pre & u & post & -> & Fv & NV & E)]; rewrite E.
      * destruct (estimate_deficit (add_all t us) q) as [d'|e| |] eqn:Ed.
        -- specialize (IH (add_all t us) d' Ed). cbv zeta in IH.
           set (r := fund_loop q rest (add_all t us) d') in *.
           destruct IH as (I1 & I2 & I3 & I4 & (l & rest' & I5 & I6 & I7) & I8 & I9 & I10).
           cbv zeta; cbn [f_tx f_res f_calls f_consumed length].
           split; [exact I1|]. split; [exact I2|]. split; [exact I3|]. split; [congruence|].
           split.
           { exists (us ++ l), rest'. cbn [firstn map concat batch_utxos]. rewrite I5, app_assoc.
             split; [reflexivity|]. split; [rewrite I6; apply add_all_app|exact I7]. }
           split.
           { intros [|k] Hk.
             - rewrite inter_0. cbn [nth]. split; [exact Hd|]. split; [lia|]. intros j Hj; lia.
             - rewrite inter_S. cbn [nth]. destruct (I8 k ltac:(lia)) as (K1 & K2 & K3).
               split; [exact K1|]. split; [exact K2|]. intros [|j] Hj.
               + exists us. split; [reflexivity|exact Fv].
               + cbn [nth_error]. apply K3. lia. }
           split.
           { intros Hr. destruct (I9 Hr) as (J1 & J2 & J3). rewrite inter_S. split; [exact J1|]. split; [exact J2|].
             intros [|j] Hj; [exists us; split; [reflexivity|exact Fv]|]. cbn [nth_error]. apply J3. lia. }
           rewrite I10. replace (S (f_consumed r) - 1)%nat with (f_consumed r) by lia.
           destruct (f_consumed r) as [|c] eqn:Ec.
           ++ split; [intros [H _]; lia|]. intros [_ [H|H]]; cbn in H; discriminate.
           ++ replace (S c - 1)%nat with c by lia. cbn [nth_error]. split; [intros [_ H]; split; [lia|exact H]|intros [_ H]; split; [lia|exact H]].
        -- (* the new inputs cannot be sized / the quote lacks a fee type *)
           cbv zeta; cbn [f_tx f_res f_calls f_consumed length].
           split; [reflexivity|]. split; [reflexivity|]. split; [reflexivity|]. split; [reflexivity|].
           split.
           { exists us, []. cbn [firstn map concat batch_utxos]. rewrite !app_nil_r. split; [reflexivity|]. split; [reflexivity|].
             reflexivity. }
           split.
           { intros k Hk. assert (k = 0%nat) as -> by lia. rewrite inter_0. cbn [nth].
             split; [exact Hd|]. split; [lia|]. intros j Hj; lia. }
           split; [discriminate|].
           split; [intros [= ->]; destruct (estimate_deficit_err _ _ _ Ed) as [X|[X|X]]; discriminate|].
           intros [_ [H|H]]; cbn in H; discriminate.
        -- cbv zeta; cbn [f_tx f_res f_calls f_consumed length].
           split; [reflexivity|]. split; [reflexivity|]. split; [reflexivity|]. split; [reflexivity|].
           split.
           { exists us, []. cbn [firstn map concat batch_utxos]. rewrite !app_nil_r. split; [reflexivity|]. split; [reflexivity|].
             reflexivity. }
           split.
           { intros k Hk. assert (k = 0%nat) as -> by lia. rewrite inter_0. cbn [nth].
             split; [exact Hd|]. split; [lia|]. intros j Hj; lia. }
           split; [discriminate|]. split; [discriminate|]. intros [_ [H|H]]; cbn in H; discriminate.
        -- cbv zeta; cbn [f_tx f_res f_calls f_consumed length].
           split; [reflexivity|]. split; [reflexivity|]. split; [reflexivity|]. split; [reflexivity|].
           split.
           { exists us, []. cbn [firstn map concat batch_utxos]. rewrite !app_nil_r. split; [reflexivity|]. split; [reflexivity|].
             reflexivity. }
           split.
           { intros k Hk. assert (k = 0%nat) as -> by lia. rewrite inter_0. cbn [nth].
             split; [exact Hd|]. split; [lia|]. intros j Hj; lia. }
           split; [discriminate|]. split; [discriminate|]. intros [_ [H|H]]; cbn in H; discriminate.
      * (* an invalid txid inside the batch: what came before it stays added *)
        cbv zeta; cbn [f_tx f_res f_calls f_consumed length].
        split; [reflexivity|]. split; [reflexivity|]. split; [reflexivity|]. split; [reflexivity|].
        split.
        { exists pre, (u :: post). cbn [firstn map concat batch_utxos]. rewrite !app_nil_r.
          split; [reflexivity|]. split; [reflexivity|]. intros [H|[H|H]]; discriminate. }
        split.
        { intros k Hk. assert (k = 0%nat) as -> by lia. rewrite inter_0. cbn [nth].
          split; [exact Hd|]. split; [lia|]. intros j Hj; lia. }
        split; [discriminate|]. split; [discriminate|]. intros [_ [H|H]]; cbn in H; discriminate.
    + (* exhaustion while a deficit remains *)
      cbv zeta; cbn [f_tx f_res f_calls f_consumed length].
      split; [reflexivity|]. split; [reflexivity|]. split; [reflexivity|]. split; [reflexivity|].
      split; [exists [], []; split; [reflexivity|]; split; [symmetry; apply add_all_nil|reflexivity]|].
      split.
      { intros k Hk. assert (k = 0%nat) as -> by lia. rewrite inter_0. cbn [nth].
        split; [exact Hd|]. split; [lia|]. intros j Hj; lia. }
      split; [discriminate|].
      split; [intros _; split; [lia|]; left; reflexivity|reflexivity].
    + (* the supplier fails *)
      cbv zeta; cbn [f_tx f_res f_calls f_consumed length].
      split; [reflexivity|]. split; [reflexivity|]. split; [reflexivity|]. split; [reflexivity|].
      split; [exists [], []; split; [reflexivity|]; split; [symmetry; apply add_all_nil|reflexivity]|].
      split.
      { intros k Hk. assert (k = 0%nat) as -> by lia. rewrite inter_0. cbn [nth].
        split; [exact Hd|]. split; [lia|]. intros j Hj; lia. }
      split; [discriminate|]. split; [discriminate|]. intros [_ [H|H]]; cbn in H; discriminate.
Qed.

(** ** the named C12 theorems, for Tx.Fund *)

(** outputs (and version, locktime) are left untouched in every case, errors included *)
Theorem fund_outputs_untouched t q hist :
  let r := fund t q hist in
  tx_outs (f_tx r) = tx_outs t /\ tx_version (f_tx r) = tx_version t /\ tx_lock (f_tx r) = tx_lock t.
Proof.
  unfold fund. destruct (estimate_deficit t q) as [d| | |] eqn:E; cbv zeta; cbn [f_tx]; auto.
  destruct (fund_loop_spec q hist t d E) as (H1 & H2 & H3 & _). auto.
Qed.

(** on success the inputs are the previous inputs followed by every UTXO of every answer consumed, in
    order; in every case they are the previous inputs followed by a prefix of those *)
Theorem fund_inputs t q hist :
  let r := fund t q hist in
  let supplied := concat (map batch_utxos (firstn (f_consumed r) hist)) in
  (exists l rest', supplied = l ++ rest' /\ tx_ins (f_tx r) = tx_ins t ++ map of_utxo l) /\
  (f_res r = FOk tt -> tx_ins (f_tx r) = tx_ins t ++ map of_utxo supplied).
Proof.
  unfold fund. destruct (estimate_deficit t q) as [d| | |] eqn:E; cbv zeta; cbn [f_tx f_res f_consumed firstn map concat].
  2-4: split; [exists [], []; split; [reflexivity|cbn; rewrite app_nil_r; reflexivity]|discriminate].
  destruct (fund_loop_spec q hist t d E) as (_ & _ & _ & _ & (l & rest' & L1 & L2 & L3) & _).
  split.
  - exists l, rest'. split; [exact L1|]. rewrite L2. reflexivity.
  - intros Hr. rewrite L2, L1, (L3 (or_introl Hr)), app_nil_r. reflexivity.
Qed.

(** on success total inputs cover total outputs plus the estimated fee: the deficit of the result is zero,
    i.e. (when nothing wraps) in >= out + quoted fee of the estimated size *)
Lemma deficit_zero_covers t q : wf_tx t -> ~ ambiguous t -> no_overflow q t 0 = true ->
  estimate_deficit t q = FOk 0 ->
  exists sf df sz, q_std q = Some sf /\ q_data q = Some df /\ estimate_size_with_types t = FOk sz /\
    sum_out t + quoted_fee sf df (sz_std sz) (sz_data sz) <= sum_in t.
Proof.
  intros W A NO. pose proof (no_overflow_inv _ _ _ NO) as (Hin & Hout & Hn & HB & HS).
  unfold estimate_deficit, estimate_fees_paid, estimate_size_with_types.
  destruct (estimated_final_tx t) as [te| | |] eqn:E; cbn [obind]; try discriminate.
  unfold fees_paid.
  destruct (q_std q) as [sf|] eqn:Qs; cbn [get_fee obind]; [|discriminate].
  destruct (q_data q) as [df|] eqn:Qd; cbn [get_fee obind]; [|discriminate].
  cbn [sat_of] in HS.
  pose proof (est_size_le_bound t te W A E) as Hte.
  set (sz := size_with_types te) in *.
  pose proof (size_partition te) as (_ & P & _). cbv zeta in P. fold sz in P.
  assert (T0 : sz_total sz = tx_size te) by reflexivity.
  destruct (fee_of (sz_std sz) sf) as [sfee| | |] eqn:F1; cbn [obind]; try discriminate.
  destruct (fee_of (sz_data sz) df) as [dfee| | |] eqn:F2; cbn [obind]; try discriminate.
  destruct (fee_of_quoted (size_bound t 0) (sz_std sz) (sz_data sz) sf df sfee dfee ltac:(lia) ltac:(lia) ltac:(lia) F1 F2)
    as (R1 & R2 & _ & _ & Hq & Hle).
  cbn [fee_total]. rewrite Hq, (total_in_sum t Hin), (total_out_sum t Hout).
  set (fee := quoted_fee sf df (sz_std sz) (sz_data sz)) in *.
  unfold add64. rewrite N.mod_small by lia.
  intros H. exists sf, df, sz. split; [reflexivity|]. split; [reflexivity|]. split; [reflexivity|].
  destruct (N.ltb_spec (sum_out t + fee) (sum_in t)); [lia|]. injection H as H. lia.
Qed.

Theorem fund_covers t q hist :
  let r := fund t q hist in
  f_res r = FOk tt ->
  estimate_deficit (f_tx r) q = FOk 0 /\
  (wf_tx (f_tx r) -> ~ ambiguous (f_tx r) -> no_overflow q (f_tx r) 0 = true ->
   exists sf df sz, q_std q = Some sf /\ q_data q = Some df /\ estimate_size_with_types (f_tx r) = FOk sz /\
     sum_out (f_tx r) + quoted_fee sf df (sz_std sz) (sz_data sz) <= sum_in (f_tx r)).
Proof.
  cbv zeta. intros Hr.
  assert (Z : estimate_deficit (f_tx (fund t q hist)) q = FOk 0).
  { revert Hr. unfold fund. destruct (estimate_deficit t q) as [d| | |] eqn:E; cbn [f_res f_tx]; try discriminate.
    intros Hr. destruct (fund_loop_spec q hist t d E) as (_ & _ & _ & _ & _ & _ & S & _).
    destruct (S Hr) as (_ & S2 & _). exact S2. }
  split; [exact Z|]. intros W A NO. apply deficit_zero_covers; assumption.
Qed.

(** the supplier is called only while a deficit remains and is always given the current deficit *)
Theorem fund_calls t q hist :
  let r := fund t q hist in
  f_consumed r = length (f_calls r) /\
  (forall k, (k < length (f_calls r))%nat ->
     estimate_deficit (inter t hist k) q = FOk (nth k (f_calls r) 0) /\ 0 < nth k (f_calls r) 0 /\
     forall j, (j < k)%nat -> exists us, nth_error hist j = Some (Batch us) /\ Forall valid_utxo us) /\
  (f_res r = FOk tt ->
     f_tx r = inter t hist (length (f_calls r)) /\ estimate_deficit (inter t hist (length (f_calls r))) q = FOk 0) /\
  (estimate_deficit t q = FOk 0 -> f_calls r = [] /\ f_res r = FOk tt /\ f_tx r = t).
Proof.
  unfold fund. destruct (estimate_deficit t q) as [d| | |] eqn:E; cbv zeta; cbn [f_res f_tx f_calls f_consumed length].
  2-4: split; [reflexivity|]; split; [intros k Hk; lia|]; split; discriminate.
  destruct (fund_loop_spec q hist t d E) as (_ & _ & _ & C1 & _ & C2 & C3 & _).
  split; [exact C1|]. split; [exact C2|]. split.
  - intros Hr. destruct (C3 Hr) as (S1 & S2 & _). rewrite <- C1, <- S1. split; [reflexivity|exact S2].
  - intros [= ->]. destruct hist as [|[| |] ?]; cbn; auto.
Qed.

(** if the supplier reports exhaustion while a deficit remains (an explicit ErrNoUTXO, or a history that
    has been used up), the result is ErrInsufficientFunds — and only then *)
Theorem fund_exhaustion t q hist :
  let r := fund t q hist in
  f_res r = FErr ErrInsufficientFunds <->
  (1 <= f_consumed r)%nat /\
  (nth_error hist (f_consumed r - 1) = Some NoUTXO \/ nth_error hist (f_consumed r - 1) = None).
Proof.
  unfold fund. destruct (estimate_deficit t q) as [d|e| |] eqn:E; cbv zeta; cbn [f_res f_consumed].
  - destruct (fund_loop_spec q hist t d E) as (_ & _ & _ & _ & _ & _ & _ & X). exact X.
  - split; [|intros [H _]; lia]. intros [= ->]. destruct (estimate_deficit_err _ _ _ E) as [X|[X|X]]; discriminate.
  - split; [discriminate|intros [H _]; lia].
  - split; [discriminate|intros [H _]; lia].
Qed.

(** the direct reading: exhaustion as the first answer, with a deficit, is ErrInsufficientFunds after exactly
    one call with that deficit, and the transaction is untouched *)
Corollary fund_exhaustion_first t q rest d : estimate_deficit t q = FOk d -> 0 < d ->
  fund t q (NoUTXO :: rest) = mkFund (FErr ErrInsufficientFunds) [d] 1 t.
Proof.
  intros E Hd. unfold fund. rewrite E. cbn [fund_loop]. destruct (N.eqb_spec d 0); [lia|reflexivity].
Qed.

(** the transaction Fund returns is well-formed when the start transaction and the supplied UTXOs are *)
Lemma wf_of_utxo u : valid_utxo u -> wf_utxob u = true -> wf_input (of_utxo u).
Proof.
  intros Fv Fw. unfold wf_utxob in Fw.
  apply andb_prop in Fw. destruct Fw as [Fw F3]. apply andb_prop in Fw. destruct Fw as [F1 F2].
  unfold wf_input, of_utxo, wf_script. cbn [in_txid in_vout in_seq in_sats in_unlock in_script].
  split; [exact Fv|]. split; [lia|]. split; [reflexivity|]. split; [lia|]. split; [reflexivity|].
  destruct (u_script u); [lia|exact I].
Qed.

Lemma wf_add_all t l : wf_tx t -> ~ ambiguous t -> Forall valid_utxo l -> forallb wf_utxob l = true ->
  N.of_nat (length (tx_ins t) + length l) < two64 ->
  wf_tx (add_all t l) /\ ~ ambiguous (add_all t l).
Proof.
  intros (V & L & I & O & NI & NO) A Fv Fw Hn. split.
  - unfold wf_tx, add_all. cbn [tx_version tx_lock tx_ins tx_outs].
    split; [exact V|]. split; [exact L|]. split; [|split; [exact O|split; [|exact NO]]].
    + apply Forall_app. split; [exact I|]. apply Forall_forall. intros i Hi. apply in_map_iff in Hi.
      destruct Hi as (u & <- & Hu). rewrite Forall_forall in Fv. rewrite forallb_forall in Fw.
      apply wf_of_utxo; auto.
    + rewrite app_length, map_length. exact Hn.
  - intros (Hi & Ho & Hl). cbn [add_all tx_ins tx_outs tx_lock] in *.
    apply app_eq_nil in Hi. destruct Hi as [Hi Hm]. apply A. repeat split; assumption.
Qed.

Lemma consumed_valid hist : forallb wf_responseb hist = true -> forall c,
  (forall j, (j < c)%nat -> exists us, nth_error hist j = Some (Batch us) /\ Forall valid_utxo us) ->
  Forall valid_utxo (concat (map batch_utxos (firstn c hist))) /\
  forallb wf_utxob (concat (map batch_utxos (firstn c hist))) = true.
Proof.
  induction hist as [|resp rest IH]; intros Fh [|c] S3; cbn [firstn map concat]; try (split; [constructor|reflexivity]).
  cbn [forallb] in Fh. apply andb_prop in Fh. destruct Fh as [F1 F2].
  destruct (S3 0%nat ltac:(lia)) as (us & E0 & V0). cbn [nth_error] in E0. injection E0 as ->.
  destruct (IH F2 c) as [I1 I2].
  { intros j Hj. destruct (S3 (S j) ltac:(lia)) as (us' & E' & V'). exists us'. split; [exact E'|exact V']. }
  cbn [batch_utxos wf_responseb] in *. split; [apply Forall_app; split; assumption|].
  rewrite forallb_app, F1, I2. reflexivity.
Qed.

Theorem fund_covers_wf t q hist :
  let r := fund t q hist in
  wf_tx t -> ~ ambiguous t -> forallb wf_responseb hist = true ->
  N.of_nat (length (tx_ins (f_tx r))) < two64 -> no_overflow q (f_tx r) 0 = true ->
  f_res r = FOk tt ->
  exists sf df sz, q_std q = Some sf /\ q_data q = Some df /\ estimate_size_with_types (f_tx r) = FOk sz /\
    sum_out (f_tx r) + quoted_fee sf df (sz_std sz) (sz_data sz) <= sum_in (f_tx r).
Proof.
  cbv zeta. intros W A Fh Hn NO Hr.
  destruct (fund_covers t q hist Hr) as [_ C].
  assert (WA : wf_tx (f_tx (fund t q hist)) /\ ~ ambiguous (f_tx (fund t q hist))).
  { revert Hr Hn. unfold fund. destruct (estimate_deficit t q) as [d| | |] eqn:E; cbn [f_res f_tx]; try discriminate.
    intros Hr Hn. destruct (fund_loop_spec q hist t d E) as (_ & _ & _ & _ & _ & _ & S & _).
    destruct (S Hr) as (S1 & _ & S3). rewrite S1 in Hn |- *. unfold inter in *.
    destruct (consumed_valid hist Fh _ S3) as [Fv Fw].
    cbn [add_all tx_ins] in Hn. rewrite app_length, map_length in Hn.
    apply (wf_add_all t _ W A Fv Fw Hn). }
  destruct WA as [W' A']. apply C; assumption.
Qed.
