(** opcodeCat (bscript/interpreter/operations.go), as printed from the Go source, is the branch of [Interp.exec_handler]
    for OP_CAT: for every context and state (data stack of fewer than 2^31 - 16 items), the printed
    function applied to the thread fields it uses -- the era ([t.cfg]), the data stack in Go order, [rev (ds s)] --
    yields the model's outcome (ok with the new stack / script error / panic), and never runs out of fuel. *)
From Coq Require Import List ZArith NArith Bool Lia ZifyN ZifyNat ZifyBool.
From Coq Require Import Strings.Byte.
From GoBT Require Import lib.Bytes lib.GoSem lib.GoInterp gen.Funcs proofs.GenFuncsTac proofs.GenFuncsInterpTac proofs.GenFuncs_stack_PopByteArray proofs.GenFuncs_stack_PushByteArray.
From GoBT Require model.Interp model.ScriptNum.
Import ListNotations.
Ltac Zify.zify_post_hook ::= Z.div_mod_to_equations.
Local Open Scope Z_scope.

(** the branch of the model this handler is compared with (opcode OP_CAT; proofs/DispatchProofs.v ties the table) *)
Lemma exec_at_opcodeCat so c p idx s : Interp.p_real p = true -> Interp.p_val p = Interp.OP_CAT ->
  Interp.exec_handler so c p idx s =
  match Interp.ds s with
  | b :: a :: r => if Interp.max_elem c <? Interp.lenZ (a ++ b) then Interp.OErr else Interp.push (Interp.set_ds s r) (a ++ b)
  | _ => Interp.OErr
  end.
Proof. intros Hr Hv. unfold Interp.exec_handler. rewrite Hr, Hv. reflexivity. Qed.

Lemma opcodeCat_is_model so c p idx s : small (Interp.ds s) -> Interp.p_real p = true -> Interp.p_val p = Interp.OP_CAT ->
  h_view s (opcodeCat (Interp.after_genesis c) (rev (Interp.ds s))) = Some (Interp.exec_handler so c p idx s).
Proof.
  intros Hs Hr Hv. rewrite (exec_at_opcodeCat so c p idx s Hr Hv).
  destruct s as [d a cd el no ls ea cu]. cbn [Interp.ds Interp.als] in *. h_model.
  go_list_cases d 2%nat; unfold opcodeCat, go_bytes_join, go_bytes_lit; stk_run; try h_done.
  (* the concatenation, however the source writes it (bytes.Join, append ...) *)
  cbn [map List.concat app]. rewrite ?app_nil_r. rewrite !cfg_MaxScriptElementSize_model. stk_run.
  change (@go_len byte) with (@Interp.lenZ byte).
  destruct (Interp.max_elem c <? Interp.lenZ (x0 ++ x)); stk_run; h_done.
Qed.
