(** Audit D, property C17.
    [corrupted_checksum_rejected]: any change confined to the last eight characters (the checksum) of a
    text that decodes is rejected - a change of letter case included.
    [decode_ranges]: what a successful decode returns: version and network are bytes (0 is possible,
    although the encoder refuses it), the prefix is non-empty and has no newline. *)
From Coq Require Import String Ascii List NArith ZArith Lia Arith.
From Coq Require Import Strings.Byte.
From GoBT Require Import lib.Bytes lib.Hex lib.Str lib.Sha256 model.Bip276 spec.Bip276Spec proofs.Bip276Proofs.
Import ListNotations.
Local Open Scope string_scope.

Theorem corrupted_checksum_rejected pre c c' :
  String.length c = 8 -> String.length c' = 8 -> c <> c' ->
  (exists s, decode_bip276 (pre ++ c) = DOk s) -> exists e, decode_bip276 (pre ++ c') = DErr e.
Proof.
  intros Hc Hc' Hne Hok. apply decode_accepts_iff in Hok as [_ Hck].
  apply bad_checksum_rejected_lemma.
  rewrite slen_app, Hc, Nat.add_sub in Hck. rewrite slen_app, Hc', Nat.add_sub.
  rewrite sdrop_app_exact, stake_app_exact in *. congruence.
Qed.

Lemma parse_uint_hex8_le g n : parse_uint_hex8 g = Some n -> (n <= 255)%N.
Proof.
  unfold parse_uint_hex8. destruct g as [|c g]; [discriminate|].
  destruct (parse_hex_acc (String c g) 0) as [m|]; [|discriminate].
  destruct (m <=? 255)%N eqn:E; [|discriminate]. intros [= <-]. apply N.leb_le. exact E.
Qed.

Theorem decode_ranges text s : decode_bip276 text = DOk s ->
  (0 <= b_version s <= 255)%Z /\ (0 <= b_network s <= 255)%Z /\ b_prefix s <> "" /\ no_newline (b_prefix s) = true.
Proof.
  intros H. unfold decode_bip276 in H.
  destruct (find_submatch text) as [[[[[g1 g2] g3] g4] g5]|] eqn:F; [|discriminate].
  destruct (parse_uint_hex8 g2) as [nw|] eqn:P2; [|discriminate].
  destruct (parse_uint_hex8 g3) as [vs|] eqn:P3; [|discriminate].
  destruct (hexdecode g4) as [data|]; [|discriminate].
  destruct (negb (g5 =? checksum_of (stake (String.length text - String.length g5) text))); [discriminate|].
  injection H as <-. cbn [b_version b_network b_prefix].
  pose proof (parse_uint_hex8_le _ _ P2) as B2. pose proof (parse_uint_hex8_le _ _ P3) as B3.
  unfold find_submatch in F. destruct (lazy_prefix "" text) as [[p r]|] eqn:L; [|discriminate]. injection F as <- _ _ _ _.
  destruct (lazy_prefix_inv _ _ _ _ L) as (q & -> & _ & _ & Hne & Hnl). cbn [String.append] in *.
  repeat split; try lia; assumption.
Qed.
