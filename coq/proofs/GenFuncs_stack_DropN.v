(** stack.DropN (bscript/interpreter/stack.go), as printed from the Go source: see the statement.
    The Go stack is [rev d], [d] being the stack of model/Interp.v (top first).  Proved for the arguments the opcode
    handlers use (the loop is unrolled; a statement for every n needs a loop invariant and is not done). *)
From Coq Require Import List ZArith NArith Bool Lia ZifyN ZifyNat ZifyBool.
From Coq Require Import Strings.Byte.
From GoBT Require Import lib.Bytes lib.GoSem lib.GoInterp gen.Funcs proofs.GenFuncsTac proofs.GenFuncsInterpTac proofs.GenFuncs_stack_PopByteArray.
From GoBT Require model.Interp model.ScriptNum.
Import ListNotations.
Ltac Zify.zify_post_hook ::= Z.div_mod_to_equations.
Local Open Scope Z_scope.

Lemma stack_DropN_inst (n : Z) (d : list bytes) : small d -> n = 1 \/ n = 2 ->
  st_view (stack_DropN n (rev d)) = Val (match Z.to_nat n, d with 1%nat, _ :: r => Some r | 2%nat, _ :: _ :: r => Some r | _, _ => None end).
Proof.
  intros Hd Hn. destruct Hn as [ -> | -> ]; go_list_cases d 2%nat;
    unfold stack_DropN; stk_run; cbn [st_view]; rewrite ?rev_involutive; reflexivity.
Qed.
