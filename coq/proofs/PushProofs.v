(** Proofs about model/Push.v: DecodeParts never panics and never runs out of fuel, its step is the
    push grammar, EncodeParts/DecodeParts round trip, PushDataPrefix is the shortest header. *)
From Coq Require Import List NArith Lia ZifyN ZifyNat ZifyBool ZArith Bool.
From Coq Require Import Strings.Byte.
From GoBT Require Import lib.Bytes lib.Checked model.Push spec.PushSpec.
Import ListNotations.
Ltac Zify.zify_post_hook ::= Z.div_mod_to_equations.
Local Open Scope N_scope.
Local Open Scope bool_scope.

(** ** list / length helpers *)
Lemma lenN_cons (a : byte) l : lenN (a :: l) = 1 + lenN l.
Proof. unfold lenN. cbn [length]. lia. Qed.
Lemma lenN_app (a b : bytes) : lenN (a ++ b) = lenN a + lenN b.
Proof. unfold lenN. rewrite app_length. lia. Qed.
Lemma lenN_nil : lenN [] = 0.
Proof. reflexivity. Qed.
Lemma lenN_firstn n (l : bytes) : n <= lenN l -> lenN (firstn (N.to_nat n) l) = n.
Proof. unfold lenN. intros H. rewrite firstn_length. lia. Qed.
Lemma lenN_skipn n (l : bytes) : lenN (skipn n l) = lenN l - N.of_nat n.
Proof. unfold lenN. rewrite skipn_length. lia. Qed.
Lemma lenN_le_enc k v : lenN (le_enc k v) = N.of_nat k.
Proof. unfold lenN. rewrite le_enc_length. reflexivity. Qed.

Lemma bytes_len_ind (P : bytes -> Prop) :
  (forall b, (forall b', (length b' < length b)%nat -> P b') -> P b) -> forall b, P b.
Proof.
  intros H b. remember (length b) as n eqn:E. revert b E.
  induction n as [n IH] using lt_wf_ind. intros b ->. apply H. intros b' Hlt. eapply IH; eauto.
Qed.

Lemma skipn_to_nat_succ (n : N) (a : byte) l : skipn (N.to_nat (1 + n)) (a :: l) = skipn (N.to_nat n) l.
Proof. replace (N.to_nat (1 + n)) with (S (N.to_nat n)) by lia. reflexivity. Qed.

(** ** the checked step is the clean step *)
Lemma take_push_eq b hdr l : hdr <= lenN b -> take_push b hdr l = take_data l (skipn (N.to_nat hdr) b).
Proof.
  intros H. unfold take_push, take_data. rewrite slice_from_ok by (rewrite lenNg_lenN; exact H).
  set (b' := skipn (N.to_nat hdr) b).
  destruct (lenN b' <? l) eqn:E; [reflexivity|].
  rewrite slice_to_ok, slice_from_ok by (rewrite lenNg_lenN; lia). reflexivity.
Qed.

Lemma le_uint_eq n t : N.of_nat n <= lenN t -> le_uint n t = Some (le_dec (firstn n t)).
Proof. intros H. unfold le_uint. replace (N.of_nat n <=? lenN t) with true by lia. reflexivity. Qed.

Lemma push_kind_cases op : op < 256 ->
  (op = 76 /\ push_kind op = KLen 1) \/ (op = 77 /\ push_kind op = KLen 2) \/ (op = 78 /\ push_kind op = KLen 4) \/
  (1 <= op <= 75 /\ push_kind op = KDirect op) \/ ((op = 0 \/ 78 < op) /\ push_kind op = KOp).
Proof.
  intros H. unfold push_kind.
  destruct (op =? 76) eqn:E1; [left; split; [lia|reflexivity]|].
  destruct (op =? 77) eqn:E2; [right; left; split; [lia|reflexivity]|].
  destruct (op =? 78) eqn:E3; [right; right; left; split; [lia|reflexivity]|].
  destruct ((1 <=? op) && (op <=? 75)) eqn:E4; [right; right; right; left; split; [lia|reflexivity]|].
  right; right; right; right. split; [lia|reflexivity].
Qed.

Lemma decode_step_eq b0 r : decode_step (b0 :: r) = decode_step_clean (b0 :: r).
Proof.
  unfold decode_step, decode_step_clean. rewrite idx_0. cbv zeta.
  pose proof (b2n_lt b0) as Hlt. set (op := b2n b0) in *.
  unfold OP_PUSHDATA1, OP_PUSHDATA2, OP_PUSHDATA4.
  destruct (push_kind_cases op Hlt) as [[E K]|[[E K]|[[E K]|[[E K]|[E K]]]]]; rewrite K.
  - (* PUSHDATA1 *)
    replace (op =? 76) with true by lia. rewrite lenN_cons.
    destruct r as [|l1 r'].
    + reflexivity.
    + rewrite lenN_cons. replace (1 + (1 + lenN r') <? 2) with false by lia.
      rewrite idx_1. rewrite take_push_eq by (rewrite !lenN_cons; lia).
      replace (1 + lenN r' <? N.of_nat 1) with false by lia.
      change (N.to_nat 2) with 2%nat. cbn [skipn firstn le_dec]. f_equal. lia.
  - (* PUSHDATA2 *)
    replace (op =? 76) with false by lia. replace (op =? 77) with true by lia. rewrite lenN_cons.
    destruct (lenN r <? N.of_nat 2) eqn:E2.
    + replace (1 + lenN r <? 3) with true by lia. reflexivity.
    + replace (1 + lenN r <? 3) with false by lia.
      rewrite slice_from_ok by (rewrite lenNg_lenN, lenN_cons; lia).
      change (skipn (N.to_nat 1) (b0 :: r)) with r.
      rewrite le_uint_eq by lia. rewrite take_push_eq by (rewrite lenN_cons; lia).
      change (skipn (N.to_nat 3) (b0 :: r)) with (skipn 2 r). reflexivity.
  - (* PUSHDATA4 *)
    replace (op =? 76) with false by lia. replace (op =? 77) with false by lia. replace (op =? 78) with true by lia.
    rewrite lenN_cons.
    destruct (lenN r <? N.of_nat 4) eqn:E2.
    + replace (1 + lenN r <? 5) with true by lia. reflexivity.
    + replace (1 + lenN r <? 5) with false by lia.
      rewrite slice_from_ok by (rewrite lenNg_lenN, lenN_cons; lia).
      change (skipn (N.to_nat 1) (b0 :: r)) with r.
      rewrite le_uint_eq by lia. rewrite take_push_eq by (rewrite lenN_cons; lia).
      change (skipn (N.to_nat 5) (b0 :: r)) with (skipn 4 r). reflexivity.
  - (* OP_DATA_n *)
    replace (op =? 76) with false by lia. replace (op =? 77) with false by lia. replace (op =? 78) with false by lia.
    replace ((1 <=? op) && (op <=? 78)) with true by lia.
    replace ((1 + op) mod 256) with (1 + op) by lia. replace ((op + 1) mod 256) with (1 + op) by lia.
    rewrite lenN_cons. unfold take_data.
    destruct (lenN r <? op) eqn:E2.
    + replace (1 + lenN r <? 1 + op) with true by lia. reflexivity.
    + replace (1 + lenN r <? 1 + op) with false by lia.
      rewrite slice_ok by (rewrite ?lenNg_lenN, ?lenN_cons; lia).
      rewrite slice_from_ok by (rewrite lenNg_lenN, lenN_cons; lia).
      change (skipn (N.to_nat 1) (b0 :: r)) with r. rewrite skipn_to_nat_succ.
      replace (1 + op - 1) with op by lia. reflexivity.
  - (* any other byte *)
    replace (op =? 76) with false by lia. replace (op =? 77) with false by lia. replace (op =? 78) with false by lia.
    replace ((1 <=? op) && (op <=? 78)) with false by lia.
    rewrite slice_from_ok by (rewrite lenNg_lenN, lenN_cons; lia). reflexivity.
Qed.

(** ** shape of the clean step *)
Lemma take_data_part l r p rest : take_data l r = DSPart p rest ->
  r = p ++ rest /\ lenN p = l.
Proof.
  unfold take_data. destruct (lenN r <? l) eqn:E; [discriminate|]. intros [= <- <-].
  split; [symmetry; apply firstn_skipn|]. apply lenN_firstn. lia.
Qed.
Lemma take_data_no_panic l r : take_data l r <> DSPanic.
Proof. unfold take_data. destruct (lenN r <? l); discriminate. Qed.
Lemma take_data_app d rest : take_data (lenN d) (d ++ rest) = DSPart d rest.
Proof.
  unfold take_data. rewrite lenN_app. replace (lenN d + lenN rest <? lenN d) with false by lia.
  unfold lenN. rewrite Nat2N.id, firstn_app, Nat.sub_diag, firstn_all, skipn_app, Nat.sub_diag, skipn_all.
  cbn. rewrite app_nil_r. reflexivity.
Qed.

Lemma decode_step_clean_shorter b p rest : decode_step_clean b = DSPart p rest -> (length rest < length b)%nat.
Proof.
  destruct b as [|b0 r]; [discriminate|]. cbn [decode_step_clean length].
  destruct (push_kind (b2n b0)) as [|l|h].
  - intros [= <- <-]. lia.
  - intros H. apply take_data_part in H as [-> _]. rewrite app_length. lia.
  - destruct (lenN r <? N.of_nat h); [discriminate|]. intros H. apply take_data_part in H as [E _].
    apply (f_equal (@length byte)) in E. rewrite skipn_length, app_length in E. lia.
Qed.
Lemma decode_step_clean_no_panic b0 r : decode_step_clean (b0 :: r) <> DSPanic.
Proof.
  cbn [decode_step_clean]. destruct (push_kind (b2n b0)); [discriminate|apply take_data_no_panic|].
  destruct (lenN r <? N.of_nat h); [discriminate|apply take_data_no_panic].
Qed.

(** ** the loop: fuel is irrelevant once it is at least the length *)
Lemma decode_loop_fuel : forall b f, (length b <= f)%nat -> decode_loop f b = decode_loop (length b) b.
Proof.
  induction b as [b IH] using bytes_len_ind. intros f Hf.
  destruct b as [|b0 r]; [destruct f; reflexivity|].
  destruct f as [|f]; [cbn in Hf; lia|].
  cbn [length decode_loop]. rewrite decode_step_eq.
  destruct (decode_step_clean (b0 :: r)) as [p rest| |] eqn:E; try reflexivity.
  pose proof (decode_step_clean_shorter _ _ _ E) as Hs. cbn [length] in Hs, Hf.
  assert (length rest < length (b0 :: r))%nat as Hlt by (cbn [length]; lia).
  rewrite (IH rest Hlt f) by lia. rewrite (IH rest Hlt (length r)) by lia. reflexivity.
Qed.

Lemma decode_parts_nil : decode_parts [] = DOk [].
Proof. reflexivity. Qed.

(** the equation every other proof uses *)
Lemma decode_parts_cons b0 r :
  decode_parts (b0 :: r) =
  match decode_step_clean (b0 :: r) with
  | DSPart p rest => dcons p (decode_parts rest)
  | DSErr => DErr []
  | DSPanic => DPanic
  end.
Proof.
  unfold decode_parts. cbn [length decode_loop]. rewrite decode_step_eq.
  destruct (decode_step_clean (b0 :: r)) as [p rest| |] eqn:E; try reflexivity.
  pose proof (decode_step_clean_shorter _ _ _ E) as Hs. cbn [length] in Hs.
  rewrite (decode_loop_fuel rest (length r)) by lia. reflexivity.
Qed.

Theorem decode_parts_total : forall b, decode_parts b <> DPanic /\ decode_parts b <> DFuel.
Proof.
  induction b as [b IH] using bytes_len_ind.
  destruct b as [|b0 r]; [split; discriminate|].
  rewrite decode_parts_cons.
  destruct (decode_step_clean (b0 :: r)) as [p rest| |] eqn:E.
  - apply decode_step_clean_shorter in E. destruct (IH rest E) as [H1 H2].
    destruct (decode_parts rest); cbn; split; congruence.
  - split; discriminate.
  - exfalso. eapply decode_step_clean_no_panic; eauto.
Qed.

(** ** tokens *)
Lemma n2b_small_b2n n : n < 256 -> b2n (n2b n) = n.
Proof. apply b2n_n2b_small. Qed.

(** decoding a complete push token yields its data and leaves the rest *)
Lemma decode_step_push hdr data rest : push_header hdr (lenN data) ->
  decode_step_clean (hdr ++ data ++ rest) = DSPart data rest.
Proof.
  intros H. inversion H as [n Hn E1 E2|n Hn E1 E2|n Hn E1 E2|n Hn E1 E2]; subst n; cbn [app decode_step_clean].
  - rewrite n2b_small_b2n by lia. unfold push_kind.
    replace (lenN data =? 76) with false by lia. replace (lenN data =? 77) with false by lia.
    replace (lenN data =? 78) with false by lia. replace ((1 <=? lenN data) && (lenN data <=? 75)) with true by lia.
    apply take_data_app.
  - change (b2n x4c) with 76. cbn [push_kind N.eqb Pos.eqb]. rewrite lenN_cons.
    replace (1 + lenN (data ++ rest) <? N.of_nat 1) with false by lia.
    cbn [firstn skipn le_dec]. rewrite n2b_small_b2n by lia.
    replace (lenN data + 256 * 0) with (lenN data) by lia. apply take_data_app.
  - change (b2n x4d) with 77. cbn [push_kind N.eqb Pos.eqb]. rewrite lenN_app, lenN_le_enc.
    replace (N.of_nat 2 + lenN (data ++ rest) <? N.of_nat 2) with false by lia.
    rewrite firstn_app, le_enc_length, Nat.sub_diag, firstn_O, app_nil_r.
    rewrite (firstn_all2 (le_enc 2 (lenN data))) by (rewrite le_enc_length; lia).
    rewrite skipn_app, le_enc_length, Nat.sub_diag, (skipn_all2 (le_enc 2 (lenN data))) by (rewrite le_enc_length; lia).
    cbn [skipn app]. rewrite le_dec_enc by (cbn; lia). apply take_data_app.
  - change (b2n x4e) with 78. cbn [push_kind N.eqb Pos.eqb]. rewrite lenN_app, lenN_le_enc.
    replace (N.of_nat 4 + lenN (data ++ rest) <? N.of_nat 4) with false by lia.
    rewrite firstn_app, le_enc_length, Nat.sub_diag, firstn_O, app_nil_r.
    rewrite (firstn_all2 (le_enc 4 (lenN data))) by (rewrite le_enc_length; lia).
    rewrite skipn_app, le_enc_length, Nat.sub_diag, (skipn_all2 (le_enc 4 (lenN data))) by (rewrite le_enc_length; lia).
    cbn [skipn app]. rewrite le_dec_enc by (cbn; lia). apply take_data_app.
Qed.

Lemma push_header_nonempty hdr n : push_header hdr n -> exists b t, hdr = b :: t.
Proof. intros H; inversion H; eauto. Qed.

Lemma decode_parts_push hdr data rest : push_header hdr (lenN data) ->
  decode_parts (hdr ++ data ++ rest) = dcons data (decode_parts rest).
Proof.
  intros H. destruct (push_header_nonempty _ _ H) as (b & t & E).
  pose proof (decode_step_push hdr data rest H) as S. rewrite E in *. cbn [app] in *.
  rewrite decode_parts_cons, S. reflexivity.
Qed.

Lemma decode_parts_op b rest : non_push b -> decode_parts (b :: rest) = dcons [b] (decode_parts rest).
Proof.
  intros H. rewrite decode_parts_cons. cbn [decode_step_clean].
  pose proof (b2n_lt b) as Hlt.
  destruct (push_kind_cases (b2n b) Hlt) as [[E K]|[[E K]|[[E K]|[[E K]|[E K]]]]]; unfold non_push in H; try lia.
  rewrite K. reflexivity.
Qed.

(** conversely, a decoded push is a complete push token of the grammar *)
Lemma decode_step_inv b0 r p rest : decode_step_clean (b0 :: r) = DSPart p rest ->
  (non_push b0 /\ p = [b0] /\ rest = r /\ push_kind (b2n b0) = KOp) \/
  (exists hdr, push_header hdr (lenN p) /\ b0 :: r = hdr ++ p ++ rest /\ push_kind (b2n b0) <> KOp).
Proof.
  cbn [decode_step_clean]. pose proof (b2n_lt b0) as Hlt.
  destruct (push_kind_cases (b2n b0) Hlt) as [[E K]|[[E K]|[[E K]|[[E K]|[E K]]]]]; rewrite K.
  - destruct (lenN r <? N.of_nat 1) eqn:E1; [discriminate|]. intros H. apply take_data_part in H as [E2 E3].
    right. destruct r as [|l1 r']; [cbn in E1; discriminate|]. cbn [firstn skipn le_dec] in *.
    exists [x4c; n2b (lenN p)]. split; [|split; [|discriminate]].
    + apply ph_pd1. pose proof (b2n_lt l1). lia.
    + rewrite E3. replace (b2n l1 + 256 * 0) with (b2n l1) by lia. rewrite n2b_b2n.
      cbn [app]. rewrite <- E2. f_equal. apply b2n_inj. rewrite E. reflexivity.
  - destruct (lenN r <? N.of_nat 2) eqn:E1; [discriminate|]. intros H. apply take_data_part in H as [E2 E3].
    right. exists (x4d :: le_enc 2 (lenN p)). split; [|split; [|discriminate]].
    + apply ph_pd2. rewrite E3. pose proof (le_dec_lt (firstn 2 r)) as L. rewrite firstn_length in L.
      replace (Nat.min 2 (length r)) with 2%nat in L by (unfold lenN in E1; lia).
      change (256 ^ N.of_nat 2) with 65536 in L. lia.
    + rewrite E3. replace 2%nat with (length (firstn 2 r)) at 1 by (rewrite firstn_length; unfold lenN in E1; lia).
      rewrite le_enc_dec. cbn [app]. rewrite <- E2, firstn_skipn. f_equal.
      apply b2n_inj. rewrite E. reflexivity.
  - destruct (lenN r <? N.of_nat 4) eqn:E1; [discriminate|]. intros H. apply take_data_part in H as [E2 E3].
    right. exists (x4e :: le_enc 4 (lenN p)). split; [|split; [|discriminate]].
    + apply ph_pd4. rewrite E3. pose proof (le_dec_lt (firstn 4 r)) as L. rewrite firstn_length in L.
      replace (Nat.min 4 (length r)) with 4%nat in L by (unfold lenN in E1; lia).
      change (256 ^ N.of_nat 4) with 4294967296 in L. lia.
    + rewrite E3. replace 4%nat with (length (firstn 4 r)) at 1 by (rewrite firstn_length; unfold lenN in E1; lia).
      rewrite le_enc_dec. cbn [app]. rewrite <- E2, firstn_skipn. f_equal.
      apply b2n_inj. rewrite E. reflexivity.
  - intros H. apply take_data_part in H as [E2 E3]. right. exists [b0]. split; [|split].
    + rewrite E3. replace [b0] with [n2b (b2n b0)] by (rewrite n2b_b2n; reflexivity). apply ph_direct. lia.
    + cbn [app]. rewrite E2. reflexivity.
    + discriminate.
  - intros [= <- <-]. left. repeat split; auto.
Qed.

(** ** PushDataPrefix *)
Lemma push_prefix_header data pfx : push_data_prefix data = Some pfx -> 1 <= lenN data ->
  push_header pfx (lenN data).
Proof.
  unfold push_data_prefix. intros H Hpos.
  destruct (lenN data <=? 75) eqn:E1; [injection H as <-; apply ph_direct; lia|].
  destruct (lenN data <=? 255) eqn:E2; [injection H as <-; apply ph_pd1; lia|].
  destruct (lenN data <=? 65535) eqn:E3; [injection H as <-; apply ph_pd2; lia|].
  destruct (lenN data <=? 4294967295) eqn:E4; [injection H as <-; apply ph_pd4; lia|discriminate].
Qed.

Lemma push_prefix_some data : lenN data < 4294967296 -> exists pfx, push_data_prefix data = Some pfx.
Proof.
  intros H. unfold push_data_prefix.
  destruct (lenN data <=? 75); [eauto|]. destruct (lenN data <=? 255); [eauto|].
  destruct (lenN data <=? 65535); [eauto|]. replace (lenN data <=? 4294967295) with true by lia. eauto.
Qed.

Theorem push_prefix_shortest data pfx : push_data_prefix data = Some pfx -> 1 <= lenN data ->
  shortest_header pfx (lenN data).
Proof.
  intros H Hpos. split; [apply push_prefix_header; assumption|].
  intros h Hh. unfold push_data_prefix in H.
  destruct (lenN data <=? 75) eqn:E1.
  { injection H as <-. inversion Hh; cbn [length]; lia. }
  destruct (lenN data <=? 255) eqn:E2.
  { injection H as <-. inversion Hh as [n Hn|n Hn|n Hn|n Hn]; cbn [length]; rewrite ?le_enc_length; lia. }
  destruct (lenN data <=? 65535) eqn:E3.
  { injection H as <-. inversion Hh as [n Hn|n Hn|n Hn|n Hn]; cbn [length]; rewrite ?le_enc_length; lia. }
  destruct (lenN data <=? 4294967295) eqn:E4; [|discriminate].
  injection H as <-. inversion Hh as [n Hn|n Hn|n Hn|n Hn]; cbn [length]; rewrite ?le_enc_length; lia.
Qed.

(** PushDataPrefix refuses only data of 2^32 bytes or more *)
Lemma push_prefix_none_iff data : push_data_prefix data = None <-> 4294967296 <= lenN data.
Proof.
  unfold push_data_prefix.
  destruct (lenN data <=? 75) eqn:E1; [split; [discriminate|lia]|].
  destruct (lenN data <=? 255) eqn:E2; [split; [discriminate|lia]|].
  destruct (lenN data <=? 65535) eqn:E3; [split; [discriminate|lia]|].
  destruct (lenN data <=? 4294967295) eqn:E4; [split; [discriminate|lia]|]. split; [lia|reflexivity].
Qed.

(** ** EncodeParts then DecodeParts *)
Definition item_ok (p : bytes) : Prop := 1 <= lenN p /\ lenN p < 4294967296.

Theorem decode_encode_parts : forall items, Forall item_ok items ->
  exists e, encode_parts items = Some e /\ decode_parts e = DOk items.
Proof.
  induction items as [|p r IH]; intros HF.
  - exists []. split; reflexivity.
  - inversion HF as [|? ? [Hp1 Hp2] HF']; subst. destruct (IH HF') as (t & Et & Dt).
    destruct (push_prefix_some p Hp2) as (pd & Epd).
    exists (pd ++ p ++ t). cbn [encode_parts]. rewrite Epd, Et. split; [reflexivity|].
    rewrite decode_parts_push by (apply push_prefix_header; assumption). rewrite Dt. reflexivity.
Qed.

(** the rest of the script is untouched: decoding continues after the encoded items *)
Lemma decode_encode_parts_app : forall items e rest, Forall item_ok items -> encode_parts items = Some e ->
  decode_parts (e ++ rest) = fold_right dcons (decode_parts rest) items.
Proof.
  induction items as [|p r IH]; intros e rest HF He.
  - injection He as <-. reflexivity.
  - inversion HF as [|? ? [Hp1 Hp2] HF']; subst. cbn [encode_parts] in He.
    destruct (push_data_prefix p) as [pd|] eqn:Epd; [|discriminate].
    destruct (encode_parts r) as [t|] eqn:Et; [|discriminate]. injection He as <-.
    rewrite <- !app_assoc. rewrite decode_parts_push by (apply push_prefix_header; assumption).
    cbn [fold_right]. f_equal. apply IH; auto.
Qed.

(** MinPushSize agrees with the encoding for data of two bytes or more *)
Lemma min_push_size_spec data pfx : 2 <= lenN data -> push_data_prefix data = Some pfx ->
  min_push_size data = lenN pfx + lenN data.
Proof.
  intros H2 Hp. unfold min_push_size. unfold push_data_prefix in Hp.
  assert (lenN data <= 4294967295) as Hmax.
  { destruct (lenN data <=? 75) eqn:E1; [lia|]. destruct (lenN data <=? 255) eqn:E2; [lia|].
    destruct (lenN data <=? 65535) eqn:E3; [lia|]. destruct (lenN data <=? 4294967295) eqn:E4; [lia|discriminate]. }
  replace (4294967295 <? lenN data) with false by lia.
  replace (lenN data =? 0) with false by lia. replace (lenN data =? 1) with false by lia.
  destruct (lenN data <=? 75); [injection Hp as <-; unfold lenN at 2; cbn [length]; lia|].
  destruct (lenN data <=? 255); [injection Hp as <-; unfold lenN at 2; cbn [length]; lia|].
  destruct (lenN data <=? 65535); [injection Hp as <-; repeat rewrite lenN_cons; rewrite ?lenN_le_enc, ?lenN_nil; lia|].
  destruct (lenN data <=? 4294967295); [injection Hp as <-; repeat rewrite lenN_cons; rewrite ?lenN_le_enc, ?lenN_nil; lia|discriminate].
Qed.
