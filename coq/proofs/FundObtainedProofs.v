(** Every observable of Fund over the Go-shaped inputs (model/FundObtained.v: the unlocking script behind a pointer,
    nil or present) is the observable of model/Fund.v on what the transaction says. *)
From Coq Require Import List NArith Bool Lia.
From Coq Require Import Strings.Byte.
From GoBT Require Import lib.Bytes lib.VarInt model.Tx gen.Consts spec.FeeSpec model.Fees model.Fund model.FundObtained.
Import ListNotations.
Local Open Scope N_scope.
Local Open Scope bool_scope.

Definition omap_says (x : outcome gtx) : outcome tx :=
  match x with FOk t => FOk (says t) | FErr e => FErr e | FFatal => FFatal | FPanic => FPanic end.
Definition omap_ins (x : outcome (list ginput)) : outcome (list input) :=
  match x with FOk l => FOk (map says_in l) | FErr e => FErr e | FFatal => FFatal | FPanic => FPanic end.

Lemma says_in_decoded i : says_in (decoded_in i) = i.
Proof. destruct i; reflexivity. Qed.
Lemma says_decoded t : says (decoded t) = t.
Proof.
  destruct t as [v ins outs l]. unfold says, decoded. cbn [g_version g_ins g_outs g_lock tx_version tx_ins tx_outs tx_lock].
  f_equal. rewrite map_map. rewrite <- (map_id ins) at 2. apply map_ext. intro i. apply says_in_decoded.
Qed.
Lemma says_in_built i : says_in (built_in i) = i.
Proof. destruct i as [a b u c d e]. unfold says_in, built_in. cbn. destruct u; reflexivity. Qed.
Lemma says_built t : says (built t) = t.
Proof.
  destruct t as [v ins outs l]. unfold says, built. cbn [g_version g_ins g_outs g_lock tx_version tx_ins tx_outs tx_lock].
  f_equal. rewrite map_map. rewrite <- (map_id ins) at 2. apply map_ext. intro i. apply says_in_built.
Qed.

(** the Go test on a decoded input is the model's test on its bytes *)
Lemma g_unsigned_decoded i : g_unsigned (decoded_in i) = unsigned i.
Proof. destruct i as [a b u c d e]. unfold g_unsigned, unsigned. cbn. destruct u; reflexivity. Qed.

Lemma says_in_with_unlock i u : says_in (g_with_unlock i u) = with_unlock (says_in i) u.
Proof. destruct i; reflexivity. Qed.

Lemma fill_dummy_decoded ins :
  omap_ins (g_fill_dummy g_unsigned (map decoded_in ins)) = fill_dummy ins.
Proof.
  induction ins as [|i r IH]; [reflexivity|].
  cbn [map g_fill_dummy fill_dummy].
  replace (gi_script (decoded_in i)) with (in_script i) by (destruct i; reflexivity).
  destruct (in_script i) as [s|]; [|reflexivity].
  destruct (negb (supported s)); [reflexivity|].
  rewrite g_unsigned_decoded. rewrite <- IH.
  destruct (g_fill_dummy g_unsigned (map decoded_in r)) as [l|e| |]; cbn; try reflexivity.
  f_equal. f_equal. destruct (unsigned i).
  - rewrite says_in_with_unlock, says_in_decoded. reflexivity.
  - apply says_in_decoded.
Qed.

(** estimatedFinalTx depends only on what the receiver says *)
Theorem estimated_final_tx_says t :
  omap_says (g_estimated_final_tx t) = estimated_final_tx (says t).
Proof.
  unfold g_estimated_final_tx, estimated_final_tx, g_clone.
  destruct (clone (says t)) as [c| |]; try reflexivity.
  cbn [decoded g_ins]. rewrite <- fill_dummy_decoded.
  destruct (g_fill_dummy g_unsigned (map decoded_in (tx_ins c))) as [l|e| |]; cbn; try reflexivity.
Qed.

Lemma estimate_size_with_types_says t :
  g_estimate_size_with_types t = estimate_size_with_types (says t).
Proof.
  unfold g_estimate_size_with_types, estimate_size_with_types. rewrite <- estimated_final_tx_says.
  destruct (g_estimated_final_tx t); reflexivity.
Qed.

Theorem estimate_deficit_says t q : g_estimate_deficit t q = estimate_deficit (says t) q.
Proof.
  unfold g_estimate_deficit, estimate_deficit, g_estimate_fees_paid, estimate_fees_paid.
  rewrite estimate_size_with_types_says. reflexivity.
Qed.

Lemma says_add_input t u : says (g_add_input t (g_of_utxo u)) = add_input (says t) (of_utxo u).
Proof.
  unfold says, g_add_input, add_input. cbn [g_version g_ins g_outs g_lock tx_version tx_ins tx_outs tx_lock].
  rewrite map_app. reflexivity.
Qed.

Lemma from_utxos_says us : forall t,
  (fst (g_from_utxos t us), says (snd (g_from_utxos t us))) = from_utxos (says t) us.
Proof.
  induction us as [|u r IH]; intro t; [reflexivity|].
  cbn [g_from_utxos from_utxos]. destruct (valid_txid (u_txid u)); [|reflexivity].
  rewrite IH, says_add_input. reflexivity.
Qed.

Lemma fund_loop_says q hist : forall t d,
  says_result (g_fund_loop q hist t d) = fund_loop q hist (says t) d.
Proof.
  induction hist as [|r rest IH]; intros t d.
  - cbn [g_fund_loop fund_loop]. destruct (d =? 0); reflexivity.
  - cbn [g_fund_loop fund_loop]. destruct (d =? 0); [reflexivity|].
    destruct r as [us| |]; try reflexivity.
    pose proof (from_utxos_says us t) as H.
    destruct (g_from_utxos t us) as [o t1]. cbn [fst snd] in H. rewrite <- H.
    destruct o as [[]|e| |]; try reflexivity.
    rewrite estimate_deficit_says.
    destruct (estimate_deficit (says t1) q) as [d'|e| |]; try reflexivity.
    rewrite <- IH. reflexivity.
Qed.

(** Fund: verdict, the deficits the supplier was called with, the number of calls and what the transaction left
    behind says are those of model/Fund.v on what the starting transaction says *)
Theorem fund_says t q hist : says_result (g_fund t q hist) = fund (says t) q hist.
Proof.
  unfold g_fund, fund. rewrite estimate_deficit_says.
  destruct (estimate_deficit (says t) q) as [d|e| |]; try reflexivity.
  apply fund_loop_says.
Qed.

(** ... hence two transactions that say the same are funded alike, however each was obtained *)
Theorem fund_obtained_irrelevant t1 t2 q hist :
  says t1 = says t2 -> says_result (g_fund t1 q hist) = says_result (g_fund t2 q hist).
Proof. intro H. rewrite !fund_says, H. reflexivity. Qed.

(** every transaction of model/Tx.v is what some Go object says: the decoded one and the hand-built one *)
Theorem fund_decoded_built t q hist :
  says_result (g_fund (decoded t) q hist) = fund t q hist /\ says_result (g_fund (built t) q hist) = fund t q hist.
Proof. rewrite !fund_says, says_decoded, says_built. split; reflexivity. Qed.

(** FromUTXOs leaves the new inputs without an unlocking script object, and they say what [of_utxo] says *)
Lemma g_of_utxo_says u : says_in (g_of_utxo u) = of_utxo u /\ gi_unlock (g_of_utxo u) = None.
Proof. split; reflexivity. Qed.
