(** Tx.CalcInputSignatureHash and Tx.sigStrat (signaturehash.go), as printed from the Go source, are
    [calc_input_signature_hash] of model/SigHash.v: the algorithm is selected on the ForkID bit (sigStrat returns the
    METHOD VALUE tx.CalcInputPreimage or tx.CalcInputPreimageLegacy -- a tag in the printed term, harness/gen/funcs_sighash.go),
    an error of the selected function is passed on, the 32-byte constant 01 00 .. 00 (defaultHex: the SINGLE bug of the
    original client) is returned as it is and every other preimage is hashed twice.
    CalcInputPreimage is the PRINTED function (rewritten with its equivalence theorem).  CalcInputPreimageLegacy is NOT
    translated (it mutates a clone of the transaction): the printed definition takes it as the parameter
    [f_Tx_CalcInputPreimageLegacy], and the theorem carries the hypothesis that this parameter is the model's
    [calc_input_preimage_legacy] on this transaction -- i.e. the legacy function stays tied by the run-time correspondence
    alone, everything around it is proved.  TRUSTED mappings used (lib/GoTx.v, lib/GoInterp.v): crypto.Sha256d ->
    [sha256d], bytes.Equal -> [bytes_eqb]; defaultHex is read as its literal (the translator checks that the package only
    ever reads it). *)
From Coq Require Import List ZArith NArith Bool Lia ZifyN ZifyNat ZifyBool.
From Coq Require Import Strings.Byte.
From GoBT Require Import lib.Bytes lib.VarInt lib.Sha256 lib.GoSem lib.GoInterp lib.GoTx gen.Funcs proofs.GenFuncsTac proofs.GenFuncsTxTac model.Tx model.SigHash.
From GoBT Require Import proofs.GenFuncs_Flag_Has proofs.GenFuncs_Tx_CalcInputPreimage.
Import ListNotations.
Ltac Zify.zify_post_hook ::= Z.div_mod_to_equations.
Local Open Scope Z_scope.

(** what is assumed of the untranslated callee: on THIS transaction it is the model's legacy preimage *)
Definition legacy_is_model (legacy : Z -> Z -> M (bytes * bool)) (t : tx) : Prop :=
  forall i ht : N, (i < 4294967296)%N -> (ht < 256)%N ->
  legacy (Z.of_N i) (Z.of_N ht) = sres_outcome (fst (calc_input_preimage_legacy t i ht)).

(** the ForkID bit tested without Flag.Has ([shf&ForkID != 0] / [== 0]): all 256 hash types *)
Lemma forkid_bit (ht : N) : (ht < 256)%N -> (go_and (Z.of_N ht) 64 =? 0) = negb (flag_has ht sh_forkid).
Proof.
  intros Hht. apply Bool.eqb_prop.
  refine (all256_spec (fun h => Bool.eqb (go_and (Z.of_N h) 64 =? 0) (negb (flag_has h sh_forkid))) _ ht Hht).
  vm_compute. reflexivity.
Qed.

Ltac forkid_test ht Hht :=
  change 64 with (Z.of_N sh_forkid);
  rewrite ?(Flag_Has_is_model ht sh_forkid Hht) by (unfold sh_forkid; lia);
  change (Z.of_N sh_forkid) with 64;
  rewrite ?(forkid_bit ht Hht), ?negb_involutive.

Lemma default_hex_lit :
  go_bytes_lit [1; 0; 0; 0; 0; 0; 0; 0; 0; 0; 0; 0; 0; 0; 0; 0; 0; 0; 0; 0; 0; 0; 0; 0; 0; 0; 0; 0; 0; 0; 0; 0] = default_hex.
Proof. vm_compute. reflexivity. Qed.

(** the tail of the function: error passed on, constant kept, everything else hashed twice *)
Lemma sig_hash_tail (r : sres * tx) :
  sres_outcome (fst (let '(r0, t') := r in
                     match r0 with
                     | SOk buf => if bytes_eqb default_hex buf then (SOk buf, t') else (SOk (sha256d buf), t')
                     | other => (other, t')
                     end))
  = bind (sres_outcome (fst r)) (fun '(buf, err) =>
      if err then Val ([], err) else if bytes_eqb default_hex buf then Val (buf, false) else Val (sha256d buf, false)).
Proof.
  destruct r as [[b|e| | |] t']; cbn [fst sres_outcome bind]; try reflexivity.
  destruct (bytes_eqb default_hex b); reflexivity.
Qed.

Lemma Tx_CalcInputSignatureHash_is_model (legacy : Z -> Z -> M (bytes * bool))
    (ins : list go_Input) (outs : list go_Output) (ver lock : Z) (i ht : N) :
  Forall go_input_ok ins -> len_ok ins -> Forall go_output_ok outs -> len_ok outs -> u32 ver -> u32 lock ->
  (i < 4294967296)%N -> (ht < 256)%N ->
  legacy_is_model legacy (tx_of_go ins outs ver lock) ->
  Tx_CalcInputSignatureHash (Z.of_N i) (Z.of_N ht) (map Some ins) (map Some outs) ver lock legacy
  = sres_outcome (fst (calc_input_signature_hash (tx_of_go ins outs ver lock) i ht)).
Proof.
  intros Hins Hli Houts Hlo Hver Hlock Hi Hht Hleg.
  unfold calc_input_signature_hash. rewrite sig_hash_tail.
  unfold Tx_CalcInputSignatureHash, Tx_sigStrat.
  forkid_test ht Hht.
  rewrite ?default_hex_lit. unfold go_bytes_equal, go_sha256d. cbn [bind].
  destruct (flag_has ht sh_forkid); cbn [bind negb Z.eqb Pos.eqb].
  - rewrite (Tx_CalcInputPreimage_is_model ins outs ver lock i ht) by assumption.
    destruct (sres_outcome (fst (calc_input_preimage (tx_of_go ins outs ver lock) i ht))) as [[buf err]| |]; cbn [bind]; try reflexivity;
      destruct err; try reflexivity; destruct (bytes_eqb default_hex buf); reflexivity.
  - rewrite (Hleg i ht Hi Hht).
    destruct (sres_outcome (fst (calc_input_preimage_legacy (tx_of_go ins outs ver lock) i ht))) as [[buf err]| |]; cbn [bind]; try reflexivity;
      destruct err; try reflexivity; destruct (bytes_eqb default_hex buf); reflexivity.
Qed.

(** with the ForkID bit the legacy function is not called: no hypothesis about it *)
Lemma Tx_CalcInputSignatureHash_forkid_is_model (legacy : Z -> Z -> M (bytes * bool))
    (ins : list go_Input) (outs : list go_Output) (ver lock : Z) (i ht : N) :
  Forall go_input_ok ins -> len_ok ins -> Forall go_output_ok outs -> len_ok outs -> u32 ver -> u32 lock ->
  (i < 4294967296)%N -> (ht < 256)%N -> flag_has ht sh_forkid = true ->
  Tx_CalcInputSignatureHash (Z.of_N i) (Z.of_N ht) (map Some ins) (map Some outs) ver lock legacy
  = sres_outcome (fst (calc_input_signature_hash (tx_of_go ins outs ver lock) i ht)).
Proof.
  intros Hins Hli Houts Hlo Hver Hlock Hi Hht Hfork.
  unfold calc_input_signature_hash. rewrite sig_hash_tail.
  unfold Tx_CalcInputSignatureHash, Tx_sigStrat.
  forkid_test ht Hht.
  rewrite ?default_hex_lit. unfold go_bytes_equal, go_sha256d. cbn [bind].
  rewrite Hfork; cbn [bind negb Z.eqb Pos.eqb].
  rewrite (Tx_CalcInputPreimage_is_model ins outs ver lock i ht) by assumption.
  destruct (sres_outcome (fst (calc_input_preimage (tx_of_go ins outs ver lock) i ht))) as [[buf err]| |]; cbn [bind]; try reflexivity;
      destruct err; try reflexivity; destruct (bytes_eqb default_hex buf); reflexivity.
Qed.
