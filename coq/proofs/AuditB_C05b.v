(** Audit B, C05, second part: the minimal-push rule against the shortest-form rule of BIP62, and the
    single-OP_ELSE rule after Genesis with the else-stack invariant. *)
From Coq Require Import List NArith ZArith Lia Bool.
From Coq Require Import Strings.Byte.
From GoBT Require Import lib.Bytes model.ScriptNum model.Interp proofs.InterpTotal.
Import ListNotations.
Local Open Scope Z_scope.

(** ** Minimal push (ParsedOpcode.enforceMinimumDataPush)

    The specification, written from BIP62 rule 3 and not from the code: the ONE opcode by which the shortest
    encoding pushes [data]. *)
Definition shortest_push_opcode (data : bytes) : N :=
  match data with
  | [] => OP_0
  | [x] => if ((1 <=? b2n x) && (b2n x <=? 16))%N then OP_1 + (b2n x - 1)      (* OP_1 .. OP_16 *)
           else if (b2n x =? 129)%N then OP_1NEGATE                             (* 0x81 *)
           else 1                                                               (* one byte pushed directly *)
  | _ => let n := N.of_nat (length data) in
         if (n <=? 75)%N then n                                                 (* direct push of n bytes *)
         else if (n <=? 255)%N then OP_PUSHDATA1
         else if (n <=? 65535)%N then OP_PUSHDATA2
         else OP_PUSHDATA4
  end.

(** the check accepts exactly the shortest opcode; above 65535 bytes it accepts anything (only OP_PUSHDATA4 can carry
    that much) *)
Theorem minimal_push_ok_iff : forall p,
  minimal_push_ok p = true <->
  (65535 < N.of_nat (length (p_data p)))%N \/ p_val p = shortest_push_opcode (p_data p).
Proof.
  intros p. unfold minimal_push_ok, shortest_push_opcode.
  destruct (p_data p) as [|x [|y r]] eqn:Ed.
  - cbn [length]. rewrite N.eqb_eq. split; [auto|]. intros [H|H]; [lia|exact H].
  - cbn [length].
    assert (Hlen : ~ (65535 < N.of_nat 1)%N) by lia.
    destruct ((1 <=? b2n x) && (b2n x <=? 16))%N eqn:E1.
    + rewrite N.eqb_eq. apply andb_true_iff in E1. destruct E1 as [A B]. apply N.leb_le in A.
      split; [intros ->; right; lia|]. intros [H|H]; [contradiction|]. rewrite H. lia.
    + destruct (b2n x =? 129)%N; rewrite N.eqb_eq; (split; [auto|]); intros [H|H]; try contradiction; exact H.
  - set (n := N.of_nat (length (x :: y :: r))).
    destruct (n <=? 75)%N eqn:E75.
    { rewrite N.eqb_eq. apply N.leb_le in E75. split; [auto|]. intros [H|H]; [lia|exact H]. }
    destruct (n <=? 255)%N eqn:E255.
    { rewrite N.eqb_eq. apply N.leb_le in E255. split; [auto|]. intros [H|H]; [lia|exact H]. }
    destruct (n <=? 65535)%N eqn:E65535.
    { rewrite N.eqb_eq. apply N.leb_le in E65535. split; [auto|]. intros [H|H]; [lia|exact H]. }
    apply N.leb_gt in E65535. split; [intros _; left; exact E65535|reflexivity].
Qed.

(** the check is only applied to the data-carrying opcodes OP_0 .. OP_PUSHDATA4 (thread.executeOpcode); among those
    a single byte 1..16 or 0x81 is never minimal: the shortest form is an opcode without data *)
Corollary small_number_pushed_as_data_is_not_minimal : forall p x,
  (p_val p <= OP_PUSHDATA4)%N -> p_data p = [x] ->
  ((1 <= b2n x <= 16)%N \/ b2n x = 129%N) -> minimal_push_ok p = false.
Proof.
  intros p x Hv Hd Hx. destruct (minimal_push_ok p) eqn:E; [|reflexivity]. exfalso.
  apply minimal_push_ok_iff in E. rewrite Hd in E. cbn [length] in E. destruct E as [E|E]; [lia|].
  unfold shortest_push_opcode in E. unfold OP_PUSHDATA4 in Hv.
  destruct Hx as [[A B]|A].
  - apply N.leb_le in A as A'. apply N.leb_le in B as B'. rewrite A', B' in E. cbn [andb] in E. unfold OP_1 in E. lia.
  - rewrite A in E. change (p_val p = 79%N) in E. lia.
Qed.

(** which opcode of the right kind can carry the data at all: with it, "shortest" is also "the only minimal one" *)
Corollary minimal_push_unique : forall p q, p_data p = p_data q ->
  (N.of_nat (length (p_data p)) <= 65535)%N ->
  minimal_push_ok p = true -> minimal_push_ok q = true -> p_val p = p_val q.
Proof.
  intros p q Ed Hlen Hp Hq. apply minimal_push_ok_iff in Hp. apply minimal_push_ok_iff in Hq.
  rewrite <- Ed in Hq. destruct Hp as [Hp|Hp]; [lia|]. destruct Hq as [Hq|Hq]; [lia|]. congruence.
Qed.

(** ** A single OP_ELSE per conditional after Genesis (opcodeElse: elseStack.PopBool, "duplicate else") *)

Definition toggle (t : N) : N :=
  if (t =? COND_TRUE)%N then COND_FALSE else if (t =? COND_FALSE)%N then COND_TRUE else t.

Lemma else_handler so c p idx s : p_real p = true -> p_val p = OP_ELSE ->
  exec_handler so c p idx s =
    match cond s with
    | [] => OErr
    | t :: cr =>
        if after_genesis c then
          match els s with
          | [] => OErr
          | true :: _ => OErr
          | false :: er => OOk (set_cond s (toggle t :: cr) (true :: er))
          end
        else OOk (set_cond s (toggle t :: cr) (els s))
    end.
Proof.
  intros Hr Hv. unfold exec_handler. rewrite Hr, Hv. cbn [negb].
  repeat match goal with
  | |- context [(OP_ELSE =? ?k)%N] => let r := eval vm_compute in (OP_ELSE =? k)%N in change (OP_ELSE =? k)%N with r
  | |- context [(OP_ELSE <=? ?k)%N] => let r := eval vm_compute in (OP_ELSE <=? k)%N in change (OP_ELSE <=? k)%N with r
  end.
  cbn [orb andb]. destruct (cond s) as [|t cr]; [reflexivity|]. unfold toggle.
  destruct (after_genesis c); [|reflexivity].
  destruct (els s) as [|[|] er]; reflexivity.
Qed.

(** executeOpcode on an OP_ELSE: whatever it does before the handler either fails or leaves the two stacks alone *)
Lemma else_opcode so c p idx s : p_real p = true -> p_val p = OP_ELSE ->
  execute_opcode so c p idx s = OErr \/
  execute_opcode so c p idx s = exec_handler so c p idx (set_nops s (nops s + 1)).
Proof.
  intros Hr Hv. unfold execute_opcode. rewrite Hv.
  change (is_conditional OP_ELSE) with true. change (OP_16 <? OP_ELSE)%N with true.
  change (OP_ELSE <=? OP_PUSHDATA4)%N with false. cbn [negb andb]. rewrite !andb_false_r. cbn [andb].
  destruct (max_elem c <? lenZ (p_data p)); [left; reflexivity|].
  destruct (is_disabled OP_ELSE && _); [left; reflexivity|].
  destruct (always_illegal OP_ELSE && _); [left; reflexivity|].
  destruct (max_ops c <? nops (set_nops s (nops s + 1))); [left; reflexivity|].
  right. reflexivity.
Qed.

(** after Genesis an OP_ELSE on a conditional that has already seen one is an error *)
Theorem second_else_is_an_error : forall so c p idx s er,
  after_genesis c = true -> p_real p = true -> p_val p = OP_ELSE -> els s = true :: er ->
  execute_opcode so c p idx s = OErr.
Proof.
  intros so c p idx s er Hag Hr Hv He.
  destruct (else_opcode so c p idx s Hr Hv) as [E|E]; [exact E|]. rewrite E, (else_handler so c p idx _ Hr Hv).
  cbn [cond els set_nops]. rewrite Hag, He. destruct (cond s); reflexivity.
Qed.

(** ... and the first one is what sets the flag (OP_IF / OP_NOTIF push it cleared) *)
Theorem first_else_sets_the_flag : forall so c p idx s s',
  after_genesis c = true -> p_real p = true -> p_val p = OP_ELSE ->
  execute_opcode so c p idx s = OOk s' ->
  exists t cr er, cond s = t :: cr /\ els s = false :: er /\ cond s' = toggle t :: cr /\ els s' = true :: er.
Proof.
  intros so c p idx s s' Hag Hr Hv Hex.
  destruct (else_opcode so c p idx s Hr Hv) as [E|E]; [congruence|]. rewrite E, (else_handler so c p idx _ Hr Hv) in Hex.
  cbn [cond els set_nops] in Hex. rewrite Hag in Hex.
  destruct (cond s) as [|t cr]; [discriminate|]. destruct (els s) as [|[|] er]; try discriminate.
  injection Hex as <-. exists t, cr, er. repeat split.
Qed.

Corollary else_else_is_an_error : forall so c p q idx idx' s s',
  after_genesis c = true -> p_real p = true -> p_val p = OP_ELSE -> p_real q = true -> p_val q = OP_ELSE ->
  execute_opcode so c p idx s = OOk s' -> execute_opcode so c q idx' s' = OErr.
Proof.
  intros so c p q idx idx' s s' Hag Hr Hv Hr' Hv' Hex.
  destruct (first_else_sets_the_flag so c p idx s s' Hag Hr Hv Hex) as (t & cr & er & _ & _ & _ & He).
  exact (second_else_is_an_error so c q idx' s' er Hag Hr' Hv' He).
Qed.

(** OP_IF / OP_NOTIF open a conditional with the flag cleared *)
Theorem if_clears_the_flag : forall so c p idx s s',
  after_genesis c = true -> p_real p = true -> (p_val p = OP_IF \/ p_val p = OP_NOTIF) ->
  exec_handler so c p idx s = OOk s' -> exists er, els s' = false :: er.
Proof.
  intros so c p idx s s' Hag Hr Hv. unfold exec_handler. rewrite Hr. cbn [negb].
  assert (Hshape : forall x : bool -> N,
    (if should_exec c s (p_val p) then
       if branch_executing s then
         match pop_if_bool c s with
         | None => OErr
         | Some (ok, s1) => OOk (set_cond s1 (x ok :: cond s1) (if after_genesis c then false :: els s1 else els s1))
         end
       else OOk (set_cond s (COND_SKIP :: cond s) (if after_genesis c then false :: els s else els s))
     else OOk (set_cond s (COND_FALSE :: cond s) (if after_genesis c then false :: els s else els s))) = OOk s' ->
    exists er, els s' = false :: er).
  { intros x. rewrite Hag. destruct (should_exec c s (p_val p)); [|intros [= <-]; eexists; reflexivity].
    destruct (branch_executing s); [|intros [= <-]; eexists; reflexivity].
    destruct (pop_if_bool c s) as [[ok s1]|]; [|discriminate]. intros [= <-]. eexists; reflexivity. }
  destruct Hv as [Hv|Hv]; rewrite Hv in *;
  repeat match goal with
  | |- context [(?a =? ?k)%N] => let r := eval vm_compute in (a =? k)%N in change (a =? k)%N with r
  | |- context [(?a <=? ?k)%N] => let r := eval vm_compute in (a <=? k)%N in change (a <=? k)%N with r
  end; cbn [orb andb]; intros H.
  - apply (Hshape (fun ok => if ok then COND_TRUE else COND_FALSE)). exact H.
  - apply (Hshape (fun ok => if negb ok then COND_TRUE else COND_FALSE)). exact H.
Qed.

(** before Genesis there is no else stack: any number of OP_ELSEs toggle the branch, two in a row restore it *)
Theorem else_toggles_before_genesis : forall so c p idx s t cr,
  after_genesis c = false -> p_real p = true -> p_val p = OP_ELSE -> cond s = t :: cr ->
  exec_handler so c p idx s = OOk (set_cond s (toggle t :: cr) (els s)).
Proof. intros so c p idx s t cr Hag Hr Hv Hc. rewrite (else_handler so c p idx s Hr Hv), Hc, Hag. reflexivity. Qed.

Lemma toggle_toggle t : toggle (toggle t) = t.
Proof.
  unfold toggle. destruct (t =? COND_TRUE)%N eqn:E1; [apply N.eqb_eq in E1; subst; reflexivity|].
  destruct (t =? COND_FALSE)%N eqn:E2; [apply N.eqb_eq in E2; subst; reflexivity|]. rewrite E1, E2. reflexivity.
Qed.

Theorem else_else_before_genesis : forall so c p q idx idx' s t cr s',
  after_genesis c = false -> p_real p = true -> p_val p = OP_ELSE -> p_real q = true -> p_val q = OP_ELSE ->
  cond s = t :: cr -> exec_handler so c p idx s = OOk s' ->
  exists s'', exec_handler so c q idx' s' = OOk s'' /\ cond s'' = cond s /\ els s'' = els s.
Proof.
  intros so c p q idx idx' s t cr s' Hag Hr Hv Hr' Hv' Hc.
  rewrite (else_toggles_before_genesis so c p idx s t cr Hag Hr Hv Hc). intros [= <-].
  rewrite (else_toggles_before_genesis so c q idx' (set_cond s (toggle t :: cr) (els s)) (toggle t) cr Hag Hr' Hv' eq_refl).
  eexists. split; [reflexivity|]. cbn [cond els set_cond]. rewrite toggle_toggle, Hc. split; reflexivity.
Qed.
