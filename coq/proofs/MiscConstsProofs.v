(** The literals the signature-hash, address and BIP276 models use are the constants of the Go source
    (coq/gen/MiscConsts.v is regenerated from sighash/flag.go, bscript/address.go and bscript/bip276.go on
    every run). *)
From Coq Require Import List NArith ZArith String.
From Coq Require Import Strings.Byte.
From GoBT Require Import lib.Bytes gen.MiscConsts model.SigHash model.Address proofs.InterpConstsProofs.
Import ListNotations.
Local Open Scope string_scope.

Fixpoint lookup_s (t : list (string * string)) (k : string) : option string :=
  match t with
  | [] => None
  | (n, v) :: r => if String.eqb n k then Some v else lookup_s r k
  end.

Theorem sighash_consts_match :
  lookup sighash_consts "All" = Some (Z.of_N sh_all) /\
  lookup sighash_consts "None" = Some (Z.of_N sh_none) /\
  lookup sighash_consts "Single" = Some (Z.of_N sh_single) /\
  lookup sighash_consts "AnyOneCanPay" = Some (Z.of_N sh_anyonecanpay) /\
  lookup sighash_consts "ForkID" = Some (Z.of_N sh_forkid) /\
  lookup sighash_consts "Mask" = Some (Z.of_N sh_mask) /\
  lookup sighash_consts "AllForkID" = Some (Z.of_N (N.lor sh_all sh_forkid)) /\
  lookup sighash_consts "NoneForkID" = Some (Z.of_N (N.lor sh_none sh_forkid)) /\
  lookup sighash_consts "SingleForkID" = Some (Z.of_N (N.lor sh_single sh_forkid)) /\
  lookup sighash_consts "AnyOneCanPayForkID" = Some (Z.of_N (N.lor sh_anyonecanpay sh_forkid)) /\
  lookup sighash_consts "Old" = Some 0%Z.
Proof. vm_compute. repeat split; reflexivity. Qed.

Theorem address_consts_match :
  lookup address_consts "hashP2PKH" = Some (Z.of_N (b2n (version_byte true))) /\
  lookup address_consts "hashTestNetP2PKH" = Some (Z.of_N (b2n (version_byte false))) /\
  lookup address_consts "hashTestNetP2PKH" = Some (Z.of_N (b2n hashTestNetP2PKH)).
Proof. vm_compute. repeat split; reflexivity. Qed.

Theorem bip276_consts_match :
  lookup bip276_consts "CurrentVersion" = Some 1%Z /\
  lookup bip276_consts "NetworkMainnet" = Some 1%Z /\
  lookup bip276_consts "NetworkTestnet" = Some 2%Z /\
  lookup_s bip276_prefixes "PrefixScript" = Some "bitcoin-script" /\
  lookup_s bip276_prefixes "PrefixTemplate" = Some "bitcoin-template".
Proof. vm_compute. repeat split; reflexivity. Qed.
