(** stack.PushBool (bscript/interpreter/stack.go), as printed from the Go source: pushes [ScriptNum.from_bool].
    The Go stack is [rev d], [d] being the stack of model/Interp.v (top first). *)
From Coq Require Import List ZArith NArith Bool Lia ZifyN ZifyNat ZifyBool.
From Coq Require Import Strings.Byte.
From GoBT Require Import lib.Bytes lib.GoSem lib.GoInterp gen.Funcs proofs.GenFuncsTac proofs.GenFuncsInterpTac proofs.GenFuncs_stack_PushByteArray proofs.GenFuncs_fromBool.
From GoBT Require model.Interp model.ScriptNum.
Import ListNotations.
Ltac Zify.zify_post_hook ::= Z.div_mod_to_equations.
Local Open Scope Z_scope.

Lemma stack_PushBool_spec (b : bool) (d : list bytes) :
  stack_PushBool b (rev d) = Val (rev (ScriptNum.from_bool b :: d)).
Proof. unfold stack_PushBool. rewrite fromBool_is_model. cbn [bind]. rewrite stack_PushByteArray_spec. reflexivity. Qed.

#[global] Hint Rewrite stack_PushBool_spec : stk.
