(** Lemmas and tactics shared by the equivalence proofs of the script interpreter's own code
    (proofs/GenFuncs_stack_*.v: the methods of stack.go; proofs/GenFuncs_opcode*.v: the handlers of operations.go).

    ORDER.  Go keeps the top of a stack at the END of the slice; model/Interp.v keeps it at the HEAD of the list.
    Every statement here is about a Go stack of the form [rev d], [d] being the model's stack: the printed stack
    functions are shown to map [rev d] to [rev d'] where [d'] is what the model computes from [d].

    SIZE.  stack.go computes sizes and indexes in [int32]; the statements carry the hypothesis that the stack has
    fewer than 2^31 items (the interpreter's own limit, MaxStackSize <= MaxInt32, is checked after every opcode). *)
From Coq Require Import List ZArith NArith Bool Lia ZifyN ZifyNat ZifyBool.
From Coq Require Import Strings.Byte.
From GoBT Require Import lib.Bytes lib.GoSem lib.GoInterp proofs.GenFuncsTac.
From GoBT Require model.ScriptNum model.Interp.
Import ListNotations.
Ltac Zify.zify_post_hook ::= Z.div_mod_to_equations.
Local Open Scope Z_scope.

Definition in31 (z : Z) : Prop := -2147483648 <= z < 2147483648.
Definition small (d : list bytes) : Prop := Interp.lenZ d < 2147483648 - 16.

Lemma go_len_rev {A} (d : list A) : go_len (rev d) = Interp.lenZ d.
Proof. unfold go_len, Interp.lenZ. rewrite rev_length. reflexivity. Qed.

Lemma lenZ_cons {A} (x : A) d : Interp.lenZ (x :: d) = 1 + Interp.lenZ d.
Proof. unfold Interp.lenZ. cbn [length]. lia. Qed.
Lemma lenZ_nil {A} : @Interp.lenZ A [] = 0.
Proof. reflexivity. Qed.
Lemma lenZ_nonneg {A} (d : list A) : 0 <= Interp.lenZ d.
Proof. unfold Interp.lenZ. lia. Qed.
Lemma lenZ_app {A} (a b : list A) : Interp.lenZ (a ++ b) = Interp.lenZ a + Interp.lenZ b.
Proof. unfold Interp.lenZ. rewrite app_length. lia. Qed.
Lemma lenZ_firstn {A} n (d : list A) : (n <= length d)%nat -> Interp.lenZ (firstn n d) = Z.of_nat n.
Proof. intros H. unfold Interp.lenZ. rewrite firstn_length. lia. Qed.
Lemma lenZ_skipn {A} n (d : list A) : Interp.lenZ (skipn n d) = Interp.lenZ d - Z.of_nat (Nat.min n (length d)).
Proof. unfold Interp.lenZ. rewrite skipn_length. lia. Qed.

(** the item [i] places below the top: Go's [s.stk[sz-i-1]] *)
Lemma go_index_rev_at (d : list bytes) (e i : Z) :
  0 <= i < Interp.lenZ d -> e = Interp.lenZ d - 1 - i ->
  go_index (rev d) e = Val (nth (Z.to_nat i) d []).
Proof.
  intros Hi ->. unfold Interp.lenZ in *.
  replace (Z.of_nat (length d) - 1 - i) with (Z.of_nat (length d - 1 - Z.to_nat i)) by lia.
  rewrite go_index_nth.
  assert (Hn : (length d - 1 - Z.to_nat i < length (rev d))%nat) by (rewrite rev_length; lia).
  rewrite (nth_error_nth' (rev d) [] Hn). rewrite rev_nth by lia.
  repeat f_equal. lia.
Qed.

(** Go's [s.stk[lo:hi]] on a stack, in the model's order: the items from [len-hi] to [len-lo] below the top *)
Lemma skipn_firstn_comm {A} (l : list A) : forall a b, skipn a (firstn b l) = firstn (b - a) (skipn a l).
Proof.
  induction l as [|x l IH]; intros [|a'] [|b']; cbn [skipn firstn Nat.sub]; try reflexivity.
  - destruct (b' - a')%nat; reflexivity.
  - apply IH.
Qed.

Lemma go_slice_rev (d : list bytes) (lo hi : Z) :
  0 <= lo -> lo <= hi -> hi <= Interp.lenZ d ->
  go_slice (rev d) lo hi = Val (rev (firstn (Z.to_nat (hi - lo)) (skipn (Z.to_nat (Interp.lenZ d - hi)) d))).
Proof.
  intros H0 H1 H2. unfold go_slice. rewrite go_len_rev.
  replace ((0 <=? lo) && (lo <=? hi) && (hi <=? Interp.lenZ d)) with true by lia.
  f_equal. unfold Interp.lenZ in *.
  rewrite skipn_rev, firstn_rev, firstn_length, skipn_firstn_comm. f_equal.
  replace (Nat.min (length d - Z.to_nat lo) (length d) - Z.to_nat (hi - lo))%nat with (Z.to_nat (Z.of_nat (length d) - hi)) by lia.
  f_equal. lia.
Qed.

Lemma go_slice_to_rev (d : list bytes) (hi : Z) :
  0 <= hi -> hi <= Interp.lenZ d ->
  go_slice_to (rev d) hi = Val (rev (skipn (Z.to_nat (Interp.lenZ d - hi)) d)).
Proof.
  intros H0 H1. unfold go_slice_to. rewrite go_slice_rev by lia.
  f_equal. f_equal. apply firstn_all2. rewrite skipn_length. unfold Interp.lenZ in *. lia.
Qed.

Lemma go_slice_from_rev (d : list bytes) (lo : Z) :
  0 <= lo -> lo <= Interp.lenZ d ->
  go_slice_from (rev d) lo = Val (rev (firstn (Z.to_nat (Interp.lenZ d - lo)) d)).
Proof.
  intros H0 H1. unfold go_slice_from. rewrite go_len_rev, go_slice_rev by lia.
  replace (Z.to_nat (Interp.lenZ d - Interp.lenZ d)) with 0%nat by lia. reflexivity.
Qed.

Lemma go_copy_all {A} (dst src : list A) : length dst = length src -> go_copy dst src = src.
Proof.
  intros H. unfold go_copy. rewrite H, Nat.min_id, firstn_all, skipn_all2 by lia. apply app_nil_r.
Qed.

Lemma go_wrap_I32_id z : in31 z -> go_wrap I32 z = z.
Proof. unfold in31, go_wrap. lia. Qed.

(** ** results of the printed stack functions, seen from the model *)
(** [M (stack * bool)] -> what the model's primitives return: the new stack in model order, [None] on error *)
Definition st_view (m : M (list bytes * bool)) : M (option (list bytes)) :=
  match m with
  | Val (g, false) => Val (Some (rev g))
  | Val (_, true) => Val None
  | Panic => Panic
  | NoFuel => NoFuel
  end.

(** a handler's result [M (data stack * bool)] as an outcome of model/Interp.v; [None] = out of fuel *)
Definition h_view (s : Interp.st) (m : M (list bytes * bool)) : option Interp.outcome :=
  match m with
  | Val (g, false) => Some (Interp.OOk (Interp.set_ds s (rev g)))
  | Val (_, true) => Some Interp.OErr
  | Panic => Some Interp.OPanic
  | NoFuel => None
  end.

(** ... with the alt stack as well: [M ((data stack * alt stack) * bool)] *)
Definition h_view2 (s : Interp.st) (m : M ((list bytes * list bytes) * bool)) : option Interp.outcome :=
  match m with
  | Val ((g, a), false) => Some (Interp.OOk (Interp.set_als (Interp.set_ds s (rev g)) (rev a)))
  | Val (_, true) => Some Interp.OErr
  | Panic => Some Interp.OPanic
  | NoFuel => None
  end.

(** ** evaluation of a handler body: the monadic plumbing, after the stack calls were rewritten by their specs *)
Ltac stk_beta := cbn [bind fst snd]; cbv beta iota zeta.

Ltac stk_len :=
  unfold small, in31, Interp.lenZ in *; cbn [length] in *; rewrite ?app_length, ?rev_length in *; cbn [length] in *; lia.

(** numbers: the model's [pop_num] and the primitive [sn_make] *)
Lemma sn_make_pop_num c b :
  sn_make b (Interp.max_numlen c) (Interp.has_flag c Interp.F_MINIMALDATA) (Interp.after_genesis c) =
  match Interp.pop_num c b with Some z => (z, false) | None => (0, true) end.
Proof. unfold sn_make, Interp.pop_num. destruct (ScriptNum.make_num _ _ _); reflexivity. Qed.

(** the configuration methods at the two eras *)
Lemma cfg_MaxScriptElementSize_model c : cfg_MaxScriptElementSize (Interp.after_genesis c) = Val (Interp.max_elem c).
Proof. unfold Interp.max_elem. destruct (Interp.after_genesis c); vm_compute; reflexivity. Qed.
Lemma cfg_MaxScriptNumberLength_model c : cfg_MaxScriptNumberLength (Interp.after_genesis c) = Val (Interp.max_numlen c).
Proof. unfold Interp.max_numlen. destruct (Interp.after_genesis c); vm_compute; reflexivity. Qed.

(** ** the stack methods in the model's order (what the specs of proofs/GenFuncs_stack_*.v say) *)
(** nipN: remove the item [i] places below the top *)
Definition nip_model (i : Z) (d : list bytes) : list bytes * (bytes * bool) :=
  if (i <? 0) || (Interp.lenZ d <=? i) then (d, ([], true))
  else (firstn (Z.to_nat i) d ++ skipn (S (Z.to_nat i)) d, (nth (Z.to_nat i) d [], false)).
(** PeekByteArray *)
Definition peek_model (i : Z) (d : list bytes) : bytes * bool :=
  if (i <? 0) || (Interp.lenZ d <=? i) then ([], true) else (nth (Z.to_nat i) d [], false).
(** PopByteArray *)
Definition pop_model (d : list bytes) : list bytes * (bytes * bool) :=
  match d with [] => ([], ([], true)) | x :: r => (r, (x, false)) end.
(** a stack function's state in Go order *)
Definition go_st {A} (r : list bytes * A) : list bytes * A := (rev (fst r), snd r).

Lemma nip_model_0 d : nip_model 0 d = pop_model d.
Proof. unfold nip_model, pop_model. destruct d as [|x r]; [reflexivity|]. rewrite lenZ_cons. pose proof (lenZ_nonneg r).
  replace ((0 <? 0) || (1 + Interp.lenZ r <=? 0)) with false by lia. reflexivity. Qed.

Lemma nip_model_roll i d : Interp.roll_n i d = match nip_model i d with (d', (x, false)) => Some (x :: d') | _ => None end.
Proof.
  unfold Interp.roll_n, nip_model. destruct ((i <? 0) || (Interp.lenZ d <=? i)) eqn:E; [reflexivity|].
  assert (Hn : (Z.to_nat i < length d)%nat) by (unfold Interp.lenZ in E; lia).
  rewrite (nth_error_nth' d [] Hn). reflexivity.
Qed.

Lemma peek_model_pick i d : Interp.pick_n i d = match peek_model i d with (x, false) => Some (x :: d) | _ => None end.
Proof.
  unfold Interp.pick_n, peek_model. destruct ((i <? 0) || (Interp.lenZ d <=? i)) eqn:E; [reflexivity|].
  assert (Hn : (Z.to_nat i < length d)%nat) by (unfold Interp.lenZ in E; lia).
  rewrite (nth_error_nth' d [] Hn). reflexivity.
Qed.

Lemma go_wrap_I64_in z : -9223372036854775808 <= z < 9223372036854775808 -> go_wrap I64 z = z.
Proof. unfold go_wrap. lia. Qed.

(** remove the int32 / int wrap-arounds whose argument is in range (innermost first) *)
Ltac wrap32 :=
  unfold go_conv, go_sub, go_add, go_mul;
  repeat match goal with
  | |- context [go_wrap I32 ?z] => rewrite (go_wrap_I32_id z) by (unfold in31; lia)
  | |- context [go_wrap I64 ?z] => rewrite (go_wrap_I64_in z) by lia
  end.

Ltac stk_beta ::= unfold go_st; cbn [bind fst snd pop_model]; cbv beta iota zeta.

(** ** symbolic evaluation of straight-line code and of loops with a literal number of iterations
    The stack calls are rewritten by their specs (rewrite database [stk], filled by proofs/GenFuncs_stack_*.v),
    the model-order results ([pop_model] ...) are computed on stacks whose top items are explicit, closed integer
    arithmetic is folded, loops with literal fuel are unrolled.  Nothing here looks at the shape of a printed body. *)
Ltac zlit e := lazymatch e with Z0 => idtac | Zpos ?p => plit p | Zneg ?p => plit p end
with plit p := lazymatch p with xH => idtac | xO ?q => plit q | xI ?q => plit q end.

Ltac zfold :=
  repeat match goal with
  | |- context [Z.sub ?a ?b] => zlit a; zlit b; let v := eval vm_compute in (Z.sub a b) in change (Z.sub a b) with v
  | |- context [Z.add ?a ?b] => zlit a; zlit b; let v := eval vm_compute in (Z.add a b) in change (Z.add a b) with v
  | |- context [Z.mul ?a ?b] => zlit a; zlit b; let v := eval vm_compute in (Z.mul a b) in change (Z.mul a b) with v
  | |- context [Z.to_nat ?a] => zlit a; let v := eval vm_compute in (Z.to_nat a) in change (Z.to_nat a) with v
  | |- context [Z.ltb ?a ?b] => zlit a; zlit b; let v := eval vm_compute in (Z.ltb a b) in change (Z.ltb a b) with v
  | |- context [Z.leb ?a ?b] => zlit a; zlit b; let v := eval vm_compute in (Z.leb a b) in change (Z.leb a b) with v
  | |- context [Z.eqb ?a ?b] => zlit a; zlit b; let v := eval vm_compute in (Z.eqb a b) in change (Z.eqb a b) with v
  end.

Ltac stk_model :=
  unfold peek_model, nip_model, pop_model;
  rewrite ?lenZ_cons, ?lenZ_nil;
  repeat match goal with
  | |- context [if ?c then _ else _] =>
      lazymatch c with context [Interp.lenZ _] => idtac end;
      first [ replace c with true by (symmetry; pose_lens; lia) | replace c with false by (symmetry; pose_lens; lia) ]; cbv iota
  end;
  cbn [nth firstn skipn app negb orb andb]
with pose_lens :=
  repeat match goal with
  | |- context [Interp.lenZ ?l] => lazymatch goal with _ : 0 <= Interp.lenZ l |- _ => fail | _ => pose proof (lenZ_nonneg l) end
  end.

Ltac stk_small :=
  unfold small, in31 in *; rewrite ?lenZ_cons, ?lenZ_nil in *; pose_lens; lia.

Ltac stk_run :=
  repeat (progress (wrap32; zfold; cbv zeta; autorewrite with stk; stk_beta; cbn [go_for negb]; stk_model)).

(** ** handlers *)
Lemma bind_pair_eta {A B} (m : M (A * B)) : bind m (fun '(a, b) => Val (a, b)) = m.
Proof. destruct m as [[a b]| |]; reflexivity. Qed.

Lemma h_view_st_view s m :
  h_view s m = match st_view m with
               | Val (Some d') => Some (Interp.OOk (Interp.set_ds s d'))
               | Val None => Some Interp.OErr
               | Panic => Some Interp.OPanic
               | NoFuel => None
               end.
Proof. destruct m as [[g [|]]| |]; reflexivity. Qed.

Lemma to_int32_in31 z : in31 (sn_int32 z).
Proof. unfold in31, sn_int32, ScriptNum.to_int32, ScriptNum.to_int64, ScriptNum.clamp, ScriptNum.min_i32, ScriptNum.max_i32, ScriptNum.min_i64, ScriptNum.max_i64.
  repeat match goal with |- context [if ?c then _ else _] => destruct c eqn:? end; lia. Qed.

(** every item shorter than 2^63 bytes (Go: any slice is): what proofs/GenFuncs_asBool.v needs *)
Definition items_ok (d : list bytes) : Prop := Forall (fun x => (lenN x < 9223372036854775808)%N) d.

Ltac h_items :=
  repeat match goal with
  | H : items_ok (_ :: _) |- _ => unfold items_ok in H
  | H : Forall _ (_ :: _) |- _ => let H1 := fresh "Hit" in let H2 := fresh "Hits" in pose proof (Forall_inv H) as H1; pose proof (Forall_inv_tail H) as H2; clear H; cbv beta in H1
  end.

(** the model's side: open the helper the branch is written with *)
Ltac h_model :=
  unfold Interp.binary_num, Interp.unary_num, Interp.verify_top, Interp.push_num, Interp.push_bool, Interp.push,
         Interp.set_ds, Interp.set_als;
  cbn [Interp.ds Interp.als Interp.cond Interp.els Interp.nops Interp.last_sep Interp.early Interp.cur].

(** numbers popped by the handler: the same case analysis on both sides *)
Ltac h_nums :=
  repeat (rewrite ?sn_make_pop_num;
          match goal with
          | |- context [Interp.pop_num ?c ?x] => let E := fresh "En" in destruct (Interp.pop_num c x) eqn:E
          end; stk_run).

Ltac h_done :=
  cbn [h_view h_view2]; h_model; rewrite ?rev_involutive;
  first
  [ reflexivity
  | unfold Interp.b2z, sn_of_int64, sn_set, sn_add, sn_sub, sn_mul, sn_incr, sn_decr, sn_neg, sn_abs, sn_bytes in *;
    repeat match goal with |- context [if ?c then _ else _] => let E := fresh "E" in destruct c eqn:E end;
    first [ reflexivity | exfalso; lia
          | repeat (lazymatch goal with |- @eq Z _ _ => fail | |- @eq bool _ _ => fail | _ => progress f_equal end); lia ] ].

(** closed applications of [as_bool] (the boolean a handler has just pushed) *)
Ltac h_cl :=
  repeat match goal with
  | |- context [ScriptNum.as_bool ?e] =>
      let v := eval vm_compute in (ScriptNum.as_bool e) in
      lazymatch v with true => idtac | false => idtac end; change (ScriptNum.as_bool e) with v
  end; cbn [negb].
