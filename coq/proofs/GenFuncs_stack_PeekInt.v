(** stack.PeekInt (bscript/interpreter/stack.go), as printed from the Go source: PeekByteArray followed by makeScriptNumber.
    The Go stack is [rev d], [d] being the stack of model/Interp.v (top first). *)
From Coq Require Import List ZArith NArith Bool Lia ZifyN ZifyNat ZifyBool.
From Coq Require Import Strings.Byte.
From GoBT Require Import lib.Bytes lib.GoSem lib.GoInterp gen.Funcs proofs.GenFuncsTac proofs.GenFuncsInterpTac proofs.GenFuncs_stack_PeekByteArray.
From GoBT Require model.Interp model.ScriptNum.
Import ListNotations.
Ltac Zify.zify_post_hook ::= Z.div_mod_to_equations.
Local Open Scope Z_scope.

Lemma stack_PeekInt_spec (i mx : Z) (mn ag : bool) (d : list bytes) : Interp.lenZ d < 2147483648 -> in31 i ->
  stack_PeekInt i mx mn ag (rev d) =
  Val (match peek_model i d with (x, false) => sn_make x mx mn ag | (_, true) => (sn_nil, true) end).
Proof.
  intros Hd Hi. unfold stack_PeekInt. rewrite stack_PeekByteArray_spec by assumption.
  destruct (peek_model i d) as [x [|]]; reflexivity.
Qed.

#[global] Hint Rewrite stack_PeekInt_spec using stk_small : stk.
