(** Tx.OutputsHash (signaturehash.go), as printed from the Go source, is [outputs_hash] of model/SigHash.v, for every
    n: all outputs for n = -1, the n-th output otherwise, and Go's index panic ([tx.Outputs[n]] with n < -1 or
    n >= len) where the model says [None].  TRUSTED mapping used (lib/GoTx.v): crypto.Sha256d -> [sha256d];
    Output.BytesForSigHash is the printed function. *)
From Coq Require Import List ZArith NArith Bool Lia ZifyN ZifyNat ZifyBool.
From Coq Require Import Strings.Byte.
From GoBT Require Import lib.Bytes lib.VarInt lib.GoSem lib.GoTx gen.Funcs proofs.GenFuncsTac proofs.GenFuncsTxTac model.Tx model.SigHash.
From GoBT Require Import proofs.GenFuncs_Output_BytesForSigHash.
Import ListNotations.
Ltac Zify.zify_post_hook ::= Z.div_mod_to_equations.
Local Open Scope Z_scope.

Ltac tx_extra ::=
  match goal with
  | |- context [Output_BytesForSigHash ?a (Some ?s)] => rewrite (Output_BytesForSigHash_is_model a s) by tx_arith
  end.

Definition sh_step (h : bytes) (g : go_Output) : bytes := h ++ bytes_for_sighash (output_of_go g).

(** the pair (hash, panic) as an outcome *)
Definition hash_result (o : option bytes) : M bytes := match o with Some h => Val h | None => Panic end.

Lemma nthN_nth_error {A} (l : list A) (k : nat) : nthN l (N.of_nat k) = nth_error l k.
Proof.
  revert k. induction l as [|x r IH]; intros k; [destruct k; reflexivity|].
  destruct k as [|k]; [reflexivity|]. cbn [nthN nth_error].
  replace (N.of_nat (S k) =? 0)%N with false by lia. replace (N.of_nat (S k) - 1)%N with (N.of_nat k) by lia. apply IH.
Qed.

Lemma Tx_OutputsHash_is_model (n : Z) ins outs ver lock : Forall go_output_ok outs -> len_ok outs ->
  Tx_OutputsHash n (map Some outs) = hash_result (outputs_hash (tx_of_go ins outs ver lock) n).
Proof.
  intros Houts Hl. unfold Tx_OutputsHash, outputs_hash. tx_norm. cbn [tx_of_go tx_outs].
  destruct (Z.eqb_spec n (-1)) as [E|E].
  - tx_loop outs sh_step go_output_ok Houts;
      [ tx_norm; cbn [hash_result]; apply Val_inj; unfold sh_step;
        rewrite (fold_left_app_concat (fun g => bytes_for_sighash (output_of_go g))); cbn [app]; rewrite map_map; reflexivity
      | intros i [sats [s|]] h (Hs & Hn & Hlen); try intros Hidx;
        cbn [Output_Satoshis Output_LockingScript script_of] in *; [|congruence]; tx_norm; reflexivity ].
  - destruct (Z.ltb_spec n 0) as [Hneg|Hpos].
    + unfold go_index. replace (0 <=? n) with false by lia. reflexivity.
    + remember (Z.to_nat n) as k eqn:Ek. assert (Enk : n = Z.of_nat k) by lia. clear Ek. subst n.
      replace (Z.to_N (Z.of_nat k)) with (N.of_nat k) by lia.
      rewrite !go_index_nth, nthN_nth_error, !nth_error_map.
      destruct (nth_error outs k) as [g|] eqn:En; cbn [option_map bind hash_result]; [|reflexivity].
      assert (Hg : go_output_ok g) by (rewrite Forall_forall in Houts; apply Houts; eapply nth_error_In; exact En).
      destruct g as [sats [s|]]; destruct Hg as (Hs & Hn & Hlen);
        cbn [Output_Satoshis Output_LockingScript script_of] in *; [|congruence].
      tx_norm. reflexivity.
Qed.
