(** stack.RollN (bscript/interpreter/stack.go), as printed from the Go source: moves the item [n] places below the top to the top: [Interp.roll_n].
    The Go stack is [rev d], [d] being the stack of model/Interp.v (top first). *)
From Coq Require Import List ZArith NArith Bool Lia ZifyN ZifyNat ZifyBool.
From Coq Require Import Strings.Byte.
From GoBT Require Import lib.Bytes lib.GoSem lib.GoInterp gen.Funcs proofs.GenFuncsTac proofs.GenFuncsInterpTac proofs.GenFuncs_stack_nipN proofs.GenFuncs_stack_PushByteArray.
From GoBT Require model.Interp model.ScriptNum.
Import ListNotations.
Ltac Zify.zify_post_hook ::= Z.div_mod_to_equations.
Local Open Scope Z_scope.

Lemma stack_RollN_spec (n : Z) (d : list bytes) : Interp.lenZ d < 2147483648 -> in31 n ->
  st_view (stack_RollN n (rev d)) = Val (Interp.roll_n n d).
Proof.
  intros Hd Hn. unfold stack_RollN. rewrite stack_nipN_spec by assumption. rewrite nip_model_roll.
  destruct (nip_model n d) as [d' [x [|]]]; stk_beta; [reflexivity|].
  rewrite stack_PushByteArray_spec. stk_beta. cbn [st_view]. rewrite rev_involutive. reflexivity.
Qed.
