(** Proofs about model/QuoteHeap.v: the quotes the library hands out never share a Fee object unless the caller itself
    registers the object of one quote in another one; hence what a quote says (and every fee computed from it) depends on
    the operations applied to THAT quote only, and a new quote says the defaults whatever happened before. *)
From Coq Require Import List NArith Bool Arith Lia.
From GoBT Require Import gen.Consts spec.FeeSpec model.Fees model.QuoteHeap.
Import ListNotations.

(** ** lists *)
Lemma set_nth_length {A} n (x : A) l : length (set_nth n x l) = length l.
Proof. revert n; induction l as [|h t IH]; intros [|n]; simpl; auto. Qed.

Lemma nth_set_nth_neq {A} n m (x d : A) l : n <> m -> nth m (set_nth n x l) d = nth m l d.
Proof.
  revert n m; induction l as [|h t IH]; intros [|n] [|m] Hne; simpl; auto; try congruence.
Qed.

Lemma nth_set_nth_eq {A} n (x d : A) l : nth n (set_nth n x l) d = x \/ nth n (set_nth n x l) d = d.
Proof. revert n; induction l as [|h t IH]; intros [|n]; simpl; auto. Qed.

Lemma nth_error_set_nth_neq {A} n m (x : A) l : n <> m -> nth_error (set_nth n x l) m = nth_error l m.
Proof.
  revert n m; induction l as [|h t IH]; intros [|n] [|m] Hne; simpl; auto; try congruence.
Qed.

Lemma nth_error_two_0 {A} (h : list A) a b : nth_error (h ++ [a; b]) (length h) = Some a.
Proof. induction h; simpl; auto. Qed.
Lemma nth_error_two_1 {A} (h : list A) a b : nth_error (h ++ [a; b]) (S (length h)) = Some b.
Proof. induction h; simpl; auto. Qed.

(** ** the addresses a quote object holds *)
Definition opt_list (a : option nat) : list nat := match a with Some n => [n] | None => [] end.
Definition addrs (o : qobj) : list nat := opt_list (qo_std o) ++ opt_list (qo_data o).

Lemma addrs_no_quote a : ~ In a (addrs no_quote).
Proof. intros []. Qed.

Lemma slot_in_addrs o std a : slot o std = Some a -> In a (addrs o).
Proof.
  destruct o as [s d], std; unfold addrs; simpl; intros ->; simpl; auto.
  apply in_or_app; right; simpl; auto.
Qed.

Lemma addrs_set_slot o std x a : In a (addrs (set_slot o std x)) -> In a (addrs o) \/ x = Some a.
Proof.
  destruct o as [s d], std; unfold addrs, set_slot; cbn [qo_std qo_data]; intros H;
    apply in_app_or in H; destruct H as [H|H].
  - destruct x as [n|]; simpl in H; [destruct H as [H|[]]; subst; right; reflexivity|contradiction].
  - left; apply in_or_app; right; exact H.
  - left; apply in_or_app; left; exact H.
  - destruct x as [n|]; simpl in H; [destruct H as [H|[]]; subst; right; reflexivity|contradiction].
Qed.

(** ** the invariant: addresses are allocated, and two different quotes of the pool share none *)
Definition inv (st : qstate) : Prop :=
  (forall i a, In a (addrs (get_q st i)) -> a < length (qs_heap st)) /\
  (forall i j a, i <> j -> In a (addrs (get_q st i)) -> In a (addrs (get_q st j)) -> False).

Lemma inv_empty : inv empty_state.
Proof.
  split; unfold get_q; simpl.
  - intros [|i] a H; destruct H.
  - intros [|i] j a _ H; destruct H.
Qed.

(** replacing quote [q] by an object that holds addresses [q] already held, or freshly allocated ones *)
Lemma inv_update st q o' h' :
  inv st -> length (qs_heap st) <= length h' ->
  (forall a, In a (addrs o') -> In a (addrs (get_q st q)) \/ (length (qs_heap st) <= a < length h')) ->
  inv (mkQState h' (put_q st q o')).
Proof.
  intros [Hb Hs] Hlen Ho'.
  assert (Hget : forall i a, In a (addrs (get_q (mkQState h' (put_q st q o')) i)) ->
                   (i <> q /\ In a (addrs (get_q st i))) \/ (i = q /\ In a (addrs o'))).
  { intros i a H. unfold get_q, put_q in *; simpl in *.
    destruct (Nat.eq_dec i q) as [->|Hne].
    - right; split; auto.
      destruct (nth_set_nth_eq q o' no_quote (qs_quotes st)) as [E|E]; rewrite E in H; auto.
      exfalso; exact (addrs_no_quote a H).
    - left; split; auto. rewrite nth_set_nth_neq in H by congruence. exact H. }
  split.
  - intros i a H; simpl. destruct (Hget i a H) as [[_ H1]|[_ H1]].
    + specialize (Hb i a H1); lia.
    + destruct (Ho' a H1) as [H2|H2]; [specialize (Hb q a H2)|]; lia.
  - intros i j a Hij Hi Hj.
    destruct (Hget i a Hi) as [[Hiq Hi1]|[Hiq Hi1]]; destruct (Hget j a Hj) as [[Hjq Hj1]|[Hjq Hj1]].
    + exact (Hs i j a Hij Hi1 Hj1).
    + subst j. destruct (Ho' a Hj1) as [H2|H2]; [exact (Hs i q a Hij Hi1 H2)|specialize (Hb i a Hi1); lia].
    + subst i. destruct (Ho' a Hi1) as [H2|H2]; [exact (Hs q j a Hij H2 Hj1)|specialize (Hb j a Hj1); lia].
    + congruence.
Qed.

(** the one way quotes come to share an object: the caller registers one quote's Fee in ANOTHER quote *)
Definition local (o : hop) : Prop := match o with HShare q _ q2 _ => q = q2 | _ => True end.

(** the quote an operation is applied to *)
Definition target (o : hop) : option nat :=
  match o with
  | HNew | HFees _ => None
  | HAdd q _ _ | HShare q _ _ _ | HEditMining q _ _ | HEditRelay q _ _ => Some q
  end.

Lemma get_q_app_old st h' x i : i < length (qs_quotes st) ->
  get_q (mkQState h' (qs_quotes st ++ x)) i = get_q st i.
Proof. intros H; unfold get_q; simpl. apply app_nth1; exact H. Qed.

Lemma step_inv st o : inv st -> local o -> inv (step st o).
Proof.
  intros Hinv Hloc. pose proof Hinv as [Hb Hs].
  destruct o as [|q std [[m r]|]|q std q2 std2|q std r|q std r|q]; simpl in *.
  - (* HNew *)
    set (n := length (qs_heap st)).
    assert (Hget : forall i a, In a (addrs (get_q (mkQState (qs_heap st ++ [default_std_fee; default_data_fee])
                                   (qs_quotes st ++ [mkQObj (Some n) (Some (S n))])) i)) ->
                     (i < length (qs_quotes st) /\ In a (addrs (get_q st i))) \/
                     (i = length (qs_quotes st) /\ (a = n \/ a = S n))).
    { intros i a H. destruct (lt_dec i (length (qs_quotes st))) as [Hlt|Hge].
      - left; split; auto. rewrite get_q_app_old in H by exact Hlt. exact H.
      - right. unfold get_q in H; simpl in H. rewrite app_nth2 in H by lia.
        destruct (i - length (qs_quotes st)) as [|[|k]] eqn:E; simpl in H.
        + split; [lia|]. destruct H as [H|[H|[]]]; auto.
        + destruct H.
        + destruct H. }
    split.
    + intros i a H; simpl; rewrite app_length; simpl.
      destruct (Hget i a H) as [[_ H1]|[_ H1]]; [specialize (Hb i a H1)|]; subst n; lia.
    + intros i j a Hij Hi Hj.
      destruct (Hget i a Hi) as [[Hil Hi1]|[Hil Hi1]]; destruct (Hget j a Hj) as [[Hjl Hj1]|[Hjl Hj1]].
      * exact (Hs i j a Hij Hi1 Hj1).
      * specialize (Hb i a Hi1); subst n; lia.
      * specialize (Hb j a Hj1); subst n; lia.
      * lia.
  - (* HAdd, a new Fee object *)
    apply inv_update; auto.
    + rewrite app_length; simpl; lia.
    + intros a H. apply addrs_set_slot in H. destruct H as [H|H]; auto.
      right. inversion H; subst. rewrite app_length; simpl; lia.
  - (* HAdd nil *)
    apply inv_update; auto.
    intros a H. apply addrs_set_slot in H. destruct H as [H|H]; auto. discriminate.
  - (* HShare inside one quote *)
    subst q2. destruct (slot (get_q st q) std2) as [a0|] eqn:E; auto.
    apply inv_update; auto.
    intros a H. apply addrs_set_slot in H. destruct H as [H|H]; auto.
    inversion H; subst. left. eapply slot_in_addrs; eauto.
  - (* HEditMining *)
    destruct (slot (get_q st q) std) as [a0|]; auto.
    split; simpl; [intros i a H; rewrite set_nth_length; exact (Hb i a H)|exact Hs].
  - (* HEditRelay *)
    destruct (slot (get_q st q) std) as [a0|]; auto.
    split; simpl; [intros i a H; rewrite set_nth_length; exact (Hb i a H)|exact Hs].
  - exact Hinv.
Qed.

Lemma step_pool_grows st o : length (qs_quotes st) <= length (qs_quotes (step st o)).
Proof.
  destruct o as [|q std [[m r]|]|q std q2 std2|q std r|q std r|q]; simpl; unfold put_q;
    rewrite ?set_nth_length, ?app_length; simpl; try lia.
  - destruct (slot (get_q st q2) std2); simpl; unfold put_q; rewrite ?set_nth_length; lia.
  - destruct (slot (get_q st q) std); simpl; lia.
  - destruct (slot (get_q st q) std); simpl; lia.
Qed.

(** what a quote says is read from its own slots and the objects they point to *)
Lemma view_frame st st' b :
  get_q st' b = get_q st b ->
  (forall a, In a (addrs (get_q st b)) -> nth_error (qs_heap st') a = nth_error (qs_heap st) a) ->
  view st' b = view st b.
Proof.
  intros Hq Hh. unfold view. rewrite Hq.
  destruct (get_q st b) as [s d]; unfold addrs in Hh; simpl in *.
  f_equal.
  - destruct s as [n|]; simpl; auto. rewrite Hh; auto. simpl; auto.
  - destruct d as [n|]; simpl; auto. rewrite Hh; auto. apply in_or_app; right; simpl; auto.
Qed.

Lemma get_q_put_other st h' q o' b : q <> b -> get_q (mkQState h' (put_q st q o')) b = get_q st b.
Proof. intros H; unfold get_q, put_q; simpl. apply nth_set_nth_neq; exact H. Qed.

(** one operation that is not applied to quote [b] leaves what [b] says as it was *)
Lemma step_view_other st o b :
  inv st -> b < length (qs_quotes st) -> target o <> Some b -> view (step st o) b = view st b.
Proof.
  intros [Hb Hs] Hlt Ht.
  assert (Happ : forall x a, In a (addrs (get_q st b)) -> nth_error (qs_heap st ++ x) a = nth_error (qs_heap st) a).
  { intros x a H. apply nth_error_app1. exact (Hb b a H). }
  destruct o as [|q std [[m r]|]|q std q2 std2|q std r|q std r|q]; simpl in *; auto.
  - apply view_frame; [apply get_q_app_old; exact Hlt|apply Happ].
  - apply view_frame; [apply get_q_put_other; congruence|apply Happ].
  - apply view_frame; [apply get_q_put_other; congruence|auto].
  - destruct (slot (get_q st q2) std2); auto.
    apply view_frame; [apply get_q_put_other; congruence|auto].
  - destruct (slot (get_q st q) std) as [a0|] eqn:E; auto.
    apply view_frame; [reflexivity|]. intros a H; simpl.
    apply nth_error_set_nth_neq. intros ->.
    apply (Hs q b a); [congruence|eapply slot_in_addrs; eauto|exact H].
  - destruct (slot (get_q st q) std) as [a0|] eqn:E; auto.
    apply view_frame; [reflexivity|]. intros a H; simpl.
    apply nth_error_set_nth_neq. intros ->.
    apply (Hs q b a); [congruence|eapply slot_in_addrs; eauto|exact H].
Qed.

(** ** the statements *)

(** whatever is done to the OTHER quotes of the pool, what quote [b] says does not change *)
Theorem quote_independent : forall ops st b,
  inv st -> b < length (qs_quotes st) ->
  Forall local ops -> Forall (fun o => target o <> Some b) ops ->
  view (run st ops) b = view st b.
Proof.
  induction ops as [|o r IH]; intros st b Hinv Hlt Hloc Hoth; simpl; auto.
  inversion Hloc; subst. inversion Hoth; subst.
  unfold run in *. rewrite IH; auto.
  - apply step_view_other; auto.
  - apply step_inv; auto.
  - pose proof (step_pool_grows st o); lia.
Qed.

Lemma run_inv : forall ops st, inv st -> Forall local ops -> inv (run st ops).
Proof.
  induction ops as [|o r IH]; intros st Hinv Hloc; simpl; auto.
  inversion Hloc; subst. apply IH; auto. apply step_inv; auto.
Qed.

Lemma run_app st a b : run st (a ++ b) = run (run st a) b.
Proof. unfold run; apply fold_left_app. Qed.

(** from the start: after any history [before] in which the caller never registered one quote's Fee object in another
    quote, any further such history [after] that is not applied to quote [b] leaves every fee computed from [b] as it was *)
Theorem history_independent : forall before after b,
  Forall local (before ++ after) ->
  b < length (qs_quotes (run empty_state before)) ->
  Forall (fun o => target o <> Some b) after ->
  view (run empty_state (before ++ after)) b = view (run empty_state before) b.
Proof.
  intros before after b Hloc Hlt Hoth.
  apply Forall_app in Hloc as [Hl1 Hl2].
  rewrite run_app. apply quote_independent; auto.
  apply run_inv; auto. apply inv_empty.
Qed.

(** a new quote says the defaults, whatever the state of the heap and of the other quotes *)
Theorem new_quote_is_default : forall st,
  view (step st HNew) (length (qs_quotes st)) = default_quote.
Proof.
  intros st. unfold view, get_q, step; cbn [qs_quotes qs_heap].
  rewrite app_nth2 by lia. rewrite Nat.sub_diag. cbn [nth qo_std qo_data deref].
  rewrite nth_error_two_0, nth_error_two_1. reflexivity.
Qed.

(** ... and keeps saying them while it is not itself operated on: with [history_independent], quotes built by
    NewFeeQuote() before and after another default-built quote was edited in place still quote the defaults *)
Theorem default_quote_stays_default : forall before after,
  Forall local (before ++ HNew :: after) ->
  let b := length (qs_quotes (run empty_state before)) in
  Forall (fun o => target o <> Some b) after ->
  view (run empty_state (before ++ HNew :: after)) b = default_quote.
Proof.
  intros before after Hloc b Hoth.
  replace (before ++ HNew :: after) with ((before ++ [HNew]) ++ after) in * by (rewrite <- app_assoc; reflexivity).
  rewrite history_independent; auto.
  - rewrite run_app. simpl. apply new_quote_is_default.
  - rewrite run_app; simpl. rewrite app_length; simpl. fold b. lia.
Qed.

(** non-vacuity: the shape of the sequence (build A and B, edit A's standard and data mining fee in place, build C);
    B and C say the defaults, A says what it was given *)
Definition ex_history : list hop :=
  [HNew; HNew; HEditMining 0 true (mkRate 50 100); HEditMining 0 false (mkRate 25 100); HNew].
Example ex_history_views :
  let st := run empty_state ex_history in
  view st 0 = mkQuote (Some (mkRate 50 100)) (Some (mkRate 25 100)) /\
  view st 1 = default_quote /\ view st 2 = default_quote /\ Forall local ex_history.
Proof. repeat split; repeat constructor. Qed.

(** the hypothesis [local] is needed and the model does follow pointers: once the caller has registered A's standard Fee
    object in B, an edit through A is an edit of B *)
Example ex_caller_made_sharing :
  view (run empty_state [HNew; HNew; HShare 1 true 0 true; HEditMining 0 true (mkRate 50 100)]) 1
  = mkQuote (Some (mkRate 50 100)) (Some (mkRate default_data_fee_sat default_data_fee_bytes)).
Proof. reflexivity. Qed.
