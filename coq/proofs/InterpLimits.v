(** Limits invariant of the script interpreter model (model/Interp.v):
    every element of the data stack and of the alt stack is at most [max_elem c] bytes long after every
    opcode, and every state the debugger sees (every AfterStep snapshot) has at most [max_stack c] items on
    the two stacks together.  Both eras: [max_elem c] = 520 before Genesis, 2^31-1 after. *)
From Coq Require Import List NArith ZArith Lia Bool.
From Coq Require Import Strings.Byte.
From GoBT Require Import lib.Bytes lib.Sha256 lib.Sha1 lib.Ripemd160 model.ScriptNum model.Interp
  proofs.ScriptNumProofs proofs.ShiftProofs proofs.InterpTotal proofs.InterpFrame.
Import ListNotations.
Local Open Scope Z_scope.

(** ** The invariant *)
Definition all_le (n : Z) (l : list bytes) : Prop := Forall (fun b => lenZ b <= n) l.
Definition sized (c : ctx) (s : st) : Prop := all_le (max_elem c) (ds s) /\ all_le (max_elem c) (als s).
Definition depth (s : st) : Z := lenZ (ds s) + lenZ (als s).

(** ** The era constants, as far as the proofs need them (never unfolded afterwards) *)
Lemma limits c :
  4 <= max_numlen c /\ 2 * max_numlen c <= max_elem c /\ 32 <= max_elem c /\
  max_elem c <= 2147483647 /\ max_stack c <= 2147483647.
Proof.
  unfold max_numlen, max_elem, max_stack, max_int32. destruct (after_genesis c); lia.
Qed.

(** ** Lists *)
Lemma all_le_cons_iff n x l : all_le n (x :: l) <-> lenZ x <= n /\ all_le n l.
Proof. unfold all_le. split; [intros H; inversion H; auto|intros [H1 H2]; constructor; assumption]. Qed.
Lemma all_le_nil n : all_le n [].
Proof. constructor. Qed.
Lemma all_le_cons n x l : lenZ x <= n -> all_le n l -> all_le n (x :: l).
Proof. intros. constructor; assumption. Qed.
Lemma all_le_app n a b : all_le n a -> all_le n b -> all_le n (a ++ b).
Proof. intros. apply Forall_app. split; assumption. Qed.
Lemma all_le_app_inv n a b : all_le n (a ++ b) -> all_le n a /\ all_le n b.
Proof. apply Forall_app. Qed.
Lemma all_le_firstn n k l : all_le n l -> all_le n (firstn k l).
Proof.
  intros H. rewrite <- (firstn_skipn k l) in H. apply all_le_app_inv in H. tauto.
Qed.
Lemma all_le_skipn n k l : all_le n l -> all_le n (skipn k l).
Proof.
  intros H. rewrite <- (firstn_skipn k l) in H. apply all_le_app_inv in H. tauto.
Qed.
Lemma all_le_nth n l i x : all_le n l -> nth_error l i = Some x -> lenZ x <= n.
Proof. intros H E. apply nth_error_In in E. unfold all_le in H. rewrite Forall_forall in H. apply H, E. Qed.
Lemma all_le_rev n l : all_le n l -> all_le n (rev l).
Proof. apply Forall_rev. Qed.

Lemma dup_n_le n k d d' : all_le n d -> dup_n k d = Some d' -> all_le n d'.
Proof.
  unfold dup_n. intros H. destruct (Nat.ltb _ _); [discriminate|]. intros [= <-].
  apply all_le_app; [apply all_le_firstn|]; exact H.
Qed.
Lemma rot_n_le n k d d' : all_le n d -> rot_n k d = Some d' -> all_le n d'.
Proof.
  unfold rot_n. intros H. destruct (Nat.ltb _ _); [discriminate|]. intros [= <-].
  repeat apply all_le_app; auto using all_le_firstn, all_le_skipn.
Qed.
Lemma swap_n_le n k d d' : all_le n d -> swap_n k d = Some d' -> all_le n d'.
Proof.
  unfold swap_n. intros H. destruct (Nat.ltb _ _); [discriminate|]. intros [= <-].
  repeat apply all_le_app; auto using all_le_firstn, all_le_skipn.
Qed.
Lemma over_n_le n k d d' : all_le n d -> over_n k d = Some d' -> all_le n d'.
Proof.
  unfold over_n. intros H. destruct (Nat.ltb _ _); [discriminate|]. intros [= <-].
  repeat apply all_le_app; auto using all_le_firstn, all_le_skipn.
Qed.
Lemma pick_n_le n i d d' : all_le n d -> pick_n i d = Some d' -> all_le n d'.
Proof.
  unfold pick_n. intros H. destruct (_ || _); [discriminate|].
  destruct (nth_error d (Z.to_nat i)) as [x|] eqn:E; [|discriminate]. intros [= <-].
  apply all_le_cons; [eapply all_le_nth; eauto|exact H].
Qed.
Lemma roll_n_le n i d d' : all_le n d -> roll_n i d = Some d' -> all_le n d'.
Proof.
  unfold roll_n. intros H. destruct (_ || _); [discriminate|].
  destruct (nth_error d (Z.to_nat i)) as [x|] eqn:E; [|discriminate]. intros Heq. apply Some_eq in Heq. subst d'.
  apply all_le_cons; [eapply all_le_nth; eauto|].
  apply all_le_app; auto using all_le_firstn, all_le_skipn.
Qed.

(** ** Lengths of the data an opcode can create *)
Lemma lenZ_app {A} (a b : list A) : lenZ (a ++ b) = lenZ a + lenZ b.
Proof. unfold lenZ. rewrite app_length. lia. Qed.
Lemma lenZ_firstn_le {A} k (l : list A) : lenZ (firstn k l) <= lenZ l.
Proof. unfold lenZ. rewrite firstn_length. lia. Qed.
Lemma lenZ_skipn_le {A} k (l : list A) : lenZ (skipn k l) <= lenZ l.
Proof. unfold lenZ. rewrite skipn_length. lia. Qed.
Lemma lenZ_from_bool b : lenZ (from_bool b) <= 1.
Proof. destruct b; cbn; lia. Qed.
Lemma lenZ_invert (a : bytes) : lenZ (map (fun x => n2b (N.lxor (b2n x) 255)) a) = lenZ a.
Proof. unfold lenZ. rewrite map_length. reflexivity. Qed.
Lemma lenZ_map2 f a b : length a = length b -> lenZ (bytes_map2 f a b) = lenZ a.
Proof. intros H. unfold lenZ. rewrite bytes_map2_length by exact H. reflexivity. Qed.
Lemma lenZ_shl x k : lenZ (shl_bytes x k) = lenZ x.
Proof. unfold lenZ. rewrite shl_bytes_length. reflexivity. Qed.
Lemma lenZ_shr x k : lenZ (shr_bytes x k) = lenZ x.
Proof. unfold lenZ. rewrite shr_bytes_length. reflexivity. Qed.

Lemma sha256_len m : lenZ (sha256 m) = 32.
Proof.
  unfold lenZ, sha256.
  destruct (fold_left compress256 _ iv256) as [[[[[[[a b] c] d] e] f] g] h]. reflexivity.
Qed.
Lemma sha256d_len m : lenZ (sha256d m) = 32.
Proof. apply sha256_len. Qed.
Lemma ripemd160_len m : lenZ (ripemd160 m) = 20.
Proof.
  unfold lenZ, ripemd160.
  destruct (fold_left rmd_compress _ rmd_iv) as [[[[a b] c] d] e]. reflexivity.
Qed.
Lemma hash160_len m : lenZ (hash160 m) = 20.
Proof. apply ripemd160_len. Qed.
Lemma sha1_len m : lenZ (sha1 m) = 20.
Proof.
  unfold lenZ, sha1.
  destruct (fold_left compress1 _ _) as [[[[a b] c] d] e]. reflexivity.
Qed.

(** ** Script numbers: what [pop_num] returns is bounded, hence so is what arithmetic pushes *)
Definition opnd (c : ctx) (z : Z) : Prop := Z.abs z < 2 ^ (8 * max_numlen c - 1).
Definition small (c : ctx) (z : Z) : Prop := Z.abs z < 2 ^ (8 * (2 * max_numlen c) - 1).

Lemma num_dec_bound b : b <> [] -> Z.abs (num_dec b) < 2 ^ (8 * lenZ b - 1).
Proof.
  intros Hb. destruct (snoc_cases b) as [->|(body & last & ->)]; [congruence|].
  rewrite num_dec_snoc. pose proof (mag_of_lt body last) as Hm.
  unfold lenZ. rewrite app_length. cbn [length].
  pose proof (two_pow_8k_minus_1 (length body + 1) ltac:(lia)) as E2.
  replace (length body + 1)%nat with (S (length body)) in E2 by lia. rewrite p256_S in E2.
  replace (Z.of_nat (length body + 1)) with (Z.of_nat (S (length body))) by lia.
  unfold sgn_of. destruct (hi_bit last); lia.
Qed.

Lemma pop_num_opnd c b z : pop_num c b = Some z -> opnd c z.
Proof.
  unfold pop_num, make_num, opnd. destruct (limits c) as (Hk & _).
  destruct (Z.ltb_spec (max_numlen c) (Z.of_nat (length b))) as [|Hle]; [discriminate|].
  destruct (_ && _); [discriminate|]. intros [= <-].
  destruct b as [|x r].
  - cbn [num_dec rev Z.abs]. apply Z.pow_pos_nonneg; lia.
  - eapply Z.lt_le_trans; [apply num_dec_bound; discriminate|].
    apply Z.pow_le_mono_r; [lia|]. unfold lenZ. lia.
Qed.

Lemma num_enc_lenZ z k : 0 <= k -> Z.abs z < 2 ^ (8 * k - 1) -> lenZ (num_enc z) <= k.
Proof.
  intros Hk H. unfold lenZ. pose proof (num_enc_length_bound z (Z.to_nat k)) as Hb.
  rewrite Z2Nat.id in Hb by exact Hk. specialize (Hb H). lia.
Qed.

Lemma small_len c z : small c z -> lenZ (num_enc z) <= max_elem c.
Proof.
  intros H. destruct (limits c) as (Hk & H2 & _).
  eapply Z.le_trans; [apply num_enc_lenZ; [|exact H]; lia|exact H2].
Qed.

(** [B] = the operand bound, [2*B*B] = the result bound *)
Lemma small_split c : exists B, 128 <= B /\ 2 ^ (8 * max_numlen c - 1) = B /\ 2 ^ (8 * (2 * max_numlen c) - 1) = 2 * B * B.
Proof.
  destruct (limits c) as (Hk & _). exists (2 ^ (8 * max_numlen c - 1)). split; [|split; [reflexivity|]].
  - change 128 with (2 ^ 7). apply Z.pow_le_mono_r; lia.
  - replace (8 * (2 * max_numlen c) - 1) with (1 + ((8 * max_numlen c - 1) + (8 * max_numlen c - 1))) by lia.
    rewrite Z.pow_add_r, Z.pow_add_r by lia. change (2 ^ 1) with 2. lia.
Qed.

Lemma small_of_int31 c z : 0 <= z <= 2147483647 -> small c z.
Proof.
  intros H. unfold small. destruct (limits c) as (Hk & _).
  apply Z.lt_le_trans with (2 ^ 31); [change (2 ^ 31) with 2147483648; lia|].
  apply Z.pow_le_mono_r; lia.
Qed.
Lemma small_b2z c b : small c (b2z b).
Proof. apply small_of_int31. destruct b; cbn; lia. Qed.

Ltac arith_setup c :=
  unfold opnd, small in *; destruct (small_split c) as (B & HB & EB1 & EB2); rewrite ?EB2, ?EB1 in *; clear EB1 EB2.

Lemma small_unary c x : opnd c x ->
  small c (x + 1) /\ small c (x - 1) /\ small c (- x) /\ small c (Z.abs x).
Proof. intros H. arith_setup c. assert (HBB : 2 * B <= 2 * B * B) by nia. repeat split; lia. Qed.

Lemma small_binary c x y : opnd c x -> opnd c y ->
  small c (x + y) /\ small c (y - x) /\ small c (x * y) /\ small c x /\ small c y /\
  small c (Z.quot y x) /\ small c (Z.rem y x).
Proof.
  intros Hx Hy. arith_setup c.
  assert (Hq : Z.abs (Z.quot y x) <= Z.abs y).
  { destruct (Z.eq_dec x 0) as [->|Hn]; [rewrite Z.quot_0_r_ext by reflexivity; lia|].
    rewrite <- Z.quot_abs by exact Hn. apply Z.quot_le_upper_bound; [lia|]. nia. }
  assert (Hr : Z.abs (Z.rem y x) <= Z.abs y).
  { destruct (Z.eq_dec x 0) as [->|Hn]; [rewrite Z.rem_0_r_ext by reflexivity; lia|].
    rewrite <- Z.rem_abs by exact Hn. apply Z.rem_le; lia. }
  assert (HBB : 2 * B <= 2 * B * B) by nia.
  assert (Hm : Z.abs (x * y) < 2 * B * B).
  { rewrite Z.abs_mul. apply Z.lt_le_trans with (B * B); [|nia].
    apply Z.le_lt_trans with (Z.abs x * B); [apply Z.mul_le_mono_nonneg_l; lia|apply Z.mul_lt_mono_pos_r; lia]. }
  repeat split; try lia.
Qed.

(** ** One handler *)
(** what a handler's outcome must satisfy: the new state is [sized]; an early return leaves the stacks alone *)
Definition good (c : ctx) (s : st) (o : outcome) : Prop :=
  match o with
  | OOk s' => sized c s'
  | OReturn s' => sized c s' /\ ds s' = ds s /\ als s' = als s
  | OErr | OPanic => True
  end.

(** the signature opcodes are a parameter of the interpreter: they must keep the invariant
    (and must not "return early" with different stacks) *)
Definition sigops_sized (so : sigops) : Prop :=
  forall c s idx vf, sized c s ->
    good c s (so_checksig so c s idx vf) /\ good c s (so_checkmultisig so c s idx vf).

Lemma no_sigops_sized : sigops_sized no_sigops.
Proof. intros c s idx vf _. split; exact I. Qed.

Lemma good_push c s s0 x : sized c s0 -> lenZ x <= max_elem c -> good c s (push s0 x).
Proof. intros [Hd Ha] Hx. split; cbn [ds als set_ds]; [apply all_le_cons|]; assumption. Qed.
Lemma good_push_num c s s0 z : sized c s0 -> small c z -> good c s (push_num s0 z).
Proof. intros H Hz. apply good_push; [exact H|apply small_len, Hz]. Qed.
Lemma good_push_bool c s s0 b : sized c s0 -> good c s (push_bool s0 b).
Proof.
  intros H. apply good_push; [exact H|]. destruct (limits c) as (_ & _ & ? & _).
  pose proof (lenZ_from_bool b). lia.
Qed.
Lemma sized_tail c s x r : sized c s -> ds s = x :: r -> sized c (set_ds s r).
Proof. intros [Hd Ha] E. rewrite E in Hd. apply all_le_cons_iff in Hd. split; cbn [ds als set_ds]; tauto. Qed.
Lemma good_verify c s s0 : sized c s0 -> good c s (verify_top s0).
Proof.
  intros H. unfold verify_top. destruct (ds s0) as [|t r] eqn:E; [exact I|].
  destruct (as_bool t); [|exact I]. eapply sized_tail; eauto.
Qed.
Lemma good_nop c s : sized c s -> good c s (nop_like c s).
Proof. intros H. unfold nop_like. destruct (has_flag c F_DISCOURAGE_NOPS); [exact I|exact H]. Qed.
Lemma good_unary c s f : sized c s -> (forall x, opnd c x -> small c (f x)) -> good c s (unary_num c s f).
Proof.
  intros H Hf. unfold unary_num. destruct (ds s) as [|a r] eqn:E; [exact I|].
  destruct (pop_num c a) as [x|] eqn:Ea; [|exact I].
  apply good_push_num; [eapply sized_tail; eauto|]. apply Hf. eapply pop_num_opnd; eauto.
Qed.
Lemma sized_binary_rest c s a b r : sized c s -> ds s = a :: b :: r -> sized c (set_ds s r).
Proof.
  intros [Hd Ha] E. rewrite E in Hd. apply all_le_cons_iff in Hd. destruct Hd as [_ Hd].
  apply all_le_cons_iff in Hd. split; cbn [ds als set_ds]; tauto.
Qed.
Definition small_op (c : ctx) (f : Z -> Z -> option Z) : Prop :=
  forall x y z, opnd c x -> opnd c y -> f x y = Some z -> small c z.
Lemma binary_shape c s f :
  binary_num c s f = OErr \/
  exists a b r x y z, ds s = a :: b :: r /\ pop_num c a = Some x /\ pop_num c b = Some y /\ f x y = Some z /\
                      binary_num c s f = push_num (set_ds s r) z.
Proof.
  unfold binary_num. destruct (ds s) as [|a [|b r]] eqn:E; [left; reflexivity| |].
  - destruct (pop_num c a); left; reflexivity.
  - destruct (pop_num c a) as [x|] eqn:Ea; [|left; reflexivity].
    destruct (pop_num c b) as [y|] eqn:Eb; [|left; reflexivity].
    destruct (f x y) as [z|] eqn:Ef; [|left; reflexivity].
    right. exists a, b, r, x, y, z. auto.
Qed.
Lemma good_binary c s f : sized c s -> small_op c f -> good c s (binary_num c s f).
Proof.
  intros H Hf. destruct (binary_shape c s f) as [->|(a & b & r & x & y & z & E & Ea & Eb & Ef & ->)]; [exact I|].
  apply good_push_num; [eapply sized_binary_rest; eauto|].
  apply (Hf x y z); [eapply pop_num_opnd; eauto|eapply pop_num_opnd; eauto|exact Ef].
Qed.
Lemma good_binary_verify c s f : sized c s -> small_op c f ->
  good c s (match binary_num c s f with OOk s' => verify_top s' | o => o end).
Proof.
  intros H Hf. destruct (binary_shape c s f) as [->|(a & b & r & x & y & z & E & Ea & Eb & Ef & ->)]; [exact I|].
  unfold push_num, push. apply good_verify.
  assert (Hr : sized c (set_ds s r)) by (eapply sized_binary_rest; eauto).
  change (good c s (push_num (set_ds s r) z)).
  apply good_push_num; [exact Hr|].
  apply (Hf x y z); [eapply pop_num_opnd; eauto|eapply pop_num_opnd; eauto|exact Ef].
Qed.

Lemma small_op_total c (g : Z -> Z -> Z) :
  (forall x y, opnd c x -> opnd c y -> small c (g x y)) -> small_op c (fun x y => Some (g x y)).
Proof. intros H x y z Hx Hy [= <-]. apply H; assumption. Qed.
Lemma small_op_b2z c (g : Z -> Z -> bool) : small_op c (fun x y => Some (b2z (g x y))).
Proof. apply small_op_total. intros. apply small_b2z. Qed.

Lemma small_m1 c : small c (-1).
Proof. arith_setup c. cbn [Z.abs]. nia. Qed.
Lemma lenZ_nil {A} : lenZ (@nil A) = 0.
Proof. reflexivity. Qed.
Lemma lenZ_num2bin_pad b n : lenZ b < n -> lenZ (num2bin_pad b (Z.to_nat n)) = n.
Proof.
  intros H. unfold lenZ in *. destruct (num2bin_pad_spec_gen b (Z.to_nat n)) as [_ E]; [lia|]. rewrite E. lia.
Qed.
Lemma lenZ_map2' f a b : negb (Nat.eqb (length a) (length b)) = false -> lenZ (bytes_map2 f a b) = lenZ a.
Proof. intros H. apply lenZ_map2. apply negb_false_iff, Nat.eqb_eq in H. exact H. Qed.
Lemma lenZ_shift (b : bool) x k : lenZ ((if b then shl_bytes else shr_bytes) x k) = lenZ x.
Proof. destruct b; [apply lenZ_shl|apply lenZ_shr]. Qed.

(** the walk over all opcodes *)
Ltac prep :=
  repeat match goal with
  | H : (_ =? _)%N = _ |- _ => clear H
  | H : (_ <=? _)%N = _ |- _ => clear H
  | H : (_ =? _)%N || _ = _ |- _ => clear H
  end;
  repeat match goal with
  | E : pop_if_bool _ _ = Some _ |- _ => apply pop_if_bool_frame in E; destruct E as (? & ? & ? & ?)
  | E : (if ?b then pick_n else roll_n) _ _ = Some _ |- _ => destruct b; cbv beta iota in E
  end;
  repeat match goal with
  | E : ds ?s = _, H : all_le _ (ds ?s) |- _ => rewrite E in H
  | E : als ?s = _, H : all_le _ (als ?s) |- _ => rewrite E in H
  end;
  subst;
  repeat match goal with
  | H : all_le _ (_ :: _) |- _ => apply all_le_cons_iff in H; let h := fresh "Hx" in destruct H as [h H]
  end.

Ltac small_side :=
  first
  [ apply small_m1
  | apply small_b2z
  | apply small_of_int31;
    match goal with
    | |- _ <= lenZ ?l <= _ => pose proof (lenZ_nonneg l)
    end;
    try match goal with
    | H : depth ?s <= _ |- _ => unfold depth in H; pose proof (lenZ_nonneg (als s))
    end; lia ].

Ltac len_tac :=
  rewrite ?lenZ_invert, ?lenZ_shift, ?sha256_len, ?sha256d_len, ?ripemd160_len, ?hash160_len, ?sha1_len,
          ?lenZ_cons, ?lenZ_nil;
  first
  [ assumption
  | apply small_len; small_side
  | match goal with |- lenZ (from_bool ?b) <= _ => pose proof (lenZ_from_bool b); lia end
  | eapply Z.le_trans; [apply lenZ_skipn_le|assumption]
  | eapply Z.le_trans; [apply lenZ_firstn_le|assumption]
  | rewrite lenZ_num2bin_pad by lia; lia
  | rewrite lenZ_map2' by assumption; assumption
  | lia ].

Ltac fin :=
  repeat first
    [ assumption
    | apply all_le_nil
    | apply all_le_cons
    | apply all_le_app
    | apply all_le_firstn
    | apply all_le_skipn
    | eapply dup_n_le; [|eassumption]
    | eapply rot_n_le; [|eassumption]
    | eapply swap_n_le; [|eassumption]
    | eapply over_n_le; [|eassumption]
    | eapply pick_n_le; [|eassumption]
    | eapply roll_n_le; [|eassumption]
    | match goal with |- lenZ _ <= _ => len_tac end ].

Ltac leaf_ok :=
  prep; cbn [good push push_num push_bool]; unfold sized;
  cbn [ds als set_ds set_als set_cond set_nops set_sep set_early];
  repeat match goal with
  | E : ds ?s = _ |- context [ds ?s] => rewrite E
  | E : als ?s = _ |- context [als ?s] => rewrite E
  end;
  repeat split; fin.

Ltac arith_side c :=
  first
  [ apply small_op_b2z
  | intros x Hx; first [apply small_b2z | destruct (small_unary c x Hx) as (? & ? & ? & ?); assumption]
  | apply small_op_total; intros x y Hx Hy; destruct (small_binary c x y Hx Hy) as (? & ? & ? & ? & ? & ? & ?);
    first [assumption | match goal with |- small _ (if ?b then _ else _) => destruct b; assumption end]
  | intros x y z Hx Hy; destruct (small_binary c x y Hx Hy) as (? & ? & ? & ? & ? & ? & ?);
    destruct (x =? 0); [discriminate|]; intros [= <-]; assumption ].

Ltac step :=
  match goal with
  | |- good _ _ OErr => exact I
  | |- good _ _ OPanic => exact I
  | |- good ?c _ (unary_num _ _ _) => apply good_unary; [split; assumption|arith_side c]
  | |- good ?c _ (binary_num _ _ _) => apply good_binary; [split; assumption|arith_side c]
  | |- good ?c _ (match binary_num _ _ _ with _ => _ end) => apply good_binary_verify; [split; assumption|arith_side c]
  | |- good _ _ (nop_like _ _) => apply good_nop; split; assumption
  | |- good _ _ (verify_top _) => apply good_verify; split; assumption
  | |- good _ _ (if ?b then _ else _) => destruct b eqn:?
  | |- good _ _ (match ?x with _ => _ end) => destruct x eqn:?
  end.

(** every handler keeps the invariant.  The depth hypothesis is what bounds OP_DEPTH's result;
    the bound on the opcode's own data is the test at the head of [execute_opcode]. *)
Lemma handler_good so c p idx s :
  sigops_sized so -> sized c s -> depth s <= max_stack c -> lenZ (p_data p) <= max_elem c ->
  good c s (exec_handler so c p idx s).
Proof.
  intros Hso Hsz Hdep Hp.
  destruct (Hso c s idx false Hsz) as [Hs1 Hm1]. destruct (Hso c s idx true Hsz) as [Hs2 Hm2].
  destruct Hsz as [Hd Ha].
  destruct (limits c) as (Hk & H2k & H32 & Hme & Hms).
  unfold exec_handler.
  repeat step.
  all: try assumption.
  all: solve [leaf_ok].
Qed.

(** ** One opcode (thread.executeOpcode) *)
Lemma good_ext c s s1 o : ds s1 = ds s -> als s1 = als s -> good c s1 o -> good c s o.
Proof. intros Ed Ea. destruct o; cbn [good]; try tauto. rewrite Ed, Ea. tauto. Qed.

Theorem execute_opcode_good so c p idx s :
  sigops_sized so -> sized c s -> depth s <= max_stack c -> good c s (execute_opcode so c p idx s).
Proof.
  intros Hso Hsz Hdep. unfold execute_opcode.
  destruct (Z.ltb_spec (max_elem c) (lenZ (p_data p))) as [|Hp]; [exact I|].
  destruct (is_disabled (p_val p) && _); [exact I|].
  destruct (always_illegal (p_val p) && _); [exact I|].
  set (s1 := if (OP_16 <? p_val p)%N then set_nops s (nops s + 1) else s).
  assert (Ed : ds s1 = ds s) by (subst s1; destruct (OP_16 <? p_val p)%N; reflexivity).
  assert (Ea : als s1 = als s) by (subst s1; destruct (OP_16 <? p_val p)%N; reflexivity).
  assert (Hsz1 : sized c s1) by (unfold sized; rewrite Ed, Ea; exact Hsz).
  assert (Hdep1 : depth s1 <= max_stack c) by (unfold depth; rewrite Ed, Ea; exact Hdep).
  destruct ((OP_16 <? p_val p)%N && _); [exact I|].
  destruct (negb (branch_executing s1) && _); [exact Hsz1|].
  destruct (has_flag c F_MINIMALDATA && _ && _ && _ && _); [exact I|].
  destruct (negb (should_exec c s (p_val p)) && _); [exact Hsz1|].
  apply (good_ext c s s1); [exact Ed|exact Ea|]. apply handler_good; assumption.
Qed.

(** (1) in the form asked for.  The depth hypothesis is needed for OP_DEPTH only (its result is the
    depth, and a number is pushed in as many bytes as it takes). *)
Theorem execute_opcode_sized so c p idx s s' :
  sigops_sized so -> sized c s -> depth s <= max_stack c ->
  execute_opcode so c p idx s = OOk s' \/ execute_opcode so c p idx s = OReturn s' ->
  sized c s'.
Proof.
  intros Hso Hsz Hdep H. pose proof (execute_opcode_good so c p idx s Hso Hsz Hdep) as G.
  destruct H as [H|H]; rewrite H in G; cbn [good] in G; tauto.
Qed.

(** an early return (post-genesis top-level OP_RETURN) leaves both stacks as they were *)
Theorem execute_opcode_return_stacks so c p idx s s' :
  sigops_sized so -> sized c s -> depth s <= max_stack c ->
  execute_opcode so c p idx s = OReturn s' -> ds s' = ds s /\ als s' = als s.
Proof.
  intros Hso Hsz Hdep H. pose proof (execute_opcode_good so c p idx s Hso Hsz Hdep) as G.
  rewrite H in G. cbn [good] in G. tauto.
Qed.

(** ** A whole script *)
Definition within (c : ctx) (s : st) : Prop := sized c s /\ depth s <= max_stack c.

(** what a debugger sees after a step: both stacks, bottom first *)
Definition snap_ok (c : ctx) (sn : snapshot) : Prop :=
  all_le (max_elem c) (sn_ds sn) /\ all_le (max_elem c) (sn_as sn) /\
  lenZ (sn_ds sn) + lenZ (sn_as sn) <= max_stack c.

Lemma lenZ_rev {A} (l : list A) : lenZ (rev l) = lenZ l.
Proof. unfold lenZ. rewrite rev_length. reflexivity. Qed.

Lemma snap_ok_snap c s : within c s -> snap_ok c (snap s).
Proof.
  intros [[Hd Ha] Hdep]. unfold snap_ok, snap. cbn [sn_ds sn_as]. rewrite !lenZ_rev.
  split; [apply all_le_rev, Hd|]. split; [apply all_le_rev, Ha|exact Hdep].
Qed.
Lemma snap_ok_within c s : snap_ok c (snap s) -> within c s.
Proof.
  unfold snap_ok, snap. cbn [sn_ds sn_as]. rewrite !lenZ_rev. intros (Hd & Ha & Hdep).
  split; [split|exact Hdep]; rewrite <- (rev_involutive (_ s)); apply all_le_rev; assumption.
Qed.

Lemma within_ext c s s' : ds s' = ds s -> als s' = als s -> within c s -> within c s'.
Proof. intros Ed Ea. unfold within, sized, depth. rewrite Ed, Ea. tauto. Qed.
Lemma within_clear_als c s : within c s -> within c (set_als s []).
Proof.
  intros [[Hd Ha] Hdep]. unfold within, sized, depth in *. cbn [ds als set_als].
  split; [split; [exact Hd|apply all_le_nil]|]. pose proof (lenZ_nonneg (als s)). rewrite lenZ_nil. lia.
Qed.

(** (2) every snapshot [run_ops] adds comes from a state within both limits, and so does the state
    in which the script ends (normally or by an early return) *)
Theorem run_ops_limits so c : sigops_sized so ->
  forall ops idx s acc, within c s ->
  exists new, snd (run_ops so c ops idx s acc) = new ++ acc /\ Forall (snap_ok c) new /\
    match fst (run_ops so c ops idx s acc) with
    | SEnd s' | SReturn s' => within c s'
    | SErr | SPanic => True
    end.
Proof.
  intros Hso. induction ops as [|p rest IH]; intros idx s acc Hw; cbn [run_ops].
  - exists []. cbn [fst snd app]. auto.
  - destruct Hw as [Hsz Hdep].
    pose proof (execute_opcode_good so c p idx s Hso Hsz Hdep) as G.
    destruct (execute_opcode so c p idx s) as [s'|s'| |]; cbn [good] in G.
    + destruct (Z.ltb_spec (max_stack c) (lenZ (ds s') + lenZ (als s'))) as [|Hle].
      { exists []. cbn [fst snd app]. auto. }
      assert (Hw' : within c s') by (split; [exact G|exact Hle]).
      destruct rest as [|q rest'].
      { exists []. cbn [fst snd app]. auto. }
      destruct (IH (S idx) s' (snap s' :: acc) Hw') as (new & E & Hn & Hf).
      exists (new ++ [snap s']). rewrite <- app_assoc. cbn [app]. split; [exact E|]. split; [|exact Hf].
      apply Forall_app. split; [exact Hn|]. constructor; [apply snap_ok_snap, Hw'|constructor].
    + exists []. cbn [fst snd app]. split; [reflexivity|]. split; [constructor|].
      destruct G as (G & Ed & Ea). eapply within_ext; [exact Ed|exact Ea|]. split; assumption.
    + exists []. cbn [fst snd app]. auto.
    + exists []. cbn [fst snd app]. auto.
Qed.

(** the same, as a statement about the whole snapshot list *)
Corollary run_ops_limits_all so c ops idx s acc e acc' :
  sigops_sized so -> within c s -> Forall (snap_ok c) acc ->
  run_ops so c ops idx s acc = (e, acc') ->
  Forall (snap_ok c) acc' /\ match e with SEnd s' | SReturn s' => within c s' | SErr | SPanic => True end.
Proof.
  intros Hso Hw Hacc E. destruct (run_ops_limits so c Hso ops idx s acc Hw) as (new & E1 & Hn & Hf).
  rewrite E in E1, Hf. cbn [fst snd] in E1, Hf. subst acc'. split; [|exact Hf].
  apply Forall_app. split; assumption.
Qed.

(** ** The whole engine *)
Lemma finish_limits c d acc : Forall (snap_ok c) acc -> Forall (snap_ok c) (snd (finish c d acc)).
Proof. intros H. unfold finish. cbn [snd]. apply Forall_rev, H. Qed.

Lemma end_script_within c s s' : end_script s = Some s' -> within c s -> within c s' /\ als s' = [].
Proof.
  unfold end_script. destruct (cond s); [|discriminate]. intros [= <-] H.
  split; [apply within_clear_als, H|reflexivity].
Qed.

Lemma run_redeem_limits so c saved s acc :
  sigops_sized so -> within c s -> als s = [] ->
  all_le (max_elem c) saved -> lenZ saved <= max_stack c -> Forall (snap_ok c) acc ->
  Forall (snap_ok c) (snd (run_redeem so c saved s acc)).
Proof.
  intros Hso Hw Hals Hsv Hlen Hacc. unfold run_redeem.
  destruct (negb _); [cbn [snd]; apply Forall_rev, Hacc|].
  destruct saved as [|script below]; [cbn [snd]; apply Forall_rev, Hacc|].
  destruct (parse_script (c_err_on_checksig c) script) as [ops|]; [|cbn [snd]; apply Forall_rev, Hacc].
  set (s' := set_ds (shift_script s ops) below).
  assert (Hw' : within c s').
  { apply all_le_cons_iff in Hsv. destruct Hsv as [_ Hb]. rewrite lenZ_cons in Hlen.
    unfold within, sized, depth. subst s'. cbn [ds als set_ds shift_script]. rewrite Hals, lenZ_nil.
    split; [split; [exact Hb|apply all_le_nil]|lia]. }
  assert (Hacc' : Forall (snap_ok c) (snap s' :: acc)) by (constructor; [apply snap_ok_snap, Hw'|exact Hacc]).
  destruct ops as [|p rest]; [apply finish_limits, Hacc'|].
  destruct (run_ops so c (p :: rest) 0 s' (snap s' :: acc)) as [e acc'] eqn:E.
  destruct (run_ops_limits_all so c _ _ _ _ _ _ Hso Hw' Hacc' E) as [Ha' He].
  destruct e as [s2|s2| |]; cbv iota beta.
  - destruct (end_script s2) as [s3|] eqn:Ee; [|cbn [snd]; apply Forall_rev, Ha'].
    apply finish_limits. constructor; [|exact Ha'].
    destruct (end_script_within c s2 s3 Ee He) as [H3 _].
    apply snap_ok_snap. eapply within_ext; [| |exact H3]; reflexivity.
  - apply finish_limits. constructor; [|exact Ha'].
    apply snap_ok_snap. eapply within_ext; [| |apply within_clear_als, He]; reflexivity.
  - cbn [snd]. apply Forall_rev, Ha'.
  - cbn [snd]. apply Forall_rev, Ha'.
Qed.

Lemma run_lock_limits so c bip16 saved lock s acc :
  sigops_sized so -> within c s ->
  all_le (max_elem c) saved -> lenZ saved <= max_stack c -> Forall (snap_ok c) acc ->
  Forall (snap_ok c) (snd (run_lock so c bip16 saved lock s acc)).
Proof.
  intros Hso Hw Hsv Hlen Hacc. unfold run_lock.
  destruct (run_ops so c lock 0 s acc) as [e acc'] eqn:E.
  destruct (run_ops_limits_all so c _ _ _ _ _ _ Hso Hw Hacc E) as [Ha' He].
  destruct e as [s2|s2| |]; cbv iota beta.
  - destruct (end_script s2) as [s3|] eqn:Ee; [|cbn [snd]; apply Forall_rev, Ha'].
    destruct (end_script_within c s2 s3 Ee He) as [H3 Hals].
    destruct (bip16 && negb (after_genesis c)).
    + apply run_redeem_limits; assumption.
    + apply finish_limits. constructor; [|exact Ha'].
      apply snap_ok_snap. eapply within_ext; [| |exact H3]; reflexivity.
  - apply finish_limits. constructor; [|exact Ha'].
    apply snap_ok_snap. eapply within_ext; [| |apply within_clear_als, He]; reflexivity.
  - cbn [snd]. apply Forall_rev, Ha'.
  - cbn [snd]. apply Forall_rev, Ha'.
Qed.

Lemma within_init c script : within c (init_st script).
Proof.
  unfold within, sized, depth, init_st, lenZ. cbn [ds als length Z.of_nat Z.add].
  split; [split; apply all_le_nil|]. unfold max_stack, max_int32. destruct (after_genesis c); lia.
Qed.

Theorem execute_limits so c bip16 unlock lock :
  sigops_sized so -> Forall (snap_ok c) (snd (execute so c bip16 unlock lock)).
Proof.
  intros Hso. unfold execute.
  assert (Hnil : all_le (max_elem c) [] /\ lenZ (@nil bytes) <= max_stack c).
  { split; [apply all_le_nil|]. pose proof (within_init c []) as [_ H]. exact H. }
  destruct unlock as [|u urest].
  - destruct lock as [|l lrest]; [constructor|].
    apply run_lock_limits; try tauto; [apply within_init|constructor].
  - destruct (run_ops so c (u :: urest) 0 (init_st (u :: urest)) []) as [e acc] eqn:E.
    destruct (run_ops_limits_all so c _ _ _ _ _ _ Hso (within_init c _) (Forall_nil _) E) as [Ha He].
    destruct e as [s1|s1| |]; cbv iota beta.
    + destruct (end_script s1) as [s2|] eqn:Ee; [|cbn [snd]; apply Forall_rev, Ha].
      destruct (end_script_within c s1 s2 Ee He) as [H2 Hals]. cbv zeta.
      assert (H3 : within c (shift_script s2 lock)) by (eapply within_ext; [| |exact H2]; reflexivity).
      assert (Hacc : Forall (snap_ok c) (snap (shift_script s2 lock) :: acc))
        by (constructor; [apply snap_ok_snap, H3|exact Ha]).
      destruct lock as [|l lrest]; [apply finish_limits, Hacc|].
      apply run_lock_limits; try assumption.
      * destruct H3 as [[Hd _] _]. exact Hd.
      * destruct H3 as [_ Hdep]. unfold depth in Hdep.
        pose proof (lenZ_nonneg (als (shift_script s2 (l :: lrest)))). lia.
    + cbv zeta.
      assert (H2 : within c (shift_script (set_als s1 []) lock))
        by (eapply within_ext; [| |apply within_clear_als, He]; reflexivity).
      assert (Hacc : Forall (snap_ok c) (snap (shift_script (set_als s1 []) lock) :: acc))
        by (constructor; [apply snap_ok_snap, H2|exact Ha]).
      destruct lock as [|l lrest]; [apply finish_limits, Hacc|].
      apply run_lock_limits; try tauto.
    + cbn [snd]. apply Forall_rev, Ha.
    + cbn [snd]. apply Forall_rev, Ha.
Qed.

(** the context Engine.Execute builds from its arguments *)
Definition engine_ctx (i : exec_input) : ctx :=
  mkCtx (normalise_flags (ei_flags i)) (ei_has_tx i) (ei_tx_lock i) (ei_tx_version i) (ei_in_seq i)
        (negb (ei_has_tx i) || negb (ei_has_prevout i)).

(** (3) every state a debugger is shown during a whole run is within both limits *)
Theorem engine_execute_limits so i :
  sigops_sized so -> Forall (snap_ok (engine_ctx i)) (snd (engine_execute so i)).
Proof.
  intros Hso. unfold engine_execute. fold (engine_ctx i). set (c := engine_ctx i).
  assert (Hbody : forall ub lb,
    Forall (snap_ok c) (snd (
      if has_flag c F_CLEANSTACK && negb (has_flag c F_BIP16) then (VErr, [])
      else if (max_script_size c <? lenZ ub) || (max_script_size c <? lenZ lb) then (VErr, [])
      else match parse_script (c_err_on_checksig c) ub with
           | None => (VErr, [])
           | Some u =>
               match parse_script (c_err_on_checksig c) lb with
               | None => (VErr, [])
               | Some l =>
                   if has_flag c F_SIGPUSHONLY && negb (is_push_only u) then (VErr, [])
                   else
                     let p2sh := has_flag c F_BIP16 && negb (after_genesis c) && is_p2sh lb in
                     if p2sh && negb (is_push_only u) then (VErr, [])
                     else execute so c p2sh u l
               end
           end))).
  { intros ub lb.
    destruct (has_flag c F_CLEANSTACK && negb (has_flag c F_BIP16)); [constructor|].
    destruct ((max_script_size c <? lenZ ub) || (max_script_size c <? lenZ lb)); [constructor|].
    destruct (parse_script (c_err_on_checksig c) ub) as [u|]; [|constructor].
    destruct (parse_script (c_err_on_checksig c) lb) as [l|]; [|constructor].
    destruct (has_flag c F_SIGPUSHONLY && negb (is_push_only u)); [constructor|].
    cbv zeta. destruct (_ && negb (is_push_only u)); [constructor|].
    apply execute_limits, Hso. }
  destruct (ei_unlock i) as [|ub ur]; destruct (ei_lock i) as [|lb lr]; try apply Hbody. constructor.
Qed.

(** ** The real signature opcodes (model/CheckSig.v) keep the invariant: they pop and push booleans.
    No hypothesis on the oracle or the transaction is needed (a panic outcome is not a state). *)
From GoBT Require Import model.CheckSig.

Lemma good_finish c s vf o : good c s o -> (forall s', o <> OReturn s') -> good c s (finish_verify vf o).
Proof.
  intros G Hr. unfold finish_verify. destruct vf; [|exact G].
  destruct o as [s1|s1| |]; try exact I.
  - apply good_verify. exact G.
  - exfalso. eapply Hr. reflexivity.
Qed.
Lemma good_finish_bool c s vf s1 b : sized c s1 -> good c s (finish_verify vf (push_bool s1 b)).
Proof. intros H. apply good_finish; [apply good_push_bool, H|discriminate]. Qed.
Lemma good_finish_err c s vf : good c s (finish_verify vf OErr).
Proof. destruct vf; exact I. Qed.
Lemma good_finish_panic c s vf : good c s (finish_verify vf OPanic).
Proof. destruct vf; exact I. Qed.
Lemma pop_n_le n k d a b : all_le n d -> pop_n k d = Some (a, b) -> all_le n b.
Proof. unfold pop_n. intros H. destruct (_ <? _); [discriminate|]. intros [= _ <-]. apply all_le_skipn, H. Qed.

Ltac sig_walk :=
  repeat first
  [ progress cbv zeta
  | progress cbn [option_map]
  | match goal with
    | |- good _ _ (match (match ?x with _ => _ end) with _ => _ end) => destruct x eqn:?
    | |- good _ _ (match option_map _ (match ?x with _ => _ end) with _ => _ end) => destruct x eqn:?
    end ].

Ltac sig_chain :=
  subst;
  repeat match goal with
  | E : ds ?s = _, H : all_le _ (ds ?s) |- _ => rewrite E in H
  | H : all_le _ (_ :: _) |- _ => apply all_le_cons_iff in H; destruct H as [_ H]
  | E : pop_n _ ?d = Some (_, _), H : all_le _ ?d |- _ => apply (pop_n_le _ _ _ _ _ H) in E
  end.

Ltac sig_leaf :=
  first
  [ exact I
  | apply good_finish_err
  | apply good_finish_panic
  | unfold checksig_failed;
    repeat match goal with |- good _ _ (finish_verify _ (if ?b then _ else _)) => destruct b end;
    first [ apply good_finish_err
          | apply good_finish_bool; sig_chain; unfold sized;
            cbn [ds als set_ds set_nops]; split; assumption ] ].

Lemma checksig_sized orc t i c s idx vf : sized c s ->
  good c s (match checksig_run orc t i c s idx vf with Some o => o | None => OErr end).
Proof. intros [Hd Ha]. unfold checksig_run. sig_walk. all: sig_leaf. Qed.

Lemma checkmultisig_sized orc t i c s idx vf : sized c s ->
  good c s (match checkmultisig_run orc t i c s idx vf with Some o => o | None => OErr end).
Proof. intros [Hd Ha]. unfold checkmultisig_run. sig_walk. all: sig_leaf. Qed.

Theorem mk_sigops_sized orc t i : sigops_sized (mk_sigops orc t i).
Proof.
  intros c s idx vf Hsz. cbn [mk_sigops so_checksig so_checkmultisig].
  split; [apply checksig_sized|apply checkmultisig_sized]; exact Hsz.
Qed.

(** hence, for a run with a transaction context: *)
Corollary engine_execute_limits_mk orc t n i :
  Forall (snap_ok (engine_ctx i)) (snd (engine_execute (mk_sigops orc t n) i)).
Proof. apply engine_execute_limits, mk_sigops_sized. Qed.
Corollary engine_execute_limits_nosig i :
  Forall (snap_ok (engine_ctx i)) (snd (engine_execute no_sigops i)).
Proof. apply engine_execute_limits, no_sigops_sized. Qed.

(** ** Examples (computed): the statements are not vacuous, and the limits are the ones that bite *)
Definition snap_okb (c : ctx) (sn : snapshot) : bool :=
  forallb (fun b => lenZ b <=? max_elem c) (sn_ds sn) && forallb (fun b => lenZ b <=? max_elem c) (sn_as sn) &&
  (lenZ (sn_ds sn) + lenZ (sn_as sn) <=? max_stack c).
Definition shape (r : verdict * list snapshot) : verdict * list (list nat * list nat) :=
  (fst r, map (fun sn => (map (@length byte) (sn_ds sn), map (@length byte) (sn_as sn))) (snd r)).

(** OP_1 OP_2 OP_TOALTSTACK OP_FROMALTSTACK | OP_ADD OP_3 OP_EQUAL: seven snapshots, all within limits *)
Definition ex_small : exec_input := mkExecInput [x51; x52; x6b; x6c] [x93; x53; x87] 0 false false 0 0 0.
Example ex_small_run :
  engine_execute no_sigops ex_small =
  (VOk, [mkSnap [[x01]] []; mkSnap [[x01]; [x02]] []; mkSnap [[x01]] [[x02]]; mkSnap [[x01]; [x02]] [];
         mkSnap [[x03]] []; mkSnap [[x03]; [x03]] []; mkSnap [[x01]] []]).
Proof. vm_compute. reflexivity. Qed.
Example ex_small_ok : forallb (snap_okb (engine_ctx ex_small)) (snd (engine_execute no_sigops ex_small)) = true.
Proof. vm_compute. reflexivity. Qed.

(** two pushes of [n] bytes (OP_PUSHDATA2) | OP_CAT *)
Definition push2 (n : nat) (lo hi : byte) : bytes := [x4d; lo; hi] ++ repeat_byte n x01.
Definition ex_cat (n : nat) (lo hi : byte) (flags : N) : exec_input :=
  mkExecInput (push2 n lo hi ++ push2 n lo hi) [x7e] flags false false 0 0 0.
(** 300 + 300 bytes before Genesis: rejected at OP_CAT, after the two pushes were shown *)
Example ex_cat_600_rejected : shape (engine_execute no_sigops (ex_cat 300 x2c x01 0)) = (VErr, [([300%nat], []); ([300%nat; 300%nat], [])]).
Proof. vm_compute. reflexivity. Qed.
(** 260 + 260 = 520 bytes: accepted *)
Example ex_cat_520_accepted :
  shape (engine_execute no_sigops (ex_cat 260 x04 x01 0)) = (VOk, [([260%nat], []); ([260%nat; 260%nat], []); ([520%nat], [])]).
Proof. vm_compute. reflexivity. Qed.
(** the same 600-byte concatenation after Genesis (flag bit 14): accepted, [max_elem] is 2^31-1 there *)
Example ex_cat_600_genesis :
  shape (engine_execute no_sigops (ex_cat 300 x2c x01 16384)) = (VOk, [([300%nat], []); ([300%nat; 300%nat], []); ([600%nat], [])]).
Proof. vm_compute. reflexivity. Qed.
(** a 521-byte push is refused by the test at the head of executeOpcode; 520 bytes pass *)
Example ex_push_521 : engine_execute no_sigops (mkExecInput (push2 521 x09 x02) [x51] 0 false false 0 0 0) = (VErr, []).
Proof. vm_compute. reflexivity. Qed.
Example ex_push_520 : fst (engine_execute no_sigops (mkExecInput (push2 520 x08 x02) [x51] 0 false false 0 0 0)) = VOk.
Proof. vm_compute. reflexivity. Qed.
(** the depth limit: 1000 items are fine, the 1001st ends the run (1000 snapshots were shown, all within limits) *)
Definition ex_deep (n : nat) : exec_input := mkExecInput (repeat_byte n x51) [x61] 0 false false 0 0 0.
Example ex_deep_1000 :
  let r := engine_execute no_sigops (ex_deep 1000) in
  fst r = VOk /\ length (snd r) = 1001%nat /\ forallb (snap_okb (engine_ctx (ex_deep 1000))) (snd r) = true.
Proof. vm_compute. auto. Qed.
Example ex_deep_1001 :
  let r := engine_execute no_sigops (ex_deep 1001) in
  fst r = VErr /\ length (snd r) = 1000%nat /\ forallb (snap_okb (engine_ctx (ex_deep 1001))) (snd r) = true.
Proof. vm_compute. auto. Qed.

Print Assumptions execute_opcode_sized.
Print Assumptions run_ops_limits.
Print Assumptions engine_execute_limits.
Print Assumptions mk_sigops_sized.
