(** stack.Tuck (bscript/interpreter/stack.go), as printed from the Go source: [... x1 x2] -> [... x2 x1 x2], an error with fewer than two items.
    The Go stack is [rev d], [d] being the stack of model/Interp.v (top first). *)
From Coq Require Import List ZArith NArith Bool Lia ZifyN ZifyNat ZifyBool.
From Coq Require Import Strings.Byte.
From GoBT Require Import lib.Bytes lib.GoSem lib.GoInterp gen.Funcs proofs.GenFuncsTac proofs.GenFuncsInterpTac proofs.GenFuncs_stack_PopByteArray proofs.GenFuncs_stack_PushByteArray.
From GoBT Require model.Interp model.ScriptNum.
Import ListNotations.
Ltac Zify.zify_post_hook ::= Z.div_mod_to_equations.
Local Open Scope Z_scope.

Lemma stack_Tuck_spec (d : list bytes) : Interp.lenZ d < 2147483648 ->
  st_view (stack_Tuck (rev d)) = Val (match d with x2 :: x1 :: r => Some (x2 :: x1 :: x2 :: r) | _ => None end).
Proof.
  intros Hd. unfold stack_Tuck. rewrite stack_PopByteArray_spec by exact Hd.
  destruct d as [|x2 d1]; [reflexivity|]. stk_beta.
  rewrite stack_PopByteArray_spec by (rewrite lenZ_cons in Hd; lia).
  destruct d1 as [|x1 r]; [reflexivity|]. stk_beta.
  rewrite !stack_PushByteArray_spec. stk_beta. rewrite !stack_PushByteArray_spec. stk_beta.
  rewrite !stack_PushByteArray_spec. stk_beta. cbn [st_view]. rewrite rev_involutive. reflexivity.
Qed.
