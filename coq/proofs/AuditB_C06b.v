(** Audit B, C06, the items that were left OPEN in docs/reviews/audit_B.txt:
    1. [unparse_of_parsed]: Unparse succeeds on every script code cut from a parsed script (any suffix, any
       filtering) and gives at most as many bytes as the script had; OP_CHECKSIG's result for running scripts;
    2. OP_CHECKMULTISIG stated over the specification's digest ([digest_spec]);
    3. the flag table of OP_CHECKSIG for BOTH values of the BIP143 flag (finite sweep);
    4. the code start across the script changes of [execute]. *)
From Coq Require Import List NArith ZArith Lia Bool ZifyN ZifyNat ZifyBool.
From Coq Require Import Strings.Byte.
From GoBT Require Import lib.Bytes lib.VarInt model.Tx model.SigHash model.SigHashWire model.ScriptNum model.Interp model.CheckSig
  spec.DigestSpec spec.MultisigSpec proofs.SigHashProofs proofs.InterpTotal proofs.CheckSigProofs proofs.DerProofs proofs.MultisigProofs
  proofs.SigOpProofs proofs.AuditB_C06.
Import ListNotations.

(** * 1. Unparse on script codes cut from a parsed script *)

(** the parser's opcodes serialise, and the serialisations concatenate to the bytes that were parsed *)
Lemma pop_bytes_single_op v real : pop_bytes (mkPop (b2n v) 1 [] real) = Some [v].
Proof. unfold pop_bytes. cbn. rewrite n2b_b2n. reflexivity. Qed.

Lemma unparse_cons_some p x r y : pop_bytes p = Some x -> unparse r = Some y -> unparse (p :: r) = Some (x ++ y).
Proof. intros H1 H2. cbn [unparse]. rewrite H1, H2. reflexivity. Qed.

Lemma op_length_cases v : (v < 256)%N ->
  (op_length v = 1%Z) \/
  ((1 <= v <= 75)%N /\ op_length v = (Z.of_N v + 1)%Z) \/
  (v = 76%N /\ op_length v = (-1)%Z) \/ (v = 77%N /\ op_length v = (-2)%Z) \/ (v = 78%N /\ op_length v = (-4)%Z).
Proof.
  intros Hv. unfold op_length.
  destruct ((1 <=? v)%N && (v <=? 75)%N) eqn:E1; [right; left; split; [lia|reflexivity]|].
  destruct (v =? 76)%N eqn:E2; [right; right; left; split; [lia|reflexivity]|].
  destruct (v =? 77)%N eqn:E3; [right; right; right; left; split; [lia|reflexivity]|].
  destruct (v =? 78)%N eqn:E4; [right; right; right; right; split; [lia|reflexivity]|].
  left. reflexivity.
Qed.

Lemma pop_bytes_pushdata_parsed v k r : (k = 1 \/ k = 2 \/ k = 4)%nat -> (k <= length r)%nat ->
  (le_dec (firstn k r) <= N.of_nat (length (skipn k r)))%N ->
  pop_bytes (mkPop (b2n v) (- Z.of_nat k) (firstn (N.to_nat (le_dec (firstn k r))) (skipn k r)) true) =
  Some (v :: firstn k r ++ firstn (N.to_nat (le_dec (firstn k r))) (skipn k r)).
Proof.
  intros Hk Hlen Hdl.
  rewrite (pop_bytes_pushdata _ k Hk) by reflexivity. cbn [p_val p_data]. cbv zeta.
  assert (Lh : length (firstn k r) = k) by (rewrite firstn_length; lia).
  assert (Ld : length (firstn (N.to_nat (le_dec (firstn k r))) (skipn k r)) = N.to_nat (le_dec (firstn k r)))
    by (rewrite firstn_length; lia).
  pose proof (le_enc_dec (firstn k r)) as Hed. rewrite Lh in Hed.
  rewrite Ld, N2Nat.id, Hed, n2b_b2n.
  unfold lenZ. cbn [length]. rewrite app_length, Lh, Ld.
  match goal with |- (if ?b then _ else _) = _ => replace b with true by lia end. reflexivity.
Qed.

Theorem parse_ops_unparse : forall fuel e bs depth ops,
  parse_ops fuel e bs depth = Some ops -> unparse ops = Some bs.
Proof.
  induction fuel as [|f IH]; intros e bs depth ops H; cbn [parse_ops] in H.
  - destruct bs; [injection H as <-; reflexivity|discriminate].
  - destruct bs as [|b r]; [injection H as <-; reflexivity|].
    cbv zeta in H.
    destruct (e && requires_tx (b2n b))%bool; [discriminate|].
    set (depth' := if ((b2n b =? OP_IF)%N || (b2n b =? OP_NOTIF)%N)%bool then (depth + 1)%Z
                   else if (b2n b =? OP_ENDIF)%N then (depth - 1)%Z else depth) in *.
    destruct ((b2n b =? OP_RETURN)%N && (depth =? 0)%Z)%bool.
    { injection H as <-. change (b :: r) with ([b] ++ r). apply unparse_cons_some; [apply pop_bytes_single_op|].
      destruct r as [|x [|y data]]; [reflexivity| |].
      - cbn [unparse]. rewrite pop_bytes_single_op. reflexivity.
      - cbn [unparse]. rewrite pop_bytes_direct; cbn [p_len p_val p_data length].
        + rewrite n2b_b2n. unfold lenZ. cbn [length]. rewrite Z.eqb_refl. cbn [app]. rewrite app_nil_r. reflexivity.
        + lia.
        + lia. }
    assert (Hrec : forall p x rest tail, pop_bytes p = Some (b :: x) -> r = x ++ rest ->
              option_map (cons p) (parse_ops f e rest depth') = Some tail -> unparse tail = Some (b :: r)).
    { intros p x rest tail Hp -> Ht. destruct (parse_ops f e rest depth') as [ops'|] eqn:Eo; [|discriminate].
      injection Ht as <-. change (b :: x ++ rest) with ((b :: x) ++ rest).
      apply unparse_cons_some; [exact Hp|]. eapply IH. exact Eo. }
    destruct (op_length_cases (b2n b) (b2n_lt b)) as [L|[[Hr L]|[[Hv L]|[[Hv L]|[Hv L]]]]]; rewrite L in H.
    + cbn [Z.eqb] in H. apply (Hrec _ [] r ops (pop_bytes_single_op b true) eq_refl H).
    + replace (Z.of_N (b2n b) + 1 =? 1)%Z with false in H by lia.
      replace (1 <? Z.of_N (b2n b) + 1)%Z with true in H by lia.
      destruct (Nat.ltb_spec (length r) (Z.to_nat (Z.of_N (b2n b) + 1 - 1))) as [|Hlen]; [discriminate|].
      eapply Hrec; [|symmetry; apply firstn_skipn|exact H].
      rewrite pop_bytes_direct; cbn [p_len p_val p_data]; [|lia|lia].
      rewrite n2b_b2n. unfold lenZ. cbn [length]. rewrite firstn_length.
      match goal with |- (if ?c then _ else _) = _ => replace c with true by lia end. reflexivity.
    + change (-1 =? 1)%Z with false in H. change (1 <? -1)%Z with false in H. cbv iota in H.
      change (Z.to_nat (- -1)) with 1%nat in H.
      destruct (Nat.ltb_spec (length r) 1) as [|Hlen]; [discriminate|].
      destruct (N.ltb_spec (N.of_nat (length (skipn 1 r))) (le_dec (firstn 1 r))) as [|Hdl]; [discriminate|].
      eapply Hrec; [apply (pop_bytes_pushdata_parsed b 1 r); [auto|exact Hlen|exact Hdl]| |exact H].
      rewrite <- app_assoc. rewrite firstn_skipn. symmetry. apply firstn_skipn.
    + change (-2 =? 1)%Z with false in H. change (1 <? -2)%Z with false in H. cbv iota in H.
      change (Z.to_nat (- -2)) with 2%nat in H.
      destruct (Nat.ltb_spec (length r) 2) as [|Hlen]; [discriminate|].
      destruct (N.ltb_spec (N.of_nat (length (skipn 2 r))) (le_dec (firstn 2 r))) as [|Hdl]; [discriminate|].
      eapply Hrec; [apply (pop_bytes_pushdata_parsed b 2 r); [auto|exact Hlen|exact Hdl]| |exact H].
      rewrite <- app_assoc. rewrite firstn_skipn. symmetry. apply firstn_skipn.
    + change (-4 =? 1)%Z with false in H. change (1 <? -4)%Z with false in H. cbv iota in H.
      change (Z.to_nat (- -4)) with 4%nat in H.
      destruct (Nat.ltb_spec (length r) 4) as [|Hlen]; [discriminate|].
      destruct (N.ltb_spec (N.of_nat (length (skipn 4 r))) (le_dec (firstn 4 r))) as [|Hdl]; [discriminate|].
      eapply Hrec; [apply (pop_bytes_pushdata_parsed b 4 r); [auto|exact Hlen|exact Hdl]| |exact H].
      rewrite <- app_assoc. rewrite firstn_skipn. symmetry. apply firstn_skipn.
Qed.

(** DefaultOpcodeParser: Unparse(Parse(script)) = script *)
Theorem parse_script_unparse e bs ops : parse_script e bs = Some ops -> unparse ops = Some bs.
Proof. apply parse_ops_unparse. Qed.

(** dropping opcodes (a suffix, a filter) keeps Unparse successful and does not add bytes *)
Lemma unparse_filter_le f : forall ops b, unparse ops = Some b ->
  exists b', unparse (filter f ops) = Some b' /\ (length b' <= length b)%nat.
Proof.
  induction ops as [|p ops IH]; intros b H; cbn [unparse filter] in *.
  - exists []. split; [reflexivity|apply Nat.le_0_l].
  - destruct (pop_bytes p) as [x|] eqn:Ep; [|discriminate]. destruct (unparse ops) as [rest|]; [|discriminate].
    injection H as <-. destruct (IH rest eq_refl) as (b' & Hb' & Hl). destruct (f p).
    + exists (x ++ b'). cbn [unparse]. rewrite Ep, Hb'. split; [reflexivity|]. rewrite !app_length. lia.
    + exists b'. split; [exact Hb'|]. rewrite app_length. lia.
Qed.

Lemma unparse_skipn_le : forall n ops b, unparse ops = Some b ->
  exists b', unparse (skipn n ops) = Some b' /\ (length b' <= length b)%nat.
Proof.
  induction n as [|n IH]; intros ops b H; [exists b; split; [exact H|apply le_n]|].
  destruct ops as [|p ops]; [exists b; split; [exact H|apply le_n]|].
  cbn [unparse skipn] in *.
  destruct (pop_bytes p) as [x|]; [|discriminate]. destruct (unparse ops) as [rest|] eqn:Er; [|discriminate].
  injection H as <-. destruct (IH ops rest Er) as (b' & Hb' & Hl). exists b'. split; [exact Hb'|].
  rewrite app_length. lia.
Qed.

(** [unparse_of_parsed]: for every script accepted by the parser, every suffix of the parsed opcode list (the
    script code after a code separator), filtered in any way (signature pushes / separators removed), unparses,
    to at most as many bytes as the script had *)
Theorem unparse_of_parsed e bs ops n f : parse_script e bs = Some ops ->
  exists up, unparse (filter f (skipn n ops)) = Some up /\ (length up <= length bs)%nat.
Proof.
  intros H. apply parse_script_unparse in H.
  destruct (unparse_skipn_le n ops bs H) as (b1 & H1 & L1).
  destruct (unparse_filter_le f _ b1 H1) as (b2 & H2 & L2).
  exists b2. split; [exact H2|lia].
Qed.

Corollary unparse_suffix_of_parsed e bs ops n : parse_script e bs = Some ops ->
  exists up, unparse (skipn n ops) = Some up /\ (length up <= length bs)%nat.
Proof. intros H. rewrite <- (filter_true (skipn n ops)). eapply unparse_of_parsed. exact H. Qed.

(** the script code of OP_CHECKSIG, whatever the flags, the signature and the hash type *)
Theorem checksig_code_unparses e bs c s full shf : parse_script e bs = Some (cur s) ->
  exists up, unparse (checksig_code_ops c s full shf) = Some up /\ (length up <= length bs)%nat.
Proof.
  intros H. rewrite checksig_code_spec.
  destruct (has_flag c F_FORKID && flag_has shf sh_forkid)%bool;
    [eapply unparse_suffix_of_parsed|eapply unparse_of_parsed]; exact H.
Qed.

(** the script code of every signature of OP_CHECKMULTISIG *)
Theorem multisig_code_unparses e bs c s sigs shf : parse_script e bs = Some (cur s) ->
  exists up, unparse (sig_code_ops c (multisig_code_ops c s sigs) shf) = Some up /\ (length up <= length bs)%nat.
Proof.
  intros H. rewrite sig_code_spec, multisig_code_spec.
  destruct (has_flag c F_FORKID && flag_has shf sh_forkid)%bool; [eapply unparse_of_parsed; exact H|].
  rewrite filter_filter. eapply unparse_of_parsed. exact H.
Qed.

(** OP_CHECKSIG on a running script (the current script is a parse result): [checksig_result] without the
    Unparse hypothesis -- the script code unparses, and the pushed boolean is go-bk's verdict on the
    specification's digest of it *)
Theorem checksig_result_running orc t i c s idx pk full r sig hb inp e bs :
  parse_script e bs = Some (cur s) -> (lenN bs < two64)%N ->
  ds s = pk :: full :: r -> split_last full = Some (sig, hb) ->
  check_hash_type c (b2n hb) = true -> check_sig_enc c sig = EncOk -> check_pubkey_enc c pk = true ->
  wf_tx t -> nth_error (tx_ins t) (N.to_nat i) = Some inp -> (i < 2147483648)%N ->
  (N.of_nat (length (tx_outs t)) < 2147483648)%N ->
  exists up, unparse (checksig_code_ops c s full (b2n hb)) = Some up /\ (length up <= length bs)%nat /\
  let h := digest_spec (wire_tx t) (N.to_nat i) up (in_sats inp) (b2n hb) in
  checksig_run orc t i c s idx false =
  if orc_parse_pub orc pk && orc_parse_sig orc (uses_der_parser c) sig then
    match orc_verify orc pk h sig (uses_der_parser c) with
    | None => None
    | Some true => Some (push_bool (set_ds s r) true)
    | Some false => Some (checksig_failed c (set_ds s r) full)
    end
  else Some (checksig_failed c (set_ds s r) full).
Proof.
  intros Hp Hbs Hds Hsl H1 H2 H3 Hwf Hn Hi Ho.
  destruct (checksig_code_unparses e bs c s full (b2n hb) Hp) as (up & Hup & Hl).
  exists up. split; [exact Hup|]. split; [exact Hl|].
  apply (checksig_result orc t i c s idx pk full r sig hb up inp); try assumption.
  unfold lenN in *. lia.
Qed.

(** * 2. OP_CHECKMULTISIG against the specification's digest *)

(** "signature raw verifies under key pk", with the SPECIFICATION's digest ([digest_spec]: the FORKID digest with
    the spent value [amount], or the original digest, by the hash-type bit) of the signature's script code, on
    the wire transaction [wt] and input [n] -- no model digest in sight *)
Definition pair_ok_spec (orc : sig_oracle) (wt : transaction) (n : nat) (amount : N) (c : ctx) (script : list pop)
    (raw pk : bytes) : bool :=
  match split_last raw with
  | None => false
  | Some (sg, hb) =>
      orc_parse_sig orc (uses_der_parser c) sg && orc_parse_pub orc pk &&
      match unparse (sig_code_ops c script (b2n hb)) with
      | Some up =>
          match orc_verify orc pk (digest_spec wt n up amount (b2n hb)) sg (uses_der_parser c) with
          | Some true => true | _ => false end
      | None => false
      end
  end.

(** no hard error can arise, said without the model's digest: the enabled hash-type / DER checks pass and the
    signature's script code unparses to fewer than 2^64 bytes *)
Definition sig_well_encoded_spec (c : ctx) (script : list pop) (raw : bytes) : Prop :=
  match split_last raw with
  | None => True
  | Some (sg, hb) => check_hash_type c (b2n hb) = true /\ check_sig_enc c sg = EncOk /\
                     exists up, unparse (sig_code_ops c script (b2n hb)) = Some up /\ (lenN up < two64)%N
  end.

Section MultisigSpecDigest.
Variable orc : sig_oracle.
Variable t : tx.
Variable i : N.
Variable inp : input.
Hypothesis Hwf : wf_tx t.
Hypothesis Hin : nth_error (tx_ins t) (N.to_nat i) = Some inp.
Hypothesis Hi : (i < 2147483648)%N.
Hypothesis Hout : (N.of_nat (length (tx_outs t)) < 2147483648)%N.

Lemma sig_well_encoded_of_spec c script raw :
  sig_well_encoded_spec c script raw -> sig_well_encoded t i c script raw.
Proof.
  unfold sig_well_encoded_spec, sig_well_encoded. destruct (split_last raw) as [[sg hb]|]; [|auto].
  intros (H1 & H2 & up & Hup & Hl). split; [exact H1|]. split; [exact H2|].
  exists up. eexists. split; [exact Hup|].
  apply (sighash_for_spec t i up (b2n hb) inp Hwf Hin Hi Hout Hl (b2n_lt hb)).
Qed.

Lemma pair_ok_is_spec c script raw pk : sig_well_encoded_spec c script raw ->
  pair_ok orc t i c script raw pk = pair_ok_spec orc (wire_tx t) (N.to_nat i) (in_sats inp) c script raw pk.
Proof.
  unfold sig_well_encoded_spec, pair_ok, pair_ok_spec. destruct (split_last raw) as [[sg hb]|]; [|reflexivity].
  intros (_ & _ & up & Hup & Hl). rewrite Hup.
  rewrite (sighash_for_spec t i up (b2n hb) inp Hwf Hin Hi Hout Hl (b2n_lt hb)). reflexivity.
Qed.
End MultisigSpecDigest.

(** the matching only looks at the listed signatures *)
Lemma mm_ext_in {S K : Type} (ok ok' : S -> K -> Prop) ss ks :
  (forall s k, In s ss -> (ok s k <-> ok' s k)) -> monotone_matching ok ss ks -> monotone_matching ok' ss ks.
Proof.
  intros Hext H. induction H as [ks|s ss k ks Hok H IH|s ss k ks H IH].
  - constructor.
  - apply mm_take; [apply (Hext s k (or_introl eq_refl)); exact Hok|].
    apply IH. intros s' k' Hs'. apply Hext. right. exact Hs'.
  - apply mm_skip. apply IH. exact Hext.
Qed.

(** OP_CHECKMULTISIG end to end over the specification's digest: on a stack n :: keys(n) ++ m :: sigs(m) ++ dummy :: rest
    within the limits, with a null dummy under STRICTMULTISIG, keys and signatures passing the enabled encoding
    checks and script codes that unparse, the operation pushes [ok] (or fails under NULLFAIL) and [ok] is true
    exactly when the signatures match keys in key order, each pair verifying (go-bk) for [digest_spec] *)
Theorem checkmultisig_accepts_iff_matching_spec : forall orc t i c s idx nk pks ns sigs dummy rest a b inp,
  oracle_total orc ->
  wf_tx t -> nth_error (tx_ins t) (N.to_nat i) = Some inp -> (i < 2147483648)%N ->
  (N.of_nat (length (tx_outs t)) < 2147483648)%N ->
  ds s = nk :: pks ++ ns :: sigs ++ dummy :: rest ->
  pop_count c nk = Some a -> to_int32 a = Z.of_nat (length pks) ->
  pop_count c ns = Some b -> to_int32 b = Z.of_nat (length sigs) ->
  (length sigs <= length pks)%nat -> (Z.of_nat (length pks) <= max_pubkeys c)%Z ->
  (nops s + Z.of_nat (length pks) <= max_ops c)%Z ->
  (has_flag c F_STRICTMULTISIG = true -> dummy = []) ->
  Forall (key_well_encoded c) pks ->
  Forall (sig_well_encoded_spec c (multisig_code_ops c s sigs)) sigs ->
  exists ok,
    (ok = true <-> monotone_matching (fun sg k =>
        pair_ok_spec orc (wire_tx t) (N.to_nat i) (in_sats inp) c (multisig_code_ops c s sigs) sg k = true) sigs pks) /\
    checkmultisig_run orc t i c s idx false =
      if negb ok && has_flag c F_NULLFAIL && existsb (fun sg => Nat.ltb 0 (length sg)) sigs then Some OErr
      else Some (push_bool (set_nops (set_ds s rest) (nops s + Z.of_nat (length pks))) ok).
Proof.
  intros orc t i c s idx nk pks ns sigs dummy rest a b inp Horc Hwf Hin Hi Hout Hds Ha Ha' Hb Hb' Hle Hmax Hops Hdum Hk Hs.
  assert (Hs' : Forall (sig_well_encoded t i c (multisig_code_ops c s sigs)) sigs).
  { eapply Forall_impl; [|exact Hs]. intros raw. apply (sig_well_encoded_of_spec t i inp Hwf Hin Hi Hout). }
  destruct (checkmultisig_accepts_iff_matching orc t i c s idx nk pks ns sigs dummy rest a b
              Horc Hds Ha Ha' Hb Hb' Hle Hmax Hops Hdum Hk Hs') as (ok & Hiff & Hrun).
  exists ok. split; [|exact Hrun]. rewrite Hiff.
  assert (Hext : forall sg k, In sg sigs ->
            (pair_ok orc t i c (multisig_code_ops c s sigs) sg k = true <->
             pair_ok_spec orc (wire_tx t) (N.to_nat i) (in_sats inp) c (multisig_code_ops c s sigs) sg k = true)).
  { intros sg k Hsg. rewrite Forall_forall in Hs.
    rewrite (pair_ok_is_spec orc t i inp Hwf Hin Hi Hout c _ sg k (Hs sg Hsg)). reflexivity. }
  split; apply mm_ext_in; intros sg k Hsg; [|symmetry]; apply Hext; exact Hsg.
Qed.

(** the same on a running script: the Unparse / digest clauses of "well encoded" are theorems, only the
    hash-type and DER checks remain as hypotheses *)
Definition sig_checks_pass (c : ctx) (raw : bytes) : Prop :=
  match split_last raw with
  | None => True
  | Some (sg, hb) => check_hash_type c (b2n hb) = true /\ check_sig_enc c sg = EncOk
  end.

Theorem checkmultisig_accepts_iff_matching_running : forall orc t i c s idx nk pks ns sigs dummy rest a b inp e bs,
  oracle_total orc ->
  parse_script e bs = Some (cur s) -> (lenN bs < two64)%N ->
  wf_tx t -> nth_error (tx_ins t) (N.to_nat i) = Some inp -> (i < 2147483648)%N ->
  (N.of_nat (length (tx_outs t)) < 2147483648)%N ->
  ds s = nk :: pks ++ ns :: sigs ++ dummy :: rest ->
  pop_count c nk = Some a -> to_int32 a = Z.of_nat (length pks) ->
  pop_count c ns = Some b -> to_int32 b = Z.of_nat (length sigs) ->
  (length sigs <= length pks)%nat -> (Z.of_nat (length pks) <= max_pubkeys c)%Z ->
  (nops s + Z.of_nat (length pks) <= max_ops c)%Z ->
  (has_flag c F_STRICTMULTISIG = true -> dummy = []) ->
  Forall (key_well_encoded c) pks ->
  Forall (sig_checks_pass c) sigs ->
  exists ok,
    (ok = true <-> monotone_matching (fun sg k =>
        pair_ok_spec orc (wire_tx t) (N.to_nat i) (in_sats inp) c (multisig_code_ops c s sigs) sg k = true) sigs pks) /\
    checkmultisig_run orc t i c s idx false =
      if negb ok && has_flag c F_NULLFAIL && existsb (fun sg => Nat.ltb 0 (length sg)) sigs then Some OErr
      else Some (push_bool (set_nops (set_ds s rest) (nops s + Z.of_nat (length pks))) ok).
Proof.
  intros orc t i c s idx nk pks ns sigs dummy rest a b inp e bs Horc Hp Hbs Hwf Hin Hi Hout Hds Ha Ha' Hb Hb' Hle Hmax Hops Hdum Hk Hs.
  apply (checkmultisig_accepts_iff_matching_spec orc t i c s idx nk pks ns sigs dummy rest a b inp); try assumption.
  eapply Forall_impl; [|exact Hs]. intros raw. unfold sig_checks_pass, sig_well_encoded_spec.
  destruct (split_last raw) as [[sg hb]|]; [|auto]. intros [H1 H2]. split; [exact H1|]. split; [exact H2|].
  destruct (multisig_code_unparses e bs c s sigs (b2n hb) Hp) as (up & Hup & Hl).
  exists up. split; [exact Hup|]. unfold lenN in *. lia.
Qed.

(** * 3. The flag table of OP_CHECKSIG for both values of the BIP143 flag *)

(** checkHashTypeEncoding reads three flags; the same statements over three booleans *)
Definition check_hash_type_b (strictenc forkid bip143 : bool) (shf : N) : bool :=
  if negb strictenc then true
  else
    let t0 := N.land shf 127 in
    let t1 := if bip143 then N.lxor t0 sh_forkid else t0 in
    if bip143 && (N.land shf sh_forkid =? 0)%N then false
    else if negb (flag_has t1 sh_forkid) then
      if (t1 <? sh_all)%N || (sh_single <? t1)%N then false
      else if forkid && negb (flag_has shf sh_forkid) then false
      else true
    else if (t1 <? 65)%N || (67 <? t1)%N then false
    else if negb forkid && flag_has shf sh_forkid then false
    else true.

Lemma check_hash_type_as_b c shf :
  check_hash_type c shf = check_hash_type_b (has_flag c F_STRICTENC) (has_flag c F_FORKID) (has_flag c F_BIP143) shf.
Proof. reflexivity. Qed.

(** the rule for every flag word: STRICTENC demands a defined base type and the FORKID bit exactly when the
    FORKID flag OR the BIP143 flag is set (with BIP143 the bit is demanded whatever the FORKID flag says) *)
Definition hash_type_rule_all (strictenc forkid bip143 : bool) (shf : N) : bool :=
  negb strictenc || (base_defined shf && Bool.eqb (forkid_bit shf) (forkid || bip143)).

(** the finite sweep: 2 x 2 x 2 flag values x 256 hash-type bytes = 2048 cases, computed *)
Definition all_bools : list bool := [true; false].
Definition all_hash_types : list N := map N.of_nat (seq 0 256).
Definition hash_type_sweep : bool :=
  forallb (fun se => forallb (fun fk => forallb (fun b143 => forallb (fun shf =>
    Bool.eqb (check_hash_type_b se fk b143 shf) (hash_type_rule_all se fk b143 shf))
    all_hash_types) all_bools) all_bools) all_bools.

Lemma hash_type_sweep_ok : hash_type_sweep = true.
Proof. vm_compute. reflexivity. Qed.

Lemma in_all_bools b : In b all_bools.
Proof. destruct b; cbn; auto. Qed.
Lemma in_all_hash_types shf : (shf < 256)%N -> In shf all_hash_types.
Proof.
  intros H. unfold all_hash_types. apply in_map_iff. exists (N.to_nat shf). split; [apply N2Nat.id|].
  apply (proj2 (List.in_seq 256 0 (N.to_nat shf))). lia.
Qed.

Theorem check_hash_type_rule_all c shf : (shf < 256)%N ->
  check_hash_type c shf =
  hash_type_rule_all (has_flag c F_STRICTENC) (has_flag c F_FORKID) (has_flag c F_BIP143) shf.
Proof.
  intros Hs. rewrite check_hash_type_as_b.
  pose proof hash_type_sweep_ok as H. unfold hash_type_sweep in H.
  rewrite forallb_forall in H. specialize (H _ (in_all_bools (has_flag c F_STRICTENC))).
  rewrite forallb_forall in H. specialize (H _ (in_all_bools (has_flag c F_FORKID))).
  rewrite forallb_forall in H. specialize (H _ (in_all_bools (has_flag c F_BIP143))).
  rewrite forallb_forall in H. specialize (H _ (in_all_hash_types shf Hs)).
  apply eqb_prop. exact H.
Qed.

(** with the BIP143 flag off this is the rule of [check_hash_type_rule] *)
Lemma hash_type_rule_all_off se fk shf : hash_type_rule_all se fk false shf = hash_type_rule se fk shf.
Proof. unfold hash_type_rule_all, hash_type_rule. rewrite orb_false_r. reflexivity. Qed.

(** the table for every flag word: the two FORKID-bit rows read the BIP143 flag as well *)
Definition hard_all (c : ctx) (d : defect) : bool :=
  match d with
  | ForkIdBit => has_flag c F_STRICTENC && negb (has_flag c F_FORKID || has_flag c F_BIP143)
  | NoForkIdBit => has_flag c F_STRICTENC && (has_flag c F_FORKID || has_flag c F_BIP143)
  | _ => hard c d
  end.

Lemma hard_all_bip143_off c d : has_flag c F_BIP143 = false -> hard_all c d = hard c d.
Proof. intros H. destruct d; cbn [hard_all hard]; rewrite ?H, ?orb_false_r; reflexivity. Qed.

(** OP_CHECKSIG on a non-empty signature, for EVERY flag word (BIP143 on or off): a hard failure exactly when the
    pair has a defect that [hard_all] marks; otherwise the ECDSA verdict is pushed *)
Theorem checksig_table_all_flags orc c t i s idx pk full r sig hb up h :
  ds s = pk :: full :: r -> split_last full = Some (sig, hb) ->
  unparse (checksig_code_ops c s full (b2n hb)) = Some up -> sighash_for t i up (b2n hb) = SOk h ->
  orc_verify orc pk h sig (uses_der_parser c) <> None ->
  let verdict := orc_parse_pub orc pk && orc_parse_sig orc (uses_der_parser c) sig &&
                 match orc_verify orc pk h sig (uses_der_parser c) with Some true => true | _ => false end in
  ((exists d, has_defect orc c pk sig (b2n hb) h d /\ hard_all c d = true) ->
     checksig_run orc t i c s idx false = Some OErr) /\
  (~ (exists d, has_defect orc c pk sig (b2n hb) h d /\ hard_all c d = true) ->
     checksig_run orc t i c s idx false = Some (push_bool (set_ds s r) verdict)).
Proof.
  intros Hds Hsl Hup Hh Hv verdict.
  assert (Hshf : (b2n hb < 256)%N) by apply b2n_lt.
  unfold checksig_run. rewrite Hds, Hsl. cbn [option_map finish_verify].
  rewrite (check_hash_type_rule_all c (b2n hb) Hshf).
  pose proof (check_sig_enc_rule c sig) as Hse. pose proof (check_sig_enc_total c sig) as Htot.
  pose proof (check_pubkey_enc_spec c pk) as Hpk.
  destruct (hash_type_rule_all (has_flag c F_STRICTENC) (has_flag c F_FORKID) (has_flag c F_BIP143) (b2n hb)) eqn:Eht;
    cbn [negb option_map].
  2:{ split; [reflexivity|]. intros Hn. exfalso. apply Hn. unfold hash_type_rule_all in Eht.
      destruct (has_flag c F_STRICTENC) eqn:Es; [|discriminate]. cbn [negb orb] in Eht.
      destruct (base_defined (b2n hb)) eqn:Ebd; [|exists HashTypeUndefined; cbn; rewrite Es; auto].
      cbn [andb] in Eht.
      destruct (forkid_bit (b2n hb)) eqn:Efb; destruct (has_flag c F_FORKID || has_flag c F_BIP143)%bool eqn:Efk; try discriminate.
      - exists ForkIdBit. cbn [has_defect hard_all]. rewrite Es, Efk. auto.
      - exists NoForkIdBit. cbn [has_defect hard_all]. rewrite Es, Efk. auto. }
  destruct (check_sig_enc c sig) eqn:Ese; cbn [option_map].
  2:{ split; [reflexivity|]. intros Hn. exfalso. apply Hn.
      destruct (has_flag c F_DERSIG || has_flag c F_LOWS || has_flag c F_STRICTENC)%bool eqn:Ef.
      - destruct (has_flag c F_LOWS) eqn:El.
        + assert (Hns : ~ strict_der_low_s sig).
          { intros Hl. assert (EncErr = EncOk); [|discriminate]. apply Hse. split; [intros _|intros _; exact Hl].
            destruct Hl as (R & Sv & H1 & H2 & H3 & H4 & _). exists R, Sv. auto. }
          destruct (check_sig_enc_total (mkCtx (N.lor (N.shiftl 1 F_DERSIG) 0) false 0 0 0 false) sig) as [Eo|Ee].
          * exists HighS. cbn [has_defect hard_all hard]. split; [split; [|exact Hns]|exact El].
            apply (der_check_spec (mkCtx (N.lor (N.shiftl 1 F_DERSIG) 0) false 0 0 0 false) sig); [reflexivity|reflexivity|exact Eo].
          * exists NotStrictDER. cbn [has_defect hard_all hard]. split; [|rewrite El; exact Ef]. intros Hsd.
            apply (der_check_spec (mkCtx (N.lor (N.shiftl 1 F_DERSIG) 0) false 0 0 0 false) sig) in Hsd; [congruence|reflexivity|reflexivity].
        + exists NotStrictDER. cbn [has_defect hard_all hard]. split; [|rewrite El; exact Ef]. intros Hsd.
          assert (EncErr = EncOk); [|discriminate]. apply Hse. split; [intros _; exact Hsd|discriminate].
      - assert (EncErr = EncOk); [|discriminate]. apply Hse. split; [discriminate|]. intros Hl. rewrite Hl, orb_true_r in Ef. discriminate. }
  2:{ destruct Htot; congruence. }
  destruct (check_pubkey_enc c pk) eqn:Epk; cbn [negb option_map].
  2:{ split; [reflexivity|]. intros Hn. exfalso. apply Hn. exists PubKeyShape. cbn [has_defect hard_all hard].
      destruct (has_flag c F_STRICTENC) eqn:Es.
      - split; [|reflexivity]. intros Hok. assert (false = true); [|discriminate]. apply Hpk. auto.
      - assert (false = true); [|discriminate]. apply Hpk. discriminate. }
  rewrite Hup, Hh.
  assert (Hnoenc : forall d, has_defect orc c pk sig (b2n hb) h d -> hard_all c d = true ->
                   d = VerifyFails \/ d = Unparsable).
  { intros d Hd Hh'. destruct d; cbn [has_defect hard_all hard] in Hd, Hh'; try discriminate; try (left; reflexivity); try (right; reflexivity); exfalso.
    - unfold hash_type_rule_all in Eht. rewrite Hh', Hd in Eht. discriminate.
    - unfold hash_type_rule_all in Eht. apply andb_true_iff in Hh'. destruct Hh' as [H1 H2]. rewrite H1, Hd in Eht.
      destruct (has_flag c F_FORKID || has_flag c F_BIP143)%bool; [discriminate|]. rewrite andb_false_r in Eht. discriminate.
    - unfold hash_type_rule_all in Eht. apply andb_true_iff in Hh'. destruct Hh' as [H1 H2]. rewrite H1, H2, Hd in Eht.
      rewrite andb_false_r in Eht. discriminate.
    - apply Hd. apply Hse; [reflexivity|exact Hh'].
    - destruct Hd as [_ Hd]. apply Hd. apply Hse; [reflexivity|exact Hh'].
    - apply Hd. apply Hpk; [reflexivity|exact Hh']. }
  assert (Hfull : Nat.ltb 0 (length full) = true).
  { unfold split_last in Hsl. destruct full as [|f0 fr]; [discriminate|reflexivity]. }
  unfold verdict, checksig_failed. rewrite Hfull, andb_true_r.
  destruct (orc_parse_pub orc pk) eqn:Epp; cbn [negb andb].
  2:{ destruct (has_flag c F_NULLFAIL) eqn:Enf.
      - split; [reflexivity|]. intros Hn. exfalso. apply Hn. exists Unparsable. cbn [has_defect hard_all hard]. rewrite Enf. auto.
      - split; [|reflexivity]. intros (d & Hd & Hh'). specialize (Hnoenc d Hd Hh'). destruct Hnoenc as [-> | ->]; cbn [hard_all hard] in Hh'; congruence. }
  destruct (orc_parse_sig orc (uses_der_parser c) sig) eqn:Eps; cbn [negb andb].
  2:{ destruct (has_flag c F_NULLFAIL) eqn:Enf.
      - split; [reflexivity|]. intros Hn. exfalso. apply Hn. exists Unparsable. cbn [has_defect hard_all hard]. rewrite Enf. auto.
      - split; [|reflexivity]. intros (d & Hd & Hh'). specialize (Hnoenc d Hd Hh'). destruct Hnoenc as [-> | ->]; cbn [hard_all hard] in Hh'; congruence. }
  destruct (orc_verify orc pk h sig (uses_der_parser c)) as [[|]|] eqn:Ev; [| |congruence].
  - split; [|reflexivity]. intros (d & Hd & Hh'). specialize (Hnoenc d Hd Hh'). destruct Hnoenc as [-> | ->]; cbn [has_defect] in Hd.
    + destruct Hd as (_ & _ & Hd). congruence.
    + destruct Hd; congruence.
  - destruct (has_flag c F_NULLFAIL) eqn:Enf.
    + split; [reflexivity|]. intros Hn. exfalso. apply Hn. exists VerifyFails. cbn [has_defect hard_all hard]. rewrite Enf. auto.
    + split; [|reflexivity]. intros (d & Hd & Hh'). specialize (Hnoenc d Hd Hh'). destruct Hnoenc as [-> | ->]; cbn [hard_all hard] in Hh'; congruence.
Qed.

(** in particular for both values of the BIP143 flag, in the words of [checksig_table] *)
Corollary checksig_table_both_bip143 orc c t i s idx pk full r sig hb up h (b143 : bool) :
  has_flag c F_BIP143 = b143 ->
  ds s = pk :: full :: r -> split_last full = Some (sig, hb) ->
  unparse (checksig_code_ops c s full (b2n hb)) = Some up -> sighash_for t i up (b2n hb) = SOk h ->
  orc_verify orc pk h sig (uses_der_parser c) <> None ->
  let verdict := orc_parse_pub orc pk && orc_parse_sig orc (uses_der_parser c) sig &&
                 match orc_verify orc pk h sig (uses_der_parser c) with Some true => true | _ => false end in
  let table d := match d with
                 | ForkIdBit => has_flag c F_STRICTENC && negb (has_flag c F_FORKID || b143)
                 | NoForkIdBit => has_flag c F_STRICTENC && (has_flag c F_FORKID || b143)
                 | _ => hard c d
                 end in
  ((exists d, has_defect orc c pk sig (b2n hb) h d /\ table d = true) ->
     checksig_run orc t i c s idx false = Some OErr) /\
  (~ (exists d, has_defect orc c pk sig (b2n hb) h d /\ table d = true) ->
     checksig_run orc t i c s idx false = Some (push_bool (set_ds s r) verdict)).
Proof.
  intros <-. apply checksig_table_all_flags.
Qed.

(** the table spelled out for the 128 subsets of {STRICTENC, DERSIG, LOW_S, NULLDUMMY, NULLFAIL, FORKID, BIP143}
    ([flags_of7]: the flag word after apply's normalisation; computed) *)
Definition flags_of7 (strictenc dersig lows nulldummy nullfail forkid bip143 : bool) : ctx :=
  let bit (b : bool) (k : N) := if b then N.shiftl 1 k else 0%N in
  mkCtx (normalise_flags (N.lor (bit bip143 F_BIP143) (N.lor (bit strictenc F_STRICTENC) (N.lor (bit dersig F_DERSIG)
          (N.lor (bit lows F_LOWS) (N.lor (bit nulldummy F_STRICTMULTISIG) (N.lor (bit nullfail F_NULLFAIL) (bit forkid F_FORKID))))))))
        true 0 1 0 false.

Lemma flag_table_128 : forall se de lo nd nf fk b143,
  let c := flags_of7 se de lo nd nf fk b143 in
  has_flag c F_BIP143 = b143 /\
  hard_all c HashTypeUndefined = (se || fk) /\
  hard_all c ForkIdBit = ((se || fk) && negb (fk || b143)) /\
  hard_all c NoForkIdBit = ((se || fk) && (fk || b143)) /\
  hard_all c NotStrictDER = (de || lo || se || fk) /\
  hard_all c HighS = lo /\
  hard_all c PubKeyShape = (se || fk) /\
  hard_all c VerifyFails = nf /\
  hard_all c Unparsable = nf.
Proof. intros [|] [|] [|] [|] [|] [|] [|]; vm_compute; repeat split. Qed.

Lemma flags_of7_off se de lo nd nf fk : flags_of7 se de lo nd nf fk false = flags_of se de lo nd nf fk.
Proof. destruct se, de, lo, nd, nf, fk; reflexivity. Qed.

(** * 4. The code start along a run, across script changes *)

(** the steps run_ops takes, in order: (index, opcode, state before the step) *)
Definition step := (nat * pop * st)%type.
Fixpoint run_steps (so : sigops) (c : ctx) (ops : list pop) (idx : nat) (s : st) : list step :=
  match ops with
  | [] => []
  | p :: rest =>
      (idx, p, s) ::
      match execute_opcode so c p idx s with
      | OOk s' => if (max_stack c <? lenZ (ds s') + lenZ (als s'))%Z then [] else run_steps so c rest (S idx) s'
      | _ => []
      end
  end.

(** how the last step ends the script *)
Definition step_end (c : ctx) (o : outcome) : script_end :=
  match o with
  | OOk s' => if (max_stack c <? lenZ (ds s') + lenZ (als s'))%Z then SErr else SEnd s'
  | OReturn s' => SReturn s'
  | OErr => SErr
  | OPanic => SPanic
  end.

(** [run_steps] is the list of execute_opcode calls of [run_ops]: each step's outcome is the next step's state,
    and the outcome of the last step is how run_ops ends *)
Lemma run_steps_chain so c : forall ops idx s pre k p s1 k' p' s2 post,
  run_steps so c ops idx s = pre ++ (k, p, s1) :: (k', p', s2) :: post ->
  execute_opcode so c p k s1 = OOk s2 /\ k' = S k.
Proof.
  induction ops as [|q rest IH]; intros idx s pre k p s1 k' p' s2 post H; cbn [run_steps] in H.
  - destruct pre; discriminate.
  - destruct pre as [|x pre]; cbn [app] in H.
    + injection H as E1 E2 E3 H. subst idx q s.
      destruct (execute_opcode so c p k s1) as [s'| | |]; try discriminate.
      destruct (max_stack c <? lenZ (ds s') + lenZ (als s'))%Z; [discriminate|].
      destruct rest as [|q2 rest2]; [discriminate|]. cbn [run_steps] in H. injection H as E1 E2 E3 _. subst. auto.
    + injection H as _ H.
      destruct (execute_opcode so c q idx s) as [s'| | |]; try (destruct pre; discriminate).
      destruct (max_stack c <? lenZ (ds s') + lenZ (als s'))%Z; [destruct pre; discriminate|].
      eapply IH. exact H.
Qed.

Lemma run_ops_last_step so c : forall ops idx s acc, ops <> [] ->
  exists pre k p sl, run_steps so c ops idx s = pre ++ [(k, p, sl)] /\
                     fst (run_ops so c ops idx s acc) = step_end c (execute_opcode so c p k sl).
Proof.
  induction ops as [|q rest IH]; intros idx s acc Hne; [congruence|].
  cbn [run_steps run_ops].
  destruct (execute_opcode so c q idx s) as [s'|s'| |] eqn:Ee;
    try (exists [], idx, q, s; rewrite Ee; split; reflexivity).
  destruct (max_stack c <? lenZ (ds s') + lenZ (als s'))%Z eqn:Em;
    [exists [], idx, q, s; rewrite Ee; cbn [step_end]; rewrite Em; split; reflexivity|].
  destruct rest as [|q2 rest2].
  - exists [], idx, q, s. rewrite Ee. cbn [step_end run_steps]. rewrite Em. split; reflexivity.
  - destruct (IH (S idx) s' (snap s' :: acc) ltac:(discriminate)) as (pre & k & p & sl & Hs & Hr).
    exists ((idx, q, s) :: pre), k, p, sl. rewrite Hs. split; [reflexivity|exact Hr].
Qed.

(** an OP_CODESEPARATOR that is executed (not in a skipped branch, not after an early return) *)
Definition sep_executed (c : ctx) (p : pop) (s : st) : bool :=
  (p_val p =? OP_CODESEPARATOR)%N && branch_executing s && should_exec c s (p_val p).

(** the code start after the steps [tr], from the start [g]: the index after the LAST step of [tr] that executed a
    separator, [g] when there is none *)
Definition code_start_after (c : ctx) (g : nat) (tr : list step) : nat :=
  fold_left (fun acc (x : step) => let '(k, p, s) := x in if sep_executed c p s then S k else acc) tr g.

Lemma code_start_after_snoc c g tr k p s :
  code_start_after c g (tr ++ [(k, p, s)]) = if sep_executed c p s then S k else code_start_after c g tr.
Proof. unfold code_start_after. rewrite fold_left_app. reflexivity. Qed.

Lemma code_start_after_nil c g : code_start_after c g [] = g.
Proof. reflexivity. Qed.

Lemma skipn_cons_next {A} (l : list A) : forall n x r, skipn n l = x :: r -> nth_error l n = Some x /\ skipn (S n) l = r.
Proof.
  induction l as [|a l IH]; intros [|n] x r H; cbn [skipn] in *; try discriminate.
  - injection H as -> ->. split; reflexivity.
  - apply IH. exact H.
Qed.

(** every step of a script run works on the script being run, at an opcode of it, with the code start after the
    most recently executed separator of THIS run *)
Theorem run_steps_code_start orc t i c ops_all : forall ops idx s pre k p sk post,
  skipn idx ops_all = ops -> cur s = ops_all ->
  run_steps (mk_sigops orc t i) c ops idx s = pre ++ (k, p, sk) :: post ->
  cur sk = ops_all /\ nth_error ops_all k = Some p /\
  last_sep sk = code_start_after c (last_sep s) pre.
Proof.
  induction ops as [|q rest IH]; intros idx s pre k p sk post Hsk Hc H; cbn [run_steps] in H.
  - destruct pre; discriminate.
  - destruct (skipn_cons_next ops_all idx q rest Hsk) as [Hq Hsk'].
    destruct pre as [|x pre]; cbn [app] in H.
    + injection H as E1 E2 E3 _. subst. split; [reflexivity|]. split; [exact Hq|reflexivity].
    + injection H as <- H.
      destruct (execute_opcode (mk_sigops orc t i) c q idx s) as [s'| | |] eqn:Ee; try (destruct pre; discriminate).
      destruct (max_stack c <? lenZ (ds s') + lenZ (als s'))%Z; [destruct pre; discriminate|].
      destruct (step_code_start orc t i c q idx s s' (or_introl Ee)) as [Hc' Hl'].
      destruct (IH (S idx) s' pre k p sk post Hsk' ltac:(congruence) H) as (A & B & C).
      split; [exact A|]. split; [exact B|]. rewrite C, Hl'. reflexivity.
Qed.

(** what a signature opcode's handler is called with: the state before the step with the operation count
    charged -- same current script, same code start -- unless the step fails before, or the opcode is in a
    branch that is not executed *)
Lemma execute_sigop_call so c p idx s :
  let s1 := set_nops s (nops s + 1)%Z in
  let o := execute_opcode so c p idx s in
  (p_val p = OP_CHECKSIG -> o = OErr \/ o = OPanic \/ o = OOk s1 \/ o = so_checksig so c s1 idx false) /\
  (p_val p = OP_CHECKSIGVERIFY -> o = OErr \/ o = OPanic \/ o = OOk s1 \/ o = so_checksig so c s1 idx true) /\
  (p_val p = OP_CHECKMULTISIG -> o = OErr \/ o = OPanic \/ o = OOk s1 \/ o = so_checkmultisig so c s1 idx false) /\
  (p_val p = OP_CHECKMULTISIGVERIFY -> o = OErr \/ o = OPanic \/ o = OOk s1 \/ o = so_checkmultisig so c s1 idx true).
Proof.
  cbv zeta. repeat split; intros Hv; unfold execute_opcode; rewrite Hv; cbv zeta.
  all: match goal with |- context [(max_elem ?cc <? ?x)%Z] => destruct (max_elem cc <? x)%Z end; [left; reflexivity|].
  all: match goal with |- context [is_disabled ?v] => change (is_disabled v) with false end; cbn [andb].
  all: match goal with |- context [always_illegal ?v] => change (always_illegal v) with false end; cbn [andb].
  all: match goal with |- context [(OP_16 <? ?v)%N] => change (OP_16 <? v)%N with true end; cbn [andb].
  all: match goal with |- context [(max_ops ?cc <? ?x)%Z] => destruct (max_ops cc <? x)%Z end; [left; reflexivity|].
  all: match goal with |- context [is_conditional ?v] => change (is_conditional v) with false end; cbn [negb andb].
  all: rewrite ?andb_true_r.
  all: match goal with |- context [negb (branch_executing ?x)] => destruct (negb (branch_executing x)) end; [right; right; left; reflexivity|].
  all: match goal with |- context [(?v <=? OP_PUSHDATA4)%N] => change (v <=? OP_PUSHDATA4)%N with false end.
  all: rewrite ?andb_false_r; cbn [andb].
  all: match goal with |- context [negb (should_exec ?cc ?ss ?v)] => destruct (negb (should_exec cc ss v)) end;
       [right; right; left; reflexivity|].
  all: unfold exec_handler; rewrite Hv; match goal with |- context [negb (p_real ?pp)] => destruct (negb (p_real pp)) end; [right; left; reflexivity|].
  all: right; right; right; reflexivity.
Qed.

Lemma sub_script_set_nops s n : sub_script (set_nops s n) = sub_script s.
Proof. reflexivity. Qed.

(** a state at the start of a script: [init_st] (first script), [shift_script] (the locking script after the
    unlocking script, with or without early return), and [shift_script] with the saved stack installed (the P2SH
    redeem script) -- the start states of the four run_ops calls of [execute] / [run_lock] / [run_redeem] *)
Definition script_start (ops : list pop) (s : st) : Prop := cur s = ops /\ last_sep s = 0%nat.

Lemma script_start_shapes ops s d :
  script_start ops (init_st ops) /\ script_start ops (shift_script s ops) /\
  script_start ops (set_ds (shift_script s ops) d).
Proof. repeat split. Qed.

(** the run-level statement: in the run of ANY script of an execution (unlocking, locking, redeem: started by
    shiftScript's reset, so the separators of the previous script are forgotten), at every step the script code
    that a signature opcode cuts -- [sub_script] of the state its handler receives -- is the suffix of the
    CURRENT script after the most recently executed OP_CODESEPARATOR of THIS script's run (the whole script when
    none was executed) *)
Theorem code_start_along_run orc t i c ops s0 pre k p sk post :
  script_start ops s0 ->
  run_steps (mk_sigops orc t i) c ops 0 s0 = pre ++ (k, p, sk) :: post ->
  nth_error ops k = Some p /\
  sub_script (set_nops sk (nops sk + 1)%Z) = skipn (code_start_after c 0 pre) ops /\
  forall full shf,
    checksig_code_ops c (set_nops sk (nops sk + 1)%Z) full shf =
    if has_flag c F_FORKID && flag_has shf sh_forkid then skipn (code_start_after c 0 pre) ops
    else filter (kept full) (skipn (code_start_after c 0 pre) ops).
Proof.
  intros [Hc Hl] H.
  destruct (run_steps_code_start orc t i c ops ops 0 s0 pre k p sk post eq_refl Hc H) as (A & B & C).
  rewrite Hl in C. split; [exact B|].
  assert (Hsub : sub_script (set_nops sk (nops sk + 1)%Z) = skipn (code_start_after c 0 pre) ops).
  { unfold sub_script. cbn [set_nops last_sep cur]. rewrite A, C. reflexivity. }
  split; [exact Hsub|]. intros full shf. rewrite checksig_code_spec. cbn [set_nops last_sep cur]. rewrite A, C. reflexivity.
Qed.

(** ** the whole execution: a guard on every signature-opcode call *)

(** the code start lies within the executed part of the current script and is 0 or the index right after an
    OP_CODESEPARATOR opcode of the CURRENT script *)
Definition code_guard (s : st) (idx : nat) : bool :=
  (last_sep s <=? idx)%nat &&
  match last_sep s with
  | O => true
  | S j => match nth_error (cur s) j with Some q => (p_val q =? OP_CODESEPARATOR)%N | None => false end
  end.

(** signature operations that panic when called in a state violating the guard *)
Definition guarded (so : sigops) : sigops :=
  mkSigops (fun c s idx vf => if code_guard s idx then so_checksig so c s idx vf else OPanic)
           (fun c s idx vf => if code_guard s idx then so_checkmultisig so c s idx vf else OPanic).

Lemma exec_handler_guarded so c p idx s : code_guard s idx = true ->
  exec_handler (guarded so) c p idx s = exec_handler so c p idx s.
Proof. intros H. unfold exec_handler. cbn [guarded so_checksig so_checkmultisig]. rewrite H. reflexivity. Qed.

Lemma execute_opcode_guarded so c p idx s : code_guard s idx = true ->
  execute_opcode (guarded so) c p idx s = execute_opcode so c p idx s.
Proof.
  intros H. unfold execute_opcode. cbv zeta.
  rewrite exec_handler_guarded; [reflexivity|]. destruct (OP_16 <? p_val p)%N; exact H.
Qed.

Lemma code_guard_step orc t i c ops_all p idx s s' :
  cur s = ops_all -> nth_error ops_all idx = Some p -> code_guard s idx = true ->
  execute_opcode (mk_sigops orc t i) c p idx s = OOk s' ->
  cur s' = ops_all /\ code_guard s' (S idx) = true.
Proof.
  intros Hc Hp Hg He. destruct (step_code_start orc t i c p idx s s' (or_introl He)) as [Hc' Hl'].
  split; [congruence|]. unfold code_guard in *. rewrite Hl', Hc', Hc.
  destruct ((p_val p =? OP_CODESEPARATOR)%N && branch_executing s && should_exec c s (p_val p))%bool eqn:E.
  - rewrite Hp. apply andb_true_iff in E. destruct E as [E _]. apply andb_true_iff in E. destruct E as [E _].
    rewrite E, Nat.leb_refl. reflexivity.
  - apply andb_true_iff in Hg. destruct Hg as [G1 G2]. rewrite Hc in G2. rewrite G2, andb_true_r.
    apply Nat.leb_le. apply Nat.leb_le in G1. lia.
Qed.

Lemma run_ops_guarded orc t i c ops_all : forall ops idx s acc,
  skipn idx ops_all = ops -> cur s = ops_all -> code_guard s idx = true ->
  run_ops (guarded (mk_sigops orc t i)) c ops idx s acc = run_ops (mk_sigops orc t i) c ops idx s acc.
Proof.
  induction ops as [|q rest IH]; intros idx s acc Hsk Hc Hg; [reflexivity|].
  destruct (skipn_cons_next ops_all idx q rest Hsk) as [Hq Hsk'].
  cbn [run_ops]. rewrite (execute_opcode_guarded _ c q idx s Hg).
  destruct (execute_opcode (mk_sigops orc t i) c q idx s) as [s'| | |] eqn:Ee; try reflexivity.
  destruct (code_guard_step orc t i c ops_all q idx s s' Hc Hq Hg Ee) as [Hc' Hg'].
  destruct (max_stack c <? lenZ (ds s') + lenZ (als s'))%Z; [reflexivity|].
  destruct rest as [|q2 rest2]; [reflexivity|]. apply IH; assumption.
Qed.

Lemma run_script_guarded orc t i c ops s acc : script_start ops s ->
  run_ops (guarded (mk_sigops orc t i)) c ops 0 s acc = run_ops (mk_sigops orc t i) c ops 0 s acc.
Proof.
  intros [Hc Hl]. apply (run_ops_guarded orc t i c ops); [reflexivity|exact Hc|].
  unfold code_guard. rewrite Hl. reflexivity.
Qed.

Lemma run_redeem_guarded orc t i c saved s acc :
  run_redeem (guarded (mk_sigops orc t i)) c saved s acc = run_redeem (mk_sigops orc t i) c saved s acc.
Proof.
  unfold run_redeem. destruct (negb (check_error_condition c false (ds s))); [reflexivity|].
  destruct saved as [|script below]; [reflexivity|].
  destruct (parse_script (c_err_on_checksig c) script) as [ops|]; [|reflexivity].
  destruct ops as [|q ops]; [reflexivity|].
  rewrite run_script_guarded; [reflexivity|]. split; reflexivity.
Qed.

Lemma run_lock_guarded orc t i c bip16 saved lock s acc : script_start lock s ->
  run_lock (guarded (mk_sigops orc t i)) c bip16 saved lock s acc = run_lock (mk_sigops orc t i) c bip16 saved lock s acc.
Proof.
  intros Hs. unfold run_lock. rewrite (run_script_guarded orc t i c lock s acc Hs).
  destruct (run_ops (mk_sigops orc t i) c lock 0 s acc) as [[s2|s2| |] acc']; try reflexivity.
  destruct (end_script s2) as [s3|]; [|reflexivity].
  destruct (bip16 && negb (after_genesis c))%bool; [apply run_redeem_guarded|reflexivity].
Qed.

(** in a whole execution -- unlocking script, locking script, P2SH redeem script -- EVERY call of a signature
    opcode's handler happens in a state satisfying the guard: replacing the handlers by ones that panic when it is
    violated changes nothing *)
Theorem execute_guarded orc t i c bip16 unlock lock :
  execute (guarded (mk_sigops orc t i)) c bip16 unlock lock = execute (mk_sigops orc t i) c bip16 unlock lock.
Proof.
  unfold execute. destruct unlock as [|u0 unlock].
  - destruct lock as [|l0 lock]; [reflexivity|]. apply run_lock_guarded. split; reflexivity.
  - rewrite run_script_guarded by (split; reflexivity).
    destruct (run_ops (mk_sigops orc t i) c (u0 :: unlock) 0 (init_st (u0 :: unlock)) []) as [[s1|s1| |] acc]; try reflexivity.
    + destruct (end_script s1) as [s2|]; [|reflexivity]. cbv zeta.
      destruct lock as [|l0 lock]; [reflexivity|]. apply run_lock_guarded. split; reflexivity.
    + cbv zeta. destruct lock as [|l0 lock]; [reflexivity|]. apply run_lock_guarded. split; reflexivity.
Qed.

Theorem engine_execute_guarded orc t i inp :
  engine_execute (guarded (mk_sigops orc t i)) inp = engine_execute (mk_sigops orc t i) inp.
Proof.
  unfold engine_execute. cbv zeta.
  destruct (ei_unlock inp) as [|u0 ub]; destruct (ei_lock inp) as [|l0 lb]; try reflexivity.
  all: repeat match goal with
       | |- (if ?b then _ else _) = (if ?b then _ else _) => destruct b; [reflexivity|]
       | |- match ?x with Some _ => _ | None => _ end = match ?x with Some _ => _ | None => _ end => destruct x; [|reflexivity]
       end; apply execute_guarded.
Qed.
