(** C03, pointer level: SHARING inside the caller's own object graph.

    model/SigHeap.v already lets one cell be reached through several pointers (an address may occur in
    any number of [ir_prev] / [ir_unlock] / [or_lock] fields and any number of times in [tr_ins] /
    [tr_outs]), and proofs/SigHeapProofs.v [legacy_heap_refines] has no no-sharing hypothesis.  This
    file states what that means, and shows that the statement has teeth:

    - [sharing_unobservable]: two object graphs that denote the same transaction value give the same
      outcome - whatever is shared in either of them (one *bscript.Script recorded as the previous
      script of several inputs, as previous script and unlocking / locking script at once, one *Input at
      several positions of tx.Inputs, ...).  The signed input is the one AT THE INDEX.
    - [by_identity]: the same program, but the blanking loop recognises the signed input by the
      identity of its PreviousTxScript pointer instead of by its position
          for i := range txCopy.Inputs { if txCopy.Inputs[i].PreviousTxScript != in.PreviousTxScript { blank } }
      (Clone hands the recorded pointers over, so the signed input "already carries" its script code).
      On graphs without sharing it computes the same bytes ([by_identity_agrees_without_sharing]: all
      128 legacy types x both inputs of the example heap of SigHeapProofs.v); on a graph in which two
      inputs record the SAME script object it leaves the other input's script in the preimage
      ([by_identity_refuted]) - so [legacy_heap_refines] / [sharing_unobservable] is false of it, and
      the heap cases of corr/C03.v (graphs with sharing, read off the *bt.Tx the harness built) can
      tell the two programs apart. *)
From Coq Require Import List NArith ZArith Lia Bool.
From Coq Require Import Strings.Byte.
From GoBT Require Import lib.Bytes lib.Parse lib.VarInt lib.Sha256 model.Tx model.SigHash model.SigHeap
  proofs.SigHashProofs proofs.SigHeapProofs.
Import ListNotations.
Local Open Scope N_scope.

(** ** the outcome is a function of the VALUE the graph denotes *)
Theorem sharing_unobservable h1 p1 h2 p2 t i ht :
  abs_tx h1 p1 = Some t -> abs_tx h2 p2 = Some t ->
  snd (legacy_preimage_heap clone_deep h1 p1 i ht) = snd (legacy_preimage_heap clone_deep h2 p2 i ht).
Proof.
  intros H1 H2. rewrite (legacy_heap_refines _ _ _ i ht H1), (legacy_heap_refines _ _ _ i ht H2). reflexivity.
Qed.

(** ** a graph with sharing: three inputs spending outputs of one address.  The wallet attached the
    ONE script object it built for the address (cell 0) to inputs 0 and 1; input 2 carries the same
    bytes in an object of its own (cell 1); the unlocking script of input 1 is that same cell 0 again,
    and the (single) output pays to the same script object. *)
Definition shared_heap : heap :=
  [ CScript [x76; xa9; x14; xc0; x88; xac];                                           (* 0: the shared script *)
    CScript [x76; xa9; x14; xc0; x88; xac];                                           (* 1: equal bytes, own object *)
    CScript [x51];                                                                    (* 2 *)
    CInput (mkIR (repeat_byte 32 x11) 1000 (Some 0%nat) (Some 2%nat) 0 4294967295);   (* 3: input 0 *)
    CInput (mkIR (repeat_byte 32 x22) 2000 (Some 0%nat) (Some 0%nat) 3 4294967294);   (* 4: input 1 *)
    CInput (mkIR (repeat_byte 32 x33) 500 (Some 1%nat) None 1 7);                     (* 5: input 2 *)
    COutput (mkOR 3400 (Some 0%nat));                                                 (* 6 *)
    CTx (mkTR [3%nat; 4%nat; 5%nat] [6%nat] 1 0) ].                                   (* 7 *)
Definition shared_ptr : addr := 7%nat.
Definition shared_script : bytes := [x76; xa9; x14; xc0; x88; xac].
Definition shared_value : tx :=
  mkTx 1 [mkInput (repeat_byte 32 x11) 0 [x51] 4294967295 1000 (Some shared_script);
          mkInput (repeat_byte 32 x22) 3 shared_script 4294967294 2000 (Some shared_script);
          mkInput (repeat_byte 32 x33) 1 [] 7 500 (Some shared_script)]
         [mkOutput 3400 shared_script] 0.

Lemma shared_heap_denotes : abs_tx shared_heap shared_ptr = Some shared_value.
Proof. vm_compute. reflexivity. Qed.

(** the same value with no sharing at all: every pointer has a cell of its own *)
Definition unshared_heap : heap :=
  [ CScript shared_script; CScript [x51];
    CInput (mkIR (repeat_byte 32 x11) 1000 (Some 0%nat) (Some 1%nat) 0 4294967295);   (* 2 *)
    CScript shared_script; CScript shared_script;
    CInput (mkIR (repeat_byte 32 x22) 2000 (Some 3%nat) (Some 4%nat) 3 4294967294);   (* 5 *)
    CScript shared_script;
    CInput (mkIR (repeat_byte 32 x33) 500 (Some 6%nat) None 1 7);                     (* 7 *)
    CScript shared_script;
    COutput (mkOR 3400 (Some 8%nat));                                                 (* 9 *)
    CTx (mkTR [2%nat; 5%nat; 7%nat] [9%nat] 1 0) ].                                   (* 10 *)
Lemma unshared_heap_denotes : abs_tx unshared_heap 10%nat = Some shared_value.
Proof. vm_compute. reflexivity. Qed.

(** instance of the theorem on the two graphs (not a computation: it holds for every index and type) *)
Corollary shared_like_unshared i ht :
  snd (legacy_preimage_heap clone_deep shared_heap shared_ptr i ht) =
  snd (legacy_preimage_heap clone_deep unshared_heap 10%nat i ht).
Proof. exact (sharing_unobservable _ _ _ _ _ i ht shared_heap_denotes unshared_heap_denotes). Qed.

(** what the preimage of input 0 under ALL looks like on the shared graph: the script code on input
    0, ONE zero byte in place of the script of inputs 1 and 2 *)
Lemma shared_preimage_all_0 :
  snd (legacy_preimage_heap clone_deep shared_heap shared_ptr 0 1) =
  SOk (le_enc 4 1 ++ [x03] ++
       (repeat_byte 32 x11 ++ le_enc 4 0 ++ [x06] ++ shared_script ++ le_enc 4 4294967295) ++
       (repeat_byte 32 x22 ++ le_enc 4 3 ++ [x00] ++ le_enc 4 4294967294) ++
       (repeat_byte 32 x33 ++ le_enc 4 1 ++ [x00] ++ le_enc 4 7) ++
       [x01] ++ (le_enc 8 3400 ++ [x06] ++ shared_script) ++ le_enc 4 0 ++ le_enc 4 1).
Proof. vm_compute. reflexivity. Qed.

(** ** the program that recognises the signed input by pointer identity *)
Definition oaddr_eqb (a b : option addr) : bool :=
  match a, b with Some x, Some y => Nat.eqb x y | None, None => true | _, _ => false end.

(** if txCopy.Inputs[j].PreviousTxScript != in.PreviousTxScript { ...UnlockingScript = &bscript.Script{};
    ...PreviousTxScript = &bscript.Script{} }      ([sp] is in.PreviousTxScript, read before the clone) *)
Definition blank_body_by_identity (sp : option addr) (j : N) (a : addr) (h : heap) : option heap :=
  match get_input h a with
  | None => None
  | Some r =>
    if oaddr_eqb (ir_prev r) sp then Some h else
    let '(h1, s1) := alloc h (CScript []) in
    let '(h2, s2) := alloc h1 (CScript []) in
    upd_input h2 a (fun r => set_ir_prev (set_ir_unlock r (Some s1)) (Some s2))
  end.

(** [legacy_body] / [legacy_preimage_heap] of model/SigHeap.v with that loop; everything else verbatim *)
Definition legacy_body_by_identity (h1 : heap) (p q : addr) (sp : option addr) (i ht : N) : heap * sres :=
  match get_tx h1 q with
  | None => (h1, SPanic)
  | Some tq =>
    let '(h2, ok) := for_range (blank_body_by_identity sp) 0 (tr_ins tq) h1 in
    if negb ok then (h2, SPanic) else
    let next := (i + 1) mod two32 in
    let '(h3, oa, ok3) := flags_phase h2 q (tr_ins tq) (tr_outs tq) i ht next in
    if negb ok3 then (h3, SPanic) else
    let '(h4, ok4) := acp_phase h3 q (tr_ins tq) i ht next in
    if negb ok4 then (h4, SPanic) else
    serialise h4 p q ht
  end.

Definition by_identity (h : heap) (p : addr) (i ht : N) : heap * sres :=
  match get_tx h p with
  | None => (h, SPanic)
  | Some tr =>
    match input_idx_h tr i with
    | None => (h, SErr ErrInputNoExist)
    | Some ai =>
      match get_input h ai with
      | None => (h, SPanic)
      | Some ri =>
        if (length (ir_txid ri) =? 0)%nat then (h, SErr ErrEmptyPreviousTxID) else
        match ir_prev ri with
        | None => (h, SErr ErrEmptyPreviousTxScript)
        | Some _ =>
          if flag_has_with_mask ht sh_single && (Z.of_N i >? Z.of_nat (length (tr_outs tr)) - 1)%Z
          then (h, SOk default_hex) else
          match clone_deep h p with
          | CFatal => (h, SFatal)
          | CFuel => (h, SFuel)
          | CStuck => (h, SPanic)
          | COk h1 q => legacy_body_by_identity h1 p q (ir_prev ri) i ht
          end
        end
      end
    end
  end.

(** the 128 legacy hash types *)
Definition legacy_types : list N := filter (fun h => N.land h 64 =? 0) (map N.of_nat (seq 0 256)).
Lemma legacy_types_128 : length legacy_types = 128%nat.
Proof. vm_compute. reflexivity. Qed.

Definition sres_eqb (a b : sres) : bool :=
  match a, b with
  | SOk x, SOk y => bytes_eqb x y
  | SErr ErrInputNoExist, SErr ErrInputNoExist => true
  | SErr ErrEmptyPreviousTxID, SErr ErrEmptyPreviousTxID => true
  | SErr ErrEmptyPreviousTxScript, SErr ErrEmptyPreviousTxScript => true
  | SPanic, SPanic => true
  | SFatal, SFatal => true
  | SFuel, SFuel => true
  | _, _ => false
  end.
Lemma sres_eqb_eq a b : sres_eqb a b = true -> a = b.
Proof.
  destruct a as [x|[]| | |], b as [y|[]| | |]; cbn; try discriminate; try reflexivity.
  intros H. apply bytes_eqb_eq in H. congruence.
Qed.

(** without sharing the two programs cannot be told apart: every legacy type on every input of the
    unshared graphs (the one above, and ex_heap of SigHeapProofs.v) *)
Lemma by_identity_agrees_without_sharing :
  (forall i ht, In i [0; 1; 2] -> In ht legacy_types ->
     snd (by_identity unshared_heap 10%nat i ht) = snd (legacy_preimage_heap clone_deep unshared_heap 10%nat i ht)) /\
  (forall i ht, In i [0; 1] -> In ht legacy_types ->
     snd (by_identity ex_heap ex_ptr i ht) = snd (legacy_preimage_heap clone_deep ex_heap ex_ptr i ht)).
Proof.
  assert (A : forallb (fun i => forallb (fun ht =>
                sres_eqb (snd (by_identity unshared_heap 10%nat i ht))
                         (snd (legacy_preimage_heap clone_deep unshared_heap 10%nat i ht))) legacy_types) [0; 1; 2] = true)
    by (vm_compute; reflexivity).
  assert (B : forallb (fun i => forallb (fun ht =>
                sres_eqb (snd (by_identity ex_heap ex_ptr i ht))
                         (snd (legacy_preimage_heap clone_deep ex_heap ex_ptr i ht))) legacy_types) [0; 1] = true)
    by (vm_compute; reflexivity).
  rewrite forallb_forall in A, B. split; intros i ht Hi Hht.
  - specialize (A i Hi). rewrite forallb_forall in A. apply sres_eqb_eq, A, Hht.
  - specialize (B i Hi). rewrite forallb_forall in B. apply sres_eqb_eq, B, Hht.
Qed.

(** with sharing they differ: signing input 0 (or input 1) of the shared graph, the other input that
    records the same script object keeps its script (and its unlocking script's cell) in the copy, so
    the bytes are not those the value-level model / the specification prescribes - for every one of
    the 128 types that does not isolate the signed input, i.e. the 64 without ANYONECANPAY *)
Lemma by_identity_refuted :
  snd (by_identity shared_heap shared_ptr 0 1) <> fst (calc_input_preimage_legacy shared_value 0 1) /\
  snd (by_identity shared_heap shared_ptr 0 1) =
    SOk (le_enc 4 1 ++ [x03] ++
         (repeat_byte 32 x11 ++ le_enc 4 0 ++ [x06] ++ shared_script ++ le_enc 4 4294967295) ++
         (repeat_byte 32 x22 ++ le_enc 4 3 ++ [x06] ++ shared_script ++ le_enc 4 4294967294) ++   (* NOT blanked *)
         (repeat_byte 32 x33 ++ le_enc 4 1 ++ [x00] ++ le_enc 4 7) ++
         [x01] ++ (le_enc 8 3400 ++ [x06] ++ shared_script) ++ le_enc 4 0 ++ le_enc 4 1) /\
  (forall ht, In ht legacy_types -> N.land ht 128 = 0 ->
     (N.land ht 31 = 3 -> False) ->          (* (SINGLE on input 1 of a one-output transaction is the constant) *)
     snd (by_identity shared_heap shared_ptr 1 ht) <> fst (calc_input_preimage_legacy shared_value 1 ht)).
Proof.
  split; [|split].
  - vm_compute. discriminate.
  - vm_compute. reflexivity.
  - assert (A : forallb (fun ht => negb (N.land ht 128 =? 0) || (N.land ht 31 =? 3) ||
                  negb (sres_eqb (snd (by_identity shared_heap shared_ptr 1 ht))
                                 (fst (calc_input_preimage_legacy shared_value 1 ht)))) legacy_types = true)
      by (vm_compute; reflexivity).
    rewrite forallb_forall in A. intros ht Hht Hacp Hns E. specialize (A ht Hht).
    rewrite Hacp in A. cbn [N.eqb negb orb] in A.
    destruct (N.land ht 31 =? 3) eqn:E3; [apply N.eqb_eq in E3; auto|].
    cbn [orb] in A. rewrite E in A.
    assert (R : forall x, sres_eqb x x = true).
    { intros [x|[]| | |]; cbn; auto. apply bytes_eqb_refl. }
    rewrite R in A. discriminate.
Qed.

(** so the refinement theorem is false of [by_identity]: it is a statement the pointer-level program
    of CalcInputPreimageLegacy satisfies and this one does not *)
Corollary by_identity_does_not_refine :
  ~ (forall h p t i ht, abs_tx h p = Some t -> snd (by_identity h p i ht) = fst (calc_input_preimage_legacy t i ht)).
Proof.
  intros H. apply (proj1 by_identity_refuted). apply H. exact shared_heap_denotes.
Qed.
