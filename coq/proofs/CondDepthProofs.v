(** C13, conditional depth of the opcode parser (spec/CondDepthSpec.v).

    [parse_stops_at_top_level_return]: after any token sequence that brings the depth (moved by OP_IF / OP_NOTIF /
    OP_ENDIF only) back to 0, an OP_RETURN ends the parse whatever bytes follow it; the result is the opcodes of
    the prefix, OP_RETURN and one unformatted token, and Unparse gives the script back.
    [parse_nested_return_is_an_opcode]: at any other depth the OP_RETURN is an ordinary opcode, so a truncated
    push after it (behind any OP_RETURN-free tokens) is an error, with or without ErrorOnCheckSig. *)
From Coq Require Import List NArith Lia ZifyN ZifyNat ZifyBool ZArith Bool String.
From Coq Require Import Strings.Byte.
From GoBT Require Import lib.Bytes lib.Checked model.Push model.Parser spec.PushSpec spec.CondDepthSpec
  proofs.PushProofs proofs.ParserProofs proofs.TokenProofs.
Import ListNotations.
Local Open Scope N_scope.
Local Open Scope bool_scope.

Lemma cb_next_depth_step b d : cb_next (b2n b) d = depth_step b d.
Proof. destruct b; reflexivity. Qed.

Definition oprep {A} (l : list A) (r : outcome (list A)) : outcome (list A) :=
  match r with Ok t => Ok (l ++ t) | Err => Err | Panic => Panic | Fuel => Fuel end.

Lemma ocons_oprep {A} (a : A) l r : ocons a (oprep l r) = oprep (a :: l) r.
Proof. destruct r; reflexivity. Qed.

Lemma return_test b d : (b = x6a -> d <> 0%Z) -> (b2n b =? OP_RETURN) && (depth_step b d =? 0)%Z = false.
Proof.
  intros H. destruct (b2n b =? OP_RETURN) eqn:E; [|reflexivity]. cbn [andb].
  assert (b = x6a) as -> by (apply x6a_iff; unfold OP_RETURN in E; lia).
  specialize (H eq_refl). cbn [depth_step]. lia.
Qed.

(** the parser reads a walked prefix token by token (without ErrorOnCheckSig) and continues at the depth the
    specification gives *)
Lemma parse_walk d pre d' : walk d pre d' ->
  exists ops, forall rest, parse_from false d (pre ++ rest) = oprep ops (parse_from false d' rest).
Proof.
  induction 1 as [d|d b r d' Hb Hret Hw IH|d hdr data r d' Hh Hw IH].
  - exists []. intros rest. cbn [app]. destruct (parse_from false d rest); reflexivity.
  - destruct IH as [ops IH].
    exists (mkPop (b2n b) [] (expected_len (b2n b)) false :: ops). intros rest. cbn [app].
    rewrite parse_from_cons. cbn [parse_step_clean andb]. cbv zeta.
    rewrite cb_next_depth_step, (return_test b d Hret).
    pose proof (b2n_lt b) as Hlt. unfold non_push in Hb.
    destruct (push_kind_cases (b2n b) Hlt) as [[E K]|[[E K]|[[E K]|[[E K]|[E K]]]]]; try lia.
    cbn [decode_step_clean]. rewrite K. rewrite IH, ocons_oprep. reflexivity.
  - destruct IH as [ops IH].
    destruct (push_header_first _ _ Hh) as (h0 & htl & Eh & Hh0).
    exists (mkPop (b2n h0) (match push_kind (b2n h0) with KOp => [] | _ => data end) (expected_len (b2n h0)) false :: ops).
    intros rest. rewrite <- !app_assoc.
    pose proof (decode_step_push hdr data (r ++ rest) Hh) as Hstep. rewrite Eh in *. cbn [app] in *.
    rewrite parse_from_cons. cbn [parse_step_clean andb]. cbv zeta.
    replace (b2n h0 =? OP_RETURN) with false by (unfold OP_RETURN; lia). cbn [andb].
    rewrite Hstep.
    assert (cb_next (b2n h0) d = d) as ->.
    { unfold cb_next, OP_IF, OP_NOTIF, OP_ENDIF.
      replace (b2n h0 =? 99) with false by lia. replace (b2n h0 =? 100) with false by lia.
      replace (b2n h0 =? 104) with false by lia. reflexivity. }
    rewrite IH, ocons_oprep. reflexivity.
Qed.

Lemma parse_return_top eocs tail : parse_from eocs 0%Z (x6a :: tail) = Ok (stop_ops tail).
Proof. rewrite parse_from_cons. cbn [parse_step_clean]. destruct eocs; reflexivity. Qed.

Theorem parse_stops_at_top_level_return d pre : walk d pre 0%Z -> forall tail,
  exists ops, parse_from false d pre = Ok ops /\
              parse_from false d (pre ++ x6a :: tail) = Ok (ops ++ stop_ops tail) /\
              unparse (ops ++ stop_ops tail) = Ok (pre ++ x6a :: tail).
Proof.
  intros Hw tail. destruct (parse_walk _ _ _ Hw) as [ops Hops]. exists ops.
  assert (parse_from false d (pre ++ x6a :: tail) = Ok (ops ++ stop_ops tail)) as E.
  { rewrite Hops, parse_return_top. reflexivity. }
  split; [|split; [exact E|]].
  - pose proof (Hops []) as H0. rewrite app_nil_r, parse_from_nil in H0. cbn [oprep] in H0. rewrite app_nil_r in H0. exact H0.
  - eapply unparse_parse_from. exact E.
Qed.

(** an error behind a walked prefix is an error of the whole script, whatever the parser option *)
Lemma parse_walk_err eocs d pre d' : walk d pre d' -> forall rest,
  parse_from eocs d' rest = Err -> parse_from eocs d (pre ++ rest) = Err.
Proof.
  induction 1 as [d|d b r d' Hb Hret Hw IH|d hdr data r d' Hh Hw IH]; intros rest Herr.
  - exact Herr.
  - cbn [app]. rewrite parse_from_cons. cbn [parse_step_clean]. cbv zeta.
    destruct (eocs && requires_tx (b2n b)); [reflexivity|].
    rewrite cb_next_depth_step, (return_test b d Hret).
    pose proof (b2n_lt b) as Hlt. unfold non_push in Hb.
    destruct (push_kind_cases (b2n b) Hlt) as [[E K]|[[E K]|[[E K]|[[E K]|[E K]]]]]; try lia.
    cbn [decode_step_clean]. rewrite K. rewrite (IH rest Herr). reflexivity.
  - destruct (push_header_first _ _ Hh) as (h0 & htl & Eh & Hh0).
    rewrite <- !app_assoc.
    pose proof (decode_step_push hdr data (r ++ rest) Hh) as Hstep. rewrite Eh in *. cbn [app] in *.
    rewrite parse_from_cons. cbn [parse_step_clean]. cbv zeta.
    rewrite requires_tx_push by lia. rewrite andb_false_r.
    replace (b2n h0 =? OP_RETURN) with false by (unfold OP_RETURN; lia). cbn [andb].
    rewrite Hstep.
    assert (cb_next (b2n h0) d = d) as ->.
    { unfold cb_next, OP_IF, OP_NOTIF, OP_ENDIF.
      replace (b2n h0 =? 99) with false by lia. replace (b2n h0 =? 100) with false by lia.
      replace (b2n h0 =? 104) with false by lia. reflexivity. }
    rewrite (IH rest Herr). reflexivity.
Qed.

Theorem parse_nested_return_is_an_opcode d pre d' mid t : walk d pre d' -> d' <> 0%Z ->
  tokens_no_return mid -> truncated_push t ->
  forall eocs, parse_from eocs d (pre ++ x6a :: mid ++ t) = Err.
Proof.
  intros Hw Hd Hmid Ht eocs. apply (parse_walk_err eocs d pre d' Hw).
  rewrite parse_from_cons. cbn [parse_step_clean]. cbv zeta.
  change (b2n x6a) with 106. replace (requires_tx 106) with false by reflexivity. rewrite andb_false_r.
  change (cb_next 106 d') with d'. replace ((106 =? OP_RETURN) && (d' =? 0)%Z) with false by (unfold OP_RETURN; lia).
  cbn [decode_step_clean]. change (push_kind (b2n x6a)) with KOp. cbv iota.
  destruct (truncated_push_rejected mid t Hmid Ht) as [_ H]. rewrite H. reflexivity.
Qed.

(** ** instances: which opcodes move the depth *)
Lemma np b : (78 <? b2n b) = true -> non_push b.
Proof. intros H. right. lia. Qed.

(** OP_VERIF, OP_VERNOTIF and OP_ELSE leave the depth where it is: the OP_RETURN behind them is at the top level *)
Example walk_verif_vernotif_else : walk 0 [x65; x66; x67] 0.
Proof.
  apply wk_op; [apply np; reflexivity|discriminate|].
  apply wk_op; [apply np; reflexivity|discriminate|].
  apply wk_op; [apply np; reflexivity|discriminate|]. apply wk_nil.
Qed.

(** a balanced block with an OP_RETURN inside, and a stray ENDIF made up for by an IF *)
Example walk_balanced : walk 0 [x63; x6a; x67; x68; x68; x64] 0.
Proof.
  apply wk_op; [apply np; reflexivity|discriminate|].
  apply wk_op; [apply np; reflexivity|intros _; discriminate|].
  apply wk_op; [apply np; reflexivity|discriminate|].
  apply wk_op; [apply np; reflexivity|discriminate|].
  apply wk_op; [apply np; reflexivity|discriminate|].
  apply wk_op; [apply np; reflexivity|discriminate|]. apply wk_nil.
Qed.

(** the bytes 0x63 / 0x68 inside push data are not opcodes *)
Example walk_push_of_if : walk 0 [x02; x63; x63] 0.
Proof. apply (wk_push 0 [x02] [x63; x63] [] 0); [apply (ph_direct 2); lia|apply wk_nil]. Qed.

Example parse_verif_return_blob :
  parse false [x65; x6a; x05] = Ok [mkPop 101 [] 1 false; mkPop 106 [] 1 false; mkPop 5 [] 1 true] /\
  parse false [x51; x65; x6a; x4d; x01] =
    Ok [mkPop 81 [] 1 false; mkPop 101 [] 1 false; mkPop 106 [] 1 false; mkPop 77 [x01] 2 true] /\
  parse false [x67; x6a; x4c] = Ok [mkPop 103 [] 1 false; mkPop 106 [] 1 false; mkPop 76 [] 1 true].
Proof. repeat split; vm_compute; reflexivity. Qed.

(** inside a block, and after a stray ENDIF, the same tails are malformed pushes *)
Example parse_nested_return_rejects :
  parse false [x63; x6a; x05] = Err /\ parse false [x64; x6a; x4c] = Err /\ parse false [x68; x6a; x05] = Err /\
  walk 0 [x63] 1 /\ walk 0 [x68] (-1) /\ truncated_push [x05].
Proof.
  repeat split; try (vm_compute; reflexivity).
  - apply wk_op; [apply np; reflexivity|discriminate|]. apply wk_nil.
  - apply wk_op; [apply np; reflexivity|discriminate|]. apply wk_nil.
  - exists [x05], [x00; x00; x00; x00; x00], [x00; x00; x00; x00; x00].
    split; [apply (ph_direct 5); vm_compute; split; discriminate|].
    split; [discriminate|]. split; [discriminate|reflexivity].
Qed.
