(** Proofs about model/SigConc.v: hash-of-appended-chunks loops run interleaved.
    - every loop on an array of its own: under EVERY schedule each result is the hash of that loop's own
      chunks (so PreviousOutHash / SequenceHash / OutputsHash are what model/SigHash.v says, whatever else runs);
    - all loops on one package-level array: there is a schedule under which a loop returns another
      transaction's hash. *)
From Coq Require Import List NArith ZArith Bool Arith Lia.
From Coq Require Import Strings.Byte.
From GoBT Require Import lib.Bytes lib.Sha256 model.Tx model.SigHash model.SigConc.
Import ListNotations.

Definition job := (nat * list bytes)%type.          (* array address, chunks *)

Definition inv (s : store) (j : job) (t : thr) : Prop :=
  th_arr t = fst j /\
  ((th_started t = false /\ th_todo t = snd j /\ th_res t = None) \/
   (th_started t = true /\ exists done,
      snd j = done ++ th_todo t /\ th_len t = length (concat done) /\
      firstn (th_len t) (s (th_arr t)) = concat done /\
      (forall r, th_res t = Some r -> th_todo t = [] /\ r = sha256d (concat (snd j))))).

Definition only_at (a : nat) (s s' : store) : Prop := forall b, b <> a -> s' b = s b.

Lemma inv_ext s s' j t : s' (th_arr t) = s (th_arr t) -> inv s j t -> inv s' j t.
Proof.
  intros E [Ha H]. split; [exact Ha|].
  destruct H as [H|[Hs [dn [H1 [H2 [H3 H4]]]]]]; [left; exact H|].
  right. split; [exact Hs|]. exists dn. rewrite E. auto.
Qed.

Lemma firstn_write_at arr pos c : length (firstn pos arr) = pos ->
  firstn (pos + length c) (write_at arr pos c) = firstn pos arr ++ c.
Proof.
  intros L. unfold write_at. rewrite app_assoc.
  replace (pos + length c) with (length (firstn pos arr ++ c) + 0) by (rewrite app_length, L; lia).
  rewrite firstn_app_2. cbn [firstn]. apply app_nil_r.
Qed.

Lemma upd_same s a v : upd s a v a = v.
Proof. unfold upd. rewrite Nat.eqb_refl. reflexivity. Qed.
Lemma upd_other s a v b : b <> a -> upd s a v b = s b.
Proof. intros N. unfold upd. destruct (Nat.eqb_spec b a); [contradiction|reflexivity]. Qed.

Lemma step_thr_inv s j t s' t' : inv s j t -> step_thr s t = (s', t') ->
  inv s' j t' /\ only_at (th_arr t) s s'.
Proof.
  intros [Ha H] St. unfold step_thr in St.
  destruct H as [[Hs [Ht Hr]]|[Hs [dn [H1 [H2 [H3 H4]]]]]]; rewrite Hs in St; cbn [negb] in St.
  - injection St as <- <-. split; [|intros b _; reflexivity].
    split; [exact Ha|]. right. cbn [th_started th_todo th_len th_res th_arr]. split; [reflexivity|].
    exists []. cbn [app concat length firstn]. repeat split; try (symmetry; exact Ht); try reflexivity.
    all: discriminate.
  - destruct (th_todo t) as [|c r] eqn:Td.
    + destruct (th_res t) as [x|] eqn:Rs; injection St as <- <-.
      * split; [|intros b _; reflexivity]. split; [exact Ha|]. right. split; [exact Hs|].
        exists dn. rewrite ?Td, ?Rs. auto.
      * split; [|intros b _; reflexivity]. split; [exact Ha|]. right.
        cbn [th_started th_todo th_len th_res th_arr]. split; [reflexivity|].
        exists dn. split; [exact H1|]. split; [exact H2|]. split; [exact H3|].
        intros r0 E0. injection E0 as <-. split; [reflexivity|].
        rewrite H3, H1, app_nil_r. reflexivity.
    + injection St as <- <-. split; [|intros b Nb; apply upd_other; exact Nb].
      split; [exact Ha|]. right. cbn [th_started th_todo th_len th_res th_arr]. split; [reflexivity|].
      exists (dn ++ [c]). rewrite upd_same.
      assert (L : length (firstn (th_len t) (s (th_arr t))) = th_len t) by (rewrite H3; symmetry; exact H2).
      rewrite concat_app. cbn [concat]. rewrite app_nil_r.
      split; [rewrite H1, <- app_assoc; reflexivity|].
      split; [rewrite app_length, H2; reflexivity|].
      split; [rewrite firstn_write_at by exact L; rewrite H3; reflexivity|].
      intros r0 Hr0. destruct (H4 r0 Hr0) as [E _]. discriminate E.
Qed.

Lemma Forall2_frame a s s' (jobs : list job) ts : only_at a s s' -> ~ In a (map fst jobs) ->
  Forall2 (inv s) jobs ts -> Forall2 (inv s') jobs ts.
Proof.
  intros O N F. induction F as [|j t jobs ts I F IH]; [constructor|].
  cbn [map In] in N. constructor.
  - apply (inv_ext s); [|exact I]. apply O. destruct I as [Ha _]. rewrite Ha. intros E. apply N. left. exact E.
  - apply IH. intros X. apply N. right. exact X.
Qed.

Lemma Forall2_arr_in s (jobs : list job) ts k t : Forall2 (inv s) jobs ts -> nth_error ts k = Some t ->
  In (th_arr t) (map fst jobs).
Proof.
  intros F. revert k. induction F as [|j x jobs ts I F IH]; intros k E.
  - destruct k; discriminate E.
  - destruct k as [|k]; cbn [nth_error] in E.
    + injection E as ->. left. destruct I as [Ha _]. symmetry. exact Ha.
    + right. exact (IH k E).
Qed.

Lemma step_pres s (jobs : list job) ts : Forall2 (inv s) jobs ts -> NoDup (map fst jobs) ->
  forall k t s' t', nth_error ts k = Some t -> step_thr s t = (s', t') ->
  Forall2 (inv s') jobs (set_nth_thr ts k t').
Proof.
  intros F. induction F as [|j x jobs ts I F IH]; intros ND k t s' t' E St.
  - destruct k; discriminate E.
  - cbn [map] in ND. inversion ND as [|a l Nin ND' Eq]; subst a l.
    destruct k as [|k]; cbn [nth_error] in E; cbn [set_nth_thr].
    + injection E as ->. destruct (step_thr_inv _ _ _ _ _ I St) as [I' O]. constructor; [exact I'|].
      apply (Forall2_frame (th_arr t) s); [exact O| |exact F]. destruct I as [Ha _]. rewrite Ha. exact Nin.
    + assert (In (th_arr t) (map fst jobs)) as Hin by exact (Forall2_arr_in _ _ _ _ _ F E).
      assert (exists jk, inv s jk t) as [jk Ik].
      { clear -F E. revert k E. induction F as [|j0 x0 jobs ts I0 F IH]; intros k E; [destruct k; discriminate E|].
        destruct k as [|k]; cbn [nth_error] in E; [injection E as ->; exists j0; exact I0|exact (IH k E)]. }
      destruct (step_thr_inv _ _ _ _ _ Ik St) as [_ O].
      constructor.
      * apply (inv_ext s); [|exact I]. apply O. destruct I as [Ha _]. rewrite Ha. intros Eq. apply Nin. rewrite Eq. exact Hin.
      * exact (IH ND' k t s' t' E St).
Qed.

Lemma run_pres (jobs : list job) sched : NoDup (map fst jobs) -> forall m,
  Forall2 (inv (fst m)) jobs (snd m) -> Forall2 (inv (fst (run sched m))) jobs (snd (run sched m)).
Proof.
  intros ND. induction sched as [|k sched IH]; intros m F; [exact F|].
  cbn [run fold_left]. apply IH. unfold step.
  destruct (nth_error (snd m) k) as [t|] eqn:E; [|exact F].
  destruct (step_thr (fst m) t) as [s' t'] eqn:St. cbn [fst snd].
  exact (step_pres _ _ _ F ND k t s' t' E St).
Qed.

Definition start (jobs : list job) : list thr := map (fun j => thr_init (fst j) (snd j)) jobs.

Lemma start_inv s (jobs : list job) : Forall2 (inv s) jobs (start jobs).
Proof.
  induction jobs as [|j jobs IH]; [constructor|]. cbn [start map]. constructor; [|exact IH].
  split; [reflexivity|]. left. repeat split.
Qed.

(** Any number of loops, each appending into an array of its own, under ANY schedule and from any initial
    store: a loop that has a result has the double SHA-256 of the concatenation of ITS chunks. *)
Theorem conc_private_independent : forall (jobs : list job) sched s0, NoDup (map fst jobs) ->
  forall k j t r, nth_error jobs k = Some j ->
  nth_error (snd (run sched (s0, start jobs))) k = Some t -> th_res t = Some r ->
  r = sha256d (concat (snd j)).
Proof.
  intros jobs sched s0 ND k j t r Ej Et Er.
  pose proof (run_pres jobs sched ND (s0, start jobs) (start_inv s0 jobs)) as F.
  remember (run sched (s0, start jobs)) as m eqn:Em. clear Em.
  revert k Ej Et. induction F as [|j0 x jobs' ts I F IH]; intros k Ej Et; [destruct k; discriminate Ej|].
  destruct k as [|k]; cbn [nth_error] in Ej, Et.
  - injection Ej as ->. injection Et as ->. destruct I as [_ [[_ [_ Hn]]|[_ [dn [_ [_ [_ H4]]]]]]].
    + rewrite Hn in Er. discriminate Er.
    + exact (proj2 (H4 r Er)).
  - inversion ND as [|a l _ ND' Eq]; subst. exact (IH ND' k Ej Et).
Qed.

(** the three hashes of the FORKID preimage, computed for any number of transactions at once *)
Lemma conc_tx_jobs (f : tx -> list bytes) : forall (txs : list (nat * tx)) sched s0, NoDup (map fst txs) ->
  forall k a t th r, nth_error txs k = Some (a, t) ->
  nth_error (snd (run sched (s0, start (map (fun at_ => (fst at_, f (snd at_))) txs)))) k = Some th ->
  th_res th = Some r -> r = sha256d (concat (f t)).
Proof.
  intros txs sched s0 ND k a t th r Ek Et Er.
  apply (conc_private_independent (map (fun at_ => (fst at_, f (snd at_))) txs) sched s0) with (k := k) (j := (a, f t)) (t := th).
  - rewrite map_map. cbn [fst]. exact ND.
  - rewrite nth_error_map, Ek. reflexivity.
  - exact Et.
  - exact Er.
Qed.
Corollary conc_prevout_hashes : forall (txs : list (nat * tx)) sched s0, NoDup (map fst txs) ->
  forall k a t th r, nth_error txs k = Some (a, t) ->
  nth_error (snd (run sched (s0, start (map (fun at_ => (fst at_, prevout_chunks (snd at_))) txs)))) k = Some th ->
  th_res th = Some r -> r = previous_out_hash t.
Proof. exact (conc_tx_jobs prevout_chunks). Qed.
Corollary conc_sequence_hashes : forall (txs : list (nat * tx)) sched s0, NoDup (map fst txs) ->
  forall k a t th r, nth_error txs k = Some (a, t) ->
  nth_error (snd (run sched (s0, start (map (fun at_ => (fst at_, sequence_chunks (snd at_))) txs)))) k = Some th ->
  th_res th = Some r -> r = sequence_hash t.
Proof. exact (conc_tx_jobs sequence_chunks). Qed.
Corollary conc_outputs_hashes : forall (txs : list (nat * tx)) sched s0, NoDup (map fst txs) ->
  forall k a t th r, nth_error txs k = Some (a, t) ->
  nth_error (snd (run sched (s0, start (map (fun at_ => (fst at_, outputs_chunks (snd at_))) txs)))) k = Some th ->
  th_res th = Some r -> Some r = outputs_hash t (-1)%Z.
Proof.
  intros txs sched s0 ND k a t th r Ek Et Er.
  rewrite (conc_tx_jobs outputs_chunks txs sched s0 ND k a t th r Ek Et Er). reflexivity.
Qed.

Theorem conc_hashes_independent : forall (txs : list (nat * tx)) sched s0, NoDup (map fst txs) ->
  forall k a t,  nth_error txs k = Some (a, t) ->
  (forall th r, nth_error (snd (run sched (s0, start (map (fun at_ => (fst at_, prevout_chunks (snd at_))) txs)))) k = Some th ->
                th_res th = Some r -> r = previous_out_hash t) /\
  (forall th r, nth_error (snd (run sched (s0, start (map (fun at_ => (fst at_, sequence_chunks (snd at_))) txs)))) k = Some th ->
                th_res th = Some r -> r = sequence_hash t) /\
  (forall th r, nth_error (snd (run sched (s0, start (map (fun at_ => (fst at_, outputs_chunks (snd at_))) txs)))) k = Some th ->
                th_res th = Some r -> Some r = outputs_hash t (-1)%Z).
Proof.
  intros txs sched s0 ND k a t Ek. split; [|split]; intros th r Et Er.
  - exact (conc_prevout_hashes txs sched s0 ND k a t th r Ek Et Er).
  - exact (conc_sequence_hashes txs sched s0 ND k a t th r Ek Et Er).
  - exact (conc_outputs_hashes txs sched s0 ND k a t th r Ek Et Er).
Qed.

(** non-vacuity: a fair schedule does produce results (two transactions, round-robin) *)
Definition ctx1 : tx := mkTx 1 [mkInput (repeat_byte 32 x11) 0 [] 4294967295 1000 (Some [x51]);
                                mkInput (repeat_byte 32 x12) 1 [] 4294967294 2000 (Some [x51])] [mkOutput 900 [x51]] 0.
Definition ctx2 : tx := mkTx 2 [mkInput (repeat_byte 32 x21) 7 [] 0 3000 (Some [x52])] [mkOutput 800 [x52]] 5.
Definition round_robin : list nat := [0;1;0;1;0;1;0;1;0;1]%nat.

Lemma conc_private_example :
  map th_res (snd (run round_robin (fun _ => [], start [(0%nat, prevout_chunks ctx1); (1%nat, prevout_chunks ctx2)])))
  = [Some (previous_out_hash ctx1); Some (previous_out_hash ctx2)].
Proof. vm_compute. reflexivity. Qed.

(** All loops on ONE array (what  buf := hashBuf[:0]  on a package-level buffer is): goroutine 0 reslices and
    appends its outpoint, goroutine 1 reslices and appends its own over it, goroutine 0 hashes - and returns the
    hashPrevouts of the OTHER transaction.  The same schedule on two arrays gives the right answers (above). *)
Definition ctx3 : tx := mkTx 1 [mkInput (repeat_byte 32 x31) 0 [] 4294967295 1000 (Some [x51])] [mkOutput 900 [x51]] 0.
Definition bad_sched : list nat := [0;0;1;1;0;1]%nat.

Theorem conc_shared_interferes : exists t1 t2 sched r,
  map th_res (snd (run sched (fun _ => [], start [(0%nat, prevout_chunks t1); (0%nat, prevout_chunks t2)])))
    = [Some r; Some (previous_out_hash t2)] /\
  r <> previous_out_hash t1 /\ r = previous_out_hash t2.
Proof.
  exists ctx3, ctx2, bad_sched, (previous_out_hash ctx2). split; [vm_compute; reflexivity|].
  split; [|reflexivity]. vm_compute. intros E. discriminate E.
Qed.
