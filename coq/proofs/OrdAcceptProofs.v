(** C20, interpreter acceptance of the seller's re-indexed input: the signature the seller made over
    the LISTING (input 0, SINGLE|ANYONECANPAY|FORKID) makes the interpreter model accept input 1
    (resp. 2) of the ACCEPTED transaction — C04's P2PKH acceptance theorem applied to the accepted
    transaction, with the digest equality of [seller_sig_survives].  Relative to the ECDSA oracle,
    as in C04. *)
From Coq Require Import List NArith ZArith Lia Bool ZifyN ZifyNat ZifyBool.
From Coq Require Import Strings.Byte.
From GoBT Require Import lib.Bytes lib.VarInt lib.Sha256 lib.Ripemd160 model.Tx proofs.TxProofs spec.DigestSpec
  model.SigHash model.SigHashWire proofs.SigHashProofs model.ScriptNum model.Interp model.CheckSig proofs.P2PKHProofs
  spec.FeeSpec model.Fees model.Ord proofs.OrdProofs.
Import ListNotations.
Local Open Scope Z_scope.


Section Reindexed.
(** [k] = 1 for AcceptOrdinalSaleListing, 2 for the two-dummy variant; [Hk] is what the flow theorems give *)
Theorem reindexed_seller_input_accepted : forall (orc : sig_oracle) (L A : tx) (k : N) (seller_in : input)
    (flags : N) (sig pk body : bytes) (insc : bool) (bops : list pop) (h : bytes),
  let ht := 195%N in
  let full := sig ++ [n2b ht] in
  let unlock := p2pkh_unlock sig ht pk in
  let lock := p2pkh_lock (hash160 pk) ++ (if insc then inscription_suffix body else []) in
  let c := mkCtx (normalise_flags flags) true 0 1 (Z.of_N (in_seq seller_in)) false in
  (* what the listing-acceptance flow guarantees *)
  nth_error (tx_ins A) (N.to_nat k) = Some seller_in -> tx_version A = 1%N -> tx_lock A = 0%N ->
  fst (calc_input_signature_hash L 0 ht) = fst (calc_input_signature_hash A k ht) ->
  (k + 1 < two32)%N -> wf_tx A -> in_script seller_in = Some lock ->
  (* the template hypotheses of C04's acceptance theorem *)
  length pk = 33%nat -> (length full <= 75)%nat ->
  (has_flag c F_MINIMALDATA = true -> sig <> []) ->
  (has_flag c F_CLEANSTACK = true -> has_flag c F_BIP16 = true) ->
  lenZ lock <= max_script_size c ->
  (insc = true -> parse_ops (length body) false body 1 = Some bops /\ is_push_only bops = true /\
                  Forall (fun p => lenZ (p_data p) <= max_elem c) bops) ->
  check_hash_type c ht = true -> check_sig_enc c sig = EncOk -> check_pubkey_enc c pk = true ->
  (has_flag c F_FORKID && flag_has ht sh_forkid = true \/
   forall l, parse_script false lock = Some l -> remove_by_data l full = l) ->
  (* the seller's signature verifies over the digest of the LISTING at input 0 *)
  fst (calc_input_signature_hash L 0 ht) = SOk h ->
  orc_parse_pub orc pk = true -> orc_parse_sig orc (uses_der_parser c) sig = true ->
  orc_verify orc pk h sig (uses_der_parser c) = Some true ->
  fst (engine_execute (mk_sigops orc (engine_tx A k unlock lock (in_sats seller_in)) k)
         (mkExecInput unlock lock flags true true 0 1 (Z.of_N (in_seq seller_in)))) = VOk.
Proof.
  intros orc L A k seller_in flags sig pk body insc bops h ht full unlock lock c
         Hk VA LA Hd Hk32 W Hsc Hpk Hfull Hmin Hcs Hsz Hbody Hty Henc Hpke Hstrip Hsh Hpub Hsig Hver.
  pose proof (signed_p2pkh_accepts_unlocker_digest orc A k seller_in flags (in_sats seller_in) ht sig pk body insc bops h) as T.
  cbv zeta in T. rewrite VA, LA in T. change (Z.of_N 0) with 0 in T. change (Z.of_N 1) with 1 in T.
  apply T; try assumption; try reflexivity.
  - rewrite nthN_nth_error. exact Hk.
  - rewrite <- Hd. exact Hsh.
Qed.
End Reindexed.

Section Accepts.
Variable signer : tx -> N -> N -> option bytes.

Lemma txid_nonempty A n i : wf_tx A -> nth_error (tx_ins A) n = Some i -> in_txid i <> [].
Proof. intros W H E. pose proof (wf_tx_txid A i n W H) as L. rewrite E in L. discriminate. Qed.

(** AcceptOrdinalSaleListing: the seller's input (now input 1) is accepted *)
Corollary listing_seller_input_accepted : forall (orc : sig_oracle) listed L us buyer dummy chg q A (seller_in : input)
    (flags : N) (sig pk body : bytes) (insc : bool) (bops : list pop) (h : bytes),
  let ht := 195%N in
  let full := sig ++ [n2b ht] in
  let unlock := p2pkh_unlock sig ht pk in
  let lock := p2pkh_lock (hash160 pk) ++ (if insc then inscription_suffix body else []) in
  let c := mkCtx (normalise_flags flags) true 0 1 (Z.of_N (in_seq seller_in)) false in
  accept_listing signer listed L us buyer dummy chg q = Done A ->
  tx_version L = 1%N -> tx_lock L = 0%N -> tx_ins L = [seller_in] -> wf_tx A -> in_script seller_in = Some lock ->
  length pk = 33%nat -> (length full <= 75)%nat ->
  (has_flag c F_MINIMALDATA = true -> sig <> []) ->
  (has_flag c F_CLEANSTACK = true -> has_flag c F_BIP16 = true) ->
  lenZ lock <= max_script_size c ->
  (insc = true -> parse_ops (length body) false body 1 = Some bops /\ is_push_only bops = true /\
                  Forall (fun p => lenZ (p_data p) <= max_elem c) bops) ->
  check_hash_type c ht = true -> check_sig_enc c sig = EncOk -> check_pubkey_enc c pk = true ->
  (has_flag c F_FORKID && flag_has ht sh_forkid = true \/
   forall l, parse_script false lock = Some l -> remove_by_data l full = l) ->
  fst (calc_input_signature_hash L 0 ht) = SOk h ->
  orc_parse_pub orc pk = true -> orc_parse_sig orc (uses_der_parser c) sig = true ->
  orc_verify orc pk h sig (uses_der_parser c) = Some true ->
  fst (engine_execute (mk_sigops orc (engine_tx A 1 unlock lock (in_sats seller_in)) 1)
         (mkExecInput unlock lock flags true true 0 1 (Z.of_N (in_seq seller_in)))) = VOk.
Proof.
  intros orc listed L us buyer dummy chg q A seller_in flags sig pk body insc bops h ht full unlock lock c
         HA VL LL EI W Hsc. intros.
  destruct (seller_output_fixed signer _ _ _ _ _ _ _ _ HA) as (si & so & EI' & EO & O1 & I1 & VA & LA & Hlen).
  rewrite EI in EI'. injection EI' as <-.
  pose proof (txid_nonempty A 1 seller_in W I1) as Hne.
  destruct (seller_sig_survives signer _ _ _ _ _ _ _ _ seller_in lock HA VL LL EI Hne Hsc) as (_ & Hd & _).
  apply (reindexed_seller_input_accepted orc L A 1 seller_in flags sig pk body insc bops h); try assumption.
  unfold two32. lia.
Qed.

(** AcceptOrdinalSaleListing2Dummies: the seller's input (now input 2) is accepted *)
Corollary listing_2d_seller_input_accepted : forall (orc : sig_oracle) listed L us buyer dummy chg q A (seller_in : input)
    (flags : N) (sig pk body : bytes) (insc : bool) (bops : list pop) (h : bytes),
  let ht := 195%N in
  let full := sig ++ [n2b ht] in
  let unlock := p2pkh_unlock sig ht pk in
  let lock := p2pkh_lock (hash160 pk) ++ (if insc then inscription_suffix body else []) in
  let c := mkCtx (normalise_flags flags) true 0 1 (Z.of_N (in_seq seller_in)) false in
  accept_listing_2d signer listed L us buyer dummy chg q = Done A ->
  tx_version L = 1%N -> tx_lock L = 0%N -> tx_ins L = [seller_in] -> wf_tx A -> in_script seller_in = Some lock ->
  length pk = 33%nat -> (length full <= 75)%nat ->
  (has_flag c F_MINIMALDATA = true -> sig <> []) ->
  (has_flag c F_CLEANSTACK = true -> has_flag c F_BIP16 = true) ->
  lenZ lock <= max_script_size c ->
  (insc = true -> parse_ops (length body) false body 1 = Some bops /\ is_push_only bops = true /\
                  Forall (fun p => lenZ (p_data p) <= max_elem c) bops) ->
  check_hash_type c ht = true -> check_sig_enc c sig = EncOk -> check_pubkey_enc c pk = true ->
  (has_flag c F_FORKID && flag_has ht sh_forkid = true \/
   forall l, parse_script false lock = Some l -> remove_by_data l full = l) ->
  fst (calc_input_signature_hash L 0 ht) = SOk h ->
  orc_parse_pub orc pk = true -> orc_parse_sig orc (uses_der_parser c) sig = true ->
  orc_verify orc pk h sig (uses_der_parser c) = Some true ->
  fst (engine_execute (mk_sigops orc (engine_tx A 2 unlock lock (in_sats seller_in)) 2)
         (mkExecInput unlock lock flags true true 0 1 (Z.of_N (in_seq seller_in)))) = VOk.
Proof.
  intros orc listed L us buyer dummy chg q A seller_in flags sig pk body insc bops h ht full unlock lock c
         HA VL LL EI W Hsc. intros.
  destruct (seller_output_fixed_2d signer _ _ _ _ _ _ _ _ HA) as (si & so & EI' & EO & O1 & I1 & VA & LA & Hlen).
  rewrite EI in EI'. injection EI' as <-.
  pose proof (txid_nonempty A 2 seller_in W I1) as Hne.
  destruct (seller_sig_survives_2d signer _ _ _ _ _ _ _ _ seller_in lock HA VL LL EI Hne Hsc) as (_ & Hd & _).
  apply (reindexed_seller_input_accepted orc L A 2 seller_in flags sig pk body insc bops h); try assumption.
  unfold two32. lia.
Qed.
End Accepts.
