(** fromBool (bscript/interpreter/stack.go), as printed from the Go source, is [from_bool] of model/ScriptNum.v
    (a nil slice and an empty slice are the same value here). *)
From Coq Require Import List ZArith NArith Bool Lia.
From Coq Require Import Strings.Byte.
From GoBT Require Import lib.Bytes lib.GoSem gen.Funcs proofs.GenFuncsTac.
From GoBT Require model.ScriptNum.
Import ListNotations.
Local Open Scope Z_scope.

Lemma fromBool_is_model (v : bool) : fromBool v = Val (ScriptNum.from_bool v).
Proof. destruct v; vm_compute; reflexivity. Qed.
