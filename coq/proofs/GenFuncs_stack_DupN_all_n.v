(** stack.DupN (bscript/interpreter/stack.go), as printed from the Go source, for EVERY argument: on a stack of fewer than
    2^31 items, for every int32 [n] such that the stack with the n copies still has fewer than 2^31 items (stack.go computes
    sizes in int32) or the stack has fewer than n items anyway -- in particular for every n on a stack of fewer than 2^30
    items, and for n <= 16 on a stack of fewer than 2^31 - 16 items --, the printed function is the model's general primitive [Interp.dup_n] (the top n items duplicated, in order; specified by
    [dup_n_spec] / [dup_n_none] of proofs/ShiftProofs.v), and an error for n < 1.  The loop runs n times (the fuel
    suffices); each iteration copies the item n-1 places below the top to the top. *)
From Coq Require Import List ZArith NArith Bool Lia ZifyN ZifyNat ZifyBool.
From Coq Require Import Strings.Byte.
From GoBT Require Import lib.Bytes lib.GoSem lib.GoInterp gen.Funcs proofs.GenFuncsTac proofs.GenFuncsInterpTac proofs.GenFuncsStackLoopTac proofs.GenFuncs_stack_PeekByteArray proofs.GenFuncs_stack_PushByteArray.
From GoBT Require model.Interp model.ScriptNum.
Import ListNotations.
Ltac Zify.zify_post_hook ::= Z.div_mod_to_equations.
Local Open Scope Z_scope.

(** n iterations of "copy the item n-1 places below the top to the top" are [dup_n n] *)
Lemma iter_pick_dup (n : nat) (d : list bytes) : (1 <= n)%nat ->
  iter_step (Interp.pick_n (Z.of_nat n - 1)) n d = Interp.dup_n n d.
Proof.
  intros Hn. unfold Interp.dup_n. destruct (Nat.ltb_spec (length d) n) as [Hlt|Hge].
  - destruct n as [|k]; [lia|]. apply iter_fails. apply pick_n_out. unfold Interp.lenZ. lia.
  - rewrite <- (firstn_skipn n d) at 1.
    pose proof (iter_pick (Z.of_nat n - 1) n [] (firstn n d) (skipn n d)) as Hp. cbn [app] in Hp.
    rewrite Hp by (rewrite ?firstn_length, ?lenZ_nil; lia). rewrite firstn_skipn. reflexivity.
Qed.

Lemma stack_DupN_all_n (n : Z) (d : list bytes) : Interp.lenZ d < 2147483648 -> in31 n ->
  Interp.lenZ d + n < 2147483648 \/ Interp.lenZ d < n ->
  st_view (stack_DupN n (rev d)) = Val (if n <? 1 then None else Interp.dup_n (Z.to_nat n) d).
Proof.
  intros Hs Hn Hfit. unfold in31 in *. unfold stack_DupN. destruct (n <? 1) eqn:E1; [reflexivity|]. cbv zeta.
  (* the index the loop body hands to PeekByteArray: whatever expression the source computes it with *)
  match goal with |- context [stack_PeekByteArray ?ee] => remember ee as e eqn:He end.
  assert (He' : e = n - 1) by (subst e; unfold go_sub, go_add, go_wrap; lia).
  assert (Hin : in31 e) by (unfold in31; lia).
  match goal with |- context [go_for ?fuel (n, rev d) ?cnd ?bdy ?pst] =>
    set (CND := cnd); set (BDY := bdy); set (PST := pst); set (FUEL := fuel)
  end.
  destruct (go_for_count_down (Interp.pick_n e)
              (fun k d0 => Interp.lenZ d0 < 2147483648 /\ (Interp.lenZ d0 + Z.of_nat k < 2147483648 \/ e < 0 \/ Interp.lenZ d0 <= e))
              CND BDY PST) with (fuel := FUEL) (k := Z.to_nat n) (d := d)
    as [r [Hr Hres]].
  - intros i g. reflexivity.
  - intros i g Hi. subst PST. cbv beta iota zeta. apply Val_inj. f_equal. unfold go_sub, go_add, go_conv, go_wrap. lia.
  - intros k d0 [Hinv1 Hinv2]. subst BDY. cbv beta iota.
    rewrite stack_PeekByteArray_spec by assumption. rewrite peek_model_pick.
    pose proof (pick_n_length e d0) as Hlen. rewrite peek_model_pick in Hlen.
    assert (Hout := pick_n_out e d0). rewrite peek_model_pick in Hout.
    destruct (peek_model e d0) as [x [|]]; cbn [bind fst snd].
    + eexists. reflexivity.
    + rewrite stack_PushByteArray_spec. cbn [bind]. split; [reflexivity|]. rewrite (Hlen _ eq_refl).
      destruct Hinv2 as [H|H]; [lia|]. specialize (Hout H). discriminate.
  - subst FUEL. lia.
  - lia.
  - split; [lia|]. destruct Hfit as [Hfit|Hfit]; [left; lia|right; right; lia].
  - rewrite Z2Nat.id in Hr by lia. rewrite Hr. loop_finish r.
    rewrite <- (iter_pick_dup (Z.to_nat n) d) by lia.
    replace (Z.of_nat (Z.to_nat n) - 1) with e by lia. exact Hres.
Qed.

(** every n on a stack of fewer than 2^30 items *)
Corollary stack_DupN_all_n_small (n : Z) (d : list bytes) : Interp.lenZ d < 1073741824 -> in31 n ->
  st_view (stack_DupN n (rev d)) = Val (if n <? 1 then None else Interp.dup_n (Z.to_nat n) d).
Proof. intros Hd Hn. apply stack_DupN_all_n; [lia|exact Hn|]. destruct (Z.le_gt_cases n (Interp.lenZ d)); [left; lia|right; lia]. Qed.

(** the instances the opcode handlers use (OP_DUP, OP_2DUP, OP_3DUP), on any stack the interpreter can hold *)
Corollary stack_DupN_handlers (n : Z) (d : list bytes) : small d -> n = 1 \/ n = 2 \/ n = 3 ->
  st_view (stack_DupN n (rev d)) = Val (Interp.dup_n (Z.to_nat n) d).
Proof.
  intros Hd Hn. unfold small in Hd. rewrite stack_DupN_all_n by (unfold in31; lia).
  replace (n <? 1) with false by lia. reflexivity.
Qed.
