(** Output.BytesForSigHash (output.go), as printed from the Go source, is [bytes_for_sighash] of model/SigHash.v on every
    output whose LockingScript pointer is not nil; on a nil pointer it panics. *)
From Coq Require Import List ZArith NArith Bool Lia ZifyN ZifyNat ZifyBool.
From Coq Require Import Strings.Byte.
From GoBT Require Import lib.Bytes lib.VarInt lib.GoSem lib.GoTx gen.Funcs proofs.GenFuncsTac proofs.GenFuncsTxTac model.Tx model.SigHash.
Import ListNotations.
Ltac Zify.zify_post_hook ::= Z.div_mod_to_equations.
Local Open Scope Z_scope.

Lemma Output_BytesForSigHash_is_model sats s : u64 sats -> len_ok s ->
  Output_BytesForSigHash sats (Some s) = Val (bytes_for_sighash (mkOutput (Z.to_N sats) s)).
Proof.
  intros Hs Hl. unfold Output_BytesForSigHash. tx_norm. apply Val_inj.
  unfold bytes_for_sighash, lenN. cbn [out_sats out_script]. tx_bytes_eq.
Qed.

Lemma Output_BytesForSigHash_nil_script sats : Output_BytesForSigHash sats None = Panic.
Proof. unfold Output_BytesForSigHash. tx_norm. reflexivity. Qed.

Lemma Output_BytesForSigHash_go (g : go_Output) : go_output_ok g ->
  Output_BytesForSigHash (Output_Satoshis g) (Output_LockingScript g) = Val (bytes_for_sighash (output_of_go g)).
Proof.
  intros (Hs & Hn & Hl). destruct g as [sats [s|]]; cbn [Output_Satoshis Output_LockingScript] in *; [|congruence].
  apply Output_BytesForSigHash_is_model; assumption.
Qed.
