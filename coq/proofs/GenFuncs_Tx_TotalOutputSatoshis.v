(** Tx.TotalOutputSatoshis (txoutput.go), as printed from the Go source, is [total_out] of model/Fees.v: the uint64
    accumulator wraps in both ([go_add U64] / [add64]).  The LockingScript pointer is not read: a nil one is fine. *)
From Coq Require Import List ZArith NArith Bool Lia ZifyN ZifyNat ZifyBool.
From Coq Require Import Strings.Byte.
From GoBT Require Import lib.Bytes lib.VarInt lib.GoSem lib.GoTx gen.Funcs proofs.GenFuncsTac proofs.GenFuncsTxTac model.Tx model.Fees.
Import ListNotations.
Ltac Zify.zify_post_hook ::= Z.div_mod_to_equations.
Local Open Scope Z_scope.

Definition sum_step_out (a : Z) (g : go_Output) : Z := go_add U64 a (Output_Satoshis g).
Definition go_sats_ok (g : go_Output) : Prop := u64 (Output_Satoshis g).

Lemma fold_sum_out outs (a : N) : Forall go_sats_ok outs ->
  fold_left sum_step_out outs (Z.of_N a) = Z.of_N (fold_left (fun a o => add64 a (out_sats o)) (map output_of_go outs) a).
Proof.
  intros H. revert a. induction H as [|g r Hs Hr IH]; intros a; cbn [fold_left map]; [reflexivity|].
  replace (sum_step_out (Z.of_N a) g) with (Z.of_N (add64 a (out_sats (output_of_go g)))); [apply IH|].
  unfold sum_step_out, add64, go_add, go_wrap, two64, output_of_go, go_sats_ok, u64 in *. cbn [out_sats]. lia.
Qed.

Lemma Tx_TotalOutputSatoshis_is_model ins outs ver lock : Forall go_sats_ok outs -> len_ok outs ->
  Tx_TotalOutputSatoshis (map Some outs) = Val (Z.of_N (total_out (tx_of_go ins outs ver lock))).
Proof.
  intros Houts Hl. unfold Tx_TotalOutputSatoshis. tx_norm.
  tx_loop outs sum_step_out go_sats_ok Houts;
    [ tx_norm; apply Val_inj; unfold total_out, tx_of_go; cbn [tx_outs]; exact (fold_sum_out outs 0%N Houts)
    | intros i g a Hg; try intros Hidx; tx_norm; reflexivity ].
Qed.

Lemma go_output_ok_sats outs : Forall go_output_ok outs -> Forall go_sats_ok outs.
Proof. apply Forall_impl. intros g (H & _). exact H. Qed.
