(** opcodeSplit (bscript/interpreter/operations.go), as printed from the Go source, is the branch of [Interp.exec_handler]
    for OP_SPLIT: for every context and state (data stack of fewer than 2^31 - 16 items, items shorter than 2^63 bytes), the printed
    function applied to the thread fields it uses -- the data stack in Go order, [rev (ds s)], the limits of the stack's number conversion --
    yields the model's outcome (ok with the new stack / script error / panic), and never runs out of fuel. *)
From Coq Require Import List ZArith NArith Bool Lia ZifyN ZifyNat ZifyBool.
From Coq Require Import Strings.Byte.
From GoBT Require Import lib.Bytes lib.GoSem lib.GoInterp gen.Funcs proofs.GenFuncsTac proofs.GenFuncsInterpTac proofs.GenFuncs_stack_PopInt proofs.GenFuncs_stack_PopByteArray proofs.GenFuncs_stack_PushByteArray.
From GoBT Require model.Interp model.ScriptNum.
Import ListNotations.
Ltac Zify.zify_post_hook ::= Z.div_mod_to_equations.
Local Open Scope Z_scope.

(** the branch of the model this handler is compared with (opcode OP_SPLIT; proofs/DispatchProofs.v ties the table) *)
Lemma exec_at_opcodeSplit so c p idx s : Interp.p_real p = true -> Interp.p_val p = Interp.OP_SPLIT ->
  Interp.exec_handler so c p idx s =
  match Interp.ds s with
  | nb :: r =>
      match Interp.pop_num c nb with
      | None => Interp.OErr
      | Some n =>
          match r with
          | x :: r' =>
              if Interp.lenZ x <? n then Interp.OErr
              else if n <? 0 then Interp.OErr
              else Interp.OOk (Interp.set_ds s (skipn (Z.to_nat n) x :: firstn (Z.to_nat n) x :: r'))
          | [] => Interp.OErr
          end
      end
  | [] => Interp.OErr
  end.
Proof. intros Hr Hv. unfold Interp.exec_handler. rewrite Hr, Hv. reflexivity. Qed.

Lemma opcodeSplit_is_model so c p idx s : small (Interp.ds s) -> items_ok (Interp.ds s) -> Interp.p_real p = true -> Interp.p_val p = Interp.OP_SPLIT ->
  h_view s (opcodeSplit (Interp.max_numlen c) (Interp.has_flag c Interp.F_MINIMALDATA) (Interp.after_genesis c) (rev (Interp.ds s))) = Some (Interp.exec_handler so c p idx s).
Proof.
  intros Hs Hi Hr Hv. rewrite (exec_at_opcodeSplit so c p idx s Hr Hv).
  destruct s as [d a cd el no ls ea cu]. cbn [Interp.ds Interp.als] in *. h_model.
  go_list_cases d 2%nat; h_items; unfold opcodeSplit, sn_lt, sn_gt; stk_run; h_nums; try h_done.
  assert (Hx : go_len x0 = Interp.lenZ x0) by reflexivity.
  assert (Hb : 0 <= Interp.lenZ x0 < 9223372036854775808) by (unfold Interp.lenZ, lenN in *; lia).
  rewrite Hx. wrap32.
  destruct (Interp.lenZ x0 <? z) eqn:E1; stk_run; [h_done|].
  destruct (z <? 0) eqn:E2; stk_run; [h_done|].
  assert (Hz : sn_int z = z) by (unfold sn_int, ScriptNum.to_int, ScriptNum.to_int64, ScriptNum.clamp, ScriptNum.min_i64, ScriptNum.max_i64; repeat match goal with |- context [if ?c then _ else _] => destruct c eqn:? end; lia).
  rewrite Hz. unfold go_slice_to, go_slice_from, go_slice. rewrite Hx.
  replace ((0 <=? 0) && (0 <=? z) && (z <=? Interp.lenZ x0)) with true by lia.
  replace ((0 <=? z) && (z <=? Interp.lenZ x0) && (Interp.lenZ x0 <=? Interp.lenZ x0)) with true by lia.
  stk_run. cbn [h_view]. h_model. rewrite rev_involutive.
  rewrite Z.sub_0_r. cbn [Z.to_nat skipn].
  replace (firstn (Z.to_nat (Interp.lenZ x0 - z)) (skipn (Z.to_nat z) x0)) with (skipn (Z.to_nat z) x0)
    by (symmetry; apply firstn_all2; rewrite skipn_length; unfold Interp.lenZ in *; lia).
  reflexivity.
Qed.
