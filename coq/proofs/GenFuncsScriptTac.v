(** Lemmas and tactics for the equivalence proofs of the printed push-data codec and script classifiers
    (proofs/GenFuncs_DecodeParts.v, GenFuncs_Script_IsP2PK.v, ...): slicing at positions given by arbitrary integer
    expressions (side conditions by [lia]), and a normaliser that evaluates the plumbing of a printed term over a list
    whose first elements are explicit -- never matching the shape of the printed term. *)
From Coq Require Import List ZArith NArith Bool Lia ZifyN ZifyNat ZifyBool.
From Coq Require Import Strings.Byte.
From GoBT Require Import lib.Bytes lib.GoSem proofs.GenFuncsTac proofs.GenFuncsLoopTac.
From GoBT Require lib.Checked.
Import ListNotations.
Ltac Zify.zify_post_hook ::= Z.div_mod_to_equations.
Local Open Scope Z_scope.

Lemma go_slice_from_eq {A} (l : list A) (k : Z) :
  0 <= k <= go_len l -> go_slice_from l k = Val (skipn (Z.to_nat k) l).
Proof.
  intros H. unfold go_slice_from, go_slice.
  replace ((0 <=? k) && (k <=? go_len l) && (go_len l <=? go_len l)) with true by lia.
  rewrite firstn_all2; [reflexivity|]. rewrite skipn_length. unfold go_len in *. lia.
Qed.
Lemma go_slice_to_eq {A} (l : list A) (k : Z) :
  0 <= k <= go_len l -> go_slice_to l k = Val (firstn (Z.to_nat k) l).
Proof.
  intros H. unfold go_slice_to, go_slice.
  replace ((0 <=? 0) && (0 <=? k) && (k <=? go_len l)) with true by lia.
  rewrite Z.sub_0_r. reflexivity.
Qed.
Lemma go_slice_eq {A} (l : list A) (lo hi : Z) :
  0 <= lo <= hi -> hi <= go_len l -> go_slice l lo hi = Val (firstn (Z.to_nat hi - Z.to_nat lo) (skipn (Z.to_nat lo) l)).
Proof.
  intros H1 H2. unfold go_slice. replace ((0 <=? lo) && (lo <=? hi) && (hi <=? go_len l)) with true by lia.
  rewrite Z2Nat.inj_sub by lia. reflexivity.
Qed.
Lemma go_slice_from_out {A} (l : list A) (k : Z) : k < 0 \/ go_len l < k -> go_slice_from l k = Panic.
Proof.
  intros H. unfold go_slice_from, go_slice.
  replace ((0 <=? k) && (k <=? go_len l) && (go_len l <=? go_len l)) with false by lia. reflexivity.
Qed.
Lemma go_le_get_eq (n : nat) (l : bytes) : Z.of_nat n <= go_len l -> go_le_get n l = Val (Z.of_N (le_dec (firstn n l))).
Proof. intros H. unfold go_le_get. replace (go_len l <? Z.of_nat n) with false by lia. reflexivity. Qed.

Lemma go_len_skipn {A} (l : list A) (n : nat) : go_len (skipn n l) = go_len l - Z.of_nat (Nat.min n (length l)).
Proof. unfold go_len. rewrite skipn_length. lia. Qed.
Lemma go_len_firstn {A} (l : list A) (n : nat) : go_len (firstn n l) = Z.of_nat (Nat.min n (length l)).
Proof. unfold go_len. rewrite firstn_length. reflexivity. Qed.

Lemma skipn_S_cons {A} (a : A) l n : skipn (Datatypes.S n) (a :: l) = skipn n l.
Proof. reflexivity. Qed.

Lemma skipn_cons_Z {A} (a : A) l k : 1 <= k -> skipn (Z.to_nat k) (a :: l) = skipn (Z.to_nat (k - 1)) l.
Proof. intros H. replace (Z.to_nat k) with (Datatypes.S (Z.to_nat (k - 1))) by lia. reflexivity. Qed.

(** the ranges of the bytes in the context, for [lia] *)
Ltac byte_bounds :=
  repeat match goal with
  | b : byte |- _ => lazymatch goal with
                     | _ : (b2n b < 256)%N |- _ => fail
                     | _ => pose proof (b2n_lt b)
                     end
  end.

(** the list has at least [n] more elements ([E] bounds its length from below): make them explicit *)
Tactic Notation "explode" ident(r) ident(E) integer(n) :=
  do n (destruct r as [|? r]; [exfalso; unfold lenN, Checked.lenNg in E; cbn [length] in E; lia|]).

(** [Z.to_nat] of closed numerals *)
Ltac closed_Z k := lazymatch k with Z0 => idtac | Zpos ?p => closed_pos p | Zneg ?p => closed_pos p end
with closed_pos p := lazymatch p with xH => idtac | xO ?q => closed_pos q | xI ?q => closed_pos q end.
Ltac to_nat_norm :=
  repeat match goal with
  | |- context [Z.to_nat ?k] => closed_Z k; let n := eval vm_compute in (Z.to_nat k) in change (Z.to_nat k) with n
  end.

(** side conditions: lengths of explicit-prefix lists *)
Ltac len_side := rewrite ?go_len_cons, ?go_len_nil, ?go_len_lenN; unfold go_add, go_sub, go_conv, go_wrap, b2z in *; cbn [length] in *; lia.

(** evaluate slicing / indexing / length of lists with explicit first elements, wherever it occurs in the goal *)
Ltac slice_norm :=
  repeat first
  [ progress (cbn [bind skipn firstn Nat.sub])
  | progress (unfold go_andthen, go_orelse)
  | progress to_nat_norm
  | progress go_index_norm
  | rewrite go_slice_from_eq by len_side
  | rewrite go_slice_to_eq by len_side
  | rewrite go_slice_eq by len_side
  | rewrite go_le_get_eq by len_side
  | rewrite skipn_cons_Z by len_side
  | rewrite b2z_b2n
  | rewrite go_len_cons
  | rewrite go_len_nil
  | rewrite go_len_lenN
  | progress go_decide ].

