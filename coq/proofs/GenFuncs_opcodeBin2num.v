(** opcodeBin2num (bscript/interpreter/operations.go), as printed from the Go source, is the branch of [Interp.exec_handler]
    for OP_BIN2NUM: for every context and state (data stack of fewer than 2^31 - 16 items, items not longer than 2^48 bytes --
    Go's maxAlloc: minimallyEncode copies its argument), the printed
    function applied to the thread fields it uses -- the era ([t.cfg]), the data stack in Go order, [rev (ds s)] --
    yields the model's outcome (ok with the new stack / script error / panic), and never runs out of fuel. *)
From Coq Require Import List ZArith NArith Bool Lia ZifyN ZifyNat ZifyBool.
From Coq Require Import Strings.Byte.
From GoBT Require Import lib.Bytes lib.GoSem lib.GoInterp gen.Funcs proofs.GenFuncsTac proofs.GenFuncsInterpTac proofs.GenFuncsBytesTac proofs.GenFuncs_stack_PopByteArray proofs.GenFuncs_stack_PushByteArray proofs.GenFuncs_minimallyEncode.
From GoBT Require model.Interp model.ScriptNum.
Import ListNotations.
Ltac Zify.zify_post_hook ::= Z.div_mod_to_equations.
Local Open Scope Z_scope.

(** the branch of the model this handler is compared with (opcode OP_BIN2NUM; proofs/DispatchProofs.v ties the table) *)
Lemma exec_at_opcodeBin2num so c p idx s : Interp.p_real p = true -> Interp.p_val p = Interp.OP_BIN2NUM ->
  Interp.exec_handler so c p idx s =
  match Interp.ds s with
  | a :: r => let b := ScriptNum.minimally_encode a in
              if Interp.max_numlen c <? Interp.lenZ b then Interp.OErr else Interp.push (Interp.set_ds s r) b
  | [] => Interp.OErr
  end.
Proof. intros Hr Hv. unfold Interp.exec_handler. rewrite Hr, Hv. reflexivity. Qed.

Lemma opcodeBin2num_is_model so c p idx s : small (Interp.ds s) -> items_alloc (Interp.ds s) -> Interp.p_real p = true -> Interp.p_val p = Interp.OP_BIN2NUM ->
  h_view s (opcodeBin2num (Interp.after_genesis c) (rev (Interp.ds s))) = Some (Interp.exec_handler so c p idx s).
Proof.
  intros Hs Hi Hr Hv. rewrite (exec_at_opcodeBin2num so c p idx s Hr Hv).
  destruct s as [d a cd el no ls ea cu]. cbn [Interp.ds Interp.als] in *. h_model.
  go_list_cases d 1%nat; unfold opcodeBin2num; stk_run; try h_done.
  rewrite minimallyEncode_is_model by (exact (Forall_inv Hi)). stk_run.
  rewrite !cfg_MaxScriptNumberLength_model. stk_run.
  change (go_len (ScriptNum.minimally_encode x)) with (Interp.lenZ (ScriptNum.minimally_encode x)).
  destruct (Interp.max_numlen c <? Interp.lenZ (ScriptNum.minimally_encode x)); stk_run; h_done.
Qed.
