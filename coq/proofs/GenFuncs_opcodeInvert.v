(** opcodeInvert (bscript/interpreter/operations.go), as printed from the Go source, is the branch of [Interp.exec_handler]
    for OP_INVERT: for every context and state (data stack of fewer than 2^31 - 16 items, items not longer than 2^48 bytes --
    Go's maxAlloc: the handler allocates the result), the printed
    function applied to the thread fields it uses -- the data stack in Go order, [rev (ds s)] --
    yields the model's outcome (ok with the new stack / script error / panic), and never runs out of fuel. *)
From Coq Require Import List ZArith NArith Bool Lia ZifyN ZifyNat ZifyBool.
From Coq Require Import Strings.Byte.
From GoBT Require Import lib.Bytes lib.GoSem lib.GoInterp gen.Funcs proofs.GenFuncsTac proofs.GenFuncsLoopTac proofs.GenFuncsInterpTac proofs.GenFuncsBytesTac proofs.GenFuncs_stack_PopByteArray proofs.GenFuncs_stack_PushByteArray.
From GoBT Require model.Interp model.ScriptNum.
Import ListNotations.
Ltac Zify.zify_post_hook ::= Z.div_mod_to_equations.
Local Open Scope Z_scope.

(** the branch of the model this handler is compared with (opcode OP_INVERT; proofs/DispatchProofs.v ties the table) *)
Lemma exec_at_opcodeInvert so c p idx s : Interp.p_real p = true -> Interp.p_val p = Interp.OP_INVERT ->
  Interp.exec_handler so c p idx s =
  match Interp.ds s with
  | a :: r => Interp.push (Interp.set_ds s r) (map (fun x => n2b (N.lxor (b2n x) 255)) a)
  | [] => Interp.OErr
  end.
Proof. intros Hr Hv. unfold Interp.exec_handler. rewrite Hr, Hv. reflexivity. Qed.

(** one byte: Go's [b ^ 0xff] (however the operands are written) *)
Lemma invert_byte (x : byte) : z2b (go_xor U8 (b2z x) 255) = n2b (N.lxor (b2n x) 255) /\ z2b (go_xor U8 255 (b2z x)) = n2b (N.lxor (b2n x) 255)
  /\ z2b (go_not U8 (b2z x)) = n2b (N.lxor (b2n x) 255).
Proof. destruct x; vm_compute; repeat split; reflexivity. Qed.

Lemma opcodeInvert_is_model so c p idx s : small (Interp.ds s) -> items_alloc (Interp.ds s) -> Interp.p_real p = true -> Interp.p_val p = Interp.OP_INVERT ->
  h_view s (opcodeInvert (rev (Interp.ds s))) = Some (Interp.exec_handler so c p idx s).
Proof.
  intros Hs Hi Hr Hv. rewrite (exec_at_opcodeInvert so c p idx s Hr Hv).
  destruct s as [d a cd el no ls ea cu]. cbn [Interp.ds Interp.als] in *. h_model.
  go_list_cases d 1%nat; h_alloc; unfold opcodeInvert; stk_run; try h_done.
  rewrite go_make_bytes_len by assumption. stk_run.
  rewrite (go_range_fill (fun _ y => n2b (N.lxor (b2n y) 255))).
  - stk_run. rewrite (mapi_map _ (fun y => n2b (N.lxor (b2n y) 255))) by reflexivity. h_done.
  - apply repeat_byte_length.
  - intros i y buf Hy Hl.
    assert (Hlt : (i < length x)%nat) by (apply nth_error_Some; congruence).
    repeat match goal with
    | |- context [go_index_b x ?e] => rewrite (go_index_b_at x e i y Hy) by lia
    end.
    cbn [bind].
    repeat match goal with
    | |- context [go_set_index buf ?e ?v] => rewrite (go_set_index_at buf e i v) by lia
    end.
    cbn [bind]. destruct (invert_byte y) as [H1 [H2 H3]]. rewrite ?H1, ?H2, ?H3. reflexivity.
Qed.
