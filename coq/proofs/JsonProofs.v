(** Proofs about the JSON model (model/Json.v).
    C09: the struct-level unmarshal halves never panic, whatever the document contained.
    C16: marshal-then-unmarshal gives back the transaction / output / UTXO (both dialects, single
    values and lists); marshalling never panics for anything the library builds or decodes. *)
From Coq Require Import List NArith String Bool Lia.
From Coq Require Import Strings.Byte.
From GoBT Require Import lib.Bytes lib.Hex lib.Parse lib.VarInt lib.Sha256 model.Tx proofs.TxProofs
  model.Alloc proofs.AllocProofs model.Amount proofs.AmountProofs model.Json.
Import ListNotations.
Local Open Scope N_scope.

(** * generic facts about the result monad *)
Lemma jbind_np {A B} (r : jres A) (f : A -> jres B) :
  r <> JPanic -> (forall a, f a <> JPanic) -> jbind r f <> JPanic.
Proof. destruct r; cbn; auto; congruence. Qed.

Lemma jmapM_np {A B} (f : A -> jres B) l : (forall x, f x <> JPanic) -> jmapM f l <> JPanic.
Proof.
  intros Hf. induction l as [|x l IH]; cbn [jmapM]; [discriminate|].
  apply jbind_np; [apply Hf|]. intros y. apply jbind_np; [exact IH|]. discriminate.
Qed.

Lemma jmapM_map {A B} (f : A -> jres B) (h : A -> B) l :
  (forall x, In x l -> f x = JOk (h x)) -> jmapM f l = JOk (map h l).
Proof.
  induction l as [|x l IH]; intros H; cbn [jmapM map]; [reflexivity|].
  rewrite (H x (or_introl eq_refl)). cbn [jbind]. rewrite IH by (intros; apply H; right; assumption).
  reflexivity.
Qed.

Lemma jmapM_map_some {A B} (f : A -> jres B) (l : list A) :
  jmapM (on_elem f) (map Some l) = jbind (jmapM f l) (fun ys => JOk (map Some ys)).
Proof.
  induction l as [|x l IH]; cbn [jmapM map on_elem jbind]; [reflexivity|].
  destruct (f x) as [y| |]; cbn [jbind]; auto. rewrite IH.
  destruct (jmapM f l); reflexivity.
Qed.

(** * C09: struct-level decoding never panics *)
Lemma from_hex_np s : from_hex s <> JPanic.
Proof. unfold from_hex. destruct (hexdecode s); discriminate. Qed.

Lemma tx_from_hex_np s : tx_from_hex s <> JPanic.
Proof.
  unfold tx_from_hex. destruct (hexdecode s) as [b|]; [|discriminate].
  pose proof (decode_total_from_bytes b). destruct (tx_from_bytes b); congruence.
Qed.

Lemma unmarshal_input_np j : unmarshal_input j <> JPanic.
Proof.
  unfold unmarshal_input. apply jbind_np; [apply from_hex_np|]. intros.
  apply jbind_np; [apply from_hex_np|]. discriminate.
Qed.
Lemma unmarshal_output_np j : unmarshal_output j <> JPanic.
Proof. unfold unmarshal_output. apply jbind_np; [apply from_hex_np|]. discriminate. Qed.
Lemma on_elem_np {A B} (f : A -> jres B) x : (forall a, f a <> JPanic) -> on_elem f x <> JPanic.
Proof. intros H. destruct x; cbn; [|discriminate]. apply jbind_np; [apply H|discriminate]. Qed.

Theorem unmarshal_tx_np prev j : unmarshal_tx prev j <> JPanic.
Proof.
  unfold unmarshal_tx.
  apply jbind_np; [apply jmapM_np; intros; apply on_elem_np, unmarshal_input_np|]. intros _.
  apply jbind_np; [apply jmapM_np; intros; apply on_elem_np, unmarshal_output_np|]. intros _.
  destruct (String.eqb _ _); [discriminate|apply tx_from_hex_np].
Qed.

Theorem to_output_np o : to_output o <> JPanic.
Proof.
  unfold to_output. destruct o as [o'|]; cbn [is_nil deref jbind]; [|discriminate].
  destruct (no_spk o') as [spk|]; cbn [is_nil deref jbind]; [|discriminate].
  apply jbind_np; [apply from_hex_np|]. discriminate.
Qed.

Theorem to_input_np i : to_input i <> JPanic.
Proof.
  unfold to_input. destruct i as [i'|]; cbn [is_nil deref jbind]; [|discriminate].
  destruct (ni_scriptsig i') as [ss|]; cbn [is_nil deref jbind]; [|discriminate].
  apply jbind_np; [apply from_hex_np|]. intros s.
  apply jbind_np; [apply from_hex_np|]. intros t.
  destruct (Nat.eqb _ _); discriminate.
Qed.

Theorem node_unmarshal_tx_np prev j : node_unmarshal_tx prev j <> JPanic.
Proof.
  unfold node_unmarshal_tx. destruct (negb _); [apply tx_from_hex_np|].
  apply jbind_np; [apply jmapM_np, to_output_np|]. intros outs.
  apply jbind_np; [apply jmapM_np, to_input_np|]. discriminate.
Qed.

Theorem unmarshal_utxo_np prev j : unmarshal_utxo prev j <> JPanic.
Proof.
  unfold unmarshal_utxo. apply jbind_np; [apply from_hex_np|]. intros.
  apply jbind_np; [apply from_hex_np|]. discriminate.
Qed.
Theorem node_unmarshal_utxo_np prev j : node_unmarshal_utxo prev j <> JPanic.
Proof.
  unfold node_unmarshal_utxo. apply jbind_np; [apply from_hex_np|]. intros.
  apply jbind_np; [apply from_hex_np|]. discriminate.
Qed.

(** every JSON decoding entry point, single values and lists *)
Theorem json_struct_decode_no_panic :
  (forall prev j, unmarshal_tx prev j <> JPanic) /\
  (forall j, unmarshal_input j <> JPanic) /\
  (forall j, unmarshal_output j <> JPanic) /\
  (forall prev j, unmarshal_utxo prev j <> JPanic) /\
  (forall prev j, node_unmarshal_tx prev j <> JPanic) /\
  (forall j, node_unmarshal_output j <> JPanic) /\
  (forall prev j, node_unmarshal_utxo prev j <> JPanic) /\
  (forall l, unmarshal_txs l <> JPanic) /\
  (forall l, unmarshal_utxos l <> JPanic) /\
  (forall l, node_unmarshal_txs l <> JPanic) /\
  (forall l, node_unmarshal_utxos l <> JPanic).
Proof.
  repeat split; intros;
    first [ apply unmarshal_tx_np | apply unmarshal_input_np | apply unmarshal_output_np
          | apply unmarshal_utxo_np | apply node_unmarshal_tx_np | apply to_output_np
          | apply node_unmarshal_utxo_np
          | apply jmapM_np; intros;
            first [apply unmarshal_tx_np | apply unmarshal_utxo_np | apply node_unmarshal_tx_np | apply node_unmarshal_utxo_np] ].
Qed.

(** * C16: round trips *)
Lemma from_hex_hex_of b : from_hex (hex_of b) = JOk b.
Proof. unfold from_hex. rewrite hexdecode_hex_of. reflexivity. Qed.

Lemma hex_of_nonempty b : (1 <= List.length b)%nat -> String.eqb (hex_of b) "" = false.
Proof. destruct b; cbn; [lia|reflexivity]. Qed.

Lemma outs_plain g : outs_set g ->
  jmapM output_of (g_outs g) = JOk (map (fun o => mkOutput (go_sats o) (script_or_empty (go_lock o))) (g_outs g)).
Proof.
  intros H. apply jmapM_map. intros o Ho. unfold outs_set in H. rewrite Forall_forall in H.
  specialize (H o Ho). unfold wf_goutput in H. unfold output_of.
  destruct (go_lock o); [reflexivity|congruence].
Qed.

Lemma tx_of_plain g : outs_set g -> tx_of g = JOk (plain_tx g).
Proof. intros H. unfold tx_of. rewrite (outs_plain g H). reflexivity. Qed.

Lemma gtx_bytes_plain g : outs_set g -> gtx_bytes g = JOk (tx_bytes false (plain_tx g)).
Proof. intros H. unfold gtx_bytes. rewrite (tx_of_plain g H). reflexivity. Qed.

Definition marshal_input' (i : ginput) : input_j :=
  mkInputJ (script_string (gi_unlock i)) (hex_of (gi_txid i)) (gi_vout i) (gi_seq i).
Definition marshal_output' (o : goutput) : output_j :=
  mkOutputJ (go_sats o) (hex_of (script_or_empty (go_lock o))).

Lemma marshal_outputs g : outs_set g -> jmapM marshal_output (g_outs g) = JOk (map marshal_output' (g_outs g)).
Proof.
  intros H. apply jmapM_map. intros o Ho. unfold outs_set in H. rewrite Forall_forall in H.
  specialize (H o Ho). unfold wf_goutput in H. unfold marshal_output, marshal_output'.
  destruct (go_lock o); [reflexivity|congruence].
Qed.

(** the result of every tx round trip: the fields a standard serialisation carries *)
Definition tx_back (g : gtx) : gtx := gtx_of_tx (strip_tx (plain_tx g)).

Lemma tx_from_hex_own g : wf_tx (plain_tx g) -> ~ ambiguous (plain_tx g) ->
  tx_from_hex (hex_of (tx_bytes false (plain_tx g))) = JOk (tx_back g).
Proof.
  intros Hwf Hamb. unfold tx_from_hex. rewrite hexdecode_hex_of.
  rewrite (from_bytes_roundtrip_std _ Hwf Hamb). reflexivity.
Qed.

(** library dialect: Tx *)
Theorem tx_json_roundtrip prev g : wf_gtx g -> ~ ambiguous (plain_tx g) ->
  exists j, marshal_tx g = JOk j /\ unmarshal_tx prev j = JOk (tx_back g).
Proof.
  intros [Hout Hwf] Hamb. unfold marshal_tx.
  rewrite (gtx_bytes_plain g Hout). cbn [jbind].
  rewrite (jmapM_map marshal_input marshal_input') by reflexivity. cbn [jbind].
  rewrite (marshal_outputs g Hout). cbn [jbind].
  eexists. split; [reflexivity|].
  unfold unmarshal_tx. cbn [tj_ins tj_outs tj_hex tj_version tj_lock].
  rewrite !jmapM_map_some.
  rewrite (jmapM_map unmarshal_input (fun j => mkGInput (unhex (ij_txid j)) (ij_vout j) (Some (unhex (ij_unlock j))) (ij_seq j) 0 None)).
  2:{ intros j Hj. apply in_map_iff in Hj. destruct Hj as (i & <- & _).
      unfold unmarshal_input, marshal_input', script_string. cbn [ij_txid ij_unlock ij_vout ij_seq].
      rewrite !from_hex_hex_of, !unhex_hex_of. reflexivity. }
  cbn [jbind].
  rewrite (jmapM_map unmarshal_output (fun j => mkGOutput (oj_sats j) (Some (unhex (oj_lock j))))).
  2:{ intros j Hj. apply in_map_iff in Hj. destruct Hj as (o & <- & _).
      unfold unmarshal_output, marshal_output'. cbn [oj_lock oj_sats].
      rewrite from_hex_hex_of, unhex_hex_of. reflexivity. }
  cbn [jbind].
  rewrite hex_of_nonempty by apply tx_bytes_nonempty.
  apply tx_from_hex_own; assumption.
Qed.

(** what comes back serialises to the same bytes, hence has the same txid; outputs (amounts and
    script bytes) are identical, inputs keep txid / vout / unlocking script bytes / sequence *)
Lemma plain_back g : plain_tx (tx_back g) = strip_tx (plain_tx g).
Proof.
  unfold tx_back, gtx_of_tx, plain_tx, strip_tx. cbn [g_version g_ins g_outs g_lock tx_version tx_ins tx_outs tx_lock].
  f_equal.
  - rewrite !map_map. apply map_ext. intros i. reflexivity.
  - rewrite !map_map. apply map_ext. intros o. reflexivity.
Qed.

Lemma outs_set_back g : outs_set (tx_back g).
Proof.
  unfold outs_set, tx_back, gtx_of_tx. cbn [g_outs]. apply Forall_forall. intros o Ho.
  apply in_map_iff in Ho. destruct Ho as (x & <- & _). unfold wf_goutput. cbn. discriminate.
Qed.

Theorem tx_roundtrip_same_bytes g : outs_set g -> gtx_bytes (tx_back g) = gtx_bytes g.
Proof.
  intros H. rewrite (gtx_bytes_plain _ (outs_set_back g)), (gtx_bytes_plain g H), plain_back, reserialise_std.
  reflexivity.
Qed.

Theorem tx_roundtrip_same_outputs g : outs_set g -> g_outs (tx_back g) = g_outs g.
Proof.
  intros H. unfold tx_back, gtx_of_tx, strip_tx, plain_tx. cbn [g_outs tx_outs].
  rewrite map_map. rewrite <- (map_id (g_outs g)) at 2. apply map_ext_in. intros o Ho.
  unfold outs_set in H. rewrite Forall_forall in H. specialize (H o Ho). unfold wf_goutput in H.
  unfold goutput_of_parsed. cbn. destruct o as [s [l|]]; cbn in *; congruence.
Qed.

Theorem tx_roundtrip_inputs g :
  g_ins (tx_back g) =
  map (fun i => mkGInput (gi_txid i) (gi_vout i) (Some (script_or_empty (gi_unlock i))) (gi_seq i) 0 None) (g_ins g).
Proof.
  unfold tx_back, gtx_of_tx, strip_tx, plain_tx. cbn [g_ins tx_ins]. rewrite !map_map. reflexivity.
Qed.

(** marshalling does not panic for unsigned / partially signed transactions (nil unlocking scripts) *)
Theorem marshal_tx_no_panic g : outs_set g -> marshal_tx g <> JPanic.
Proof.
  intros Hout. unfold marshal_tx. rewrite (gtx_bytes_plain g Hout). cbn [jbind].
  rewrite (jmapM_map marshal_input marshal_input') by reflexivity. cbn [jbind].
  rewrite (marshal_outputs g Hout). discriminate.
Qed.

Section Node.
Variable script_info : bytes -> jres (string * N * string).

Lemma from_outputs_np idx l : (forall s, script_info s <> JPanic) -> Forall wf_goutput l ->
  from_outputs script_info idx l <> JPanic.
Proof.
  intros Hs H. revert idx. induction H as [|o l Ho Hl IH]; intros idx; cbn [from_outputs]; [discriminate|].
  apply jbind_np.
  - unfold from_output. unfold wf_goutput in Ho. destruct (go_lock o) as [s|]; [|congruence]. cbn [deref jbind].
    apply jbind_np; [apply Hs|discriminate].
  - intros y. apply jbind_np; [apply IH|discriminate].
Qed.

Theorem node_marshal_tx_no_panic g : (forall s, script_info s <> JPanic) -> outs_set g ->
  node_marshal_tx script_info g <> JPanic.
Proof.
  intros Hs Hout. unfold node_marshal_tx.
  apply jbind_np; [apply from_outputs_np; assumption|]. intros outs.
  apply jbind_np.
  - apply jmapM_np. intros i. unfold from_input. apply jbind_np; [|discriminate].
    destruct (gi_unlock i); [|discriminate]. apply jbind_np; [apply Hs|discriminate].
  - intros ins. rewrite (gtx_bytes_plain g Hout). discriminate.
Qed.

(** node dialect: Tx (the document carries "hex", which the unmarshal half prefers) *)
Theorem node_tx_json_roundtrip prev g j : wf_gtx g -> ~ ambiguous (plain_tx g) ->
  node_marshal_tx script_info g = JOk j -> node_unmarshal_tx prev j = JOk (tx_back g).
Proof.
  intros [Hout Hwf] Hamb. unfold node_marshal_tx.
  destruct (from_outputs script_info 0 (g_outs g)) as [outs| |]; cbn [jbind]; try discriminate.
  destruct (jmapM (from_input script_info) (g_ins g)) as [ins| |]; cbn [jbind]; try discriminate.
  rewrite (gtx_bytes_plain g Hout). cbn [jbind].
  remember (tx_bytes false (plain_tx g)) as b eqn:Eb. intros [= <-].
  unfold node_unmarshal_tx. cbn [nt_hex].
  rewrite hex_of_nonempty by (subst b; apply tx_bytes_nonempty). cbn [negb].
  subst b. apply tx_from_hex_own; assumption.
Qed.

(** node dialect: a single output - the amount travels as a float64 coin value *)
Theorem node_output_roundtrip idx o j : go_sats o <= max_money ->
  from_output script_info idx o = JOk j ->
  node_unmarshal_output (Some j) = JOk (mkGOutput (go_sats o) (Some (script_or_empty (go_lock o)))).
Proof.
  intros Hm. unfold from_output. destruct (go_lock o) as [s|]; cbn [deref jbind]; [|discriminate].
  destruct (script_info s) as [info| |]; cbn [jbind]; try discriminate. intros [= <-].
  unfold node_unmarshal_output, to_output. cbn [is_nil deref jbind no_spk spk_hex no_value].
  rewrite from_hex_hex_of. cbn [jbind script_or_empty]. rewrite (amount_roundtrip _ Hm). reflexivity.
Qed.

(** the vin/vout path (a node document without "hex"): every field the objects carry comes back *)
Lemma from_outputs_back idx l outs : Forall (fun o => go_sats o <= max_money) l ->
  from_outputs script_info idx l = JOk outs ->
  jmapM to_output (map Some outs) = JOk (map (fun o => mkGOutput (go_sats o) (Some (script_or_empty (go_lock o)))) l).
Proof.
  intros H. revert idx outs. induction H as [|o l Ho Hl IH]; intros idx outs; cbn [from_outputs].
  - intros [= <-]. reflexivity.
  - destruct (from_output script_info idx o) as [y| |] eqn:E; cbn [jbind]; try discriminate.
    destruct (from_outputs script_info (idx + 1) l) as [ys| |] eqn:E2; cbn [jbind]; try discriminate.
    intros [= <-]. cbn [map jmapM].
    pose proof (node_output_roundtrip idx o y Ho E) as R. unfold node_unmarshal_output in R. rewrite R.
    cbn [jbind]. rewrite (IH _ _ E2). reflexivity.
Qed.

Theorem node_fields_roundtrip prev g j :
  Forall (fun o => go_sats o <= max_money) (g_outs g) ->
  Forall (fun i => List.length (gi_txid i) = 32%nat) (g_ins g) ->
  node_marshal_tx script_info g = JOk j ->
  node_unmarshal_tx prev (mkNT (nt_version j) (nt_lock j) (nt_txid j) (nt_hash j) (nt_size j) "" (nt_vin j) (nt_vout j)) =
  JOk (mkGTx (g_version g)
         (map (fun i => mkGInput (gi_txid i) (gi_vout i) (Some (script_or_empty (gi_unlock i))) (gi_seq i) 0 None) (g_ins g))
         (map (fun o => mkGOutput (go_sats o) (Some (script_or_empty (go_lock o)))) (g_outs g))
         (g_lock g)).
Proof.
  intros Hm Hid. unfold node_marshal_tx.
  destruct (from_outputs script_info 0 (g_outs g)) as [outs| |] eqn:Eo; cbn [jbind]; try discriminate.
  destruct (jmapM (from_input script_info) (g_ins g)) as [ins| |] eqn:Ei; cbn [jbind]; try discriminate.
  destruct (gtx_bytes g) as [b| |]; cbn [jbind]; try discriminate. intros [= <-].
  unfold node_unmarshal_tx. cbn [nt_hex nt_vin nt_vout nt_version nt_lock String.eqb negb].
  rewrite (from_outputs_back _ _ _ Hm Eo). cbn [jbind].
  assert (jmapM to_input (map Some ins) =
          JOk (map (fun i => mkGInput (gi_txid i) (gi_vout i) (Some (script_or_empty (gi_unlock i))) (gi_seq i) 0 None) (g_ins g))) as ->.
  { clear Eo Hm. revert ins Ei. induction Hid as [|i l Hi Hl IH]; intros ins; cbn [jmapM].
    - intros [= <-]. reflexivity.
    - destruct (from_input script_info i) as [y| |] eqn:E; cbn [jbind]; try discriminate.
      destruct (jmapM (from_input script_info) l) as [ys| |]; cbn [jbind]; try discriminate.
      intros [= <-]. cbn [map jmapM]. rewrite (IH ys eq_refl).
      unfold from_input in E.
      destruct (match gi_unlock i with None => JOk EmptyString | Some s => _ end) as [asm| |]; cbn [jbind] in E; try discriminate.
      injection E as <-. unfold to_input. cbn [is_nil deref jbind ni_scriptsig ss_hex ni_txid ni_vout ni_seq].
      unfold script_string. rewrite !from_hex_hex_of. cbn [jbind]. rewrite Hi. reflexivity. }
  reflexivity.
Qed.

Theorem node_txs_json_roundtrip l js : Forall wf_gtx l -> Forall (fun g => ~ ambiguous (plain_tx g)) l ->
  node_marshal_txs script_info l = JOk js -> node_unmarshal_txs js = JOk (map tx_back l).
Proof.
  unfold node_marshal_txs, node_unmarshal_txs. intros Hw. revert js.
  induction Hw as [|g l Hg Hl IH]; intros js Ha; cbn [jmapM map].
  - intros [= <-]. reflexivity.
  - inversion Ha as [|? ? Hag Hal]; subst.
    destruct (node_marshal_tx script_info g) as [j| |] eqn:E; cbn [jbind]; try discriminate.
    destruct (jmapM (node_marshal_tx script_info) l) as [js'| |]; cbn [jbind]; try discriminate.
    intros [= <-]. cbn [jmapM]. rewrite (node_tx_json_roundtrip new_tx g j Hg Hag E). cbn [jbind].
    rewrite (IH js' Hal eq_refl). reflexivity.
Qed.
End Node.

(** library dialect: lists of transactions *)
Theorem txs_json_roundtrip l : Forall wf_gtx l -> Forall (fun g => ~ ambiguous (plain_tx g)) l ->
  exists js, marshal_txs l = JOk js /\ unmarshal_txs js = JOk (map tx_back l).
Proof.
  unfold marshal_txs, unmarshal_txs. intros Hw. induction Hw as [|g l Hg Hl IH]; intros Ha; cbn [jmapM map].
  - eexists; split; reflexivity.
  - inversion Ha as [|? ? Hag Hal]; subst.
    destruct (tx_json_roundtrip (mkGTx 0 [] [] 0) g Hg Hag) as (j & Ej & Uj).
    destruct (IH Hal) as (js & Ejs & Ujs).
    rewrite Ej, Ejs. cbn [jbind]. eexists; split; [reflexivity|]. cbn [jmapM]. rewrite Uj, Ujs. reflexivity.
Qed.

(** library dialect: Output (integer satoshis: exact for every uint64) *)
Theorem output_json_roundtrip o : wf_goutput o ->
  exists j, marshal_output o = JOk j /\ unmarshal_output j = JOk o.
Proof.
  unfold wf_goutput, marshal_output, unmarshal_output. destruct o as [sats [s|]]; cbn; [|congruence].
  intros _. eexists; split; [reflexivity|]. cbn. rewrite from_hex_hex_of. reflexivity.
Qed.

(** UTXO, both dialects: txid bytes, vout, script bytes and satoshis come back; the sequence number
    and the unlocker are not in the document (the receiving value keeps its own) *)
Definition utxo_back (prev u : gutxo) : gutxo :=
  mkGUtxo (u_txid u) (u_vout u) (Some (script_or_empty (u_lock u))) (u_sats u) (u_seq prev).

Theorem utxo_json_roundtrip prev u :
  exists j, marshal_utxo u = JOk j /\ unmarshal_utxo prev j = JOk (utxo_back prev u).
Proof.
  unfold marshal_utxo, unmarshal_utxo, script_string. eexists; split; [reflexivity|].
  cbn [uj_txid uj_lock uj_vout uj_sats]. rewrite !from_hex_hex_of. reflexivity.
Qed.

Theorem utxo_node_roundtrip prev u : u_sats u <= max_money ->
  exists j, node_marshal_utxo u = JOk j /\ node_unmarshal_utxo prev j = JOk (utxo_back prev u).
Proof.
  intros Hm. unfold node_marshal_utxo, node_unmarshal_utxo, script_string. eexists; split; [reflexivity|].
  cbn [un_txid un_spk un_vout un_amount]. rewrite !from_hex_hex_of. cbn [jbind].
  rewrite (amount_roundtrip _ Hm). reflexivity.
Qed.

Theorem utxos_json_roundtrip l :
  exists js, marshal_utxos l = JOk js /\ unmarshal_utxos js = JOk (map (utxo_back zero_utxo) l).
Proof.
  unfold marshal_utxos, unmarshal_utxos. induction l as [|u l IH]; cbn [jmapM map].
  - eexists; split; reflexivity.
  - destruct (utxo_json_roundtrip zero_utxo u) as (j & Ej & Uj). destruct IH as (js & Ejs & Ujs).
    rewrite Ej, Ejs. cbn [jbind]. eexists; split; [reflexivity|]. cbn [jmapM]. rewrite Uj, Ujs. reflexivity.
Qed.

Theorem utxos_node_roundtrip l : Forall (fun u => u_sats u <= max_money) l ->
  exists js, node_marshal_utxos l = JOk js /\ node_unmarshal_utxos js = JOk (map (utxo_back zero_utxo) l).
Proof.
  unfold node_marshal_utxos, node_unmarshal_utxos. induction 1 as [|u l Hu Hl IH]; cbn [jmapM map].
  - eexists; split; reflexivity.
  - destruct (utxo_node_roundtrip zero_utxo u Hu) as (j & Ej & Uj). destruct IH as (js & Ejs & Ujs).
    rewrite Ej, Ejs. cbn [jbind]. eexists; split; [reflexivity|]. cbn [jmapM]. rewrite Uj, Ujs. reflexivity.
Qed.

(** * the one shape on which the tx round trip fails (in both dialects): no inputs, no outputs and
    locktime bytes 00 00 00 EF - the standard serialisation then reads as the extended-format
    marker, so the hex shortcut of the unmarshal half runs out of input.  The hypothesis
    [~ ambiguous] of the round-trip theorems cannot be dropped. *)
Definition ambiguous_gtx : gtx := mkGTx 1 [] [] 4009754624.

Theorem tx_json_roundtrip_unrestricted_refuted :
  exists g, wf_gtx g /\
    (exists j, marshal_tx g = JOk j /\ unmarshal_tx (mkGTx 0 [] [] 0) j = JErr) /\
    (forall info, exists j, node_marshal_tx info g = JOk j /\ node_unmarshal_tx new_tx j = JErr).
Proof.
  exists ambiguous_gtx. split; [|split].
  - split; [constructor|]. unfold wf_tx, plain_tx, ambiguous_gtx; cbn.
    repeat split; try reflexivity; constructor.
  - eexists. split; [vm_compute; reflexivity|vm_compute; reflexivity].
  - intros info. eexists. split; [vm_compute; reflexivity|vm_compute; reflexivity].
Qed.

(** non-vacuity: an unsigned transaction as tx.From leaves it (nil unlocking script) is well-formed
    and is not the ambiguous shape *)
Definition unsigned_gtx : gtx :=
  mkGTx 1 [mkGInput (repeat_byte 32 xab) 0 None 4294967295 5000 (Some [x76; xa9])]
          [mkGOutput 4000 (Some [x76; xa9; x14]); mkGOutput 3 (Some [x6a])] 0.
Lemma unsigned_gtx_ok : wf_gtx unsigned_gtx /\ ~ ambiguous (plain_tx unsigned_gtx).
Proof.
  split.
  - split.
    + repeat constructor; unfold wf_goutput; cbn; discriminate.
    + unfold wf_tx, plain_tx, unsigned_gtx; cbn.
      repeat split; try reflexivity; repeat constructor; unfold wf_script, lenN; cbn; reflexivity.
  - intros (H & _). discriminate H.
Qed.
