(** Byte-stream parsers that report the number of bytes consumed, as Go's io.Reader-based
    ReadFrom methods do, on success and on error alike. *)
From Coq Require Import List NArith Lia ZifyN ZifyNat.
From Coq Require Import Strings.Byte.
From GoBT Require Import lib.Bytes.
Import ListNotations.
Local Open Scope N_scope.

Inductive pres (A : Type) :=
| POk (a : A) (n : N) (rest : bytes)   (* value, bytes consumed, remaining input *)
| PErr (n : N)                          (* error after consuming n bytes *)
| PFuel.                                (* model artefact: fuel exhausted (proved unreachable) *)
Arguments POk {A}. Arguments PErr {A}. Arguments PFuel {A}.

Definition parser A := bytes -> pres A.

Definition pbind {A B} (p : pres A) (f : A -> bytes -> pres B) : pres B :=
  match p with
  | POk a n rest =>
      match f a rest with
      | POk b m r => POk b (n + m) r
      | PErr m => PErr (n + m)
      | PFuel => PFuel
      end
  | PErr n => PErr n
  | PFuel => PFuel
  end.
Definition pret {A} (a : A) : parser A := fun bs => POk a 0 bs.
Definition pmap {A B} (f : A -> B) (p : pres A) : pres B :=
  match p with POk a n r => POk (f a) n r | PErr n => PErr n | PFuel => PFuel end.

Notation "'plet' x ':=' p 'on' bs 'as' r 'in' k" :=
  (pbind (p bs) (fun x r => k)) (at level 200, x pattern, bs at level 0, r name, k at level 200).

(** io.ReadFull(r, make([]byte,k)): k bytes or an error reporting what was available. *)
Definition read_exact (k : nat) : parser bytes := fun bs =>
  if Nat.leb k (length bs) then POk (firstn k bs) (N.of_nat k) (skipn k bs)
  else PErr (lenN bs).

(** [sound p bs]: what the parser reports is what it took off the front. *)
Definition consumed_ok {A} (bs : bytes) (r : pres A) : Prop :=
  match r with
  | POk _ n rest => exists pre, bs = pre ++ rest /\ n = lenN pre
  | PErr n => n <= lenN bs
  | PFuel => True
  end.

Lemma read_exact_ok k bs : consumed_ok bs (read_exact k bs).
Proof.
  unfold read_exact. destruct (Nat.leb k (length bs)) eqn:E; cbn.
  - apply PeanoNat.Nat.leb_le in E. exists (firstn k bs). split.
    + symmetry; apply firstn_skipn.
    + unfold lenN. rewrite firstn_length. f_equal. lia.
  - lia.
Qed.

Lemma pbind_ok {A B} bs (p : pres A) (f : A -> bytes -> pres B) :
  consumed_ok bs p -> (forall a rest, consumed_ok rest (f a rest)) -> consumed_ok bs (pbind p f).
Proof.
  intros Hp Hf. destruct p as [a n rest|n|]; cbn in *; auto.
  destruct Hp as (pre & -> & ->). specialize (Hf a rest).
  destruct (f a rest) as [b m r|m|]; cbn in *; auto.
  - destruct Hf as (pre' & -> & ->). exists (pre ++ pre'). split; [apply app_assoc|].
    unfold lenN. rewrite app_length. lia.
  - unfold lenN in *. rewrite app_length. lia.
Qed.

Lemma read_exact_app k x rest : length x = k -> read_exact k (x ++ rest) = POk x (N.of_nat k) rest.
Proof.
  intros <-. unfold read_exact. rewrite app_length.
  replace (Nat.leb (length x) (length x + length rest)) with true
    by (symmetry; apply PeanoNat.Nat.leb_le; lia).
  rewrite firstn_app, PeanoNat.Nat.sub_diag, firstn_all, skipn_app, PeanoNat.Nat.sub_diag, skipn_all.
  cbn. rewrite app_nil_r. reflexivity.
Qed.

Lemma read_exact_inv k bs x n rest : read_exact k bs = POk x n rest ->
  bs = x ++ rest /\ length x = k /\ n = N.of_nat k.
Proof.
  unfold read_exact. destruct (Nat.leb k (length bs)) eqn:E; [|discriminate].
  intros [= <- <- <-]. apply PeanoNat.Nat.leb_le in E.
  rewrite firstn_skipn, firstn_length. repeat split; auto. lia.
Qed.
