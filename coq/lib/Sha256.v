(** SHA-256 over primitive 63-bit integers (evaluation only; no theorem looks inside). *)
From Coq Require Import List NArith ZArith Uint63.
From Coq Require Import Strings.Byte.
From GoBT Require Import lib.Bytes.
Import ListNotations.
Local Open Scope uint63_scope.

Definition mask32 : int := 0xFFFFFFFF.
Definition add32 (a b : int) : int := (a + b) land mask32.
Definition rotr (n : int) (x : int) : int := ((x >> n) lor (x << (32 - n))) land mask32.
Definition rotl (n : int) (x : int) : int := ((x << n) lor (x >> (32 - n))) land mask32.
Definition not32 (x : int) : int := x lxor mask32.

Definition b2i (b : byte) : int := Uint63.of_Z (Z.of_N (b2n b)).
Definition i2b (x : int) : byte := n2b (Z.to_N (Uint63.to_Z (x land 255))).

Definition be_word (a b c d : byte) : int :=
  (b2i a << 24) lor (b2i b << 16) lor (b2i c << 8) lor b2i d.
Definition word_be (w : int) : bytes := [i2b (w >> 24); i2b (w >> 16); i2b (w >> 8); i2b w].
Definition le_word (a b c d : byte) : int := be_word d c b a.
Definition word_le (w : int) : bytes := [i2b w; i2b (w >> 8); i2b (w >> 16); i2b (w >> 24)].

Fixpoint be_words (bs : bytes) : list int :=
  match bs with
  | a :: b :: c :: d :: r => be_word a b c d :: be_words r
  | _ => []
  end.
Fixpoint le_words (bs : bytes) : list int :=
  match bs with
  | a :: b :: c :: d :: r => le_word a b c d :: le_words r
  | _ => []
  end.

(** Merkle–Damgård padding; [big] selects big-endian (SHA) or little-endian (RIPEMD) length. *)
Definition md_pad (big : bool) (msg : bytes) : bytes :=
  let l := length msg in
  let bits := (8 * N.of_nat l)%N in
  let r := Nat.modulo (l + 1) 64 in
  let z := if Nat.leb r 56 then (56 - r)%nat else (120 - r)%nat in
  msg ++ x80 :: repeat_byte z x00 ++ (if big then be_enc 8 bits else le_enc 8 bits).

Fixpoint chunks (fuel : nat) (n : nat) (l : bytes) : list bytes :=
  match fuel with
  | O => []
  | S f => match l with
           | [] => []
           | _ => firstn n l :: chunks f n (skipn n l)
           end
  end.

Definition K256 : list int :=
  [0x428a2f98;0x71374491;0xb5c0fbcf;0xe9b5dba5;0x3956c25b;0x59f111f1;0x923f82a4;0xab1c5ed5;
   0xd807aa98;0x12835b01;0x243185be;0x550c7dc3;0x72be5d74;0x80deb1fe;0x9bdc06a7;0xc19bf174;
   0xe49b69c1;0xefbe4786;0x0fc19dc6;0x240ca1cc;0x2de92c6f;0x4a7484aa;0x5cb0a9dc;0x76f988da;
   0x983e5152;0xa831c66d;0xb00327c8;0xbf597fc7;0xc6e00bf3;0xd5a79147;0x06ca6351;0x14292967;
   0x27b70a85;0x2e1b2138;0x4d2c6dfc;0x53380d13;0x650a7354;0x766a0abb;0x81c2c92e;0x92722c85;
   0xa2bfe8a1;0xa81a664b;0xc24b8b70;0xc76c51a3;0xd192e819;0xd6990624;0xf40e3585;0x106aa070;
   0x19a4c116;0x1e376c08;0x2748774c;0x34b0bcb5;0x391c0cb3;0x4ed8aa4a;0x5b9cca4f;0x682e6ff3;
   0x748f82ee;0x78a5636f;0x84c87814;0x8cc70208;0x90befffa;0xa4506ceb;0xbef9a3f7;0xc67178f2].

Definition st8 := (int * int * int * int * int * int * int * int)%type.

Definition bsig0 x := rotr 2 x lxor rotr 13 x lxor rotr 22 x.
Definition bsig1 x := rotr 6 x lxor rotr 11 x lxor rotr 25 x.
Definition ssig0 x := rotr 7 x lxor rotr 18 x lxor (x >> 3).
Definition ssig1 x := rotr 17 x lxor rotr 19 x lxor (x >> 10).
Definition ch x y z := (x land y) lxor (not32 x land z).
Definition maj x y z := (x land y) lxor (x land z) lxor (y land z).

Definition next_w (win : list int) : list int :=
  match win with
  | [w0;w1;w2;w3;w4;w5;w6;w7;w8;w9;w10;w11;w12;w13;w14;w15] =>
      [w1;w2;w3;w4;w5;w6;w7;w8;w9;w10;w11;w12;w13;w14;w15;
       add32 (add32 (ssig1 w14) w9) (add32 (ssig0 w1) w0)]
  | _ => win
  end.

Fixpoint rounds256 (ks : list int) (win : list int) (s : st8) : st8 :=
  match ks with
  | [] => s
  | k :: ks' =>
      let '(a,b,c,d,e,f,g,h) := s in
      let w := hd 0 win in
      let t1 := add32 (add32 (add32 h (bsig1 e)) (add32 (ch e f g) k)) w in
      let t2 := add32 (bsig0 a) (maj a b c) in
      rounds256 ks' (next_w win) (add32 t1 t2, a, b, c, add32 d t1, e, f, g)
  end.

Definition compress256 (s : st8) (block : bytes) : st8 :=
  let '(a,b,c,d,e,f,g,h) := s in
  let '(a',b',c',d',e',f',g',h') := rounds256 K256 (be_words block) s in
  (add32 a a', add32 b b', add32 c c', add32 d d', add32 e e', add32 f f', add32 g g', add32 h h').

Definition iv256 : st8 :=
  (0x6a09e667,0xbb67ae85,0x3c6ef372,0xa54ff53a,0x510e527f,0x9b05688c,0x1f83d9ab,0x5be0cd19).

Definition sha256 (msg : bytes) : bytes :=
  let p := md_pad true msg in
  let '(a,b,c,d,e,f,g,h) := fold_left compress256 (chunks (S (length p)) 64 p) iv256 in
  word_be a ++ word_be b ++ word_be c ++ word_be d ++ word_be e ++ word_be f ++ word_be g ++ word_be h.

Definition sha256d (msg : bytes) : bytes := sha256 (sha256 msg).
