(** Checked Go slice primitives: every [x[i]] / [x[a:b]] of the modelled code goes through one of
    these, and an out-of-range access is the distinguished result [None] (turned into [Panic] by the
    caller), so that "never panics" is a theorem about the model and not a by-product of Coq's
    totality.  Indices are [N] (Go [int]s that are known non-negative at the call site) and are
    compared with the length BEFORE any conversion to [nat], so a hostile 2^32 length field is
    never expanded to a unary number.

    Go allows [x[a:b]] up to the capacity of [x]; the model uses the length as the bound, which can
    only make the model panic more often than the code. *)
From Coq Require Import List NArith Lia ZifyN ZifyNat ZifyBool ZArith Bool.
From Coq Require Import Strings.Byte.
From GoBT Require Import lib.Bytes.
Import ListNotations.
Local Open Scope N_scope.
Local Open Scope bool_scope.

(** ok / error / panic; [Fuel] is a model artefact always proved unreachable *)
Inductive outcome (A : Type) := Ok (a : A) | Err | Panic | Fuel.
Arguments Ok {A}. Arguments Err {A}. Arguments Panic {A}. Arguments Fuel {A}.

Definition obind {A B} (o : outcome A) (f : A -> outcome B) : outcome B :=
  match o with Ok a => f a | Err => Err | Panic => Panic | Fuel => Fuel end.
(** a checked primitive inside an [outcome] computation: [None] is a run-time panic *)
Definition chk {A B} (o : option A) (f : A -> outcome B) : outcome B :=
  match o with Some a => f a | None => Panic end.

Section Generic.
Context {A : Type}.
Definition lenNg (l : list A) : N := N.of_nat (length l).

(** x[i] *)
Definition idx (l : list A) (i : N) : option A :=
  if i <? lenNg l then nth_error l (N.to_nat i) else None.
(** x[lo:hi] *)
Definition slice (l : list A) (lo hi : N) : option (list A) :=
  if (lo <=? hi) && (hi <=? lenNg l) then Some (firstn (N.to_nat (hi - lo)) (skipn (N.to_nat lo) l)) else None.
(** x[lo:] *)
Definition slice_from (l : list A) (lo : N) : option (list A) :=
  if lo <=? lenNg l then Some (skipn (N.to_nat lo) l) else None.
(** x[:hi] *)
Definition slice_to (l : list A) (hi : N) : option (list A) :=
  if hi <=? lenNg l then Some (firstn (N.to_nat hi) l) else None.

Lemma idx_some l i : i < lenNg l -> exists a, idx l i = Some a.
Proof.
  intros H. unfold idx. replace (i <? lenNg l) with true by lia.
  destruct (nth_error l (N.to_nat i)) eqn:E; [eauto|].
  apply nth_error_None in E. unfold lenNg in H. lia.
Qed.
Lemma idx_0 a l : idx (a :: l) 0 = Some a.
Proof. reflexivity. Qed.
Lemma idx_nil i : idx (@nil A) i = None.
Proof. unfold idx. cbn. destruct i; reflexivity. Qed.
Lemma idx_succ a l i : idx (a :: l) (N.succ i) = idx l i.
Proof.
  unfold idx, lenNg. cbn [length]. rewrite N2Nat.inj_succ. cbn [nth_error].
  destruct (i <? N.of_nat (length l)) eqn:E1; destruct (N.succ i <? N.of_nat (S (length l))) eqn:E2; try reflexivity; lia.
Qed.
Lemma idx_1 a b l : idx (a :: b :: l) 1 = Some b.
Proof. change 1 with (N.succ 0). rewrite idx_succ. apply idx_0. Qed.
Lemma idx_nth_error l i a : idx l i = Some a -> nth_error l (N.to_nat i) = Some a.
Proof. unfold idx. destruct (i <? lenNg l); [auto|discriminate]. Qed.

Lemma slice_from_ok l lo : lo <= lenNg l -> slice_from l lo = Some (skipn (N.to_nat lo) l).
Proof. intros H. unfold slice_from. replace (lo <=? lenNg l) with true by lia. reflexivity. Qed.
Lemma slice_to_ok l hi : hi <= lenNg l -> slice_to l hi = Some (firstn (N.to_nat hi) l).
Proof. intros H. unfold slice_to. replace (hi <=? lenNg l) with true by lia. reflexivity. Qed.
Lemma slice_ok l lo hi : lo <= hi -> hi <= lenNg l ->
  slice l lo hi = Some (firstn (N.to_nat (hi - lo)) (skipn (N.to_nat lo) l)).
Proof. intros H1 H2. unfold slice. replace (lo <=? hi) with true by lia. replace (hi <=? lenNg l) with true by lia. reflexivity. Qed.
End Generic.

Lemma lenNg_lenN (b : bytes) : lenNg b = lenN b.
Proof. reflexivity. Qed.
