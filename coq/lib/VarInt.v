(** Bitcoin variable-length integers: model of varint.go (Bytes, Length, ReadFrom, UpperLimitInc). *)
From Coq Require Import List NArith Lia ZifyN ZifyNat ZifyBool ZArith.
From Coq Require Import Strings.Byte.
From GoBT Require Import lib.Bytes lib.Parse.
Import ListNotations.
Ltac Zify.zify_post_hook ::= Z.div_mod_to_equations.
Local Open Scope N_scope.

Definition two16 : N := 65536.
Definition two32 : N := 4294967296.
Definition two64 : N := 18446744073709551616.

Definition varint_bytes (v : N) : bytes :=
  if v <? 253 then [n2b v]
  else if v <? two16 then xfd :: le_enc 2 v
  else if v <? two32 then xfe :: le_enc 4 v
  else xff :: le_enc 8 v.

Definition varint_len (v : N) : N :=
  if v <? 253 then 1 else if v <? two16 then 3 else if v <? two32 then 5 else 9.

(** VarInt.UpperLimitInc: bytes the encoding grows by when the value is incremented; -1 at 2^64-1 *)
Definition upper_limit_inc (v : N) : Z :=
  if v =? 252 then 2 else if v =? 65535 then 2 else if v =? 4294967295 then 4
  else if v =? 18446744073709551615 then (-1) else 0.

(** VarInt.ReadFrom; the boolean says whether the encoding was the shortest one for the value. *)
Definition read_varint : parser (N * bool) := fun bs =>
  plet b := read_exact 1 on bs as r in
    let t := match b with c :: _ => b2n c | [] => 0 end in
    if t =? 255 then plet x := read_exact 8 on r as r2 in pret (le_dec x, two32 <=? le_dec x) r2
    else if t =? 254 then plet x := read_exact 4 on r as r2 in pret (le_dec x, two16 <=? le_dec x) r2
    else if t =? 253 then plet x := read_exact 2 on r as r2 in pret (le_dec x, 253 <=? le_dec x) r2
    else pret (t, true) r.

Lemma varint_len_spec v : varint_len v = lenN (varint_bytes v).
Proof.
  unfold varint_len, varint_bytes, lenN.
  destruct (v <? 253); [reflexivity|]. destruct (v <? two16); [reflexivity|].
  destruct (v <? two32); reflexivity.
Qed.

Lemma read_varint_ok bs : consumed_ok bs (read_varint bs).
Proof.
  unfold read_varint. apply pbind_ok; [apply read_exact_ok|]. intros b r.
  repeat match goal with |- context [if ?c then _ else _] => destruct c end;
    try (apply pbind_ok; [apply read_exact_ok|]; intros; cbn; exists []; split; auto);
    cbn; exists []; split; auto.
Qed.

Lemma pow256_8 : 256 ^ N.of_nat 8 = two64. Proof. reflexivity. Qed.
Lemma pow256_4 : 256 ^ N.of_nat 4 = two32. Proof. reflexivity. Qed.
Lemma pow256_2 : 256 ^ N.of_nat 2 = two16. Proof. reflexivity. Qed.

Theorem varint_roundtrip v rest : v < two64 ->
  read_varint (varint_bytes v ++ rest) = POk (v, true) (varint_len v) rest.
Proof.
  intros Hv. unfold varint_bytes, varint_len, read_varint.
  destruct (N.ltb_spec v 253) as [H1|H1].
  - rewrite (read_exact_app 1 [n2b v] _ eq_refl). cbn [pbind].
    rewrite b2n_n2b_small by lia.
    destruct (N.eqb_spec v 255); [lia|]. destruct (N.eqb_spec v 254); [lia|].
    destruct (N.eqb_spec v 253); [lia|]. cbn. reflexivity.
  - destruct (N.ltb_spec v two16) as [H2|H2]; [|destruct (N.ltb_spec v two32) as [H3|H3]].
    + change ((xfd :: le_enc 2 v) ++ rest) with ([xfd] ++ (le_enc 2 v ++ rest)).
      rewrite (read_exact_app 1 [xfd] _ eq_refl). cbn [pbind].
      change (b2n xfd) with 253. cbn [N.eqb Pos.eqb].
      rewrite (read_exact_app 2 (le_enc 2 v) rest (le_enc_length _ _)). cbn [pbind pret].
      rewrite le_dec_enc by (rewrite pow256_2; lia).
      destruct (N.leb_spec 253 v); [|lia]. reflexivity.
    + change ((xfe :: le_enc 4 v) ++ rest) with ([xfe] ++ (le_enc 4 v ++ rest)).
      rewrite (read_exact_app 1 [xfe] _ eq_refl). cbn [pbind].
      change (b2n xfe) with 254. cbn [N.eqb Pos.eqb].
      rewrite (read_exact_app 4 (le_enc 4 v) rest (le_enc_length _ _)). cbn [pbind pret].
      rewrite le_dec_enc by (rewrite pow256_4; lia).
      destruct (N.leb_spec two16 v); [|lia]. reflexivity.
    + change ((xff :: le_enc 8 v) ++ rest) with ([xff] ++ (le_enc 8 v ++ rest)).
      rewrite (read_exact_app 1 [xff] _ eq_refl). cbn [pbind].
      change (b2n xff) with 255. cbn [N.eqb Pos.eqb].
      rewrite (read_exact_app 8 (le_enc 8 v) rest (le_enc_length _ _)). cbn [pbind pret].
      rewrite le_dec_enc by (rewrite pow256_8; lia).
      destruct (N.leb_spec two32 v); [|lia]. reflexivity.
Qed.

(** decode-then-encode: a minimally encoded varint re-serialises to the bytes it was read from *)
Theorem read_varint_canonical bs v n rest :
  read_varint bs = POk (v, true) n rest -> bs = varint_bytes v ++ rest /\ n = varint_len v /\ v < two64.
Proof.
  unfold read_varint. destruct (read_exact 1 bs) as [b n1 r|?|] eqn:E1; cbn [pbind]; try discriminate.
  apply read_exact_inv in E1. destruct E1 as (-> & Hl & ->).
  destruct b as [|c [|? ?]]; try discriminate. clear Hl.
  pose proof (b2n_lt c) as Hc.
  destruct (N.eqb_spec (b2n c) 255) as [E|E]; [|destruct (N.eqb_spec (b2n c) 254) as [E'|E'];
    [|destruct (N.eqb_spec (b2n c) 253) as [E''|E'']]].
  - destruct (read_exact 8 r) as [x n2 r2|?|] eqn:E2; cbn; try discriminate.
    apply read_exact_inv in E2. destruct E2 as (-> & Hl & ->).
    intros [= <- Hm <- <-]. apply N.leb_le in Hm.
    pose proof (le_dec_lt x) as Hlt. rewrite Hl, pow256_8 in Hlt.
    unfold varint_bytes, varint_len.
    destruct (N.ltb_spec (le_dec x) 253); [unfold two32 in *; lia|].
    destruct (N.ltb_spec (le_dec x) two16); [unfold two32, two16 in *; lia|].
    destruct (N.ltb_spec (le_dec x) two32); [lia|].
    rewrite <- Hl, le_enc_dec. replace c with xff by (apply b2n_inj; rewrite E; reflexivity).
    repeat split; auto.
  - destruct (read_exact 4 r) as [x n2 r2|?|] eqn:E2; cbn; try discriminate.
    apply read_exact_inv in E2. destruct E2 as (-> & Hl & ->).
    intros [= <- Hm <- <-]. apply N.leb_le in Hm.
    pose proof (le_dec_lt x) as Hlt. rewrite Hl, pow256_4 in Hlt.
    unfold varint_bytes, varint_len.
    destruct (N.ltb_spec (le_dec x) 253); [unfold two16 in *; lia|].
    destruct (N.ltb_spec (le_dec x) two16); [lia|].
    destruct (N.ltb_spec (le_dec x) two32); [|lia].
    rewrite <- Hl, le_enc_dec. replace c with xfe by (apply b2n_inj; rewrite E'; reflexivity).
    repeat split; auto. unfold two32, two64 in *; lia.
  - destruct (read_exact 2 r) as [x n2 r2|?|] eqn:E2; cbn; try discriminate.
    apply read_exact_inv in E2. destruct E2 as (-> & Hl & ->).
    intros [= <- Hm <- <-]. apply N.leb_le in Hm.
    pose proof (le_dec_lt x) as Hlt. rewrite Hl, pow256_2 in Hlt.
    unfold varint_bytes, varint_len.
    destruct (N.ltb_spec (le_dec x) 253); [lia|].
    destruct (N.ltb_spec (le_dec x) two16); [|lia].
    rewrite <- Hl, le_enc_dec. replace c with xfd by (apply b2n_inj; rewrite E''; reflexivity).
    repeat split; auto. unfold two16, two64 in *; lia.
  - cbn. intros [= <- <- <-]. unfold varint_bytes, varint_len.
    destruct (N.ltb_spec (b2n c) 253); [|lia]. rewrite n2b_b2n.
    repeat split; auto. unfold two64; lia.
Qed.
