(** go-bk's base58.Encode / base58.Decode (github.com/libsv/go-bk@v0.1.6/base58/base58.go) as coded,
    over byte lists (a Go string is its bytes), and the proof that they are mutually inverse.

    Both directions are the same computation — "keep the leading zero symbols one for one,
    re-express the number in the other base" — so they are one generic [transcode] between two
    positional codecs, instantiated with (58, alphabet) and (256, identity on bytes). The big
    integers of math/big are [N]. *)
From Coq Require Import List NArith Lia Bool ZArith ZifyN ZifyNat.
From Coq Require Import Strings.Byte String.
From GoBT Require Import lib.Bytes lib.Numeral.
Import ListNotations.
Local Open Scope N_scope.

Fixpoint count_leading (z : byte) (s : bytes) : nat :=
  match s with
  | c :: r => if Byte.eqb c z then S (count_leading z r) else O
  | [] => O
  end.

Fixpoint map_option {A C} (f : A -> option C) (l : list A) : option (list C) :=
  match l with
  | [] => Some []
  | a :: r => match f a, map_option f r with
              | Some c, Some t => Some (c :: t)
              | _, _ => None
              end
  end.

Section Transcode.
(** codec 1 (source) and codec 2 (target): base, symbol -> digit, digit -> symbol *)
Variables (B1 B2 : N) (dig1 dig2 : byte -> option N) (chr1 chr2 : N -> byte).
Hypothesis HB1 : 2 <= B1.
Hypothesis HB2 : 2 <= B2.
Hypothesis dig_chr1 : forall d, d < B1 -> dig1 (chr1 d) = Some d.
Hypothesis chr_dig1 : forall c d, dig1 c = Some d -> d < B1 /\ chr1 d = c.
Hypothesis dig_chr2 : forall d, d < B2 -> dig2 (chr2 d) = Some d.
Hypothesis chr_dig2 : forall c d, dig2 c = Some d -> d < B2 /\ chr2 d = c.

Definition transcode (dig : byte -> option N) (chr' : N -> byte) (Bs Bt : N) (z z' : byte) (s : bytes) : option bytes :=
  match map_option dig s with
  | None => None
  | Some ds => Some (repeat z' (count_leading z s) ++ map chr' (digits Bt (value Bs ds)))
  end.

Definition t12 := transcode dig1 chr2 B1 B2 (chr1 0) (chr2 0).
Definition t21 := transcode dig2 chr1 B2 B1 (chr2 0) (chr1 0).

Lemma map_option_all_lt s ds : map_option dig1 s = Some ds -> all_lt B1 ds /\ map chr1 ds = s.
Proof.
  revert ds; induction s as [|c r IH]; intros ds H; cbn in H.
  - injection H as <-. split; [constructor|reflexivity].
  - destruct (dig1 c) as [d|] eqn:Ed; [|discriminate].
    destruct (map_option dig1 r) as [t|] eqn:Er; [|discriminate].
    injection H as <-. destruct (IH t eq_refl) as [Hl Hm]. destruct (chr_dig1 _ _ Ed) as [Hd Hc].
    split; [constructor; assumption|]. cbn. rewrite Hm, Hc. reflexivity.
Qed.

Lemma map_option_chr2 ds : all_lt B2 ds -> map_option dig2 (map chr2 ds) = Some ds.
Proof.
  induction ds as [|d ds IH]; intros H; [reflexivity|].
  inversion H as [|? ? Hd Hr]; subst. cbn. rewrite (dig_chr2 d Hd), (IH Hr). reflexivity.
Qed.

Lemma map_option_app {A C} (f : A -> option C) a b x y :
  map_option f a = Some x -> map_option f b = Some y -> map_option f (a ++ b) = Some (x ++ y).
Proof.
  revert x; induction a as [|c a IH]; intros x Ha Hb; cbn in *.
  - injection Ha as <-. exact Hb.
  - destruct (f c); [|discriminate]. destruct (map_option f a) as [t|]; [|discriminate].
    injection Ha as <-. rewrite (IH t eq_refl Hb). reflexivity.
Qed.

Lemma map_option_repeat0 z : map_option dig2 (repeat (chr2 0) z) = Some (repeat 0 z).
Proof.
  induction z; cbn; [reflexivity|]. rewrite dig_chr2 by lia. rewrite IHz. reflexivity.
Qed.

Lemma value_repeat0 Bx z ds : 2 <= Bx -> value Bx (repeat 0 z ++ ds) = value Bx ds.
Proof. intros HBx. induction z; cbn [repeat app]; [reflexivity|]. rewrite value_zero_cons by exact HBx. exact IHz. Qed.

Lemma count_leading_repeat z n r :
  (match r with [] => True | c :: _ => c <> z end) -> count_leading z (repeat z n ++ r) = n.
Proof.
  intros H. induction n; cbn.
  - destruct r as [|c r]; [reflexivity|]. cbn. destruct (Byte.eqb c z) eqn:E; [|reflexivity].
    apply Byte.byte_dec_bl in E. contradiction.
  - rewrite (Byte.byte_dec_lb eq_refl). rewrite IHn. reflexivity.
Qed.

(** a symbol string is its leading zero symbols followed by the symbols of the stripped digits *)
Lemma split_leading s ds : map_option dig1 s = Some ds ->
  s = repeat (chr1 0) (count_leading (chr1 0) s) ++ map chr1 (strip ds).
Proof.
  revert ds; induction s as [|c r IH]; intros ds H; cbn in H.
  - injection H as <-. reflexivity.
  - destruct (dig1 c) as [d|] eqn:Ed; [|discriminate].
    destruct (map_option dig1 r) as [t|] eqn:Er; [|discriminate].
    injection H as <-. destruct (chr_dig1 _ _ Ed) as [Hd Hc].
    cbn [count_leading]. destruct (Byte.eqb c (chr1 0)) eqn:E.
    + apply Byte.byte_dec_bl in E. rewrite E in Ed. rewrite dig_chr1 in Ed by lia. injection Ed as <-.
      cbn [strip repeat app]. rewrite E. f_equal. apply IH. reflexivity.
    + assert (d <> 0).
      { intros ->. rewrite Hc in E. rewrite (Byte.byte_dec_lb eq_refl) in E. discriminate. }
      destruct d as [|p]; [congruence|]. cbn [strip repeat app map]. rewrite Hc. f_equal.
      symmetry. apply (map_option_all_lt r t Er).
Qed.

Theorem transcode_inverse s t : t12 s = Some t -> t21 t = Some s.
Proof.
  unfold t12, t21, transcode. destruct (map_option dig1 s) as [ds|] eqn:Es; [|discriminate].
  intros [= <-]. destruct (map_option_all_lt _ _ Es) as [Hlt _].
  set (z := count_leading (chr1 0) s). set (D := digits B2 (value B1 ds)).
  destruct (digits_canonical B2 HB2 (value B1 ds)) as [HDlt HDnz]. fold D in HDlt, HDnz.
  rewrite (map_option_app _ _ _ _ _ (map_option_repeat0 z) (map_option_chr2 D HDlt)).
  rewrite count_leading_repeat.
  - rewrite value_repeat0 by exact HB2. unfold D. rewrite value_digits by exact HB2.
    rewrite digits_value_strip by assumption. f_equal. symmetry. apply split_leading. exact Es.
  - destruct D as [|d D]; [exact I|]. cbn [map]. cbn in HDnz. inversion HDlt as [|? ? Hd _]; subst.
    intros E. pose proof (dig_chr2 d Hd) as E1. rewrite E, dig_chr2 in E1 by lia. congruence.
Qed.

End Transcode.

(** ** the two codecs *)

Definition alphabet : bytes :=
  list_byte_of_string "123456789ABCDEFGHJKLMNPQRSTUVWXYZabcdefghijkmnopqrstuvwxyz".
Definition alphabet_idx0 : byte := x31.   (* '1' *)

Definition b58_char (d : N) : byte := nth (N.to_nat d) alphabet alphabet_idx0.

Fixpoint index_of (c : byte) (l : bytes) (i : N) : option N :=
  match l with
  | [] => None
  | x :: r => if Byte.eqb c x then Some i else index_of c r (i + 1)
  end.
(** the table [b58] of alphabet.go: Some digit, or None where the table holds 255 *)
Definition b58_index (c : byte) : option N := index_of c alphabet 0.

Definition dig256 (c : byte) : option N := Some (b2n c).

Lemma b58_index_char d : d < 58 -> b58_index (b58_char d) = Some d.
Proof.
  intros H.
  assert (A : forall i, (i < 58)%nat -> b58_index (b58_char (N.of_nat i)) = Some (N.of_nat i)).
  { intros i Hi. do 58 (destruct i as [|i]; [reflexivity|]). lia. }
  specialize (A (N.to_nat d)). rewrite N2Nat.id in A. apply A. lia.
Qed.

Lemma index_of_spec c l i d : index_of c l i = Some d ->
  i <= d /\ d < i + N.of_nat (List.length l) /\ nth (N.to_nat (d - i)) l alphabet_idx0 = c.
Proof.
  revert i; induction l as [|x r IH]; intros i H; [discriminate|]. cbn [index_of] in H.
  destruct (Byte.eqb c x) eqn:E.
  - injection H as <-. apply Byte.byte_dec_bl in E. subst. cbn [List.length]. rewrite N.sub_diag. repeat split; try lia.
  - destruct (IH _ H) as (H1 & H2 & H3). cbn [List.length]. repeat split; try lia.
    replace (N.to_nat (d - i)) with (S (N.to_nat (d - (i + 1)))) by lia. exact H3.
Qed.

Lemma b58_char_index c d : b58_index c = Some d -> d < 58 /\ b58_char d = c.
Proof.
  intros H. apply index_of_spec in H as (_ & H2 & H3). rewrite N.sub_0_r in H3.
  split; [exact H2 | exact H3].
Qed.

Lemma dig256_chr d : d < 256 -> dig256 (n2b d) = Some d.
Proof. intros H. unfold dig256. rewrite b2n_n2b_small by exact H. reflexivity. Qed.
Lemma chr_dig256 c d : dig256 c = Some d -> d < 256 /\ n2b d = c.
Proof. unfold dig256. intros [= <-]. split; [apply b2n_lt | apply n2b_b2n]. Qed.

Lemma b58_char_0 : b58_char 0 = alphabet_idx0. Proof. reflexivity. Qed.
Lemma n2b_0 : n2b 0 = x00. Proof. reflexivity. Qed.

(** ** base58.Decode: an invalid character gives the empty slice *)
Definition b58_digits (s : bytes) : option (list N) := map_option b58_index s.

Definition b58_decode (s : bytes) : bytes :=
  match b58_digits s with
  | None => []
  | Some ds =>
      (* answer = sum of digit * 58^position; tmpval = answer.Bytes() (minimal big-endian);
         numZeros = number of leading '1'; val = numZeros zero bytes followed by tmpval *)
      repeat x00 (count_leading alphabet_idx0 s) ++ map n2b (digits 256 (value 58 ds))
  end.

(** ** base58.Encode *)
Definition b58_encode (b : bytes) : bytes :=
  (* x = SetBytes(b); digits of x least significant first, then one '1' per leading zero
     byte, then the whole thing reversed *)
  repeat alphabet_idx0 (count_leading x00 b) ++ map b58_char (digits 58 (value 256 (map b2n b))).

Definition is_b58_text (s : bytes) : Prop := exists ds, b58_digits s = Some ds.

Lemma map_option_dig256 b : map_option dig256 b = Some (map b2n b).
Proof. induction b as [|c r IH]; cbn; [reflexivity|]. rewrite IH. reflexivity. Qed.

Lemma b58_encode_transcode b :
  transcode dig256 b58_char 256 58 (n2b 0) (b58_char 0) b = Some (b58_encode b).
Proof. unfold transcode. rewrite map_option_dig256. reflexivity. Qed.

Lemma b58_decode_transcode s ds : b58_digits s = Some ds ->
  transcode b58_index n2b 58 256 (b58_char 0) (n2b 0) s = Some (b58_decode s).
Proof. intros H. unfold transcode, b58_decode. rewrite H. unfold b58_digits in H. rewrite H. reflexivity. Qed.

Lemma b58_encode_is_text b : is_b58_text (b58_encode b).
Proof.
  pose proof (transcode_inverse 256 58 dig256 b58_index n2b b58_char ltac:(lia) ltac:(lia)
                dig256_chr chr_dig256 b58_index_char b58_char_index b _ (b58_encode_transcode b)) as H.
  unfold t21, transcode in H. unfold is_b58_text, b58_digits.
  destruct (map_option b58_index (b58_encode b)) as [ds|]; [eauto|discriminate].
Qed.

(** decode . encode = id, for every byte list *)
Theorem b58_decode_encode b : b58_decode (b58_encode b) = b.
Proof.
  pose proof (transcode_inverse 256 58 dig256 b58_index n2b b58_char ltac:(lia) ltac:(lia)
                dig256_chr chr_dig256 b58_index_char b58_char_index b _ (b58_encode_transcode b)) as H.
  unfold t21 in H. destruct (b58_encode_is_text b) as [ds Hds].
  rewrite (b58_decode_transcode _ _ Hds) in H. congruence.
Qed.

(** encode . decode = id on every string over the alphabet (every such string is canonical: the
    encoding is a bijection between byte strings and alphabet strings) *)
Theorem b58_encode_decode s : is_b58_text s -> b58_encode (b58_decode s) = s.
Proof.
  intros [ds Hds].
  pose proof (transcode_inverse 58 256 b58_index dig256 b58_char n2b ltac:(lia) ltac:(lia)
                b58_index_char b58_char_index dig256_chr chr_dig256 s _ (b58_decode_transcode s ds Hds)) as H.
  unfold t21 in H. rewrite b58_encode_transcode in H. congruence.
Qed.

Lemma b58_decode_invalid s : ~ is_b58_text s -> b58_decode s = [].
Proof.
  intros H. unfold b58_decode. destruct (b58_digits s) as [ds|] eqn:E; [|reflexivity].
  exfalso. apply H. exists ds. exact E.
Qed.

(** a non-empty decoding only comes from a string over the alphabet *)
Lemma b58_decode_nonempty s : b58_decode s <> [] -> is_b58_text s.
Proof.
  intros H. unfold is_b58_text. destruct (b58_digits s) as [ds|] eqn:E; [eauto|].
  unfold b58_decode in H. rewrite E in H. congruence.
Qed.

(** ** facts used by the address model *)

(** value of a byte string read as a big-endian number *)
Definition bval (a : bytes) : N := value 256 (map b2n a).

Lemma bytes_all_lt a : all_lt 256 (map b2n a).
Proof. induction a; constructor; [apply b2n_lt | assumption]. Qed.

Lemma bval_lt a : bval a < 256 ^ N.of_nat (List.length a).
Proof.
  unfold bval. rewrite <- (map_length b2n a). apply value_lt; [lia | apply bytes_all_lt].
Qed.

Lemma bval_inj a b : List.length a = List.length b -> bval a = bval b -> a = b.
Proof.
  intros Hl Hv. assert (E : map b2n a = map b2n b).
  { apply (value_inj_length 256); try lia; try apply bytes_all_lt; [rewrite !map_length; exact Hl | exact Hv]. }
  revert b Hl Hv E; induction a as [|x a IH]; intros [|y b] Hl Hv E; try discriminate; [reflexivity|].
  cbn in E. injection E as E1 E2. apply b2n_inj in E1. subst. f_equal.
  apply (f_equal (map n2b)) in E2. rewrite !map_map in E2.
  rewrite (map_ext _ (fun x => x)), (map_ext (fun x => n2b (b2n x)) (fun x => x)), !map_id in E2
    by (intros; apply n2b_b2n). exact E2.
Qed.

Lemma b58_digits_all_lt s ds : b58_digits s = Some ds -> all_lt 58 ds.
Proof. intros H. apply (map_option_all_lt 58 b58_index b58_char b58_char_index s ds H). Qed.

Lemma b58_split_leading s ds : b58_digits s = Some ds ->
  s = repeat alphabet_idx0 (count_leading alphabet_idx0 s) ++ map b58_char (strip ds).
Proof.
  intros H. apply (split_leading 58 256 b58_index dig256 b58_char n2b ltac:(lia) ltac:(lia) b58_index_char b58_char_index dig256_chr chr_dig256 s ds H).
Qed.

Lemma map_b2n_n2b D : all_lt 256 D -> map b2n (map n2b D) = D.
Proof.
  induction D as [|d D IH]; intros H; [reflexivity|]. inversion H as [|? ? Hd Hr]; subst.
  cbn. rewrite b2n_n2b_small by exact Hd. rewrite IH by exact Hr. reflexivity.
Qed.

Lemma map_b2n_repeat0 z : map b2n (repeat x00 z) = repeat 0 z.
Proof. induction z; cbn; [reflexivity|]. rewrite IHz. reflexivity. Qed.

Lemma bval_b58_decode s ds : b58_digits s = Some ds -> bval (b58_decode s) = value 58 ds.
Proof.
  intros H. unfold b58_decode, bval. rewrite H. rewrite map_app, map_b2n_repeat0.
  destruct (digits_canonical 256 ltac:(lia) (value 58 ds)) as [Hlt _].
  rewrite map_b2n_n2b by exact Hlt. rewrite value_repeat0 by lia. apply value_digits. lia.
Qed.

Lemma b58_char_nonzero d : d < 58 -> d <> 0 -> b58_char d <> alphabet_idx0.
Proof.
  intros Hd Hn E. pose proof (b58_index_char d Hd) as H. rewrite E in H.
  change alphabet_idx0 with (b58_char 0) in H. rewrite b58_index_char in H by lia. congruence.
Qed.

(** the encoder writes exactly one '1' per leading zero byte *)
Lemma b58_encode_leading a : count_leading alphabet_idx0 (b58_encode a) = count_leading x00 a.
Proof.
  unfold b58_encode. apply count_leading_repeat.
  destruct (digits_canonical 58 ltac:(lia) (value 256 (map b2n a))) as [Hlt Hnz].
  destruct (digits 58 (value 256 (map b2n a))) as [|d D]; [exact I|].
  cbn [map]. inversion Hlt as [|? ? Hd _]; subst. apply b58_char_nonzero; [exact Hd | exact Hnz].
Qed.

Lemma b58_encode_value a ds : b58_digits (b58_encode a) = Some ds -> value 58 ds = bval a.
Proof.
  intros H. rewrite <- (bval_b58_decode _ _ H), b58_decode_encode. reflexivity.
Qed.
