(** Go strings as Coq [string]s (sequences of 8-bit characters): slicing, prefix test and the
    lemmas about them that the text codecs (BIP276, addresses) need. *)
From Coq Require Import String Ascii List Lia Bool.
From Coq Require Import Strings.Byte.
From GoBT Require Import lib.Bytes lib.Hex.
Import ListNotations.
Local Open Scope string_scope.

(** []byte(s) and string(b) *)
Definition bytes_of_string (s : string) : bytes := list_byte_of_string s.
Definition string_of_bytes (b : bytes) : string := string_of_list_byte b.

Lemma bytes_of_string_of_bytes b : bytes_of_string (string_of_bytes b) = b.
Proof. apply list_byte_of_string_of_list_byte. Qed.
Lemma string_of_bytes_of_string s : string_of_bytes (bytes_of_string s) = s.
Proof. apply string_of_list_byte_of_string. Qed.

(** s[:n] and s[n:] (saturating; the models guard the bounds where Go would panic) *)
Fixpoint stake (n : nat) (s : string) : string :=
  match n, s with
  | S k, String c r => String c (stake k r)
  | _, _ => ""
  end.
Fixpoint sdrop (n : nat) (s : string) : string :=
  match n, s with
  | S k, String c r => sdrop k r
  | _, _ => s
  end.

(** strings.HasPrefix *)
Fixpoint has_prefix (p s : string) : bool :=
  match p, s with
  | "", _ => true
  | String a p', String b s' => Ascii.eqb a b && has_prefix p' s'
  | _, _ => false
  end.

Lemma slen_app a b : String.length (a ++ b) = String.length a + String.length b.
Proof. induction a; cbn; auto. Qed.

Lemma sapp_assoc a b c : (a ++ b) ++ c = a ++ (b ++ c).
Proof. induction a; cbn; congruence. Qed.

Lemma sapp_nil_r a : a ++ "" = a.
Proof. induction a; cbn; congruence. Qed.

Lemma stake_app_exact a b : stake (String.length a) (a ++ b) = a.
Proof. induction a; cbn; [destruct b; reflexivity | congruence]. Qed.

Lemma sdrop_app_exact a b : sdrop (String.length a) (a ++ b) = b.
Proof. induction a; cbn; auto. Qed.

Lemma stake_sdrop n s : stake n s ++ sdrop n s = s.
Proof. revert s; induction n; intros [|c r]; cbn; auto. rewrite IHn; auto. Qed.

Lemma stake_length n s : n <= String.length s -> String.length (stake n s) = n.
Proof. revert s; induction n; intros [|c r]; cbn; intros; auto; try lia. rewrite IHn; lia. Qed.

Lemma sdrop_length n s : String.length (sdrop n s) = String.length s - n.
Proof. revert s; induction n; intros [|c r]; cbn; auto. Qed.

Lemma stake_all s : stake (String.length s) s = s.
Proof. induction s; cbn; congruence. Qed.

Lemma sapp_inv_length a b a' b' :
  String.length a = String.length a' -> a ++ b = a' ++ b' -> a = a' /\ b = b'.
Proof.
  revert a'; induction a as [|c a IH]; intros [|c' a']; cbn; intros Hl H; try discriminate; auto.
  injection H as -> H. injection Hl as Hl. destruct (IH a' Hl H) as [-> ->]. auto.
Qed.

Lemma has_prefix_app p s : has_prefix p (p ++ s) = true.
Proof. induction p; cbn; auto. rewrite Ascii.eqb_refl; auto. Qed.

Lemma has_prefix_iff p s : has_prefix p s = true <-> exists r, s = p ++ r.
Proof.
  split.
  - revert s; induction p as [|a p IH]; intros s H; [exists s; reflexivity|].
    destruct s as [|b s]; cbn in H; [discriminate|].
    apply andb_true_iff in H as [E H]. apply Ascii.eqb_eq in E as ->.
    destruct (IH s H) as [r ->]. exists r; reflexivity.
  - intros [r ->]. apply has_prefix_app.
Qed.

Lemma string_forall_app p a b : string_forall p (a ++ b) = string_forall p a && string_forall p b.
Proof. induction a; cbn; auto. rewrite IHa, andb_assoc; auto. Qed.

Lemma string_forall_stake p n s : string_forall p s = true -> string_forall p (stake n s) = true.
Proof.
  revert s; induction n; intros [|c r]; cbn; auto. intros H.
  apply andb_true_iff in H as [-> H]. cbn. auto.
Qed.
Lemma string_forall_sdrop p n s : string_forall p s = true -> string_forall p (sdrop n s) = true.
Proof.
  revert s; induction n; intros [|c r]; cbn; auto. intros H.
  apply andb_true_iff in H as [_ H]. auto.
Qed.

Lemma bytes_of_string_length s : List.length (bytes_of_string s) = String.length s.
Proof.
  unfold bytes_of_string, list_byte_of_string. rewrite map_length.
  induction s; cbn; auto.
Qed.

Lemma bytes_of_string_app a b : bytes_of_string (a ++ b) = (bytes_of_string a ++ bytes_of_string b)%list.
Proof.
  unfold bytes_of_string, list_byte_of_string. rewrite <- map_app. f_equal.
  induction a; cbn; auto. rewrite IHa; auto.
Qed.
