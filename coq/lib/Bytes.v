(** Byte strings as [list byte]; little/big-endian integer codecs and their round trips. *)
From Coq Require Import List NArith Lia ZArith ZifyN ZifyNat ZifyBool.
From Coq Require Import Strings.Byte.
Import ListNotations.
Ltac Zify.zify_post_hook ::= Z.div_mod_to_equations.
Local Open Scope N_scope.

Notation bytes := (list byte).

Definition b2n (b : byte) : N := Byte.to_N b.
Definition n2b (n : N) : byte :=
  match Byte.of_N (n mod 256) with Some b => b | None => x00 end.

Lemma b2n_lt b : b2n b < 256.
Proof. unfold b2n. destruct b; vm_compute; reflexivity. Qed.

Lemma n2b_b2n b : n2b (b2n b) = b.
Proof. destruct b; vm_compute; reflexivity. Qed.

Lemma of_N_small n : n < 256 -> exists b, Byte.of_N n = Some b.
Proof.
  intros H. destruct (Byte.of_N n) eqn:E; [eauto|].
  apply Byte.of_N_None_iff in E. lia.
Qed.

Lemma b2n_n2b n : b2n (n2b n) = n mod 256.
Proof.
  unfold n2b, b2n.
  destruct (of_N_small (n mod 256)) as [b Hb]; [apply N.mod_lt; lia|].
  rewrite Hb. apply Byte.to_of_N in Hb. exact Hb.
Qed.

Lemma b2n_n2b_small n : n < 256 -> b2n (n2b n) = n.
Proof. intros; rewrite b2n_n2b, N.mod_small; auto. Qed.

Lemma b2n_inj a b : b2n a = b2n b -> a = b.
Proof. intros H. rewrite <- (n2b_b2n a), <- (n2b_b2n b), H. reflexivity. Qed.

Definition byte_eqb (a b : byte) : bool := Byte.eqb a b.
Lemma byte_eqb_eq a b : byte_eqb a b = true <-> a = b.
Proof. unfold byte_eqb. apply Byte.byte_dec_bl || (split; [apply Byte.byte_dec_bl| apply Byte.byte_dec_lb]). Qed.

Fixpoint bytes_eqb (a b : bytes) : bool :=
  match a, b with
  | [], [] => true
  | x :: a', y :: b' => byte_eqb x y && bytes_eqb a' b'
  | _, _ => false
  end.
Lemma bytes_eqb_eq a b : bytes_eqb a b = true <-> a = b.
Proof.
  revert b; induction a as [|x a IH]; intros [|y b]; cbn; try (split; congruence).
  rewrite Bool.andb_true_iff, byte_eqb_eq, IH. split; [intros [-> ->]|intros [= -> ->]]; auto.
Qed.
Lemma bytes_eqb_refl a : bytes_eqb a a = true.
Proof. apply bytes_eqb_eq; reflexivity. Qed.

(** Little-endian, fixed width [len] bytes. *)
Fixpoint le_enc (len : nat) (v : N) : bytes :=
  match len with
  | O => []
  | S k => n2b v :: le_enc k (v / 256)
  end.

Fixpoint le_dec (bs : bytes) : N :=
  match bs with
  | [] => 0
  | b :: r => b2n b + 256 * le_dec r
  end.

Lemma le_enc_length len v : length (le_enc len v) = len.
Proof. revert v; induction len; intros; cbn; auto. Qed.

Lemma le_dec_enc len v : v < 256 ^ N.of_nat len -> le_dec (le_enc len v) = v.
Proof.
  revert v; induction len as [|k IH]; intros v Hv.
  - cbn in *. lia.
  - cbn [le_enc le_dec]. rewrite b2n_n2b, IH.
    + pose proof (N.div_mod v 256). lia.
    + rewrite Nat2N.inj_succ, N.pow_succ_r' in Hv.
      apply N.div_lt_upper_bound; lia.
Qed.

Lemma le_dec_lt bs : le_dec bs < 256 ^ N.of_nat (length bs).
Proof.
  induction bs as [|b r IH]; [cbn; lia|].
  cbn [le_dec length]. rewrite Nat2N.inj_succ, N.pow_succ_r'.
  pose proof (b2n_lt b). lia.
Qed.

Lemma le_enc_dec bs : le_enc (length bs) (le_dec bs) = bs.
Proof.
  induction bs as [|b r IH]; [reflexivity|].
  cbn [le_dec length le_enc]. pose proof (b2n_lt b) as Hb.
  assert (E1 : (b2n b + 256 * le_dec r) mod 256 = b2n b) by lia.
  assert (E2 : (b2n b + 256 * le_dec r) / 256 = le_dec r) by lia.
  rewrite E2, IH. f_equal. rewrite <- (n2b_b2n b) at 2. unfold n2b. rewrite E1, (N.mod_small (b2n b)) by exact Hb. reflexivity.
Qed.

Lemma le_enc_inj len a b : a < 256 ^ N.of_nat len -> b < 256 ^ N.of_nat len ->
  le_enc len a = le_enc len b -> a = b.
Proof. intros Ha Hb H. rewrite <- (le_dec_enc len a), <- (le_dec_enc len b), H; auto. Qed.

(** Big-endian view used by shifts and base58. *)
Definition be_dec (bs : bytes) : N := le_dec (rev bs).
Definition be_enc (len : nat) (v : N) : bytes := rev (le_enc len v).

Lemma be_enc_length len v : length (be_enc len v) = len.
Proof. unfold be_enc. rewrite rev_length. apply le_enc_length. Qed.
Lemma be_dec_enc len v : v < 256 ^ N.of_nat len -> be_dec (be_enc len v) = v.
Proof. unfold be_dec, be_enc. rewrite rev_involutive. apply le_dec_enc. Qed.
Lemma be_enc_dec bs : be_enc (length bs) (be_dec bs) = bs.
Proof. unfold be_dec, be_enc. rewrite <- (rev_length bs), le_enc_dec. apply rev_involutive. Qed.

(** Splitting helpers *)
Definition take (n : nat) (l : bytes) : bytes := firstn n l.
Definition drop (n : nat) (l : bytes) : bytes := skipn n l.

Fixpoint repeat_byte (n : nat) (b : byte) : bytes :=
  match n with O => [] | S k => b :: repeat_byte k b end.
Lemma repeat_byte_length n b : length (repeat_byte n b) = n.
Proof. induction n; cbn; auto. Qed.

Definition lenN (l : bytes) : N := N.of_nat (length l).
