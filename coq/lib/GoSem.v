(** GoSem: the meaning of the small Go fragment that the function-body translator
    (harness/gen/funcs*.go) prints coq/gen/Funcs.v in.  Hand-written, part of the trusted base, kept
    small: every primitive is a one- or two-line definition whose Go counterpart is named next to it.

    Conventions of the generated terms
    - A Go integer of any type is a [Z] holding its mathematical value; the type only matters where Go
      wraps, and there the operation carries the type ([ity]) explicitly: [go_add U64 a b] is
      [(a + b) mod 2^64].  [int] and [uint] are the 64-bit types (linux/amd64, as everywhere in this
      development).
    - A Go [[]byte] is a [list byte] ([bytes] of lib/Bytes.v); [nil] and the empty slice are both [[]]
      (the translator rejects comparisons of a slice with [nil]).  Slices of other integer types are
      [list Z].  Capacity is not modelled: [x[a:b]] is checked against [len x] (the model can only panic
      more often than the code), and the translator allows an in-place write ([x[i] = v], PutUintN)
      only on a local slice that it has seen freshly allocated in the function and that has no alias,
      so that value semantics is exact for the functions it accepts.
    - Every generated function returns [M T]: [Val v], [Panic] (a Go run-time panic: index / slice out
      of range, make with a bad length, division by zero, negative shift count) or [NoFuel] (artefact of
      three-clause [for] loops, which recurse on a fuel computed from the loop bounds at loop entry; the
      equivalence theorems show it is never returned).
    - An [error] result is a [bool]: [true] = a non-nil error was returned (messages are not modelled). *)
From Coq Require Import List ZArith NArith Bool Lia.
From Coq Require Import Strings.Byte.
From GoBT Require Import lib.Bytes.
Import ListNotations.
Local Open Scope Z_scope.

(** ** outcomes *)
Inductive M (A : Type) : Type := Val (a : A) | Panic | NoFuel.
Arguments Val {A}. Arguments Panic {A}. Arguments NoFuel {A}.

Definition bind {A B} (m : M A) (f : A -> M B) : M B :=
  match m with Val a => f a | Panic => Panic | NoFuel => NoFuel end.

(** [a && b] / [a || b] when [b] can panic: [b] is evaluated only if [a] does not decide *)
Definition go_andthen (a : M bool) (b : M bool) : M bool := bind a (fun x => if x then b else Val false).
Definition go_orelse (a : M bool) (b : M bool) : M bool := bind a (fun x => if x then Val true else b).

(** ** fixed-width integers *)
Inductive ity := U8 | U16 | U32 | U64 | I8 | I16 | I32 | I64.

(** the value of type [t] congruent to [z] modulo 2^width (two's complement for the signed types) *)
Definition go_wrap (t : ity) (z : Z) : Z :=
  match t with
  | U8 => z mod 256
  | U16 => z mod 65536
  | U32 => z mod 4294967296
  | U64 => z mod 18446744073709551616
  | I8 => (z + 128) mod 256 - 128
  | I16 => (z + 32768) mod 65536 - 32768
  | I32 => (z + 2147483648) mod 4294967296 - 2147483648
  | I64 => (z + 9223372036854775808) mod 18446744073709551616 - 9223372036854775808
  end.

Definition go_add (t : ity) (a b : Z) : Z := go_wrap t (a + b).      (* a + b *)
Definition go_sub (t : ity) (a b : Z) : Z := go_wrap t (a - b).      (* a - b *)
Definition go_mul (t : ity) (a b : Z) : Z := go_wrap t (a * b).      (* a * b *)
Definition go_neg (t : ity) (a : Z) : Z := go_wrap t (- a).          (* -a *)
Definition go_conv (t : ity) (a : Z) : Z := go_wrap t a.             (* T(a), a an integer *)
Definition go_not (t : ity) (a : Z) : Z := go_wrap t (Z.lnot a).     (* ^a *)
Definition go_and (a b : Z) : Z := Z.land a b.                       (* a & b   (in range when a, b are) *)
Definition go_or (a b : Z) : Z := Z.lor a b.                         (* a | b *)
Definition go_xor (t : ity) (a b : Z) : Z := go_wrap t (Z.lxor a b). (* a ^ b *)
Definition go_andnot (a b : Z) : Z := Z.land a (Z.lnot b).           (* a &^ b *)
(** a / b and a % b truncate towards zero; a zero divisor panics *)
Definition go_div (t : ity) (a b : Z) : M Z := if b =? 0 then Panic else Val (go_wrap t (Z.quot a b)).
Definition go_rem (t : ity) (a b : Z) : M Z := if b =? 0 then Panic else Val (go_wrap t (Z.rem a b)).
(** a << n and a >> n; a negative count panics; >> is arithmetic on signed values (floor) *)
Definition go_shl (t : ity) (a n : Z) : M Z := if n <? 0 then Panic else Val (go_wrap t (Z.shiftl a n)).
Definition go_shr (a n : Z) : M Z := if n <? 0 then Panic else Val (Z.shiftr a n).

(** ** bytes *)
Definition b2z (b : byte) : Z := Z.of_N (b2n b).
Definition z2b (z : Z) : byte := n2b (Z.to_N (z mod 256)).           (* byte(z) as a slice element *)

(** len(x) *)
Definition go_len {A} (l : list A) : Z := Z.of_nat (length l).

(** x[i] *)
Definition go_index {A} (l : list A) (i : Z) : M A :=
  if (0 <=? i) && (i <? go_len l) then
    match nth_error l (Z.to_nat i) with Some a => Val a | None => Panic end
  else Panic.
Definition go_index_b (l : bytes) (i : Z) : M Z := bind (go_index l i) (fun b => Val (b2z b)).

(** x[lo:hi], x[lo:], x[:hi] *)
Definition go_slice {A} (l : list A) (lo hi : Z) : M (list A) :=
  if (0 <=? lo) && (lo <=? hi) && (hi <=? go_len l)
  then Val (firstn (Z.to_nat (hi - lo)) (skipn (Z.to_nat lo) l)) else Panic.
Definition go_slice_from {A} (l : list A) (lo : Z) : M (list A) := go_slice l lo (go_len l).
Definition go_slice_to {A} (l : list A) (hi : Z) : M (list A) := go_slice l 0 hi.

(** make([]byte, n) and make([]byte, n, c): n zero bytes.  Lengths above 2^48 (Go's maxAlloc on
    linux/amd64) panic; between the machine's memory and 2^48 the real program dies instead. *)
Definition go_max_alloc : Z := 281474976710656.
Definition go_make_bytes (n : Z) : M bytes :=
  if (0 <=? n) && (n <=? go_max_alloc) then Val (repeat_byte (Z.to_nat n) x00) else Panic.
Definition go_make_bytes_cap (n c : Z) : M bytes :=
  if (0 <=? n) && (n <=? c) && (c <=? go_max_alloc) then Val (repeat_byte (Z.to_nat n) x00) else Panic.

(** []byte{e1, ..., ek} *)
Definition go_bytes_lit (es : list Z) : bytes := map z2b es.
(** append(x, e) for a byte slice; append(x, y...) is [x ++ y] *)
Definition go_append1 (l : bytes) (e : Z) : bytes := l ++ [z2b e].

(** x[i] = v on an unaliased local byte slice: the new value of x *)
Definition go_set_index (l : bytes) (i v : Z) : M bytes :=
  if (0 <=? i) && (i <? go_len l)
  then Val (firstn (Z.to_nat i) l ++ z2b v :: skipn (Z.to_nat (i + 1)) l) else Panic.

(** binary.LittleEndian.Uint16/32/64(x): n = 2, 4, 8; panics when x is shorter than n *)
Definition go_le_get (n : nat) (l : bytes) : M Z :=
  if go_len l <? Z.of_nat n then Panic else Val (Z.of_N (le_dec (firstn n l))).
(** binary.LittleEndian.PutUint16/32/64(x, v): the new value of x (v is already of the n-byte type) *)
Definition go_le_put (n : nat) (l : bytes) (v : Z) : M bytes :=
  if go_len l <? Z.of_nat n then Panic else Val (le_enc n (Z.to_N v) ++ skipn n l).
(** binary.LittleEndian.PutUintN(x[lo:hi], v): the new value of x *)
Definition go_le_put_at (n : nat) (l : bytes) (lo hi v : Z) : M bytes :=
  bind (go_slice l lo hi) (fun s =>
  bind (go_le_put n s v) (fun s' =>
  Val (firstn (Z.to_nat lo) l ++ s' ++ skipn (Z.to_nat hi) l))).

(** ** loops *)
(** what one iteration of a loop body does: fall to the next iteration ([continue] or the end of the body),
    [break], or [return r] from the enclosing function; [s] is the tuple of the variables the body assigns *)
Inductive ctl (S R : Type) : Type := Next (s : S) | Break (s : S) | Return (r : R).
Arguments Next {S R}. Arguments Break {S R}. Arguments Return {S R}.
(** how a loop ends: control continues after it, or the function has returned *)
Inductive after (S R : Type) : Type := Fall (s : S) | Returned (r : R).
Arguments Fall {S R}. Arguments Returned {S R}.

(** for i, x := range xs { body }   (xs is evaluated once; structural recursion on it) *)
Fixpoint go_range {A S R} (xs : list A) (i : Z) (s : S) (body : Z -> A -> S -> M (ctl S R)) : M (after S R) :=
  match xs with
  | [] => Val (Fall s)
  | x :: r =>
      bind (body i x s) (fun c =>
      match c with
      | Next s' => go_range r (i + 1) s' body
      | Break s' => Val (Fall s')
      | Return v => Val (Returned v)
      end)
  end.

(** for init; cond; post { body } with the loop variable inside [s]; at most [fuel] iterations, [NoFuel] if
    the condition still holds after them *)
Fixpoint go_for {S R} (fuel : nat) (s : S) (cond : S -> M bool) (body : S -> M (ctl S R)) (post : S -> M S)
  : M (after S R) :=
  bind (cond s) (fun c =>
  if negb c then Val (Fall s) else
  match fuel with
  | O => NoFuel
  | Datatypes.S k =>
      bind (body s) (fun r =>
      match r with
      | Next s' => bind (post s') (fun s'' => go_for k s'' cond body post)
      | Break s' => Val (Fall s')
      | Return v => Val (Returned v)
      end)
  end).

(** ** facts used by every equivalence proof *)
Lemma b2z_range b : 0 <= b2z b < 256.
Proof. unfold b2z. pose proof (b2n_lt b). lia. Qed.

Lemma go_len_nonneg {A} (l : list A) : 0 <= go_len l.
Proof. unfold go_len. lia. Qed.

Lemma go_len_lenN (l : bytes) : go_len l = Z.of_N (lenN l).
Proof. unfold go_len, lenN. lia. Qed.

Lemma z2b_of_N n : z2b (Z.of_N n) = n2b n.
Proof.
  unfold z2b, n2b. replace (Z.to_N (Z.of_N n mod 256)) with (n mod 256)%N; [|].
  - rewrite N.mod_mod by discriminate. reflexivity.
  - rewrite <- (N2Z.id (n mod 256)). f_equal. rewrite N2Z.inj_mod by discriminate. reflexivity.
Qed.

Lemma z2b_b2z b : z2b (b2z b) = b.
Proof. unfold b2z. rewrite z2b_of_N. apply n2b_b2n. Qed.

Lemma go_index_nil {A} i : @go_index A [] i = Panic.
Proof. unfold go_index, go_len. cbn [length]. destruct (0 <=? i) eqn:E1; destruct (i <? Z.of_nat 0) eqn:E2; cbn; try reflexivity; lia. Qed.

Lemma go_index_0 {A} (a : A) l : go_index (a :: l) 0 = Val a.
Proof. unfold go_index, go_len. cbn [length]. replace (0 <? Z.of_nat (S (length l))) with true by lia. reflexivity. Qed.

Lemma go_index_succ {A} (a : A) l i : 0 <= i -> go_index (a :: l) (i + 1) = go_index l i.
Proof.
  intros Hi. unfold go_index, go_len. cbn [length].
  replace (Z.to_nat (i + 1)) with (S (Z.to_nat i)) by lia. cbn [nth_error].
  destruct (i <? Z.of_nat (length l)) eqn:E1; destruct (i + 1 <? Z.of_nat (S (length l))) eqn:E2; try lia;
    replace (0 <=? i + 1) with true by lia; replace (0 <=? i) with true by lia; reflexivity.
Qed.

(** indexing agrees with [nth_error] *)
Lemma go_index_nth {A} (l : list A) (n : nat) : go_index l (Z.of_nat n) = match nth_error l n with Some a => Val a | None => Panic end.
Proof.
  unfold go_index, go_len. rewrite Nat2Z.id.
  destruct (nth_error l n) eqn:E.
  - assert (n < length l)%nat by (apply nth_error_Some; congruence).
    replace (0 <=? Z.of_nat n) with true by lia. replace (Z.of_nat n <? Z.of_nat (length l)) with true by lia. reflexivity.
  - apply nth_error_None in E. replace (Z.of_nat n <? Z.of_nat (length l)) with false by lia.
    rewrite andb_false_r. reflexivity.
Qed.
