(** Positional numerals in an arbitrary base B >= 2: value of a digit list (most significant
    first), the minimal digit list of a number, and that they are inverse on canonical lists.
    Proved once here; instantiated with 58 and 256 by Base58.v. *)
From Coq Require Import List NArith Lia ZArith ZifyN ZifyNat ZifyBool NArithRing.
Import ListNotations.
Ltac Zify.zify_post_hook ::= Z.div_mod_to_equations.
Local Open Scope N_scope.

Section Numeral.
Variable B : N.
Hypothesis HB : 2 <= B.

(** Horner evaluation, most significant digit first *)
Definition value_acc (acc : N) (ds : list N) : N := fold_left (fun a d => a * B + d) ds acc.
Definition value (ds : list N) : N := value_acc 0 ds.

(** digits of [n], most significant first, nothing for 0. The fuel only has to exceed the
    number of digits; [N.size] (the number of bits) does. *)
Fixpoint digits_fuel (fuel : nat) (n : N) (acc : list N) : list N :=
  match fuel with
  | O => acc
  | S f => if n =? 0 then acc else digits_fuel f (n / B) (n mod B :: acc)
  end.
Definition digits (n : N) : list N := digits_fuel (N.to_nat (N.size n)) n [].

Definition all_lt (ds : list N) : Prop := Forall (fun d => d < B) ds.
Definition no_leading_zero (ds : list N) : Prop := match ds with [] => True | d :: _ => d <> 0 end.
Definition canonical (ds : list N) : Prop := all_lt ds /\ no_leading_zero ds.

Fixpoint strip (ds : list N) : list N :=
  match ds with
  | 0 :: r => strip r
  | _ => ds
  end.

Lemma value_acc_app acc a b : value_acc acc (a ++ b) = value_acc (value_acc acc a) b.
Proof. unfold value_acc. apply fold_left_app. Qed.

Lemma value_acc_shift acc ds : value_acc acc ds = acc * B ^ N.of_nat (length ds) + value ds.
Proof.
  unfold value. revert acc. induction ds as [|d ds IH]; intros acc.
  - cbn. lia.
  - cbn [value_acc fold_left length]. fold (value_acc (acc * B + d) ds). fold (value_acc (0 * B + d) ds).
    rewrite (IH (acc * B + d)), (IH (0 * B + d)). rewrite Nat2N.inj_succ, N.pow_succ_r'. ring.
Qed.

Lemma value_app a b : value (a ++ b) = value a * B ^ N.of_nat (length b) + value b.
Proof. unfold value at 1. rewrite value_acc_app. fold (value a). apply value_acc_shift. Qed.

Lemma value_nil : value [] = 0.
Proof. reflexivity. Qed.

Lemma value_cons d ds : value (d :: ds) = d * B ^ N.of_nat (length ds) + value ds.
Proof. change (d :: ds) with ([d] ++ ds). rewrite value_app. unfold value at 1, value_acc. cbn [fold_left]. lia. Qed.

Lemma value_snoc ds d : value (ds ++ [d]) = value ds * B + d.
Proof.
  rewrite value_app. cbn [length]. change (N.of_nat 1) with 1. rewrite N.pow_1_r.
  unfold value at 2, value_acc. cbn [fold_left]. lia.
Qed.

Lemma value_zero_cons ds : value (0 :: ds) = value ds.
Proof. rewrite value_cons. lia. Qed.

Lemma value_strip ds : value (strip ds) = value ds.
Proof.
  induction ds as [|d ds IH]; [reflexivity|]. destruct d; cbn [strip]; [|reflexivity].
  rewrite IH, value_zero_cons. reflexivity.
Qed.

Lemma pow_pos k : 0 < B ^ k.
Proof. apply N.lt_le_trans with (1 ^ k); [rewrite N.pow_1_l; lia | apply N.pow_le_mono_l; lia]. Qed.

Lemma value_lt ds : all_lt ds -> value ds < B ^ N.of_nat (length ds).
Proof.
  induction ds as [|d ds IH] using rev_ind; intros H.
  - cbn. lia.
  - apply Forall_app in H as [H1 H2]. inversion H2 as [|? ? Hd _]; subst.
    rewrite value_snoc, app_length. cbn [length]. rewrite Nat.add_1_r, Nat2N.inj_succ, N.pow_succ_r'.
    specialize (IH H1). nia.
Qed.

Lemma canonical_pos ds : ds <> [] -> no_leading_zero ds -> 0 < value ds.
Proof.
  destruct ds as [|d ds]; [congruence|]. intros _ Hd. cbn in Hd. rewrite value_cons.
  pose proof (pow_pos (N.of_nat (length ds))). nia.
Qed.

Lemma all_lt_app a b : all_lt (a ++ b) <-> all_lt a /\ all_lt b.
Proof. apply Forall_app. Qed.

Lemma no_leading_zero_prefix a b : a <> [] -> no_leading_zero (a ++ b) -> no_leading_zero a.
Proof. destruct a; [congruence|]. cbn. auto. Qed.

Lemma div_B_lt n k : n < 2 * k -> n / B < k.
Proof.
  intros H. apply N.div_lt_upper_bound; [lia|].
  apply N.lt_le_trans with (2 * k); [exact H | apply N.mul_le_mono_r; exact HB].
Qed.

(** ** digits . value = id on canonical lists *)
Lemma digits_fuel_value ds : canonical ds ->
  forall f acc, value ds < 2 ^ N.of_nat f -> digits_fuel f (value ds) acc = ds ++ acc.
Proof.
  induction ds as [|d ds IH] using rev_ind; intros [Hlt Hnz] f acc Hf.
  - rewrite value_nil. destruct f; reflexivity.
  - apply all_lt_app in Hlt as [Hlt Hd]. inversion Hd as [|? ? Hd' _]; subst.
    assert (Hpos : 0 < value (ds ++ [d])).
    { apply canonical_pos; [destruct ds; discriminate | exact Hnz]. }
    rewrite value_snoc in *.
    destruct f as [|f]; [cbn in Hf; lia|].
    cbn [digits_fuel]. destruct (N.eqb_spec (value ds * B + d) 0) as [E|_]; [lia|].
    assert (E1 : (value ds * B + d) / B = value ds).
    { rewrite N.div_add_l by lia. rewrite N.div_small by exact Hd'. lia. }
    assert (E2 : (value ds * B + d) mod B = d).
    { rewrite N.add_comm, N.mod_add by lia. apply N.mod_small. exact Hd'. }
    rewrite E1, E2.
    rewrite Nat2N.inj_succ, N.pow_succ_r' in Hf.
    rewrite IH.
    + rewrite <- app_assoc. reflexivity.
    + split; [exact Hlt|]. destruct ds as [|e ds]; [exact I|]. exact Hnz.
    + nia.
Qed.

Lemma size_bound n : n < 2 ^ N.of_nat (N.to_nat (N.size n)).
Proof.
  rewrite N2Nat.id. destruct n as [|p]; [cbn; lia|].
  pose proof (N.size_gt (N.pos p)). exact H.
Qed.

Lemma digits_value ds : canonical ds -> digits (value ds) = ds.
Proof.
  intros H. unfold digits. rewrite (digits_fuel_value ds H); [apply app_nil_r | apply size_bound].
Qed.

Lemma strip_canonical ds : all_lt ds -> canonical (strip ds).
Proof.
  induction ds as [|d ds IH]; intros H; [split; [constructor|exact I]|].
  inversion H as [|? ? Hd Hr]; subst. destruct d as [|p]; cbn [strip]; [apply IH; exact Hr|].
  split; [exact H|]. cbn. discriminate.
Qed.

Lemma digits_value_strip ds : all_lt ds -> digits (value ds) = strip ds.
Proof. intros H. rewrite <- value_strip. apply digits_value, strip_canonical, H. Qed.

(** ** value . digits = id, and the digit list produced is canonical *)
Lemma digits_fuel_spec f : forall n acc, n < 2 ^ N.of_nat f ->
  value (digits_fuel f n acc) = n * B ^ N.of_nat (length acc) + value acc.
Proof.
  induction f as [|f IH]; intros n acc Hf.
  - cbn in Hf. assert (n = 0) by lia. subst. cbn [digits_fuel]. lia.
  - cbn [digits_fuel]. destruct (N.eqb_spec n 0) as [->|Hn]; [lia|].
    rewrite Nat2N.inj_succ, N.pow_succ_r' in Hf.
    rewrite IH by (apply div_B_lt; lia). cbn [length]. rewrite Nat2N.inj_succ, N.pow_succ_r', value_cons.
    assert (E : n = B * (n / B) + n mod B) by (apply N.div_mod; lia).
    set (P := B ^ N.of_nat (length acc)).
    replace (n * P) with ((B * (n / B) + n mod B) * P) by (rewrite <- E; reflexivity). ring.
Qed.

Lemma value_digits n : value (digits n) = n.
Proof.
  unfold digits. rewrite digits_fuel_spec by apply size_bound. cbn [length]. rewrite value_nil.
  change (N.of_nat 0) with 0. rewrite N.pow_0_r. lia.
Qed.

Lemma digits_fuel_all_lt f : forall n acc, all_lt acc -> all_lt (digits_fuel f n acc).
Proof.
  induction f as [|f IH]; intros n acc H; cbn [digits_fuel]; [exact H|].
  destruct (n =? 0); [exact H|]. apply IH. constructor; [|exact H]. apply N.mod_lt. lia.
Qed.

Lemma digits_fuel_head f : forall n acc, 0 < n -> n < 2 ^ N.of_nat f ->
  no_leading_zero (digits_fuel f n acc).
Proof.
  induction f as [|f IH]; intros n acc Hn Hf; [cbn in Hf; lia|].
  cbn [digits_fuel]. destruct (N.eqb_spec n 0) as [->|_]; [lia|].
  rewrite Nat2N.inj_succ, N.pow_succ_r' in Hf.
  destruct (N.eq_dec (n / B) 0) as [E|E].
  - rewrite E. assert (n mod B = n) by (apply N.mod_small, N.div_small_iff; lia).
    replace (digits_fuel f 0 (n mod B :: acc)) with (n mod B :: acc) by (destruct f; reflexivity).
    cbn. lia.
  - apply IH; [apply N.neq_0_lt_0; exact E | apply div_B_lt; lia].
Qed.

Lemma digits_canonical n : canonical (digits n).
Proof.
  unfold digits. split; [apply digits_fuel_all_lt; constructor|].
  destruct (N.eq_dec n 0) as [->|Hn]; [exact I|].
  apply digits_fuel_head; [lia | apply size_bound].
Qed.

Lemma digits_zero : digits 0 = [].
Proof. reflexivity. Qed.

(** canonical digit lists are unique representations *)
Lemma canonical_inj a b : canonical a -> canonical b -> value a = value b -> a = b.
Proof. intros Ha Hb H. rewrite <- (digits_value a Ha), <- (digits_value b Hb), H. reflexivity. Qed.

(** fixed-width (same length) digit lists are determined by their value *)
Lemma value_inj_length a : forall b, length a = length b -> all_lt a -> all_lt b ->
  value a = value b -> a = b.
Proof.
  induction a as [|x a IH]; intros [|y b] Hl Ha Hb Hv; try discriminate; [reflexivity|].
  injection Hl as Hl. inversion Ha as [|? ? Hx Ha']; inversion Hb as [|? ? Hy Hb']; subst.
  rewrite !value_cons, <- Hl in Hv.
  pose proof (value_lt a Ha') as La. pose proof (value_lt b Hb') as Lb. rewrite <- Hl in Lb.
  set (P := B ^ N.of_nat (length a)) in *.
  assert (HP : P <> 0) by (pose proof (pow_pos (N.of_nat (length a))); lia).
  assert (E : x = y /\ value a = value b).
  { apply (N.div_mod_unique P); try assumption. lia. }
  destruct E as [-> E]. f_equal. apply IH; assumption.
Qed.

End Numeral.
