(** Hex text <-> bytes, modelling Go's encoding/hex (lower-case encoder, case-insensitive decoder). *)
From Coq Require Import List NArith Lia String Ascii.
From Coq Require Import Strings.Byte.
From GoBT Require Import lib.Bytes.
Import ListNotations.
Local Open Scope N_scope.

Definition hexdigit_of (n : N) : ascii :=
  match n with
  | 0 => "0" | 1 => "1" | 2 => "2" | 3 => "3" | 4 => "4" | 5 => "5" | 6 => "6" | 7 => "7"
  | 8 => "8" | 9 => "9" | 10 => "a" | 11 => "b" | 12 => "c" | 13 => "d" | 14 => "e" | _ => "f"
  end%char.

Definition hexval (c : ascii) : option N :=
  match c with
  | "0" => Some 0 | "1" => Some 1 | "2" => Some 2 | "3" => Some 3 | "4" => Some 4
  | "5" => Some 5 | "6" => Some 6 | "7" => Some 7 | "8" => Some 8 | "9" => Some 9
  | "a" => Some 10 | "b" => Some 11 | "c" => Some 12 | "d" => Some 13 | "e" => Some 14 | "f" => Some 15
  | "A" => Some 10 | "B" => Some 11 | "C" => Some 12 | "D" => Some 13 | "E" => Some 14 | "F" => Some 15
  | _ => None
  end%char.

Definition is_hexdigit (c : ascii) : bool := match hexval c with Some _ => true | None => false end.

Lemma hexval_hexdigit n : n < 16 -> hexval (hexdigit_of n) = Some n.
Proof.
  intros H.
  assert (In n [0;1;2;3;4;5;6;7;8;9;10;11;12;13;14;15]) as Hin.
  { assert (forall k, (k < 16)%nat -> In (N.of_nat k) [0;1;2;3;4;5;6;7;8;9;10;11;12;13;14;15]) as A.
    { intros k Hk. do 16 (destruct k as [|k]; [cbn; tauto|]). lia. }
    specialize (A (N.to_nat n)). rewrite N2Nat.id in A. apply A. lia. }
  cbn in Hin. repeat (destruct Hin as [<-|Hin]; [reflexivity|]). destruct Hin.
Qed.

(** encoder: two lower-case digits per byte, like hex.EncodeToString / fmt %x on []byte *)
Fixpoint hex_of (bs : bytes) : string :=
  match bs with
  | [] => EmptyString
  | b :: r => String (hexdigit_of (b2n b / 16)) (String (hexdigit_of (b2n b mod 16)) (hex_of r))
  end.

(** decoder: hex.DecodeString — None on odd length or a non-hex character *)
Fixpoint hexdecode (s : string) : option bytes :=
  match s with
  | EmptyString => Some []
  | String _ EmptyString => None
  | String a (String b r) =>
      match hexval a, hexval b, hexdecode r with
      | Some x, Some y, Some t => Some (n2b (16 * x + y) :: t)
      | _, _, _ => None
      end
  end.

(** total version for literals written by the harness (always valid) *)
Definition unhex (s : string) : bytes := match hexdecode s with Some b => b | None => [] end.

Lemma hexdecode_hex_of bs : hexdecode (hex_of bs) = Some bs.
Proof.
  induction bs as [|b r IH]; [reflexivity|].
  cbn [hex_of hexdecode]. pose proof (b2n_lt b) as Hb.
  rewrite !hexval_hexdigit, IH.
  - f_equal. f_equal. rewrite <- (n2b_b2n b) at 3. f_equal.
    pose proof (N.div_mod (b2n b) 16). lia.
  - apply N.mod_lt; lia.
  - apply N.div_lt_upper_bound; lia.
Qed.

Lemma unhex_hex_of bs : unhex (hex_of bs) = bs.
Proof. unfold unhex. rewrite hexdecode_hex_of. reflexivity. Qed.

Lemma hex_of_length bs : String.length (hex_of bs) = (2 * List.length bs)%nat.
Proof. induction bs; cbn [hex_of String.length List.length]; lia. Qed.

Lemma hex_of_app a b : hex_of (a ++ b) = (hex_of a ++ hex_of b)%string.
Proof. induction a; cbn; [reflexivity|]. rewrite IHa. reflexivity. Qed.

(** all characters of [hex_of bs] are hex digits *)
Fixpoint string_forall (p : ascii -> bool) (s : string) : bool :=
  match s with EmptyString => true | String c r => p c && string_forall p r end.

Lemma is_hexdigit_hexdigit_of n : is_hexdigit (hexdigit_of n) = true.
Proof.
  destruct n as [|p]; [reflexivity|].
  do 4 (destruct p as [p|p|]; try reflexivity).
Qed.

Lemma hex_of_all_hex bs : string_forall is_hexdigit (hex_of bs) = true.
Proof.
  induction bs; cbn [hex_of string_forall]; [reflexivity|].
  rewrite !is_hexdigit_hexdigit_of, IHbs. reflexivity.
Qed.

(** structural byte-string literals so the harness can describe large buffers compactly *)
Inductive blit := BHex (s : string) | BRep (n : N) (b : string) | BCat (a b : blit).
Fixpoint blit_bytes (l : blit) : bytes :=
  match l with
  | BHex s => unhex s
  | BRep n s => let pat := unhex s in List.concat (List.repeat pat (N.to_nat n))
  | BCat a b => blit_bytes a ++ blit_bytes b
  end.
