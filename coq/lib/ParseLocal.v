(** Locality of byte-stream parsers (lib/Parse.v): what a parser returns, how many bytes it reports and what
    it leaves behind depend only on the bytes it took off the front, never on what follows them.
    Stated once for an arbitrary parser, with the combinators ([pret], [read_exact], [pbind], [pmap],
    conditionals) so that a concrete parser's locality is obtained by composition.
    Also: "every failure is a short read" ([err_short]) and the two consequences for truncated input. *)
From Coq Require Import List NArith Lia ZifyN ZifyNat.
From Coq Require Import Strings.Byte.
From GoBT Require Import lib.Bytes lib.Parse.
Import ListNotations.
Local Open Scope N_scope.

(** [local f]: on success the input splits as [pre ++ rest] with [pre] exactly the reported number of bytes, and
    [f] gives the same value and count on [pre] followed by ANYTHING (longer, shorter or empty), leaving it. *)
Definition local {A} (f : parser A) : Prop :=
  forall bs v n rest, f bs = POk v n rest ->
    exists pre, bs = pre ++ rest /\ n = lenN pre /\ forall rest', f (pre ++ rest') = POk v n rest'.

Lemma local_ext {A} (f g : parser A) : (forall bs, f bs = g bs) -> local f -> local g.
Proof.
  intros E Hf bs v n rest H. rewrite <- E in H. destruct (Hf _ _ _ _ H) as (pre & H1 & H2 & H3).
  exists pre. repeat split; auto. intros rest'. rewrite <- E. apply H3.
Qed.

Lemma pret_local {A} (a : A) : local (pret a).
Proof.
  intros bs v n rest [= <- <- <-]. exists []. repeat split; auto.
Qed.

Lemma perr_local {A} (e : bytes -> N) : local (fun bs => @PErr A (e bs)).
Proof. intros bs v n rest H; discriminate. Qed.

Lemma pfuel_local {A} : local (fun _ : bytes => @PFuel A).
Proof. intros bs v n rest H; discriminate. Qed.

Lemma read_exact_local k : local (read_exact k).
Proof.
  intros bs v n rest H. apply read_exact_inv in H. destruct H as (-> & Hl & ->).
  exists v. repeat split; auto.
  - unfold lenN. rewrite Hl. reflexivity.
  - intros rest'. apply read_exact_app. exact Hl.
Qed.

Lemma pbind_inv {A B} (p : pres A) (f : A -> bytes -> pres B) b m r :
  pbind p f = POk b m r -> exists a n rest m', p = POk a n rest /\ f a rest = POk b m' r /\ m = n + m'.
Proof.
  destruct p as [a n rest|?|]; cbn; try discriminate.
  destruct (f a rest) as [b' m' r'|?|] eqn:E; try discriminate.
  intros [= <- <- <-]. eauto 8.
Qed.

(** the bind lemma: sequencing local parsers is local *)
Lemma pbind_local {A B} (p : parser A) (f : A -> parser B) :
  local p -> (forall a, local (f a)) -> local (fun bs => pbind (p bs) f).
Proof.
  intros Hp Hf bs v n rest H. apply pbind_inv in H.
  destruct H as (a & n1 & r1 & m1 & H1 & H2 & ->).
  destruct (Hp _ _ _ _ H1) as (pre1 & -> & -> & K1).
  destruct (Hf a _ _ _ _ H2) as (pre2 & -> & -> & K2).
  exists (pre1 ++ pre2). repeat split.
  - apply app_assoc.
  - unfold lenN. rewrite app_length. lia.
  - intros rest'. rewrite <- app_assoc, K1. cbn [pbind]. rewrite K2. reflexivity.
Qed.

Lemma pmap_local {A B} (g : A -> B) (p : parser A) : local p -> local (fun bs => pmap g (p bs)).
Proof.
  intros Hp bs v n rest H. destruct (p bs) as [a n1 r1|?|] eqn:E; cbn in H; try discriminate.
  injection H as <- <- <-. destruct (Hp _ _ _ _ E) as (pre & -> & -> & K).
  exists pre. repeat split; auto. intros rest'. rewrite K. reflexivity.
Qed.

Lemma if_local {A} (c : bool) (f g : parser A) : local f -> local g -> local (fun bs => if c then f bs else g bs).
Proof. destruct c; auto. Qed.

(** Consequences used by callers. *)

(** parsing exactly the consumed prefix succeeds, same value, same count, nothing left *)
Lemma local_prefix {A} (f : parser A) : local f -> forall bs v n rest, f bs = POk v n rest ->
  exists pre, bs = pre ++ rest /\ n = lenN pre /\ f pre = POk v n [].
Proof.
  intros Hf bs v n rest H. destruct (Hf _ _ _ _ H) as (pre & H1 & H2 & K).
  exists pre. repeat split; auto. specialize (K []). rewrite app_nil_r in K. exact K.
Qed.

(** the prefix is the first [n] bytes *)
Lemma local_firstn {A} (f : parser A) : local f -> forall bs v n rest, f bs = POk v n rest ->
  f (firstn (N.to_nat n) bs) = POk v n [] /\ rest = skipn (N.to_nat n) bs.
Proof.
  intros Hf bs v n rest H. destruct (local_prefix f Hf _ _ _ _ H) as (pre & -> & -> & K).
  unfold lenN. rewrite Nnat.Nat2N.id.
  rewrite firstn_app, PeanoNat.Nat.sub_diag, firstn_all, skipn_app, PeanoNat.Nat.sub_diag, skipn_all.
  cbn. rewrite app_nil_r. split; auto.
Qed.

(** success is stable under appending anything after the input *)
Lemma local_extend {A} (f : parser A) : local f -> forall bs v n rest suf, f bs = POk v n rest ->
  f (bs ++ suf) = POk v n (rest ++ suf).
Proof.
  intros Hf bs v n rest suf H. destruct (Hf _ _ _ _ H) as (pre & -> & -> & K).
  rewrite <- app_assoc. apply K.
Qed.

(** ** failures: every error of these readers is a short read, reported as "the whole input was consumed" *)
Definition reports {A} (f : parser A) : Prop := forall bs, consumed_ok bs (f bs).
Definition err_short {A} (f : parser A) : Prop := forall bs n, f bs = PErr n -> n = lenN bs.

Lemma pret_short {A} (a : A) : err_short (pret a).
Proof. intros bs n H; discriminate. Qed.

Lemma read_exact_short k : err_short (read_exact k).
Proof.
  intros bs n. unfold read_exact. destruct (Nat.leb k (length bs)); [discriminate|]. intros [= <-]. reflexivity.
Qed.

Lemma pbind_short {A B} (p : parser A) (f : A -> parser B) :
  reports p -> err_short p -> (forall a, err_short (f a)) -> err_short (fun bs => pbind (p bs) f).
Proof.
  intros Rp Hp Hf bs n H. specialize (Rp bs).
  destruct (p bs) as [a n1 r1|n1|] eqn:E; cbn [pbind] in H.
  - destruct (f a r1) as [b m r|m|] eqn:E2; try discriminate. injection H as <-.
    apply Hf in E2. subst m. cbn in Rp. destruct Rp as (pre & -> & ->).
    unfold lenN. rewrite app_length. lia.
  - injection H as <-. apply Hp. exact E.
  - discriminate.
Qed.

Lemma if_short {A} (c : bool) (f g : parser A) : err_short f -> err_short g -> err_short (fun bs => if c then f bs else g bs).
Proof. destruct c; auto. Qed.

(** a total local parser whose only failure is the short read rejects every prefix of an input it rejects ... *)
Lemma local_prefix_fails {A} (f : parser A) :
  local f -> (forall bs, f bs <> PFuel) -> err_short f ->
  forall pre suf n, f (pre ++ suf) = PErr n -> f pre = PErr (lenN pre).
Proof.
  intros Hl Hn Hs pre suf n H. destruct (f pre) as [v m rest|m|] eqn:E.
  - rewrite (local_extend f Hl _ _ _ _ suf E) in H. discriminate.
  - f_equal. apply Hs. exact E.
  - exfalso. eapply Hn; eauto.
Qed.

(** ... and every PROPER prefix of the bytes it consumed on an input it accepts *)
Lemma local_truncated_fails {A} (f : parser A) :
  local f -> (forall bs, f bs <> PFuel) -> err_short f ->
  forall q s rest v n, f (q ++ s ++ rest) = POk v n rest -> s <> [] -> f q = PErr (lenN q).
Proof.
  intros Hl Hn Hs q s rest v n H Hne. destruct (f q) as [v' m r'|m|] eqn:E.
  - exfalso. rewrite (local_extend f Hl _ _ _ _ (s ++ rest) E) in H. injection H as _ _ H.
    apply (f_equal (@length byte)) in H. rewrite !app_length in H.
    destruct s; [congruence|cbn in H; lia].
  - f_equal. apply Hs. exact E.
  - exfalso. eapply Hn; eauto.
Qed.
