(** GoTx: the part of the meaning of go-bt's transaction code (package bt: output.go, input.go, tx.go, txinput.go,
    txoutput.go, signaturehash.go) that the function-body translator (harness/gen/funcs*.go, funcs_tx.go) does NOT
    print from the source but takes from here.  Hand-written, part of the trusted base, kept small.  It extends
    lib/GoSem.v by

    - POINTERS.  A [*bscript.Script] (pointer to a named byte slice) is an [option bytes]; a pointer to a struct of
      package bt ([*Input], [*Output], [*TxSize], ...) is an [option go_<Struct>], where the record [go_<Struct>] is
      PRINTED from the struct declaration into gen/Funcs.v (fields of unsupported types are left out, and a
      function that reads one is untranslated; a field that is itself a struct value is flattened: [Fee_MiningFee_Satoshis]).
      [None] is the nil pointer; [*p] and [p.f] on it are [Panic], as in Go.  [p.f = e] is accepted only for a struct that
      was allocated in the function ([&T{...}]) and has not been copied, returned or handed on since ([go_update]).  A slice of such pointers ([[]*Input]) is a [list (option go_Input)].  Pointers are VALUES here: two
      pointers to one object are two equal values (no function accepted by the translator writes through one).
      A nil pointer handed as the receiver or an argument to a PRINTED function whose definition takes that
      parameter's fields is a [Panic] at the call (Go panics at the callee's first field read; the functions are
      pure, so the two differ only if the callee has a path that reads no field).
    - NIL-ABLE BYTE SLICES.  A [[]byte] PARAMETER that the function compares with [nil] (or hands to such a parameter
      of a printed function) is an [option bytes], [None] = nil; every other use of it is [go_bytes_of] (a nil slice
      behaves as the empty one under len / append / range).  Only [nil] itself or another such parameter can be
      handed to such a parameter.

    THE TRUSTED MAPPINGS (DESIGN 12.2 lists them):
      bt.ReverseBytes(b)                    |->  go_reverse_bytes = rev  (bytemanipulation.go: copy, then swap ends)
      crypto.Sha256d(b)   (go-bk, external) |->  go_sha256d       = lib/Sha256.sha256d
      fees.Fee(FeeTypeStandard / FeeTypeData) (fees.go: a map lookup under a read lock; the quote is modelled as the
        two *Fee values it holds, nil = absent)
                                            |->  go_quote_fee: (fee, err) with err = true iff the fee is nil
*)
From Coq Require Import List ZArith NArith Bool.
From Coq Require Import Strings.Byte.
From GoBT Require Import lib.Bytes lib.GoSem lib.Sha256.
Import ListNotations.
Local Open Scope Z_scope.

(** *p *)
Definition go_deref {A} (p : option A) : M A := match p with Some a => Val a | None => Panic end.
(** p.f *)
Definition go_field {A B} (f : A -> B) (p : option A) : M B := match p with Some a => Val (f a) | None => Panic end.
(** p.f = e for a pointer p to a struct that nothing else points to: the new value of p *)
Definition go_update {A} (f : A -> A) (p : option A) : M (option A) := match p with Some a => Val (Some (f a)) | None => Panic end.
(** p == nil *)
Definition go_isnil {A} (p : option A) : bool := match p with Some _ => false | None => true end.
(** a nil-able []byte used as a slice *)
Definition go_bytes_of (p : option bytes) : bytes := match p with Some b => b | None => [] end.

(** bt.ReverseBytes *)
Definition go_reverse_bytes (b : bytes) : bytes := rev b.
(** crypto.Sha256d of go-bk *)
Definition go_sha256d (b : bytes) : bytes := sha256d b.
(** FeeQuote.Fee(t): the *Fee stored for the fee type, ErrFeeTypeNotFound when there is none *)
Definition go_quote_fee {A} (fee : option A) : option A * bool := (fee, go_isnil fee).
