(** SHA-1 over primitive 63-bit integers (evaluation only), in the style of Sha256.v *)
From Coq Require Import List NArith ZArith Uint63.
From Coq Require Import Strings.Byte.
From GoBT Require Import lib.Bytes lib.Sha256.
Import ListNotations.
Local Open Scope uint63_scope.

Definition st5 := (int * int * int * int * int)%type.

Definition next_w1 (win : list int) : list int :=
  match win with
  | [w0;w1;w2;w3;w4;w5;w6;w7;w8;w9;w10;w11;w12;w13;w14;w15] =>
      [w1;w2;w3;w4;w5;w6;w7;w8;w9;w10;w11;w12;w13;w14;w15;
       rotl 1 (w13 lxor w8 lxor w2 lxor w0)]
  | _ => win
  end.

Fixpoint rounds1 (n : nat) (i : int) (win : list int) (s : st5) : st5 :=
  match n with
  | O => s
  | S n' =>
      let '(a,b,c,d,e) := s in
      let w := hd 0 win in
      let '(f, k) :=
        if i <? 20 then ((b land c) lor (not32 b land d), 0x5A827999)
        else if i <? 40 then (b lxor c lxor d, 0x6ED9EBA1)
        else if i <? 60 then ((b land c) lor (b land d) lor (c land d), 0x8F1BBCDC)
        else (b lxor c lxor d, 0xCA62C1D6) in
      let t := add32 (add32 (add32 (rotl 5 a) f) (add32 e k)) w in
      rounds1 n' (i + 1) (next_w1 win) (t, a, rotl 30 b, c, d)
  end.

Definition compress1 (s : st5) (block : bytes) : st5 :=
  let '(a,b,c,d,e) := s in
  let '(a',b',c',d',e') := rounds1 80 0 (be_words block) s in
  (add32 a a', add32 b b', add32 c c', add32 d d', add32 e e').

Definition sha1 (msg : bytes) : bytes :=
  let p := md_pad true msg in
  let '(a,b,c,d,e) := fold_left compress1 (chunks (S (length p)) 64 p)
                        (0x67452301, 0xEFCDAB89, 0x98BADCFE, 0x10325476, 0xC3D2E1F0) in
  word_be a ++ word_be b ++ word_be c ++ word_be d ++ word_be e.
