(** RIPEMD-160 over primitive 63-bit integers (evaluation only; no theorem looks inside),
    and HASH160 = RIPEMD160 . SHA256 (go-bk crypto.Hash160). *)
From Coq Require Import List NArith ZArith Uint63.
From Coq Require Import Strings.Byte.
From GoBT Require Import lib.Bytes lib.Sha256.
Import ListNotations.
Local Open Scope uint63_scope.

(** Message word selection, left and right line (80 steps each). *)
Definition rmd_rL : list nat :=
  [0;1;2;3;4;5;6;7;8;9;10;11;12;13;14;15;
   7;4;13;1;10;6;15;3;12;0;9;5;2;14;11;8;
   3;10;14;4;9;15;8;1;2;7;0;6;13;11;5;12;
   1;9;11;10;0;8;12;4;13;3;7;15;14;5;6;2;
   4;0;5;9;7;12;2;10;14;1;3;8;11;6;15;13]%nat.
Definition rmd_rR : list nat :=
  [5;14;7;0;9;2;11;4;13;6;15;8;1;10;3;12;
   6;11;3;7;0;13;5;10;14;15;8;12;4;9;1;2;
   15;5;1;3;7;14;6;9;11;8;12;2;10;0;4;13;
   8;6;4;1;3;11;15;0;5;12;2;13;9;7;10;14;
   12;15;10;4;1;5;8;7;6;2;13;14;0;3;9;11]%nat.
(** Rotation amounts. *)
Definition rmd_sL : list int :=
  [11;14;15;12;5;8;7;9;11;13;14;15;6;7;9;8;
   7;6;8;13;11;9;7;15;7;12;15;9;11;7;13;12;
   11;13;6;7;14;9;13;15;14;8;13;6;5;12;7;5;
   11;12;14;15;14;15;9;8;9;14;5;6;8;6;5;12;
   9;15;5;11;6;8;13;12;5;12;13;14;11;8;5;6].
Definition rmd_sR : list int :=
  [8;9;9;11;13;15;15;5;7;7;8;11;14;14;12;6;
   9;13;15;7;12;8;9;11;7;7;12;7;6;15;13;11;
   9;7;15;11;8;6;6;14;12;13;5;14;13;13;7;5;
   15;5;8;11;14;14;6;14;6;9;12;9;12;5;15;8;
   8;5;12;9;12;5;14;6;8;13;6;5;15;13;11;11].

Definition rmd_KL (round : nat) : int :=
  match round with
  | 0%nat => 0 | 1%nat => 0x5A827999 | 2%nat => 0x6ED9EBA1 | 3%nat => 0x8F1BBCDC | _ => 0xA953FD4E
  end.
Definition rmd_KR (round : nat) : int :=
  match round with
  | 0%nat => 0x50A28BE6 | 1%nat => 0x5C4DD124 | 2%nat => 0x6D703EF3 | 3%nat => 0x7A6D76E9 | _ => 0
  end.

(** The five boolean functions, selected by round number 0..4. *)
Definition rmd_f (round : nat) (x y z : int) : int :=
  match round with
  | 0%nat => x lxor y lxor z
  | 1%nat => (x land y) lor (not32 x land z)
  | 2%nat => (x lor not32 y) lxor z
  | 3%nat => (x land z) lor (y land not32 z)
  | _ => x lxor (y lor not32 z)
  end.

Definition st5 := (int * int * int * int * int)%type.

Definition rmd_step (f : int -> int -> int -> int) (k : int) (w : int) (s : int) (st : st5) : st5 :=
  let '(a,b,c,d,e) := st in
  let t := add32 (rotl s (add32 (add32 a (f b c d)) (add32 w k))) e in
  (e, t, b, rotl 10 c, d).

(** One line: [j] counts the step (0..79); [right] selects the mirrored function/constant order. *)
Fixpoint rmd_line (right : bool) (j : nat) (rs : list nat) (ss : list int) (X : list int) (st : st5) : st5 :=
  match rs, ss with
  | r :: rs', s :: ss' =>
      let round := Nat.div j 16 in
      let f := if right then rmd_f (4 - round)%nat else rmd_f round in
      let k := if right then rmd_KR round else rmd_KL round in
      rmd_line right (S j) rs' ss' X (rmd_step f k (nth r X 0) s st)
  | _, _ => st
  end.

Definition rmd_compress (h : st5) (block : bytes) : st5 :=
  let X := le_words block in
  let '(h0,h1,h2,h3,h4) := h in
  let '(a,b,c,d,e) := rmd_line false 0 rmd_rL rmd_sL X h in
  let '(a',b',c',d',e') := rmd_line true 0 rmd_rR rmd_sR X h in
  (add32 (add32 h1 c) d', add32 (add32 h2 d) e', add32 (add32 h3 e) a',
   add32 (add32 h4 a) b', add32 (add32 h0 b) c').

Definition rmd_iv : st5 := (0x67452301, 0xEFCDAB89, 0x98BADCFE, 0x10325476, 0xC3D2E1F0).

Definition ripemd160 (msg : bytes) : bytes :=
  let p := md_pad false msg in
  let '(a,b,c,d,e) := fold_left rmd_compress (chunks (S (length p)) 64 p) rmd_iv in
  word_le a ++ word_le b ++ word_le c ++ word_le d ++ word_le e.

Definition hash160 (b : bytes) : bytes := ripemd160 (sha256 b).

(** Known-answer tests (RIPEMD-160 reference vectors; HASH160 of the empty string). *)
Example ripemd160_empty :
  ripemd160 [] = [x9c;x11;x85;xa5;xc5;xe9;xfc;x54;x61;x28;x08;x97;x7e;xe8;xf5;x48;xb2;x25;x8d;x31].
Proof. vm_compute. reflexivity. Qed.
Example ripemd160_abc :
  ripemd160 [x61;x62;x63] =
  [x8e;xb2;x08;xf7;xe0;x5d;x98;x7a;x9b;x04;x4a;x8e;x98;xc6;xb0;x87;xf1;x5a;x0b;xfc].
Proof. vm_compute. reflexivity. Qed.
(* "message digest" -> 5d0689ef49d2fae572b881b123a85ffa21595f36 *)
Example ripemd160_md :
  ripemd160 [x6d;x65;x73;x73;x61;x67;x65;x20;x64;x69;x67;x65;x73;x74] =
  [x5d;x06;x89;xef;x49;xd2;xfa;xe5;x72;xb8;x81;xb1;x23;xa8;x5f;xfa;x21;x59;x5f;x36].
Proof. vm_compute. reflexivity. Qed.
(* 80 x 'a' exercises two blocks: "1234567890"x8 -> 9b752e45573d4b39f4dbd3323cab82bf63326bfb *)
Example ripemd160_two_blocks :
  ripemd160 (concat (repeat [x31;x32;x33;x34;x35;x36;x37;x38;x39;x30] 8)) =
  [x9b;x75;x2e;x45;x57;x3d;x4b;x39;xf4;xdb;xd3;x32;x3c;xab;x82;xbf;x63;x32;x6b;xfb].
Proof. vm_compute. reflexivity. Qed.
(* hash160("") = b472a266d0bd89c13706a4132ccfb16f7c3b9fcb *)
Example hash160_empty :
  hash160 [] = [xb4;x72;xa2;x66;xd0;xbd;x89;xc1;x37;x06;xa4;x13;x2c;xcf;xb1;x6f;x7c;x3b;x9f;xcb].
Proof. vm_compute. reflexivity. Qed.
