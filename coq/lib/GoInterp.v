(** GoInterp: the part of the meaning of go-bt's script interpreter code (bscript/interpreter/stack.go,
    operations.go) that the function-body translator (harness/gen/funcs*.go) does NOT print from the source but
    takes from here.  Hand-written, part of the trusted base, kept small.  It extends lib/GoSem.v by

    - slices of byte slices ([[][]byte], the interpreter's stacks): a [list bytes] in GO ORDER, i.e. bottom of the
      stack first, top LAST (model/Interp.v keeps the top at the HEAD: the model's stack is [rev] of this one, and
      every equivalence theorem says so).  Items are VALUES: two stack slots that share one Go slice are two equal
      values here (sharing is the subject of C08's heap model, model/HeapViews.v); the translator refuses any
      function that writes into an item in place;
    - the data type [*scriptNumber] (number.go), which is implemented with math/big, outside go-bt: a script
      number is the [Z] held by its [val]; each method is MAPPED to a function of model/ScriptNum.v or of Z.  The
      methods that work in place ([Add], [Incr], [Set], ... and also [Bytes], which negates a negative receiver)
      return the new value; the translator refuses a function that reads a number again after it was the
      receiver of such a method (or was handed to a function that may do so);
    - the interface [config] (config.go): [true] = afterGenesisConfig, [false] = beforeGenesisConfig; a method
      call is the value printed from the source into gen/InterpConsts.v ([config_methods]);
    - [bytes.Equal] and [bytes.Join].

    THE TRUSTED MAPPINGS (each is a one-line definition below; DESIGN 12.2 lists them):
      makeScriptNumber(bb, n, min, ag)  |->  sn_make      = ScriptNum.make_num (error = not NumOk)
      n.Bytes()                         |->  sn_bytes     = ScriptNum.num_enc   (the [afterGenesis] field of a
                                             scriptNumber only influences the CAPACITY of the slice Bytes returns)
      &scriptNumber{val: big.NewInt(i)} |->  sn_of_int64  = i
      n.Int32() / Int64() / Int()       |->  ScriptNum.to_int32 / to_int64 / to_int
      n.Add/Sub/Mul(o)                  |->  Z.add / Z.sub / Z.mul;   n.Div/Mod(o) |-> Z.quot / Z.rem, Panic when o = 0
      n.Incr/Decr/Neg/Abs(), n.Set(i)   |->  +1 / -1 / Z.opp / Z.abs / i
      n.LessThan(o) ... n.IsZero()      |->  Z.ltb, Z.leb, Z.eqb ...
      cfg.<Method>()                    |->  lookup of "<era>Config.<Method>" in gen/InterpConsts.config_methods
      bytes.Equal(a, b)                 |->  Bytes.bytes_eqb;   bytes.Join(xs, sep) |-> concatenation
    and the ERASED calls: stack.beforeStackPush / afterStackPush / beforeStackPop / afterStackPop (the debugger and
    state-handler callbacks; they receive copies and cannot change the stack value -- C19 is about them). *)
From Coq Require Import List ZArith NArith Bool String Lia.
From Coq Require Import Strings.Byte.
From GoBT Require Import lib.Bytes lib.GoSem gen.InterpConsts.
From GoBT Require model.ScriptNum.
Import ListNotations.
Local Open Scope Z_scope.

(** ** stacks: [][]byte *)
Definition stack := list bytes.

(** make([][]byte, n): n nil items (24 bytes each, so the largest length that can be allocated is maxAlloc/24) *)
Definition go_make_stack (n : Z) : M stack :=
  if (0 <=? n) && (n <=? go_max_alloc / 24) then Val (repeat (@nil byte) (Z.to_nat n)) else Panic.

(** copy(dst, src): the new value of dst (the first min(len dst, len src) elements are src's) *)
Definition go_copy {A} (dst src : list A) : list A :=
  let n := Nat.min (List.length dst) (List.length src) in firstn n src ++ skipn n dst.

(** append(s, x) for a stack; append(s, t...) is [s ++ t] *)
Definition go_append_item (s : stack) (x : bytes) : stack := s ++ [x].

(** ** bytes package *)
Definition go_bytes_equal (a b : bytes) : bool := bytes_eqb a b.
Definition go_bytes_join (xs : list bytes) (sep : bytes) : bytes :=
  match xs with
  | [] => []
  | x :: r => x ++ List.concat (map (fun y => sep ++ y) r)
  end.

(** ** *scriptNumber *)
Definition sn_make (bb : bytes) (maxlen : Z) (require_minimal after_genesis : bool) : Z * bool :=
  match ScriptNum.make_num bb maxlen require_minimal with
  | ScriptNum.NumOk z => (z, false)
  | _ => (0, true)
  end.
Definition sn_of_int64 (i : Z) : Z := i.
Definition sn_nil : Z := 0.                       (* the nil *scriptNumber that accompanies a non-nil error *)
Definition sn_bytes (n : Z) : bytes := ScriptNum.num_enc n.
Definition sn_int32 (n : Z) : Z := ScriptNum.to_int32 n.
Definition sn_int64 (n : Z) : Z := ScriptNum.to_int64 n.
Definition sn_int (n : Z) : Z := ScriptNum.to_int n.
Definition sn_add (n o : Z) : Z := n + o.
Definition sn_sub (n o : Z) : Z := n - o.
Definition sn_mul (n o : Z) : Z := n * o.
Definition sn_div (n o : Z) : M Z := if o =? 0 then Panic else Val (Z.quot n o).   (* big.Int.Quo panics on 0 *)
Definition sn_mod (n o : Z) : M Z := if o =? 0 then Panic else Val (Z.rem n o).    (* big.Int.Rem panics on 0 *)
Definition sn_incr (n : Z) : Z := n + 1.
Definition sn_decr (n : Z) : Z := n - 1.
Definition sn_neg (n : Z) : Z := - n.
Definition sn_abs (n : Z) : Z := Z.abs n.
Definition sn_set (i : Z) : Z := i.
Definition sn_lt (n o : Z) : bool := n <? o.
Definition sn_le (n o : Z) : bool := n <=? o.
Definition sn_gt (n o : Z) : bool := o <? n.
Definition sn_ge (n o : Z) : bool := o <=? n.
Definition sn_eq (n o : Z) : bool := n =? o.
Definition sn_is_zero (n : Z) : bool := n =? 0.

(** ** config *)
Definition cfg_method (name : string) (after : bool) : M Z :=
  match find (fun kv => String.eqb (fst kv) (String.append (if after then "afterGenesisConfig." else "beforeGenesisConfig.") name))
             config_methods with
  | Some kv => Val (snd kv)
  | None => Panic                                  (* no such method in config.go any more *)
  end.
Definition cfg_AfterGenesis (c : bool) : M bool := bind (cfg_method "AfterGenesis" c) (fun z => Val (negb (z =? 0))).
Definition cfg_MaxOps := cfg_method "MaxOps".
Definition cfg_MaxStackSize := cfg_method "MaxStackSize".
Definition cfg_MaxScriptSize := cfg_method "MaxScriptSize".
Definition cfg_MaxScriptElementSize := cfg_method "MaxScriptElementSize".
Definition cfg_MaxScriptNumberLength := cfg_method "MaxScriptNumberLength".
Definition cfg_MaxPubKeysPerMultiSig := cfg_method "MaxPubKeysPerMultiSig".
